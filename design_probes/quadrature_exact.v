From Coq Require Import QArith List Bool Arith Lia.
Import ListNotations.
(* computable commutative rings as records; tower of quadratic extensions *)
Record ring := { T : Type; r0 : T; r1 : T; radd : T -> T -> T; rmul : T -> T -> T; ropp : T -> T; reqb : T -> T -> bool }.
Definition Qring : ring := {| T := Q; r0 := 0; r1 := 1; radd := fun a b => Qred (a + b); rmul := fun a b => Qred (a * b); ropp := Qopp; reqb := Qeq_bool |}.
Definition quad (K : ring) (alpha : T K) : ring :=
  {| T := T K * T K;
     r0 := (r0 K, r0 K); r1 := (r1 K, r0 K);
     radd := fun a b => (radd K (fst a) (fst b), radd K (snd a) (snd b));
     rmul := fun a b => (radd K (rmul K (fst a) (fst b)) (rmul K alpha (rmul K (snd a) (snd b))),
                         radd K (rmul K (fst a) (snd b)) (rmul K (snd a) (fst b)));
     ropp := fun a => (ropp K (fst a), ropp K (snd a));
     reqb := fun a b => reqb K (fst a) (fst b) && reqb K (snd a) (snd b) |}.
Definition inj (K : ring) (alpha : T K) (x : T K) : T (quad K alpha) := (x, r0 K).
Definition gen (K : ring) (alpha : T K) : T (quad K alpha) := (r0 K, r1 K).

Definition K1 := quad Qring (2#1).                       (* Q(sqrt2) *)
Definition K2 := quad K1 (inj Qring (2#1) (3#1)).        (* (sqrt3) *)
Definition K3 := quad K2 (inj K1 _ (inj Qring (2#1) (11#1))).  (* (sqrt11) *)
Definition ofQ (q : Q) : T K3 := inj K2 _ (inj K1 _ (inj Qring (2#1) q)).
Definition s2 : T K3 := inj K2 _ (inj K1 _ (gen Qring (2#1))).
Definition s3 : T K3 := inj K2 _ (gen K1 _).
Definition s11 : T K3 := gen K2 _.
Definition mul := rmul K3. Definition add := radd K3.
Fixpoint rpow (x : T K3) (n : nat) : T K3 := match n with O => r1 K3 | S k => mul x (rpow x k) end.
Definition signs := [1%Z; (-1)%Z].
Definition sc (z : Z) (x : T K3) : T K3 := mul (ofQ (inject_Z z)) x.
Definition perms3 {A} (a b c : A) := [(a,b,c);(a,c,b);(b,a,c);(b,c,a);(c,a,b);(c,b,a)].
(* octahedral orbits *)
Definition i2 := mul (ofQ (1#2)) s2.      (* 1/sqrt2 *)
Definition i3 := mul (ofQ (1#3)) s3.      (* 1/sqrt3 *)
Definition i11 := mul (ofQ (1#11)) s11.   (* 1/sqrt11 *)
Definition OA := flat_map (fun s => [(sc s (r1 K3), r0 K3, r0 K3); (r0 K3, sc s (r1 K3), r0 K3); (r0 K3, r0 K3, sc s (r1 K3))]) signs.
Definition OB := flat_map (fun s => flat_map (fun t => [(sc s i2, sc t i2, r0 K3); (sc s i2, r0 K3, sc t i2); (r0 K3, sc s i2, sc t i2)]) signs) signs.
Definition OC := flat_map (fun s => flat_map (fun t => map (fun u => (sc s i3, sc t i3, sc u i3)) signs) signs) signs.
Definition OD := flat_map (fun s => flat_map (fun t => flat_map (fun u =>
   [(sc s i11, sc t i11, sc (3*u) i11); (sc s i11, sc (3*t) i11, sc u i11); (sc (3*s) i11, sc t i11, sc u i11)]) signs) signs) signs.
Definition rule50 := map (fun p => (ofQ (4#315), p)) OA ++ map (fun p => (ofQ (64#2835), p)) OB
                  ++ map (fun p => (ofQ (27#1280), p)) OC ++ map (fun p => (ofQ (14641#725760), p)) OD.
Fixpoint dfact (n : nat) (fuel : nat) : Z := match fuel with O => 1%Z | S f => match n with O => 1%Z | S O => 1%Z | S (S m) => (Z.of_nat n * dfact m f)%Z end end.
Definition df (n : nat) := dfact n (S n).   (* n!! ; (−1)!! handled by callers *)
Definition moment (a b c : nat) : Q :=
  if Nat.even a && Nat.even b && Nat.even c then
    inject_Z (df (a-1) * df (b-1) * df (c-1)) / inject_Z (df (a+b+c+1))
  else 0.
Definition quadsum (rule : list (T K3 * (T K3 * T K3 * T K3))) (a b c : nat) : T K3 :=
  fold_left (fun acc wp => let '(w,(x,y,z)) := wp in add acc (mul w (mul (rpow x a) (mul (rpow y b) (rpow z c))))) rule (r0 K3).
Definition monos (d : nat) := flat_map (fun a => flat_map (fun b => map (fun c => (a,b,c)) (seq 0 (d+1-a-b))) (seq 0 (d+1-a))) (seq 0 (d+1)).
Definition check (rule : list _) (d : nat) : bool :=
  forallb (fun m => let '(a,b,c) := m in reqb K3 (quadsum rule a b c) (ofQ (Qred (moment a b c)))) (monos d).
Time Eval vm_compute in (length rule50, length (monos 11), check rule50 11, check rule50 12).
