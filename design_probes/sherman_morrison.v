From Coq Require Import Arith List Lia Field Ring.
Section SM.
Variables (F : Type) (zero one : F) (add mul sub : F -> F -> F) (opp : F -> F)
          (div : F -> F -> F) (inv : F -> F).
Hypothesis Fth : field_theory zero one add mul sub opp div inv (@eq F).
Add Field FF : Fth.
Notation "0" := zero. Notation "1" := one.
Infix "+" := add. Infix "*" := mul. Infix "-" := sub. Infix "/" := div.

Fixpoint sum (n : nat) (f : nat -> F) : F :=
  match n with O => 0 | S k => sum k f + f k end.

Lemma sum_ext n f g : (forall k, k < n -> f k = g k) -> sum n f = sum n g.
Proof. induction n as [|k IH]; intros H; cbn; [reflexivity|]. rewrite IH, (H k); auto. Qed.
Lemma sum_add n f g : sum n (fun k => f k + g k) = sum n f + sum n g.
Proof. induction n as [|k IH]; cbn; [ring|rewrite IH; ring]. Qed.
Lemma sum_scal n c f : sum n (fun k => c * f k) = c * sum n f.
Proof. induction n as [|k IH]; cbn; [ring|rewrite IH; ring]. Qed.
Lemma sum_scal_r n c f : sum n (fun k => f k * c) = sum n f * c.
Proof. induction n as [|k IH]; cbn; [ring|rewrite IH; ring]. Qed.
Lemma sum_sub n f g : sum n (fun k => f k - g k) = sum n f - sum n g.
Proof. induction n as [|k IH]; cbn; [ring|rewrite IH; ring]. Qed.

Definition delta (i j : nat) : F := if Nat.eqb i j then 1 else 0.
Definition mm (n : nat) (A B : nat -> nat -> F) (i j : nat) : F := sum n (fun k => A i k * B k j).
Definition right_inv n A B := forall i j, i < n -> j < n -> mm n A B i j = delta i j.

(* the code: tmp = v . B ; ratio = tmp[e]; inv_ratio = B[:,e]/ratio;
   invnew = B - outer(inv_ratio,tmp); invnew[:,e] = inv_ratio *)
Definition tmpv n (v : nat -> F) (B : nat -> nat -> F) (j : nat) : F := sum n (fun k => v k * B k j).
Definition setrow (A : nat -> nat -> F) e (v : nat -> F) : nat -> nat -> F :=
  fun i k => if Nat.eqb i e then v k else A i k.
Definition sm_row n e (B : nat -> nat -> F) (v : nat -> F) : nat -> nat -> F :=
  let tmp := tmpv n v B in let ratio := tmp e in
  fun i j => let ir := B i e / ratio in if Nat.eqb j e then ir else B i j - ir * tmp j.

Theorem sm_inverse n e A B v :
  e < n -> right_inv n A B -> tmpv n v B e <> 0 ->
  right_inv n (setrow A e v) (sm_row n e B v).
Proof.
  intros He HAB Hr i j Hi Hj. unfold mm, sm_row, setrow. cbv zeta.
  set (ratio := tmpv n v B e) in *.
  destruct (Nat.eqb i e) eqn:Eie; destruct (Nat.eqb j e) eqn:Eje.
  - (* i = e, j = e *)
    apply Nat.eqb_eq in Eie, Eje. subst i j.
    rewrite (sum_ext n _ (fun k => (v k * B k e) * (1 / ratio))) by (intros; field; exact Hr).
    rewrite sum_scal_r. fold (tmpv n v B e). fold ratio. unfold delta. rewrite Nat.eqb_refl. field. exact Hr.
  - (* i = e, j <> e *)
    apply Nat.eqb_eq in Eie. subst i.
    rewrite (sum_ext n _ (fun k => v k * B k j - (v k * B k e) * (tmpv n v B j / ratio))) by (intros; field; exact Hr).
    rewrite sum_sub, sum_scal_r. fold (tmpv n v B j). fold (tmpv n v B e). fold ratio.
    unfold delta. rewrite Nat.eqb_sym, Eje. field. exact Hr.
  - (* i <> e, j = e *)
    apply Nat.eqb_eq in Eje. subst j.
    rewrite (sum_ext n _ (fun k => (A i k * B k e) * (1 / ratio))) by (intros; field; exact Hr).
    rewrite sum_scal_r. fold (mm n A B i e). rewrite HAB by assumption. unfold delta. rewrite Eie. field. exact Hr.
  - (* i <> e, j <> e *)
    rewrite (sum_ext n _ (fun k => A i k * B k j - (A i k * B k e) * (tmpv n v B j / ratio))) by (intros; field; exact Hr).
    rewrite sum_sub, sum_scal_r. fold (mm n A B i j). fold (mm n A B i e).
    rewrite !HAB by assumption. unfold delta at 2. rewrite Eie. field. exact Hr.
Qed.
End SM.
Print Assumptions sm_inverse.
