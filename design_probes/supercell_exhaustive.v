From Coq Require Import ZArith List Bool Lia.
Import ListNotations. Open Scope Z_scope.
Definition M3 := (Z*Z*Z*Z*Z*Z*Z*Z*Z)%type.
Definition det3 (m:M3) := let '(a,b,c,d,e,f,g,h,i) := m in a*(e*i-f*h) - b*(d*i-f*g) + c*(d*h-e*g).
(* adjugate: adj such that S * adj = det * I ; row-vector convention n * inv(S) = n * adj / det *)
Definition adj3 (m:M3) : M3 := let '(a,b,c,d,e,f,g,h,i) := m in
  (e*i-f*h, c*h-b*i, b*f-c*e,
   f*g-d*i, a*i-c*g, c*d-a*f,
   d*h-e*g, b*g-a*h, a*e-b*d).
Definition vm (n:Z*Z*Z) (m:M3) : Z*Z*Z := let '(x,y,z):=n in let '(a,b,c,d,e,f,g,h,i) := m in
  (x*a+y*d+z*g, x*b+y*e+z*h, x*c+y*f+z*i).
Definition colrange (p q r:Z) (upper_incl:bool) : list Z :=
  let lo := Z.min 0 p + Z.min 0 q + Z.min 0 r in
  let hi := Z.max 0 p + Z.max 0 q + Z.max 0 r in
  let hi' := if upper_incl then hi+1 else hi in
  map (fun k => lo + Z.of_nat k) (seq 0 (Z.to_nat (hi' - lo))).
Definition inbox (dt:Z) (v:Z*Z*Z) : bool := let '(x,y,z) := v in
  let s := Z.sgn dt in let ad := Z.abs dt in
  (0 <=? s*x) && (s*x <? ad) && (0 <=? s*y) && (s*y <? ad) && (0 <=? s*z) && (s*z <? ad).
Definition copies (incl:bool) (m:M3) : list (Z*Z*Z) :=
  let '(a,b,c,d,e,f,g,h,i) := m in
  let dt := det3 m in let ad := adj3 m in
  flat_map (fun x => flat_map (fun y => flat_map (fun z =>
     if inbox dt (vm (x,y,z) ad) then [(x,y,z)] else []) (colrange c f i incl)) (colrange b e h incl)) (colrange a d g incl).
Definition rng (k:Z) := map (fun i => Z.of_nat i - k) (seq 0 (Z.to_nat (2*k+1))).
Definition all_mats (k:Z) : list M3 :=
  let r := rng k in
  flat_map (fun a => flat_map (fun b => flat_map (fun c => flat_map (fun d => flat_map (fun e => flat_map (fun f =>
  flat_map (fun g => flat_map (fun h => map (fun i => (a,b,c,d,e,f,g,h,i)) r) r) r) r) r) r) r) r) r.
Definition ok (incl:bool) (m:M3) : bool := let dt := det3 m in (dt =? 0) || (Z.of_nat (length (copies incl m)) =? Z.abs dt).
Definition count_bad (incl:bool) (k:Z) := length (filter (fun m => negb (ok incl m)) (all_mats k)).
Time Eval vm_compute in (count_bad false 1, count_bad true 1).
Time Eval vm_compute in (copies false (-1,0,0,0,-1,0,0,0,-1), copies true (-1,0,0,0,-1,0,0,0,-1)).
