From Coq Require Import ZArith List Bool Lia.
Import ListNotations. Open Scope Z_scope.
(* per-term bound *)
Lemma term_bounds g ad s : 0 <= g < ad -> ad * Z.min 0 s <= g * s <= ad * Z.max 0 s.
Proof. intros H. destruct (Z_le_gt_dec 0 s); [rewrite Z.min_l, Z.max_r by lia|rewrite Z.min_r, Z.max_l by lia]; nia. Qed.

(* column j of n = f.S with f = g/ad: n_j*ad = g1*s1+g2*s2+g3*s3 *)
Lemma box_complete g1 g2 g3 ad s1 s2 s3 nj :
  0 < ad -> 0 <= g1 < ad -> 0 <= g2 < ad -> 0 <= g3 < ad ->
  nj * ad = g1 * s1 + g2 * s2 + g3 * s3 ->
  Z.min 0 s1 + Z.min 0 s2 + Z.min 0 s3 <= nj <= Z.max 0 s1 + Z.max 0 s2 + Z.max 0 s3.
Proof.
  intros Had H1 H2 H3 E.
  pose proof (term_bounds g1 ad s1 H1). pose proof (term_bounds g2 ad s2 H2). pose proof (term_bounds g3 ad s3 H3).
  split; nia.
Qed.

(* the code's upper end is exclusive: the bound is attained only at the origin-like case *)
Lemma box_upper_strict_if_pos g1 g2 g3 ad s1 s2 s3 nj :
  0 < ad -> 0 <= g1 < ad -> 0 <= g2 < ad -> 0 <= g3 < ad ->
  nj * ad = g1 * s1 + g2 * s2 + g3 * s3 ->
  (0 < s1 \/ 0 < s2 \/ 0 < s3) ->
  nj < Z.max 0 s1 + Z.max 0 s2 + Z.max 0 s3.
Proof.
  intros Had H1 H2 H3 E Hpos.
  pose proof (term_bounds g1 ad s1 H1). pose proof (term_bounds g2 ad s2 H2). pose proof (term_bounds g3 ad s3 H3).
  assert (g1 * s1 + g2 * s2 + g3 * s3 < ad * (Z.max 0 s1 + Z.max 0 s2 + Z.max 0 s3)).
  { destruct Hpos as [P|[P|P]].
    - assert (g1 * s1 < ad * Z.max 0 s1) by (rewrite Z.max_r by lia; nia). lia.
    - assert (g2 * s2 < ad * Z.max 0 s2) by (rewrite Z.max_r by lia; nia). lia.
    - assert (g3 * s3 < ad * Z.max 0 s3) by (rewrite Z.max_r by lia; nia). lia. }
  nia.
Qed.

(* distinctness modulo the supercell lattice, one coordinate of the adjugate image *)
Lemma distinct_coord v v' m dt : dt <> 0 ->
  0 <= Z.sgn dt * v < Z.abs dt -> 0 <= Z.sgn dt * v' < Z.abs dt -> v - v' = m * dt -> m = 0.
Proof.
  intros Hd H1 H2 E. destruct (Z.sgn_spec dt) as [[? Hs]|[[? Hs]|[? Hs]]]; rewrite Hs in *; try lia;
  [rewrite Z.abs_eq in * by lia|rewrite Z.abs_neq in * by lia]; nia.
Qed.
Print Assumptions box_upper_strict_if_pos.
