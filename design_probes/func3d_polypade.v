From Coq Require Import Reals Lra.
From Coquelicot Require Import Coquelicot.
Open Scope R_scope.
(* translated from pyqmc/wf/func3d.py: polypadegradvalue *)
Definition pp_p (r rcut : R) := let z1 := r / rcut - 1 in (3 * z1 + 4) * z1^2 * z1 + 1.
Definition pp_value (r beta rcut : R) := (1 - pp_p r rcut) / (1 + beta * pp_p r rcut).
Definition pp_gradr (r beta rcut : R) := let z1 := r / rcut - 1 in
  let obp := 1 / (1 + beta * pp_p r rcut) in (z1 * obp)^2 * (-(1 + beta) * 12 / rcut^2).
(* translated from polypadevalue: the other spelling of the same value *)
Definition pp_value2 (r beta rcut : R) := let z := r / rcut in
  let p := ((3 * z - 8) * z + 6) * z^2 in (1 - p) / (1 + beta * p).

Lemma pp_values_agree r beta rcut : rcut <> 0 -> pp_value2 r beta rcut = pp_value r beta rcut.
Proof. intros Hc. unfold pp_value2, pp_value, pp_p. cbv zeta. f_equal; [|f_equal; f_equal]; field; exact Hc. Qed.

Lemma pp_deriv r beta rcut : rcut <> 0 -> 1 + beta * pp_p r rcut <> 0 ->
  is_derive (fun x => pp_value x beta rcut) r (r * pp_gradr r beta rcut).
Proof.
  intros Hc Hd. unfold pp_value, pp_gradr, pp_p in *. cbv zeta in *.
  assert (Hn : rcut * rcut ^ 2 * rcut + beta * ((3 * (r - rcut) + 4 * rcut) * (r - rcut) ^ 2 * (r - rcut) + rcut * rcut ^ 2 * rcut) <> 0).
  { intro H. apply Hd.
    assert (H2 : rcut ^ 2 <> 0) by (apply pow_nonzero; exact Hc).
    apply (Rmult_eq_reg_l (rcut * rcut ^ 2 * rcut)); [|apply Rmult_integral_contrapositive_currified; [apply Rmult_integral_contrapositive_currified; [exact Hc|exact H2]|exact Hc]].
    rewrite Rmult_0_r, <- H. field. exact Hc. }
  auto_derive.
  - intro H; apply Hd; rewrite <- H; field; exact Hc.
  - field. split; [exact Hc | exact Hn].
Qed.

Lemma pp_value_rcut beta rcut : rcut <> 0 -> 1 + beta <> 0 -> pp_value rcut beta rcut = 0.
Proof. intros Hc Hb. unfold pp_value, pp_p. cbv zeta.
  replace (rcut / rcut) with 1 by (field; exact Hc).
  replace ((3 * (1 - 1) + 4) * (1 - 1) ^ 2 * (1 - 1) + 1) with 1 by ring.
  unfold Rdiv. replace (1 - 1) with 0 by ring. ring. Qed.
Lemma pp_gradr_rcut beta rcut : rcut <> 0 -> pp_gradr rcut beta rcut = 0.
Proof. intros Hc. unfold pp_gradr. cbv zeta. replace (rcut / rcut - 1) with 0 by (field; exact Hc). ring. Qed.
Print Assumptions pp_deriv.
