From Coq Require Import Reals Lra Lia.
From Coquelicot Require Import Coquelicot.
Open Scope R_scope.

(* --- what the translator would emit for mc.vmc_worker's per-electron body --- *)
Record vec3 := V3 { vx : R; vy : R; vz : R }.
Definition vadd a b := V3 (vx a + vx b) (vy a + vy b) (vz a + vz b).
Definition vsub a b := V3 (vx a - vx b) (vy a - vy b) (vz a - vz b).
Definition vscal c a := V3 (c * vx a) (c * vy a) (c * vz a).
Definition norm2 a := vx a * vx a + vy a * vy a + vz a * vz a.   (* np.sum(a**2, axis=1) *)

Section Kernel.
Variable tstep : R.
Variable D : vec3 -> vec3.          (* limdrift (Re (grad ln Psi)) as a function of the position of e *)
Variable rho : vec3 -> vec3 -> R.   (* |Psi(x')/Psi(x)|  >= 0 *)
Variables (x gauss : vec3) (u : R).

Definition newcoorde := vadd (vadd x gauss) (vscal tstep (D x)).
Definition forward   := norm2 gauss.
Definition backward  := norm2 (vadd gauss (vscal tstep (vadd (D x) (D newcoorde)))).
Definition t_prob    := exp (1 / (2 * tstep) * (forward - backward)).
Definition ratio     := (rho x newcoorde) ^ 2 * t_prob.
Definition accept    := ratio > u.

(* --- specification: Gaussian proposal of variance tstep about the drifted position --- *)
Definition lnT (a b : vec3) := - norm2 (vsub (vsub b a) (vscal tstep (D a))) / (2 * tstep).
Definition Tdens (a b : vec3) := / (sqrt (2 * PI * tstep)) ^ 3 * exp (lnT a b).


Lemma T1_forward : forward = norm2 (vsub (vsub newcoorde x) (vscal tstep (D x))).
Proof. unfold forward, newcoorde, norm2, vsub, vadd, vscal; cbn. ring. Qed.

Lemma T1_backward : backward = norm2 (vsub (vsub x newcoorde) (vscal tstep (D newcoorde))).
Proof. unfold backward, norm2, vsub, vadd, vscal; cbn. set (d := D newcoorde). unfold newcoorde, vadd, vscal; cbn. ring. Qed.

Hypothesis tpos : 0 < tstep.

Theorem T2_tprob : t_prob = Tdens newcoorde x / Tdens x newcoorde.
Proof.
  unfold t_prob, Tdens.
  assert (Hs : sqrt (2 * PI * tstep) <> 0).
  { apply Rgt_not_eq, sqrt_lt_R0. pose proof PI_RGT_0. nra. }
  replace (/ sqrt (2 * PI * tstep) ^ 3 * exp (lnT newcoorde x) / (/ sqrt (2 * PI * tstep) ^ 3 * exp (lnT x newcoorde)))
    with (exp (lnT newcoorde x) / exp (lnT x newcoorde)).
  2:{ field; repeat split; try (apply Rgt_not_eq, exp_pos); try exact Hs. }
  unfold Rdiv at 2. rewrite <- exp_Ropp, <- exp_plus. f_equal.
  unfold lnT. rewrite <- T1_forward, <- T1_backward. field. lra.
Qed.

Hypothesis rho_nonneg : 0 <= rho x newcoorde.

(* acceptance set: for a uniform u in [0,1), accepted iff u < min(1, pi' T' / (pi T)) *)
Theorem T3_accept : 0 <= u < 1 ->
  (accept <-> u < Rmin 1 ((rho x newcoorde)^2 * (Tdens newcoorde x / Tdens x newcoorde))).
Proof.
  intros Hu. unfold accept, ratio. rewrite T2_tprob.
  set (q := rho x newcoorde ^ 2 * (Tdens newcoorde x / Tdens x newcoorde)).
  unfold Rmin. destruct (Rle_dec 1 q); split; intro; lra.
Qed.
End Kernel.

(* detailed balance algebra *)
Lemma db a b : 0 < a -> 0 < b -> a * Rmin 1 (b / a) = b * Rmin 1 (a / b).
Proof.
  intros Ha Hb. unfold Rmin.
  destruct (Rle_dec 1 (b / a)) as [H1|H1]; destruct (Rle_dec 1 (a / b)) as [H2|H2].
  - assert (a <= b). { apply (Rmult_le_compat_r a) in H1; [|lra]. unfold Rdiv in H1. rewrite Rmult_assoc, Rinv_l in H1; lra. }
    assert (b <= a). { apply (Rmult_le_compat_r b) in H2; [|lra]. unfold Rdiv in H2. rewrite Rmult_assoc, Rinv_l in H2; lra. }
    lra.
  - field. lra.
  - field. lra.
  - exfalso. apply Rnot_le_lt in H1, H2.
    assert (b < a). { apply (Rmult_lt_compat_r a) in H1; [|lra]. unfold Rdiv in H1. rewrite Rmult_assoc, Rinv_l in H1; lra. }
    assert (a < b). { apply (Rmult_lt_compat_r b) in H2; [|lra]. unfold Rdiv in H2. rewrite Rmult_assoc, Rinv_l in H2; lra. }
    lra.
Qed.
Print Assumptions T3_accept.
