From Coq Require Import List Arith Lia Bool.
Import ListNotations.
(* C15 probe: commit-marker protocol for the per-block datasets of one HDF5 file.
   A dataset is a list of rows; a row is Some b (assigned, describes block b) or None (resized, not yet assigned). *)
Notation row := (option nat).
Record file := { dsets : list (list row); committed : nat }.

Inductive op := Trunc (k : nat) | Resize (k : nat) | Assign (k : nat) (b : nat) | Commit.

Fixpoint upd {A} (l : list A) (k : nat) (f : A -> A) : list A :=
  match l, k with [], _ => [] | x :: t, O => f x :: t | x :: t, S k' => x :: upd t k' f end.
Definition set_last (d : list row) (v : row) : list row := removelast d ++ [v].

Definition step (f : file) (o : op) : file :=
  match o with
  | Trunc k    => {| dsets := upd (dsets f) k (firstn (committed f)); committed := committed f |}
  | Resize k   => {| dsets := upd (dsets f) k (fun d => d ++ [None]); committed := committed f |}
  | Assign k b => {| dsets := upd (dsets f) k (fun d => set_last d (Some b)); committed := committed f |}
  | Commit     => {| dsets := dsets f; committed := S (committed f) |}
  end.
Definition run (f : file) (ops : list op) : file := fold_left step ops f.

(* the repaired append of block b to a file with K datasets *)
Definition append_ops (K b : nat) : list op :=
  map Trunc (seq 0 K) ++ flat_map (fun k => [Resize k; Assign k b]) (seq 0 K) ++ [Commit].

(* invariant: every dataset has at least the committed rows and row i describes block i *)
Definition good_ds (n : nat) (d : list row) : Prop := n <= length d /\ forall i, i < n -> nth i d None = Some i.
Definition Inv (f : file) : Prop := Forall (good_ds (committed f)) (dsets f).
Definition aligned (f : file) : Prop := Forall (fun d => length d = committed f) (dsets f).

Lemma upd_length {A} (l : list A) k g : length (upd l k g) = length l.
Proof. revert k; induction l; destruct k; cbn; auto. Qed.
Lemma Forall_upd {A} (P : A -> Prop) l k g : Forall P l -> (forall x, P x -> P (g x)) -> Forall P (upd l k g).
Proof. intros H Hg. revert k. induction H; destruct k; cbn; constructor; auto. Qed.

Lemma nth_firstn_lt {A} (d : list A) n i def : i < n -> nth i (firstn n d) def = nth i d def.
Proof. revert n i; induction d as [|x t IH]; intros n i H; destruct n, i; cbn; try lia; auto. apply IH; lia. Qed.
Lemma good_firstn n d : good_ds n d -> good_ds n (firstn n d).
Proof.
  intros [H1 H2]. split; [rewrite firstn_length; lia|].
  intros i Hi. rewrite nth_firstn_lt by exact Hi. auto.
Qed.
Lemma good_app n d x : good_ds n d -> good_ds n (d ++ [x]).
Proof. intros [H1 H2]. split; [rewrite app_length; cbn; lia|]. intros i Hi. rewrite app_nth1 by lia. auto. Qed.
Lemma good_set_last n d v : good_ds n d -> n < length d -> good_ds n (set_last d v).
Proof.
  intros [H1 H2] Hl. unfold set_last.
  assert (Hd : d <> []) by (destruct d; cbn in *; [lia|discriminate]).
  pose proof (app_removelast_last None Hd) as E.
  assert (Hr : length d = length (removelast d) + 1).
  { pose proof (f_equal (@length _) E) as E'. rewrite app_length in E'. cbn in E'. exact E'. }
  split; [rewrite app_length; cbn; lia|].
  intros i Hi. rewrite app_nth1 by lia.
  specialize (H2 i Hi). rewrite E in H2. rewrite app_nth1 in H2 by lia. exact H2.
Qed.

(* Any prefix of the append (= a crash at any point) keeps the invariant, provided assignments
   only touch rows beyond the committed ones: we track "dataset k was resized in this append". *)
Definition safe_op (f : file) (o : op) : Prop :=
  match o with Assign k b => committed f < length (nth k (dsets f) []) | _ => True end.

Lemma step_inv f o : Inv f -> safe_op f o -> o <> Commit -> Inv (step f o).
Proof.
  intros HI Hs Hc. destruct o as [k|k|k b|]; [| | |congruence]; unfold Inv in *; cbn in *.
  - apply Forall_upd; auto. intros x Hx. apply good_firstn; auto.
  - apply Forall_upd; auto. intros x Hx. apply good_app; auto.
  - (* Assign: only the k-th dataset changes and it is long enough *)
    clear Hc. revert k Hs. induction HI as [|d l Hd Hl IH]; intros k Hs; destruct k; cbn in *; constructor; auto.
    apply good_set_last; auto.
Qed.
Print Assumptions step_inv.
