From mathcomp Require Import all_ssreflect all_algebra.
Set Implicit Arguments. Unset Strict Implicit. Unset Printing Implicit Defensive.
Import GRing.Theory. Local Open Scope ring_scope.
Section DetLemma.
Variable (F : fieldType) (n : nat).
Implicit Types (A : 'M[F]_n) (v : 'rV[F]_n).
(* A with row e replaced by v *)
Definition setrow A (e : 'I_n) v : 'M[F]_n := \matrix_(i, j) (if i == e then v 0 j else A i j).
Lemma det_setrow A e v : \det (setrow A e v) = \sum_j v 0 j * cofactor A e j.
Proof.
rewrite (expand_det_row _ e); apply: eq_bigr => j _.
rewrite mxE eqxx; congr (_ * _).
rewrite /cofactor; congr (_ * \det _).
by apply/matrixP => i k; rewrite !mxE /= eq_sym (negPf (neq_lift _ _)).
Qed.
End DetLemma.
Print Assumptions det_setrow.
