From Coq Require Import ZArith List Lia Bool.
Import ListNotations. Open Scope Z_scope.

Definition cdiv (a d : Z) : Z := - ((- a) / d).
Lemma cdiv_spec a d : 0 < d -> d * (cdiv a d - 1) < a <= d * cdiv a d.
Proof.
  intros Hd. unfold cdiv.
  pose proof (Z.div_mod (-a) d ltac:(lia)) as E.
  pose proof (Z.mod_pos_bound (-a) d Hd) as B. nia.
Qed.

(* counting over 0..n-1 *)
Fixpoint cnt (P : Z -> bool) (n : nat) : Z :=
  match n with O => 0 | S k => cnt P k + (if P (Z.of_nat k) then 1 else 0) end.

Lemma cnt_ext P Q n : (forall m, 0 <= m < Z.of_nat n -> P m = Q m) -> cnt P n = cnt Q n.
Proof.
  induction n as [|k IH]; intros H; [reflexivity|]. cbn [cnt].
  rewrite IH by (intros m Hm; apply H; lia). rewrite (H (Z.of_nat k)) by lia. reflexivity.
Qed.

Lemma cnt_interval lo hi n :
  cnt (fun m => (lo <=? m) && (m <? hi)) n = Z.max 0 (Z.min hi (Z.of_nat n) - Z.max lo 0).
Proof.
  induction n as [|k IH]; [cbn; lia|]. cbn [cnt]. rewrite IH.
  destruct (Z.leb_spec lo (Z.of_nat k)), (Z.ltb_spec (Z.of_nat k) hi); cbn [andb]; lia.
Qed.

(* comb points r + m*d, m < N, falling in [A,B) *)
Theorem comb_count N r d A B :
  0 < d -> 0 <= r < d -> 0 <= A <= B -> B <= Z.of_nat N * d ->
  cnt (fun m => (A <=? r + m * d) && (r + m * d <? B)) N = cdiv (B - r) d - cdiv (A - r) d.
Proof.
  intros Hd Hr HA HB.
  pose proof (cdiv_spec (A - r) d Hd) as SA. pose proof (cdiv_spec (B - r) d Hd) as SB.
  set (lo := cdiv (A - r) d) in *. set (hi := cdiv (B - r) d) in *.
  rewrite (cnt_ext _ (fun m => (lo <=? m) && (m <? hi))).
  - rewrite cnt_interval.
    assert (0 <= lo) by nia. assert (lo <= hi) by nia. assert (hi <= Z.of_nat N) by nia. lia.
  - intros m Hm.
    destruct (Z.leb_spec A (r + m * d)), (Z.leb_spec lo m); try nia;
    destruct (Z.ltb_spec (r + m * d) B), (Z.ltb_spec m hi); try reflexivity; try nia.
Qed.

(* floor / ceil bounds:  (B-A)/d is N*w/W in the application *)
Theorem comb_count_bounds N r d A B :
  0 < d -> 0 <= r < d -> 0 <= A <= B -> B <= Z.of_nat N * d ->
  (B - A) / d <= cnt (fun m => (A <=? r + m * d) && (r + m * d <? B)) N <= cdiv (B - A) d.
Proof.
  intros Hd Hr HA HB. rewrite comb_count by assumption.
  pose proof (cdiv_spec (A - r) d Hd). pose proof (cdiv_spec (B - r) d Hd).
  pose proof (cdiv_spec (B - A) d Hd).
  pose proof (Z.div_mod (B - A) d ltac:(lia)). pose proof (Z.mod_pos_bound (B - A) d Hd).
  split; nia.
Qed.

(* zero-length interval is never hit *)
Corollary comb_count_zero N r d A :
  0 < d -> 0 <= r < d -> 0 <= A -> A <= Z.of_nat N * d ->
  cnt (fun m => (A <=? r + m * d) && (r + m * d <? A)) N = 0.
Proof. intros. rewrite comb_count by lia. lia. Qed.
Print Assumptions comb_count_bounds.
