From Coq Require Import ZArith List Lia Bool.
Import ListNotations. Open Scope Z_scope.

Definition cdiv (a d : Z) : Z := - ((- a) / d).
Lemma cdiv_spec a d : 0 < d -> d * (cdiv a d - 1) < a <= d * cdiv a d.
Proof.
  intros Hd. unfold cdiv.
  pose proof (Z.div_mod (-a) d ltac:(lia)) as E.
  pose proof (Z.mod_pos_bound (-a) d Hd) as B. nia.
Qed.

(* counting over 0..n-1 *)
Fixpoint cnt (P : Z -> bool) (n : nat) : Z :=
  match n with O => 0 | S k => cnt P k + (if P (Z.of_nat k) then 1 else 0) end.

Lemma cnt_ext P Q n : (forall m, 0 <= m < Z.of_nat n -> P m = Q m) -> cnt P n = cnt Q n.
Proof.
  induction n as [|k IH]; intros H; [reflexivity|]. cbn [cnt].
  rewrite IH by (intros m Hm; apply H; lia). rewrite (H (Z.of_nat k)) by lia. reflexivity.
Qed.

Lemma cnt_interval lo hi n :
  cnt (fun m => (lo <=? m) && (m <? hi)) n = Z.max 0 (Z.min hi (Z.of_nat n) - Z.max lo 0).
Proof.
  induction n as [|k IH]; [cbn; lia|]. cbn [cnt]. rewrite IH.
  destruct (Z.leb_spec lo (Z.of_nat k)), (Z.ltb_spec (Z.of_nat k) hi); cbn [andb]; lia.
Qed.

(* comb points r + m*d, m < N, falling in [A,B) *)
Theorem comb_count N r d A B :
  0 < d -> 0 <= r < d -> 0 <= A <= B -> B <= Z.of_nat N * d ->
  cnt (fun m => (A <=? r + m * d) && (r + m * d <? B)) N = cdiv (B - r) d - cdiv (A - r) d.
Proof.
  intros Hd Hr HA HB.
  pose proof (cdiv_spec (A - r) d Hd) as SA. pose proof (cdiv_spec (B - r) d Hd) as SB.
  set (lo := cdiv (A - r) d) in *. set (hi := cdiv (B - r) d) in *.
  rewrite (cnt_ext _ (fun m => (lo <=? m) && (m <? hi))).
  - rewrite cnt_interval.
    assert (0 <= lo) by nia. assert (lo <= hi) by nia. assert (hi <= Z.of_nat N) by nia. lia.
  - intros m Hm.
    destruct (Z.leb_spec A (r + m * d)), (Z.leb_spec lo m); try nia;
    destruct (Z.ltb_spec (r + m * d) B), (Z.ltb_spec m hi); try reflexivity; try nia.
Qed.

(* floor / ceil bounds:  (B-A)/d is N*w/W in the application *)
Theorem comb_count_bounds N r d A B :
  0 < d -> 0 <= r < d -> 0 <= A <= B -> B <= Z.of_nat N * d ->
  (B - A) / d <= cnt (fun m => (A <=? r + m * d) && (r + m * d <? B)) N <= cdiv (B - A) d.
Proof.
  intros Hd Hr HA HB. rewrite comb_count by assumption.
  pose proof (cdiv_spec (A - r) d Hd). pose proof (cdiv_spec (B - r) d Hd).
  pose proof (cdiv_spec (B - A) d Hd).
  pose proof (Z.div_mod (B - A) d ltac:(lia)). pose proof (Z.mod_pos_bound (B - A) d Hd).
  split; nia.
Qed.

(* zero-length interval is never hit *)
Corollary comb_count_zero N r d A :
  0 < d -> 0 <= r < d -> 0 <= A -> A <= Z.of_nat N * d ->
  cnt (fun m => (A <=? r + m * d) && (r + m * d <? A)) N = 0.
Proof. intros. rewrite comb_count by lia. lia. Qed.

(* ---------- counting helpers ---------- *)
Lemma cnt_app P a b : cnt P (a + b) = cnt P a + cnt (fun m => P (Z.of_nat a + m)) b.
Proof.
  induction b as [|b IH]; cbn [cnt].
  - rewrite Nat.add_0_r. lia.
  - rewrite Nat.add_succ_r. cbn [cnt]. rewrite IH. rewrite Nat2Z.inj_add. lia.
Qed.

(* rotation: k |-> (q + k) mod N is a bijection of [0,N) *)
Lemma cnt_rot_ab (R : Z -> bool) (a b : nat) :
  cnt (fun k => R ((Z.of_nat b + k) mod Z.of_nat (a + b))) (a + b) = cnt R (a + b).
Proof.
  rewrite (cnt_app (fun k => R ((Z.of_nat b + k) mod Z.of_nat (a + b))) a b).
  rewrite (cnt_ext (fun k => R ((Z.of_nat b + k) mod Z.of_nat (a + b))) (fun k => R (Z.of_nat b + k)) a).
  2:{ intros m Hm. f_equal. apply Z.mod_small. lia. }
  rewrite (cnt_ext (fun m => R ((Z.of_nat b + (Z.of_nat a + m)) mod Z.of_nat (a + b))) R b).
  2:{ intros m Hm. f_equal.
      replace (Z.of_nat b + (Z.of_nat a + m)) with (m + 1 * Z.of_nat (a + b)) by lia.
      rewrite Z.mod_add by lia. apply Z.mod_small. lia. }
  rewrite (Nat.add_comm a b). rewrite (cnt_app R b a). lia.
Qed.

Lemma cnt_rot (R : Z -> bool) (N : nat) (q : Z) : 0 <= q < Z.of_nat N ->
  cnt (fun k => R ((q + k) mod Z.of_nat N)) N = cnt R N.
Proof.
  intros Hq.
  assert (Hb : q = Z.of_nat (Z.to_nat q)) by lia.
  assert (HN : N = ((N - Z.to_nat q) + Z.to_nat q)%nat) by lia.
  revert Hb HN. generalize (N - Z.to_nat q)%nat as a. generalize (Z.to_nat q) as b.
  intros b a Hb HN. subst q N. apply cnt_rot_ab.
Qed.

(* comb points of the code, scaled to integers:  (c + k*d) mod (N*d) = r + ((q + k) mod N) * d *)
Lemma comb_point c d N k : 0 < d -> 0 < N -> 0 <= c ->
  (c + k * d) mod (N * d) = c mod d + (((c / d) mod N + k) mod N) * d.
Proof.
  intros Hd HN Hc.
  pose proof (Z.div_mod c d ltac:(lia)) as E. pose proof (Z.mod_pos_bound c d Hd) as B.
  set (q := c / d) in *. set (r := c mod d) in *.
  replace (c + k * d) with (r + (q + k) * d) by lia.
  pose proof (Z.div_mod (q + k) N ltac:(lia)) as E2. pose proof (Z.mod_pos_bound (q + k) N HN) as B2.
  set (t := (q + k) mod N) in *. set (s := (q + k) / N) in *.
  replace (r + (q + k) * d) with ((r + t * d) + s * (N * d)) by nia.
  rewrite Z.mod_add by nia.
  rewrite Z.mod_small by nia.
  f_equal. f_equal. subst t. rewrite Zplus_mod_idemp_l. reflexivity.
Qed.

(* Main: the number of comb points (as the code computes them) in [A,B) *)
Theorem branch_count (N : nat) c d A B :
  0 < d -> (0 < N)%nat -> 0 <= c -> 0 <= A <= B -> B <= Z.of_nat N * d ->
  cnt (fun k => let x := (c + k * d) mod (Z.of_nat N * d) in (A <=? x) && (x <? B)) N
  = cdiv (B - c mod d) d - cdiv (A - c mod d) d.
Proof.
  intros Hd HN Hc HA HB. cbv zeta.
  set (r := c mod d). set (q := (c / d) mod Z.of_nat N).
  rewrite (cnt_ext _ (fun k => (fun m => (A <=? r + m * d) && (r + m * d <? B)) ((q + k) mod Z.of_nat N))).
  2:{ intros m Hm. cbv beta. rewrite comb_point by lia. reflexivity. }
  rewrite (cnt_rot (fun m => (A <=? r + m * d) && (r + m * d <? B)) N q).
  2:{ subst q. apply Z.mod_pos_bound. lia. }
  apply comb_count; try lia. subst r. apply Z.mod_pos_bound. lia.
Qed.
Print Assumptions branch_count.
