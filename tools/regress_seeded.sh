#!/bin/bash
# usage: tools/regress_seeded.sh [name-prefix ...]: applies every seeded patch (or those whose directory name starts with a given prefix) to /repo,
# runs the check of its property without touching evidence/, reverts; prints CAUGHT/MISSED per patch
cd /verif
for d in seeded/*/; do
  name=$(basename $d)
  if [ $# -gt 0 ]; then ok=0; for p in "$@"; do case $name in $p*) ok=1;; esac; done; [ $ok = 1 ] || continue; fi
  prop=$(python3 -c "import json;m=json.load(open('$d/meta.json'));print(m.get('property') or m.get('prop'))")
  if ! git -C /repo diff --quiet; then echo "/repo is not clean"; exit 2; fi
  git -C /repo apply "/verif/$d/patch.diff" 2>/dev/null || { echo "$name $prop PATCH-DOES-NOT-APPLY"; continue; }
  out=$(VERIF_NO_EVIDENCE=1 ./check "$prop" 2>&1)
  git -C /repo checkout -- .
  if echo "$out" | grep -q "^VIOLATION property=$prop"; then
    kind=$(echo "$out" | grep "^VIOLATION" | head -1 | sed 's/.*replay=[^ ]* //' | cut -c1-60)
    echo "$name $prop CAUGHT $kind"
  else
    echo "$name $prop MISSED $(echo "$out" | tail -1 | cut -c1-120)"
  fi
done
echo REGRESS-DONE
