#!/usr/bin/env python3
"""usage: write_meta.py <seeded-name> <Cxx> <origin> <needs> <ran>"""
import json, sys
name, prop, origin, needs, ran = sys.argv[1:6]
json.dump({"property": prop, "origin": origin, "needs": needs, "ran": ran, "caught_by": [prop]}, open(f"/verif/seeded/{name}/meta.json", "w"), indent=1)
