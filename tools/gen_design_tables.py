#!/usr/bin/env python3
"""Regenerates the machine-written tables of DESIGN.md (between the GENERATED markers) from evidence/, seeded/ and known_findings.json."""
import glob, json, os, re
V = os.path.dirname(os.path.dirname(os.path.abspath(__file__)))
out = []
# ---- theorems and axioms
out.append("### G.1 Theorems checked on every run and the axioms each depends on (from `Print Assumptions`, as recorded in evidence/)\n")
short = {"ClassicalDedekindReals.sig_forall_dec": "sig_forall_dec", "ClassicalDedekindReals.sig_not_dec": "sig_not_dec", "Classical_Prop.classic": "classic",
         "FunctionalExtensionality.functional_extensionality_dep": "funext_dep"}
allax = set()
for f in sorted(glob.glob(os.path.join(V, "evidence", "C*.json"))):
    d = json.load(open(f))
    ol = d["coverage"].get("obligation_list", [])
    out.append("**%s** (%d obligations)\n" % (d["property_id"], len(ol)))
    for o in ol:
        pa = o.get("print_assumptions")
        if isinstance(pa, list):
            allax |= set(pa)
            pa = ", ".join(short.get(a, a) for a in pa) if pa else "closed"
        else:
            pa = "closed under the global context"
        out.append("- `%s` — %s" % (o["theorem"], pa))
    out.append("")
out.append("Axioms that occur at all: " + ", ".join("`%s`" % a for a in sorted(allax)) + ". All are declared by Coq's standard library (Reals: `sig_forall_dec`, `sig_not_dec`, `functional_extensionality_dep`; `Classical_Prop.classic` enters through Lra/Coquelicot). The development declares none.\n")
# ---- findings
out.append("### G.2 Defects found on the unchanged tree\n")
k = json.load(open(os.path.join(V, "known_findings.json")))
out.append("| id | property | status | commit | what failed |\n|---|---|---|---|---|")
for e in k:
    out.append("| %s | %s | %s | %s | %s |" % (e["id"], e["property"], e["status"], e.get("commit") or "—", e["what"].replace("|", "/").replace("\n", " ")))
out.append("")
# ---- seeded
out.append("### G.3 Seeded changes and the checks that catch them\n")
out.append("`A_*` = written by an independent sub-agent that saw only the property text; `F*` = reverse of a fix; `M_*` = hand-made. Every patch is in seeded/<name>/patch.diff and was applied to /repo, checked, and reverted.\n")
out.append("| seeded change | property | what it needs to show | outcome |\n|---|---|---|---|")
for f in sorted(glob.glob(os.path.join(V, "seeded", "*", "meta.json"))):
    m = json.load(open(f))
    name = os.path.basename(os.path.dirname(f))
    ran = m.get("ran", m.get("result", ""))
    out.append("| %s | %s | %s | %s |" % (name, m.get("property", ""), str(m.get("needs", "")).replace("|", "/"), str(ran).replace("|", "/").replace("\n", " ")))
out.append("")
# ---- coqchk
ck = os.path.join(V, "coqchk.txt")
out.append("### G.4 `coqchk -o` over the whole development (independent re-check of every compiled file and everything it depends on)\n")
if os.path.exists(ck) and os.path.getsize(ck) > 0:
    t = open(ck).read()
    i = t.find("CONTEXT SUMMARY")
    tail = t[i:] if i >= 0 else t[-3000:]
    out.append("Command: `cd coq && coqchk -silent -o -Q . PyQMC <all modules of _CoqProject>`; full output in `coqchk.txt`. Summary printed by coqchk (axioms of EVERY loaded library, including those of mathcomp/Coquelicot/stdlib files that no property theorem uses):\n")
    out.append("```\n" + tail.strip()[:6000] + "\n```\n")
else:
    out.append("(coqchk.txt not present yet)\n")
txt = "\n".join(out)
p = os.path.join(V, "DESIGN.md")
s = open(p).read()
a, b = "<!-- GENERATED-TABLES-BEGIN -->", "<!-- GENERATED-TABLES-END -->"
if a in s:
    s = s[:s.index(a) + len(a)] + "\n" + txt + "\n" + s[s.index(b):]
else:
    s += "\n\n## Appendix G — generated tables\n\n" + a + "\n" + txt + "\n" + b + "\n"
open(p, "w").write(s)
print("tables:", len(out), "lines;", len(allax), "axioms")
