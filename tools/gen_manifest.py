#!/usr/bin/env python3
"""Regenerates MANIFEST.json from the table below (keeps it valid at all times)."""
import json, os
V = os.path.dirname(os.path.dirname(os.path.abspath(__file__)))
BASE = "cd /repo && /venv/bin/python -m pytest -ra -q -p no:cacheprovider --timeout=900 --continue-on-collection-errors"
# id: (claimed, category, technique, text, note, design_ref)
T = {}
def add(i, cat, tech, text, note, ref=None):
    T[i] = (cat, tech, text, note, ref or ("DESIGN.md section 4, " + i))
exec(open(os.path.join(V, "tools", "manifest_table.py")).read())
props = [json.loads(l) for l in open(os.path.join(V, "properties.jsonl"))]
checks, na = [], []
for p in props:
    i = p["id"]
    if i in T:
        cat, tech, text, note, ref = T[i]
        checks.append({"property_id": i, "quick_cmd": "./check %s --tier quick" % i, "thorough_cmd": "./check %s --tier thorough" % i,
                       "evidence_file": "/verif/evidence/%s.json" % i, "replay_cmd_template": "./check %s --replay {path}" % i,
                       "engine": "coq-model+correspondence", "level_claimed": {"category": cat, "text": text, "design_ref": ref},
                       "level_note": note, "technique": tech})
    else:
        na.append({"property_id": i, "reason": NA.get(i, "check not built yet in this round (no claim made); see DESIGN.md section 4 for the planned model")})
m = {"version": 1,
     "setup_cmd": "cd /verif && for g in translator/gen_*.py; do python3 $g > /dev/null || exit 1; done && cd coq && coq_makefile -f _CoqProject -o Makefile && timeout 3000 make -j16",
     "hooks": {"guard": "PYQMC_VERIF", "enable": "no source hooks are needed: the harness instruments from outside (monkey-patched numpy.random, h5py, stub wave functions); ./check exports PYQMC_VERIF=1 for uniformity",
               "baseline_off_cmd": BASE, "source_commits": [], "add_only": True},
     "engines": [{"name": "coq-model+correspondence", "path": "/verif/check", "serves_properties": [c["property_id"] for c in checks],
                  "kind_free_text": "Coq 8.16.1 models and theorems (coq/, full .vo build; property theorems in Props*.v with Print Assumptions collected per theorem on every run); translator-generated models (coq/gen/{Kernels,Func3d,Keys,Energy,Ewald2d,Sph}_Gen.v) are regenerated from /repo's Python AST on every run and their theorems re-checked; hand-written executable models are tied to /repo by evaluating them with vm_compute inside coqc on the inputs the real functions were run on; independent implementation-level oracles search for concrete failing inputs"}],
     "checks": checks, "not_applicable": na,
     "notes": "See DESIGN.md. known_findings.json lists fixed/known defects. All checks rebuild from /repo's working tree (python imports /repo directly; Coq models regenerated/re-evaluated per run)."}
json.dump(m, open(os.path.join(V, "MANIFEST.json"), "w"), indent=1)
print("claimed", len(checks), "not claimed", len(na))
