#!/bin/bash
# usage: tools/try_mutant.sh <seeded-dir-name> <Cxx> [more check args]: apply seeded/<name>/patch.diff to /repo, run the check
# (without touching evidence/), revert /repo whatever happens
name="$1"; prop="$2"; shift 2
cd /verif
if ! git -C /repo diff --quiet; then echo "/repo is not clean"; exit 2; fi
git -C /repo apply "/verif/seeded/$name/patch.diff" || { echo "patch does not apply"; exit 2; }
VERIF_NO_EVIDENCE=1 ./check "$prop" "$@" | grep -v "^KNOWN" | cut -c1-200 | tail -4
git -C /repo checkout -- .
git -C /repo status --short | head -3
