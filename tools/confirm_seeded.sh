#!/bin/bash
# usage: tools/confirm_seeded.sh <worktree> <seeded-name> [test files...]: confirm a sub-agent's change in ITS scratch worktree
# (demo passes on HEAD, fails with the patch, named tests pass with the patch), then copy patch.diff/demo.py/notes.md to seeded/<name>/
wt="$1"; name="$2"; shift 2
cd "$wt" || exit 2
git checkout -- . ; export PYTHONPATH="$wt" OMP_NUM_THREADS=1 PYTHONHASHSEED=0
timeout 600 /venv/bin/python out/demo.py > out/demo_head.log 2>&1; r0=$?
git apply out/patch.diff || { echo "patch does not apply"; exit 2; }
timeout 600 /venv/bin/python out/demo.py > out/demo_patch.log 2>&1; r1=$?
rt=none
if [ $# -gt 0 ]; then timeout 1500 /venv/bin/python -m pytest -q -p no:cacheprovider -x "$@" > out/tests.log 2>&1; rt=$?; fi
git checkout -- .
echo "demo HEAD exit=$r0 ($(tail -1 out/demo_head.log | cut -c1-80)); demo patched exit=$r1 ($(tail -1 out/demo_patch.log | cut -c1-100)); tests exit=$rt ($(tail -1 out/tests.log 2>/dev/null | cut -c1-80))"
if [ $r0 -eq 0 ] && [ $r1 -ne 0 ] && { [ "$rt" = none ] || [ "$rt" -eq 0 ]; }; then
  mkdir -p /verif/seeded/$name && cp out/patch.diff out/demo.py out/notes.md /verif/seeded/$name/ && echo CONFIRMED
else echo NOT-CONFIRMED; fi
