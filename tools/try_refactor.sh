#!/bin/bash
# usage: tools/try_refactor.sh <patch-file> [Cxx ...]: apply a (behaviour-preserving) patch to /repo, run the given checks (default: every property
# anchored in a touched file) without touching evidence/, revert /repo whatever happens. Any VIOLATION line is a false alarm to investigate.
patch="$1"; shift
cd /verif
if ! git -C /repo diff --quiet; then echo "/repo is not clean"; exit 2; fi
git -C /repo apply "$patch" || { echo "patch does not apply"; exit 2; }
files=$(git -C /repo diff --name-only)
props="$@"
if [ -z "$props" ]; then
  props=$(python3 - $files <<'PY'
import json, sys
touched = set(sys.argv[1:])
out = []
for l in open('/verif/properties.jsonl'):
    p = json.loads(l)
    if touched & set(p['anchors']['files']):
        out.append(p['id'])
print(" ".join(out))
PY
)
fi
echo "touched: $files"; echo "checks: $props"
for p in $props; do
  VERIF_NO_EVIDENCE=1 ./check "$p" 2>&1 | grep -v "^KNOWN" | cut -c1-260 | tail -3
done
git -C /repo checkout -- .
git -C /repo status --short | head -3
