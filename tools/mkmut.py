#!/usr/bin/env python3
"""mkmut.py <name> <file> <old> <new> [occurrence]: make a seeded mutant patch under /verif/seeded/<name>/patch.diff (binary-safe; /repo is left clean)"""
import subprocess, os, sys
name, f, old, new = sys.argv[1:5]
occ = int(sys.argv[5]) if len(sys.argv) > 5 else None
path = os.path.join("/repo", f)
s = open(path, "rb").read()
crlf = b"\r\n" in s
o, n = old.encode().decode("unicode_escape").encode(), new.encode().decode("unicode_escape").encode()
if crlf:
    o, n = o.replace(b"\n", b"\r\n"), n.replace(b"\n", b"\r\n")
cnt = s.count(o)
if cnt == 0 or (cnt > 1 and occ is None):
    sys.exit("pattern occurs %d times" % cnt)
if occ is None:
    s2 = s.replace(o, n)
else:
    idx = -1
    for _ in range(occ + 1):
        idx = s.index(o, idx + 1)
    s2 = s[:idx] + n + s[idx + len(o):]
open(path, "wb").write(s2)
d = subprocess.run(["git", "-C", "/repo", "diff"], capture_output=True).stdout
os.makedirs("/verif/seeded/" + name, exist_ok=True)
open("/verif/seeded/%s/patch.diff" % name, "wb").write(d)
subprocess.run(["git", "-C", "/repo", "checkout", "--", "."])
print(name, "ok", len(d), "bytes")
