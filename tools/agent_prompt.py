#!/usr/bin/env python3
"""prints the sub-agent brief for one property (property text only; nothing from /verif's machinery)"""
import json, sys
pid, wt = sys.argv[1], sys.argv[2]
for l in open('/verif/properties.jsonl'):
    p = json.loads(l)
    if p['id'] == pid:
        break
print(f"""You are helping test a verification effort by acting as an adversarial "bug seeder" for the Python library WagnerGroup/pyqmc (real-space quantum Monte Carlo on PySCF inputs).

Your scratch copy of the repository is the git worktree at {wt} (work ONLY there; never touch /repo or /verif; do not read anything under /verif). Python is /venv/bin/python; run code with  `cd {wt} && PYTHONPATH={wt} OMP_NUM_THREADS=1 /venv/bin/python ...`  (a harmless conda WARNING line is printed first by every shell command). There is no network. The first numba import of pyqmc.wf.numba.gto takes ~150 s to JIT; avoid it unless needed.

The semantic property (it should hold for the library):

  id: {p['id']}   title: {p['title']}
  statement: {p['statement']}
  quantifier: {p['quantifier']['text']}
  code anchors: {', '.join(p['anchors']['files'])}

Task: produce ONE realistic source change to pyqmc (a plausible regression a developer could introduce: an off-by-one, a wrong axis/index/sign, a missing copy, a boundary condition, two sites that each look fine alone, ...) that BREAKS this property while the package still imports and the existing test-suite still passes. The breakage must need something specific to manifest (an unusual input, a particular mask/sequence/interleaving, a boundary value, a specific configuration) rather than being exposed at once by ordinary use. Do not touch tests. Keep the change small (a few lines).

Deliverables, all written into {wt}/out/ :
  1. patch.diff  — `git diff` of your change (relative to the worktree HEAD), applying cleanly with `git apply`.
  2. demo.py     — a small self-contained program that exits 0 and prints PASS on the ORIGINAL code and exits 1 printing FAIL (with the offending numbers) on the CHANGED code. It must take its pyqmc from PYTHONPATH. Keep its runtime under ~2 minutes.
  3. notes.md    — 5-10 lines: what you changed, why it breaks the property, what exactly is needed for it to manifest, and which existing tests you ran (run the tests most related to the touched files, e.g. `cd {wt} && /venv/bin/python -m pytest -q -p no:cacheprovider --timeout=900 tests/unit/<file>.py`; the full suite takes ~18 minutes, so only run it fully if you have reason to doubt).
Verify yourself that demo.py passes on the original code (use `git stash` or apply/revert your patch) and fails with the change. Leave the worktree with your change REVERTED (clean `git status` except for out/). Reply with a 5-line summary only.""")
