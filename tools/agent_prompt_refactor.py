#!/usr/bin/env python3
"""prints the sub-agent brief for behaviour-preserving refactorings of the code anchored by some properties
(property text only; nothing from /verif's machinery)"""
import json, sys
wt, pids = sys.argv[1], sys.argv[2:]
props = {}
for l in open('/verif/properties.jsonl'):
    p = json.loads(l)
    props[p['id']] = p
txt = ""
for pid in pids:
    p = props[pid]
    txt += f"""
  id: {p['id']}   title: {p['title']}
  statement: {p['statement']}
  quantifier: {p['quantifier']['text']}
  code anchors: {', '.join(p['anchors']['files'])}
"""
print(f"""You are helping test a verification effort for the Python library WagnerGroup/pyqmc (real-space quantum Monte Carlo on PySCF inputs) by acting as an ordinary maintainer who REFACTORS code without changing behaviour. The verification machinery (which you cannot see) must stay quiet on such changes; I want to find out where it raises false alarms.

Your scratch copy of the repository is the git worktree at {wt} (work ONLY there; never touch /repo or /verif; do not read anything under /verif). Python is /venv/bin/python; run code with  `cd {wt} && PYTHONPATH={wt} OMP_NUM_THREADS=1 /venv/bin/python ...`  (a harmless conda WARNING line is printed first by every shell command). There is no network. The first numba import of pyqmc.wf.numba.gto takes ~150 s to JIT; avoid it unless needed.

The semantic properties (each holds for the library now and must STILL hold after your change):
{txt}
Task: for EACH property above produce ONE realistic, behaviour-preserving source change to the code it is anchored in — the kind of clean-up a maintainer would really commit: renaming local variables, restructuring a loop or an if/elif chain, replacing an einsum by an equivalent matmul/sum (or the reverse), hoisting a common subexpression, extracting a helper function, reordering independent statements, replacing `x*x` by `x**2`, using a different but equivalent numpy idiom, adding an early return, etc. 10-40 changed lines is the right size; touch the functions that actually implement the behaviour the property talks about. Results may differ from the original only at floating-point round-off level (relative 1e-13); public names, signatures, dictionary keys, dtypes, shapes, random-number consumption order and file formats must stay exactly the same. Do not touch tests. Do not add new dependencies.

Deliverables, written into {wt}/out/ :
  <id>_refactor.diff  — one per property: `git diff` of that change alone relative to the worktree HEAD (so each applies cleanly on its own with `git apply`).
  notes.md            — per property 2-4 lines: what you rewrote and how you convinced yourself that behaviour is unchanged (e.g. ran the related unit tests `cd {wt} && /venv/bin/python -m pytest -q -p no:cacheprovider --timeout=900 tests/unit/<file>.py`, compared outputs before/after on random inputs).
Check each change by running the most related existing tests and by a direct before/after comparison of the rewritten function on a few random inputs. Leave the worktree with all changes REVERTED (clean `git status` except for out/). Reply with a 5-line summary only.""")
