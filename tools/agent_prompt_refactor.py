#!/usr/bin/env python3
"""prints the sub-agent brief for behaviour-preserving refactorings of the code anchored by some properties
(property text only; nothing from /verif's machinery)"""
import json, sys
wt, pids = sys.argv[1], sys.argv[2:]
# optional second round: a hint of which functions to rewrite (file/function names only; nothing about the verification machinery)
FOCUS = {
 "C01": "mc.py: the per-electron loop of vmc_worker and limdrift; sample_many.py: sample_overlap_worker",
 "C02": "slater.py: sherman_morrison_ms, Slater.updateinternals/recompute; jastrowspin.py: updateinternals and the partial-sum bookkeeping",
 "C03": "slater.py: Slater._testrow / testvalue / testvalue_many / gradient_value; multiplywf.py and addwf.py: testvalue*",
 "C04": "func3d.py: polypadevalue / polypadegradvalue / polypadegradlap and the PolyPadeFunction methods; energy.py: kinetic",
 "C05": "determinant_tools.py: binary_to_occ, create_packed_objects, flatten_determinants; pyscftools.py: the occupation bookkeeping",
 "C06": "orbitals.py: the Bloch-phase / wrap handling of the periodic evaluator; coord.py: PeriodicConfigs.make_irreducible and electron()",
 "C07": "dmc.py: limdrift, propose_drift_diffusion, compute_S, the weight update inside dmc_propagate, propose_tmoves",
 "C08": "dmc.py: branch; coord.py: resample",
 "C09": "reblock.py; mc.py: vmc_parallel and the block averaging; dmc.py: dmc_propagate_parallel",
 "C10": "ewald.py: set_ewald_constants, ee_const / ei_const, energy(), generate_positive_gpoints / select_big; accumulators.py: EnergyAccumulator.__call__; energy.py: OpenCoulomb / ee_energy / ei_energy / ii_energy",
 "C11": "ewald2d.py: ewald_recip_weight*, set_ewald_ion_ion, ewald_elec_ion, ewald_elec_elec (einsum contractions)",
 "C12": "eval_ecp.py / ecp_accumulator.py: generate_quadrature_grids (the tables of points and weights), get_P_l",
 "C13": "eval_ecp.py: ecp_mask and the stochastic selection; jax_ecp.py: downselect_move_info, evaluate_vl",
 "C14": "hdftools.py and the restart blocks of dmc.rundmc and linemin.line_minimization",
 "C15": "hdftools.py: setup_hdf / append_hdf and the callers in dmc.py / linemin.py",
 "C16": "accumulators.py: LinearTransform (serialize/deserialize parameters and gradients); stochastic_reconfiguration.py",
 "C17": "supercell.py: get_supercell_copies / get_supercell_kpts / get_supercell; twists.py: create_supercell_twists",
 "C18": "pbc.py: enforce_pbc; distance.py: MinimalImageDistance / RawDistance; coord.py: PeriodicConfigs (move, mask, split, join, resample, hdf)",
 "C19": "numba/spherical_harmonics.py: the SPH*_GRAD tables (e.g. hoist common powers, reorder independent assignments, rename temporaries); numba/gto.py: radial parts; numba/pbcgto.py",
 "C20": "the keys()/shapes()/__call__/avg methods of the accumulators in accumulators.py, obdm.py, tbdm.py, s2_accumulator.py, stochastic_reconfiguration.py",
}
ROUND2 = bool(__import__("os").environ.get("ROUND2"))
props = {}
for l in open('/verif/properties.jsonl'):
    p = json.loads(l)
    props[p['id']] = p
txt = ""
for pid in pids:
    p = props[pid]
    txt += f"""
  id: {p['id']}   title: {p['title']}
  statement: {p['statement']}
  quantifier: {p['quantifier']['text']}
  code anchors: {', '.join(p['anchors']['files'])}
""" + (f"  rewrite this part of the code: {FOCUS[pid]}\n" if ROUND2 else "")
print(f"""You are helping test a verification effort for the Python library WagnerGroup/pyqmc (real-space quantum Monte Carlo on PySCF inputs) by acting as an ordinary maintainer who REFACTORS code without changing behaviour. The verification machinery (which you cannot see) must stay quiet on such changes; I want to find out where it raises false alarms.

Your scratch copy of the repository is the git worktree at {wt} (work ONLY there; never touch /repo or /verif; do not read anything under /verif). Python is /venv/bin/python; run code with  `cd {wt} && PYTHONPATH={wt} OMP_NUM_THREADS=1 /venv/bin/python ...`  (a harmless conda WARNING line is printed first by every shell command). There is no network. The first numba import of pyqmc.wf.numba.gto takes ~150 s to JIT; avoid it unless needed.

The semantic properties (each holds for the library now and must STILL hold after your change):
{txt}
Task: for EACH property above produce ONE realistic, behaviour-preserving source change to the code it is anchored in — the kind of clean-up a maintainer would really commit: renaming local variables, restructuring a loop or an if/elif chain, replacing an einsum by an equivalent matmul/sum (or the reverse), hoisting a common subexpression, extracting a helper function, reordering independent statements, replacing `x*x` by `x**2`, using a different but equivalent numpy idiom, adding an early return, etc. 10-40 changed lines is the right size; touch the functions that actually implement the behaviour the property talks about. Results may differ from the original only at floating-point round-off level (relative 1e-13); public names, signatures, dictionary keys, dtypes, shapes, random-number consumption order and file formats must stay exactly the same. Do not touch tests. Do not add new dependencies.

Deliverables, written into {wt}/out/ :
  <id>_refactor.diff  — one per property: `git diff` of that change alone relative to the worktree HEAD (so each applies cleanly on its own with `git apply`).
  notes.md            — per property 2-4 lines: what you rewrote and how you convinced yourself that behaviour is unchanged (e.g. ran the related unit tests `cd {wt} && /venv/bin/python -m pytest -q -p no:cacheprovider --timeout=900 tests/unit/<file>.py`, compared outputs before/after on random inputs).
Check each change by running the most related existing tests and by a direct before/after comparison of the rewritten function on a few random inputs. Leave the worktree with all changes REVERTED (clean `git status` except for out/). Reply with a 5-line summary only.""")
