"""Driving the real vmc / rundmc / line_minimization with stub wave functions for C14 (restart) and C15 (failed writes):
per-block reseeding keyed on the block number, tagging accumulators, storage-rounding wrappers, h5py fault injection."""
import contextlib
import os
import sys

import numpy as np

from stubs import GaussWF

TIMING_KEYS = ("move time", "accumulator time")
LATTICE = np.array([[4.0, 0, 0], [0.5, 4.0, 0], [0, 0.3, 5.0]])


def frame_local(fn_names, var):
    f = sys._getframe(1)
    while f is not None:
        if f.f_code.co_name in fn_names and var in f.f_locals:
            return f.f_locals[var]
        f = f.f_back
    return None


class TagAcc:
    """observable whose per-walker value encodes the block number of the driver loop (read from its frame): row i of
    every dataset it produces must therefore equal f(block[i]); also provides energy keys for DMC / SR"""

    def __init__(self):
        self.ncalls = 0

    def _block(self):
        b = frame_local(("vmc", "rundmc"), "block")
        return -1 if b is None else int(b)

    def __call__(self, configs, wf):
        self.ncalls += 1
        n = configs.configs.shape[0]
        b = self._block()
        c = configs.configs
        r2 = np.sum(c * c, axis=(1, 2))
        return {"tag": np.full(n, float(b + 1)), "tagv": np.full((n, 2), float(b + 1)) * np.array([1.0, 2.0]),
                "total": 0.5 * r2 - 1.0 / np.sqrt(1.0 + r2), "grad2": np.full(n, 1.0), "x": np.cos(c[:, 0, 0])}

    def avg(self, configs, wf):
        return {k: np.mean(v, axis=0) for k, v in self(configs, wf).items()}

    def keys(self):
        return set(["tag", "tagv", "total", "grad2", "x"])

    def shapes(self):
        return {"tag": (), "tagv": (2,), "total": (), "grad2": (), "x": ()}

    def has_nonlocal_moves(self):
        return False


def make_configs(seed, nconf, nelec, periodic):
    from pyqmc.configurations.coord import OpenConfigs, PeriodicConfigs
    rng = np.random.default_rng(seed)
    c = rng.normal(size=(nconf, nelec, 3)) * 1.5
    return PeriodicConfigs(c, LATTICE.copy()) if periodic else OpenConfigs(c)


@contextlib.contextmanager
def instrumented(seed_base=1234, round_state=True):
    """patch the drivers: reseed numpy at the start of every block from the block number; optionally round the
    in-memory walker state to storage precision after every block write (so that an uninterrupted run is, at every
    block boundary, in the state a restarted run would load)"""
    import pyqmc.method.mc as mc
    import pyqmc.method.dmc as dmc
    import pyqmc.method.linemin as linemin
    o_worker, o_prop, o_vfile, o_dfile, o_opt = mc.vmc_worker, dmc.dmc_propagate, mc.vmc_file, dmc.dmc_file, linemin.opt_hdf
    o_vmc = mc.vmc

    def worker(*a, **k):
        b = frame_local(("vmc",), "block")
        it = frame_local(("line_minimization",), "it")
        sub = frame_local(("line_minimization",), "sub_it")
        np.random.seed((seed_base + 7919 * int(b if b is not None else 0) + 104729 * int(it if it is not None else 0) + 1299709 * int(sub if sub is not None else 0)) % (2 ** 31))
        return o_worker(*a, **k)

    def propagate(*a, **k):
        b = frame_local(("rundmc",), "block")
        np.random.seed((seed_base + 15485863 + 7919 * int(b if b is not None else 0)) % (2 ** 31))
        return o_prop(*a, **k)

    def rnd_configs(configs):
        configs.configs[...] = configs.configs.astype(np.float32).astype(float)

    def vfile(hdf_file, data, attr, configs):
        o_vfile(hdf_file, data, attr, configs)
        if round_state and hdf_file is not None:
            rnd_configs(configs)

    def dfile(hdf_file, data, attr, configs, weights):
        o_dfile(hdf_file, data, attr, configs, weights)
        if round_state and hdf_file is not None:
            rnd_configs(configs)
            weights[...] = weights.astype(np.float32).astype(float)

    def ohdf(hdf_file, data, attr, configs, parameters):
        o_opt(hdf_file, data, attr, configs, parameters)
        if round_state and hdf_file is not None:
            rnd_configs(configs)

    mc.vmc_worker, dmc.dmc_propagate, mc.vmc_file, dmc.dmc_file, linemin.opt_hdf = worker, propagate, vfile, dfile, ohdf
    try:
        yield
    finally:
        mc.vmc_worker, dmc.dmc_propagate, mc.vmc_file, dmc.dmc_file, linemin.opt_hdf = o_worker, o_prop, o_vfile, o_dfile, o_opt


DMC_EXTRA = {}  # further keyword arguments for rundmc (e.g. feedback != 1), set by the caller around a scenario


def run_driver(kind, fname, nblocks, periodic=False, continue_from=None, seed=11, nconf=5, nelec=2, configs=None):
    """one call of the real driver; returns (df, configs[, weights])"""
    import pyqmc.method.mc as mc
    import pyqmc.method.dmc as dmc
    import pyqmc.method.linemin as linemin
    from pyqmc.observables.accumulators import LinearTransform
    from pyqmc.observables.stochastic_reconfiguration import StochasticReconfiguration
    cfg = configs if configs is not None else make_configs(seed, nconf, nelec, periodic)
    wf = GaussWF(alpha=0.8)
    if kind == "vmc":
        return mc.vmc(wf, cfg, tstep=0.4, nblocks=nblocks, nsteps_per_block=2, accumulators={"a": TagAcc()}, hdf_file=fname, continue_from=continue_from) + (wf,)
    if kind == "dmc":
        np.random.seed(99)  # the VMC warm-up / initial energy of a fresh run
        return dmc.rundmc(wf, cfg, tstep=0.05, nblocks=nblocks, nsteps_per_block=2, accumulators={"energy": TagAcc()}, hdf_file=fname,
                          continue_from=continue_from, vmc_warmup=2, branchcut_start=3, **DMC_EXTRA) + (wf,)
    if kind == "opt":
        acc = StochasticReconfiguration(TagAcc(), LinearTransform(wf.parameters), eps=0.1)
        np.random.seed(98)
        wf2, df = linemin.line_minimization(wf, cfg, [acc], steprange=0.05, max_iterations=nblocks, warmup_options=dict(nblocks=1, nsteps_per_block=2),
                                            vmcoptions=dict(nblocks=2, nsteps_per_block=2, tstep=0.4), hdf_file=fname, correlated_sampling=False)
        return df, cfg, wf2
    raise ValueError(kind)


def read_file(fname, keep_timing=False):
    """all datasets of a results file as numpy arrays (timing columns dropped) + the row counter"""
    import h5py
    out = {}
    with h5py.File(fname, "r") as h:
        def visit(name, obj):
            if isinstance(obj, h5py.Dataset) and (keep_timing or name not in TIMING_KEYS):
                out[name] = np.array(obj)
        h.visititems(visit)
        nrows = int(h.attrs["nrows"]) if "nrows" in h.attrs else None
    return out, nrows


PER_BLOCK_SKIP = ("configs", "wrap", "weights")


def per_block(d):
    return {k: v for k, v in d.items() if k not in PER_BLOCK_SKIP and not k.startswith("wf/")}


# ------------------------------------------------------------------ fault injection
class Injected(Exception):
    pass


class Injector:
    """counts h5py write operations inside the block-write routine and raises before operation number `crash_at`
    of write number `target_write` (0-based, counted within the current driver call)"""

    def __init__(self):
        self.active = False
        self.nwrite = -1
        self.target_write = None
        self.crash_at = None
        self.exc = OSError
        self.count = 0
        self.trace = []
        self.counts_per_write = {}

    def op(self, kind, name):
        if not self.active:
            return
        if self.target_write is not None and self.nwrite == self.target_write and self.crash_at is not None and self.count == self.crash_at:
            self.trace.append(("CRASH-before", kind, name))
            self.active = False
            raise self.exc("injected fault before %s %s" % (kind, name))
        if self.target_write is None or self.nwrite == self.target_write:
            self.trace.append((kind, name))
        self.count += 1
        self.counts_per_write[self.nwrite] = self.count


@contextlib.contextmanager
def fault_injection(inj):
    import h5py
    import pyqmc.method.mc as mc
    import pyqmc.method.dmc as dmc
    import pyqmc.method.linemin as linemin
    o_resize, o_set, o_create, o_aset = h5py.Dataset.resize, h5py.Dataset.__setitem__, h5py.Group.create_dataset, h5py.AttributeManager.__setitem__
    o_vfile, o_dfile, o_opt = mc.vmc_file, dmc.dmc_file, linemin.opt_hdf

    def resize(self, *a, **k):
        inj.op("resize", self.name)
        return o_resize(self, *a, **k)

    def setitem(self, *a, **k):
        inj.op("assign", self.name)
        return o_set(self, *a, **k)

    def create(self, name, *a, **k):
        inj.op("create", name)
        return o_create(self, name, *a, **k)

    def aset(self, name, value):
        inj.op("attr", name)
        return o_aset(self, name, value)

    def wrap(orig):
        def f(hdf_file, *a, **k):
            if hdf_file is None:
                return orig(hdf_file, *a, **k)
            inj.nwrite += 1
            inj.count = 0
            inj.active = True
            try:
                return orig(hdf_file, *a, **k)
            finally:
                inj.active = False
        return f

    h5py.Dataset.resize, h5py.Dataset.__setitem__, h5py.Group.create_dataset, h5py.AttributeManager.__setitem__ = resize, setitem, create, aset
    mc.vmc_file, dmc.dmc_file, linemin.opt_hdf = wrap(o_vfile), wrap(o_dfile), wrap(o_opt)
    try:
        yield inj
    finally:
        h5py.Dataset.resize, h5py.Dataset.__setitem__, h5py.Group.create_dataset, h5py.AttributeManager.__setitem__ = o_resize, o_set, o_create, o_aset
        mc.vmc_file, dmc.dmc_file, linemin.opt_hdf = o_vfile, o_dfile, o_opt


def alignment_report(fname, kind):
    """what the property asks of a file a restarted run completed on: equal lengths, row i of every dataset describing the same block, blocks contiguous"""
    d, nrows = read_file(fname)
    pb = per_block(d)
    lens = {k: int(v.shape[0]) for k, v in pb.items()}
    problems = []
    if len(set(lens.values())) > 1:
        problems.append("per-block datasets have different lengths: %s" % lens)
    blk = "iteration" if kind == "opt" else "block"
    if blk in pb:
        b = pb[blk].astype(int).tolist()
        if kind == "opt":
            pairs = list(zip(pb["iteration"].astype(int).tolist(), pb["sub_iteration"].astype(int).tolist())) if "sub_iteration" in pb else []
            if pairs != [(i, 0) for i in range(len(pairs))]:
                problems.append("iteration numbers not contiguous: %s" % pairs)
        elif b != list(range(len(b))):
            problems.append("block numbers not contiguous: %s" % b)
        for k in pb:
            base = k.split("/")[-1]
            if base.endswith("tag") and pb[k].shape[0] == len(b) and kind != "opt":
                if not np.allclose(pb[k], np.array(b) + 1.0):
                    problems.append("row/block mismatch in %s: %s vs blocks %s" % (k, pb[k].tolist(), b))
            if base.endswith("tagv") and pb[k].shape[0] == len(b) and kind != "opt":
                if not np.allclose(pb[k][:, 0], np.array(b) + 1.0):
                    problems.append("row/block mismatch in %s" % k)
    if nrows is not None and lens and any(v != nrows for v in lens.values()):
        problems.append("row counter %s differs from dataset lengths %s" % (nrows, sorted(set(lens.values()))))
    return problems, lens, nrows
