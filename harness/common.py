"""Shared machinery for the /verif checks (see DESIGN.md section 2).

Every check: (1) (re)generates what it derives from /repo, (2) builds its Coq files with a full .vo
build and collects `Print Assumptions` for each property theorem, (3) runs the correspondence between
the Coq model (evaluated by vm_compute inside coqc) and the implementation, (4) searches for concrete
failing inputs, (5) filters through known_findings.json, (6) writes evidence, prints VIOLATION lines.
"""
import fractions
import glob
import json
import os
import re
import subprocess
import sys
import time
import traceback

VERIF = os.path.dirname(os.path.dirname(os.path.abspath(__file__)))
REPO = os.environ.get("VERIF_REPO", "/repo")
COQ = os.path.join(VERIF, "coq")
WORK = os.path.join(VERIF, ".work")
FORBIDDEN = re.compile(
    r"\b(Admitted|admit|Axiom|Axioms|Parameter|Parameters|Conjecture|Conjectures|Admit Obligations)\b"
    r"|Unset\s+Guard|Unset\s+Positivity|Unset\s+Universe|bypass_check|type-in-type|impredicative-set|native_compute"
)
COQ_HEADER = (
    "From Coq Require Import ZArith QArith List Bool.\nImport ListNotations.\n"
    "Set Printing Width 1000000.\nSet Printing Depth 1000000.\n"
)


def sh(cmd, timeout, cwd=None, env=None):
    t0 = time.time()
    try:
        p = subprocess.run(cmd, cwd=cwd, env=env, timeout=timeout, capture_output=True, text=True, shell=isinstance(cmd, str))
        return p.returncode, p.stdout + p.stderr, time.time() - t0
    except subprocess.TimeoutExpired as e:
        out = (e.stdout or b"")
        if isinstance(out, bytes):
            out = out.decode("utf8", "replace")
        return 124, out + "\nTIMEOUT", time.time() - t0


# ---------------------------------------------------------------- exact numbers
def frac(x):
    """exact rational value of a finite double / int / Fraction"""
    if isinstance(x, fractions.Fraction):
        return x
    if isinstance(x, int):
        return fractions.Fraction(x)
    return fractions.Fraction(*float(x).as_integer_ratio())


def zlit(n):
    n = int(n)
    return str(n) if n >= 0 else "(%d)" % n


def qlit(x):
    f = frac(x)
    return "(%s # %d)" % (zlit(f.numerator), f.denominator)


def coq_list(items):
    return "[" + "; ".join(items) + "]"


# ---------------------------------------------------------------- parsing Coq values
_TOK = re.compile(r"\s*(-?\d+|[\[\]\(\);,#]|[A-Za-z_][A-Za-z_0-9']*|%[a-zA-Z]+)")


def parse_coq(text):
    """Parse the printed form of lists / tuples / Z / Q / bool / option into Python objects."""
    toks = [t for t in _TOK.findall(text) if not t.startswith("%")]
    pos = [0]

    def peek():
        return toks[pos[0]] if pos[0] < len(toks) else None

    def eat(t=None):
        v = toks[pos[0]]
        if t is not None and v != t:
            raise ValueError("expected %r got %r in %r" % (t, v, text[:200]))
        pos[0] += 1
        return v

    def atom():
        t = peek()
        if t == "[":
            eat()
            out = []
            if peek() == "]":
                eat()
                return out
            while True:
                out.append(expr())
                if peek() == ";":
                    eat()
                    continue
                eat("]")
                return out
        if t == "(":
            eat()
            items = [expr()]
            while peek() == ",":
                eat()
                items.append(expr())
            eat(")")
            return items[0] if len(items) == 1 else tuple(items)
        if t == "true":
            eat()
            return True
        if t == "false":
            eat()
            return False
        if t == "None":
            eat()
            return None
        if t == "Some":
            eat()
            return ("Some", atom())
        if t == "-":
            eat()
            return -atom()
        if re.fullmatch(r"-?\d+", t):
            eat()
            return int(t)
        eat()
        return t  # constructor name

    def expr():
        v = atom()
        if peek() == "#":
            eat()
            d = atom()
            return fractions.Fraction(v, d)
        return v

    v = expr()
    if pos[0] != len(toks):
        raise ValueError("trailing tokens in %r" % text[:200])
    return v


def parse_evals(out):
    """Return the list of values printed by successive `Eval vm_compute in` commands."""
    vals = []
    for m in re.finditer(r"^\s+= (.*?)\n\s+: ", out, re.S | re.M):
        vals.append(parse_coq(m.group(1).replace("\n", " ")))
    return vals


# ---------------------------------------------------------------- the check object
class Check:
    def __init__(self, prop, argv, level="proof", design_ref=""):
        self.prop = prop
        self.t0 = time.time()
        self.tier = os.environ.get("VERIF_TIER", "quick")
        self.replay = None
        a = list(argv)
        while a:
            x = a.pop(0)
            if x == "--tier":
                self.tier = a.pop(0)
            elif x == "--replay":
                self.replay = a.pop(0)
        if self.tier not in ("quick", "thorough"):
            self.tier = "quick"
        self.seed = int(os.environ.get("VERIF_SEED", "0") or 0)
        # replay: every generated input derives from (seed, tier); the recorded run is repeated with the recorded seed and tier and the
        # recorded violation is looked for among the violations of the repeat (C08 additionally re-runs the recorded input alone)
        self.replay_rec = None
        if self.replay:
            self.replay_path = self.replay
            try:
                self.replay_rec = json.load(open(self.replay))
                self.seed = int(self.replay_rec.get("seed", self.seed))
                self.tier = self.replay_rec.get("tier", self.tier)
            except Exception as e:  # noqa
                print("cannot read replay file %s: %s" % (self.replay, e))
                sys.exit(2)
            if prop != "C08":
                self.replay = None
        self.level = level
        self.violations = []
        self.broken = []  # proof obligations / correspondences that no longer check
        self.obligations = []  # (name, ok, assumptions)
        self.samples = []
        self.stats = {}
        self.evaluations = 0
        self.nontrivial = set()
        self.rule = ""
        self.assumptions = []
        self.trusted = []
        self.checker_cmds = []
        self.exhaustive = None
        self.work = os.path.join(WORK, prop)
        os.makedirs(self.work, exist_ok=True)
        for f in glob.glob(os.path.join(self.work, "cases_*")):
            try:
                os.remove(f)
            except OSError:
                pass
        import numpy as np

        self.rng = np.random.default_rng(self.seed + 7919 * int(prop[1:]))

    @property
    def thorough(self):
        return self.tier == "thorough"

    # ---- Coq
    def _ensure_makefile(self):
        mk = os.path.join(COQ, "Makefile")
        cp = os.path.join(COQ, "_CoqProject")
        if not os.path.exists(mk) or os.path.getmtime(mk) < os.path.getmtime(cp):
            sh("coq_makefile -f _CoqProject -o Makefile", 120, cwd=COQ)

    def coq_build(self, folder, theorems, extra_targets=(), timeout=1500, props_files=None):
        """Full .vo build of the folder's files (and deps), then coqc of the Props file(s) capturing Print Assumptions.
        Each theorem in `theorems` is one proof obligation."""
        self._ensure_makefile()
        self.lint()
        props_files = props_files or [folder + "/Props.v"]
        targets = ([folder + "/Proofs.vo"] if os.path.exists(os.path.join(COQ, folder, "Proofs.v")) else []) + list(extra_targets)
        # everything the Props files import must be built
        for pf in props_files:
            src = open(os.path.join(COQ, pf)).read()
            for m in re.findall(r"From PyQMC Require (?:Import|Export)\s+(.*?)\.(?=\s|$)", src, flags=re.S):
                for mod in m.split():
                    t = mod.replace(".", "/") + ".vo"
                    if t not in targets and os.path.exists(os.path.join(COQ, t[:-1])):
                        targets.append(t)
        cmd = "flock %s/.lock timeout %d make -j16 %s" % (COQ, timeout, " ".join(targets))
        rc, out, dt = sh(cmd, timeout + 60, cwd=COQ)
        self.checker_cmds.append("cd coq && make %s && coqc -Q . PyQMC %s" % (" ".join(targets), " ".join(props_files)))
        self.stats.setdefault("coq_build_s", 0)
        self.stats["coq_build_s"] += round(dt, 1)
        if rc != 0:
            tail = "\n".join(l for l in out.strip().splitlines() if "Warning" not in l and "coercion" not in l)[-2500:]
            for t in theorems:
                self.obligations.append((t, False, []))
            self.broken.append({"theorem": "%s (build of %s failed)" % (", ".join(theorems[:3]) + ("…" if len(theorems) > 3 else ""), " ".join(targets)),
                                "correspondence": None, "coqc_tail": tail})
            return False
        ass, declared = {}, set()
        for pf in props_files:
            props = os.path.join(COQ, pf)
            src = open(props).read()
            rc, out, dt = sh("timeout %d coqc -w none -Q . PyQMC %s" % (timeout, pf), timeout + 60, cwd=COQ)
            self.stats["coq_build_s"] += round(dt, 1)
            if rc != 0:
                tail = "\n".join(out.strip().splitlines()[-25:])
                m = re.search(r'line (\d+)', out)
                failing = "?"
                if m:
                    ln = int(m.group(1))
                    before = "\n".join(src.splitlines()[:ln])
                    names = re.findall(r"(?:Theorem|Example|Lemma|Corollary)\s+([A-Za-z0-9_']+)", before)
                    failing = names[-1] if names else "?"
                for t in theorems:
                    self.obligations.append((t, False, []))
                self.broken.append({"theorem": "%s.%s" % (pf, failing), "correspondence": None, "coqc_tail": tail})
                return False
            order = re.findall(r"Print Assumptions\s+([A-Za-z0-9_']+)\s*\.", src)
            blocks = re.split(r"(?m)^(?=Closed under the global context|Axioms:)", out)
            blocks = [b for b in blocks if b.startswith("Closed under") or b.startswith("Axioms:")]
            for name, b in zip(order, blocks):
                if b.startswith("Closed"):
                    ass[name] = []
                else:
                    ass[name] = sorted(set(l.split(":")[0].strip() for l in b.split("\n")[1:] if l and not l[0].isspace() and not l.startswith("Closed") and not l.startswith("Axioms")))
            declared |= set(re.findall(r"(?:Theorem|Example|Corollary)\s+([A-Za-z0-9_']+)", src))
        ok_all = True
        for t in theorems:
            ok = t in declared and t in ass
            self.obligations.append((t, ok, ass.get(t, [])))
            if not ok:
                ok_all = False
                self.broken.append({"theorem": "%s: %s (missing from the Props file or no Print Assumptions)" % (folder, t),
                                    "correspondence": None, "coqc_tail": ""})
        allax = sorted(set(a for v in ass.values() for a in v))
        self.stats["axioms_used"] = allax
        return ok_all

    def translate(self, generator):
        """run a translator (regenerates a coq/gen file from /repo); a TranslationError is a broken obligation"""
        sys.path.insert(0, os.path.join(VERIF, "translator"))
        try:
            import importlib
            mod = importlib.import_module(generator)
            return mod.main_for(REPO, os.path.join(COQ, "gen"))
        except Exception as e:  # noqa
            self.broken.append({"theorem": "translation of the current source failed (%s): %s" % (generator, e), "correspondence": None, "coqc_tail": traceback.format_exc()[-800:]})
            return None

    def lint(self):
        bad = []
        for p in glob.glob(os.path.join(COQ, "**", "*.v"), recursive=True):
            txt = open(p).read()
            txt = re.sub(r"\(\*.*?\*\)", "", txt, flags=re.S)
            for m in FORBIDDEN.finditer(txt):
                bad.append("%s: %s" % (os.path.relpath(p, COQ), m.group(0)))
        if bad:
            self.broken.append({"theorem": "lint: forbidden vernacular in the development: " + "; ".join(bad[:5]),
                                "correspondence": None, "coqc_tail": ""})
        self.stats["lint_forbidden_hits"] = len(bad)
        return not bad

    def coq_eval(self, name, imports, exprs, prelude="", shard=300, timeout=900, scope="Z_scope"):
        """Evaluate each expression with vm_compute inside coqc; returns list of parsed values (None where failed)."""
        if not exprs:
            return []
        files = []
        shard = max(20, min(shard, -(-len(exprs) // 16)))
        for k in range(0, len(exprs), shard):
            fn = os.path.join(self.work, "cases_%s_%d.v" % (name, k // shard))
            with open(fn, "w") as f:
                f.write(COQ_HEADER)
                f.write("From PyQMC Require Import %s.\nOpen Scope %s.\n" % (" ".join(imports), scope))
                f.write(prelude + "\n")
                for e in exprs[k:k + shard]:
                    f.write("Eval vm_compute in (%s).\n" % e)
            files.append(fn)
        t0 = time.time()
        procs = []
        results = []
        # run up to 16 coqc in parallel
        pending = list(files)
        running = []
        outs = {}
        while pending or running:
            while pending and len(running) < 16:
                fn = pending.pop(0)
                p = subprocess.Popen(["timeout", str(timeout), "coqc", "-Q", COQ, "PyQMC", fn], stdout=subprocess.PIPE,
                                     stderr=subprocess.STDOUT, text=True, cwd=self.work)
                running.append((fn, p))
            fn, p = running.pop(0)
            o, _ = p.communicate()
            outs[fn] = (p.returncode, o)
        for k, fn in enumerate(files):
            rc, o = outs[fn]
            n = len(exprs[k * shard:(k + 1) * shard])
            if rc != 0:
                self.broken.append({"theorem": None, "correspondence": "%s: coqc failed on the generated cases file %s" % (name, os.path.basename(fn)),
                                    "coqc_tail": "\n".join(o.strip().splitlines()[-15:])})
                results.extend([None] * n)
                continue
            vals = parse_evals(o)
            if len(vals) != n:
                self.broken.append({"theorem": None, "correspondence": "%s: expected %d values, parsed %d" % (name, n, len(vals)),
                                    "coqc_tail": o[-1500:]})
                results.extend([None] * n)
            else:
                results.extend(vals)
        self.stats.setdefault("coq_eval_s", 0)
        self.stats["coq_eval_s"] = round(self.stats["coq_eval_s"] + time.time() - t0, 1)
        self.stats["coq_eval_cases"] = self.stats.get("coq_eval_cases", 0) + len(exprs)
        return results

    # ---- bookkeeping
    def count(self, key, n=1):
        self.stats[key] = self.stats.get(key, 0) + n

    def case(self, signature=None, nontrivial=True):
        self.evaluations += 1
        if nontrivial and signature is not None:
            self.nontrivial.add(signature if isinstance(signature, (str, int, tuple)) else json.dumps(signature, sort_keys=True, default=str))

    def sample(self, s, cap=6):
        if len(self.samples) < cap:
            self.samples.append(s)

    def violation(self, kind, call_site, input, expected=None, got=None, oracle="", note=""):
        self.violations.append({"kind": kind, "call_site": call_site, "input": input, "expected": expected, "got": got,
                                "oracle": oracle, "note": note})

    def correspondence_broken(self, name, detail):
        self.broken.append({"theorem": None, "correspondence": name, "coqc_tail": detail})

    def guarded(self, fn, kind, call_site, input):
        """Run implementation code; an unexpected exception is reported as a violation of `kind`."""
        try:
            return True, fn()
        except Exception as e:  # noqa
            self.violation(kind + "_exception", call_site, input, expected="no exception", got="%s: %s" % (type(e).__name__, e),
                           oracle="implementation raised", note=traceback.format_exc()[-1500:])
            return False, None

    # ---- finish
    def finish(self, known_predicates=None):
        known_predicates = known_predicates or {}
        kf_path = os.path.join(VERIF, "known_findings.json")
        known = json.load(open(kf_path)) if os.path.exists(kf_path) else []
        known = [k for k in known if k.get("property") == self.prop and k.get("status") == "known"]
        replay_dir = os.path.join(VERIF, "replays", "replayed") if self.replay_rec is not None else os.path.join(VERIF, "replays")
        os.makedirs(replay_dir, exist_ok=True)
        for old in glob.glob(os.path.join(replay_dir, "%s_%s_*.json" % (self.prop, self.tier))):
            os.remove(old)  # replay files of earlier runs of this check and tier would otherwise be mistaken for this run's
        reported = 0
        known_hit = {}
        lines = []
        n = 0
        # deduplicate violations by (kind, call_site): keep the first few of each
        perkind = {}
        for v in self.violations:
            key = (v["kind"], v["call_site"])
            perkind.setdefault(key, []).append(v)
        for key, vs in perkind.items():
            matched_all = True
            unmatched = []
            for v in vs:
                m = None
                for k in known:
                    mt = k.get("match", {})
                    if mt.get("kind") == v["kind"] and mt.get("call_site") == v["call_site"]:
                        pred = known_predicates.get(mt.get("predicate"))
                        if pred is None or pred(v):
                            m = k
                            break
                if m is not None:
                    known_hit.setdefault(m["id"], (m, 0))
                    known_hit[m["id"]] = (m, known_hit[m["id"]][1] + 1)
                else:
                    unmatched.append(v)
            for v in unmatched[:3]:
                n += 1
                path = os.path.join(replay_dir, "%s_%s_%d.json" % (self.prop, self.tier, n))
                rec = {"property": self.prop, "seed": self.seed, "tier": self.tier, "broken": self.broken or None, "no_failing_input_found": False}
                rec.update(v)
                json.dump(rec, open(path, "w"), indent=1, default=str)
                lines.append("VIOLATION property=%s replay=%s kind=%s" % (self.prop, path, v["kind"]))
                reported += 1
        if self.broken and reported == 0:
            n += 1
            path = os.path.join(replay_dir, "%s_%s_broken_%d.json" % (self.prop, self.tier, n))
            rec = {"property": self.prop, "seed": self.seed, "tier": self.tier, "kind": "broken_obligation", "call_site": None,
                   "input": None, "expected": None, "got": None, "oracle": "", "broken": self.broken, "no_failing_input_found": True,
                   "known_findings_matched": sorted(known_hit)}
            json.dump(rec, open(path, "w"), indent=1, default=str)
            lines.append("VIOLATION property=%s replay=%s no-failing-input-found" % (self.prop, path))
            reported += 1
        elif self.broken:
            # concrete violations were found; record what broke alongside
            for ln in lines[:1]:
                pass
        for kid, (k, cnt) in sorted(known_hit.items()):
            print("KNOWN-FINDING: property=%s %s %s (%d matching cases this run)" % (self.prop, kid, k["what"], cnt))
        for ln in lines:
            print(ln)
        # evidence
        nobl = len(self.obligations)
        ndis = sum(1 for o in self.obligations if o[1])
        cov = {
            "evaluations": int(self.evaluations),
            "distinct_nontrivial": int(len(self.nontrivial)),
            "rule": self.rule,
            "samples": self.samples if self.samples else [{"note": "no sample recorded"}],
            "obligations": nobl,
            "discharged": ndis,
            "obligation_list": [{"theorem": o[0], "checked": o[1], "print_assumptions": o[2] if o[2] else "Closed under the global context"} for o in self.obligations],
            "checker_cmd": " ; ".join(self.checker_cmds) if self.checker_cmds else "none",
            "trusted_base": self.trusted,
            "broken": self.broken,
            "known_findings_matched": {k: v[1] for k, v in known_hit.items()},
            "stats": self.stats,
        }
        if self.exhaustive is not None:
            cov["exhaustive"] = bool(self.exhaustive)
        ev = {"property_id": self.prop, "tier": self.tier, "seed": self.seed, "level": self.level, "coverage": cov,
              "assumptions": self.assumptions, "wall_s": round(time.time() - self.t0, 2), "violations": reported}
        if self.replay_rec is None and not os.environ.get("VERIF_NO_EVIDENCE"):  # (set while trying seeded changes, so that a mutant run never replaces the evidence of the real tree)
            os.makedirs(os.path.join(VERIF, "evidence"), exist_ok=True)
            json.dump(ev, open(os.path.join(VERIF, "evidence", self.prop + ".json"), "w"), indent=1, default=str)
        print("%s tier=%s seed=%d obligations=%d/%d evaluations=%d nontrivial=%d violations=%d known=%d wall=%.1fs" % (
            self.prop, self.tier, self.seed, ndis, nobl, self.evaluations, len(self.nontrivial), reported, len(known_hit), time.time() - self.t0))
        if self.replay_rec is not None:
            r = self.replay_rec
            canon = lambda x: json.dumps(x, sort_keys=True, default=str)
            if r.get("no_failing_input_found"):
                was = set(canon(b.get("theorem") or b.get("correspondence")) for b in (r.get("broken") or []))
                now = set(canon(b.get("theorem") or b.get("correspondence")) for b in self.broken)
                same = bool(was & now)
                what = "the recorded obligation / correspondence is %s broken" % ("still" if same else "no longer")
            else:
                same = any(v["kind"] == r.get("kind") and canon(v.get("input")) == canon(r.get("input")) for v in self.violations)
                alike = any(v["kind"] == r.get("kind") and v.get("call_site") == r.get("call_site") for v in self.violations)
                what = "the recorded input %s" % ("fails again in the same way" if same else ("does not fail; other inputs fail in the same way at the same call site" if alike else "does not fail"))
            print("REPLAY property=%s file=%s reproduced=%s (%s)" % (self.prop, getattr(self, "replay_path", None) or "", "yes" if same else "no", what))
            sys.stdout.flush()
            return 1 if same else 0
        sys.stdout.flush()
        return 1 if reported else 0


def hexf(x):
    return float(x).hex()


def load_replay(path):
    return json.load(open(path))
