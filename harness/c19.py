"""C19 — the numba atomic-orbital evaluator reproduces PySCF's values, gradients and Laplacians (molecules; periodic cells with k-point phases)."""
import math

import numpy as np

from common import Check

THEOREMS = ["C19_gradient_tables_are_the_derivatives", "C19_solid_harmonics_are_harmonic", "C19_solid_harmonics_are_homogeneous", "C19_tables_cover_l0_to_l5",
            "C19_radial_gradient_and_laplacian", "C19_product_rule_assembly", "C19_lattice_image_filter_is_complete"]
S_M = "pyqmc/wf/numba/gto.py:AtomicOrbitalEvaluator.eval_gto"
S_P = "pyqmc/wf/numba/pbcgto.py:PeriodicAtomicOrbitalEvaluator.eval_gto"
S_W = "pyqmc/wf/orbitals.py (evaluate_orbitals_with)"
ELEMS = ["H", "He", "Li", "C", "N", "O"]


def random_basis(rng, lmax, nshell, emin=0.05, emax=60.0, maxprim=4):
    shells = []
    ls = [int(x) for x in rng.integers(0, lmax + 1, size=nshell)]
    ls[0] = lmax
    for l in sorted(ls):
        nprim = int(rng.integers(1, maxprim + 1))
        es = np.exp(rng.uniform(math.log(emin), math.log(emax), size=nprim))
        es = np.sort(es)[::-1]
        cs = rng.normal(size=nprim)
        cs[np.abs(cs) < 0.05] = 0.3
        shells.append([l] + [[float(e), float(c)] for e, c in zip(es, cs)])
    return shells


def random_mol(rng, lmax, periodic=False, emin=0.05):
    import pyscf.gto
    import pyscf.pbc.gto
    nat = int(rng.integers(1, 4))
    elems = [ELEMS[int(i)] for i in rng.integers(0, len(ELEMS), size=nat)]
    basis = {el: random_basis(rng, int(rng.integers(0, lmax + 1)) if i else lmax, int(rng.integers(1, 4)), emin=emin) for i, el in enumerate(dict.fromkeys(elems))}
    if periodic:
        a = float(rng.uniform(4.0, 7.0))
        lat = np.array([[a, 0, 0], [0.2 * a, 0.95 * a, 0], [-0.15 * a, 0.1 * a, 1.1 * a]]) if rng.random() < 0.6 else np.eye(3) * a
        pos = rng.random((nat, 3)) @ lat
    else:
        lat = None
        pos = rng.normal(size=(nat, 3)) * 1.5
    atom = [[el, tuple(p)] for el, p in zip(elems, pos)]
    nel = sum({"H": 1, "He": 2, "Li": 3, "C": 6, "N": 7, "O": 8}[e] for e in elems)
    kw = dict(atom=atom, basis=basis, unit="B", spin=nel % 2, verbose=0)
    if periodic:
        return pyscf.pbc.gto.M(a=lat, **kw), basis
    return pyscf.gto.M(**kw), basis


def points(rng, mol, n, lat=None):
    A = mol.atom_coords()
    p = [A[rng.integers(0, len(A), size=n // 4)] + rng.normal(size=(n // 4, 3)) * 1e-3,          # on top of nuclei
         A[rng.integers(0, len(A), size=n // 4)] + rng.normal(size=(n // 4, 3)) * 0.7,
         rng.normal(size=(n // 4, 3)) * 4.0,
         rng.normal(size=(n // 4, 3)) * 15.0]                                                        # far tails
    p = np.concatenate(p)
    if lat is not None:
        # the periodic evaluator is handed coordinates already wrapped into the primitive cell (orbitals.py does that): fractions in [0, 1),
        # including faces / edges / corners at fraction 0 and points a hair inside the far faces
        f = rng.random((n, 3))
        f[: n // 4] = (np.round(f[: n // 4] * 2) / 2) % 1.0
        f[n // 4: n // 2] = np.where(rng.random((n // 4, 3)) < 0.5, 1 - 1e-12, f[n // 4: n // 2])
        fa = (mol.atom_coords() @ np.linalg.inv(lat)) % 1.0
        f[n // 2: 3 * n // 4] = (fa[rng.integers(0, len(fa), size=n // 4)] + rng.normal(size=(n // 4, 3)) * 0.01) % 1.0
        p = f @ lat
    return p


def pyscf_ref(mol, pts):
    ao = mol.eval_gto("GTOval_sph_deriv2", pts)
    return np.array([ao[0], ao[1], ao[2], ao[3], ao[4] + ao[7] + ao[9]])


def compare(ck, site, inp, got, ref, tol):
    """got/ref: (5 or fewer, npts, nao)"""
    bad = []
    names = ["value", "d/dx", "d/dy", "d/dz", "laplacian"]
    worst = 0.0
    if got.shape != ref.shape:
        ck.violation("orbital_array_shape", site, inp, expected=list(ref.shape), got=list(got.shape))
        return 1.0
    for c in range(got.shape[0]):
        scale = np.maximum(1.0, np.max(np.abs(ref[c]), axis=0, keepdims=True))
        err = np.abs(got[c] - ref[c]) / scale
        e = float(np.max(err)) if err.size else 0.0
        worst = max(worst, e)
        if not np.isfinite(e) or e > tol:
            i, j = np.unravel_index(int(np.argmax(np.where(np.isfinite(err), err, np.inf))), err.shape)
            bad.append((names[c], e, {"point": int(i), "orbital": int(j), "got": complex(got[c][i, j]).__repr__(), "pyscf": complex(ref[c][i, j]).__repr__()}))
    if bad:
        ck.violation("numba_orbitals_differ_from_pyscf", site, inp, expected="PySCF eval_gto", got=bad[:4], oracle="mol.eval_gto / cell.pbc_eval_gto (GTOval_sph_deriv2)")
    return worst


def check_mol(ck):
    import pyqmc.wf.numba.gto as ngto
    worst = 0.0
    ldist = {}
    for it in range(40 if ck.thorough else 14):
        lmax = int(it % 6)
        mol, basis = random_mol(ck.rng, lmax)
        pts = points(ck.rng, mol, 64 if ck.thorough else 32)
        inp = {"atoms": [(a[0], list(map(float, a[1]))) for a in mol._atom], "basis": basis, "lmax": lmax}
        ldist[lmax] = ldist.get(lmax, 0) + 1
        def run():
            ev = ngto.AtomicOrbitalEvaluator(mol)
            v = np.asarray(ev.eval_gto("GTOval_sph", pts))
            g = np.asarray(ev.eval_gto("GTOval_sph_deriv1", pts))
            l = np.asarray(ev.eval_gto("GTOval_sph_deriv2", pts))
            return v, g, l
        ok, res = ck.guarded(run, "mol", S_M, inp)
        ck.case(("mol", it), nontrivial=True)
        if not ok:
            continue
        v, g, l = res
        ref = pyscf_ref(mol, pts)
        worst = max(worst, compare(ck, S_M, dict(inp, call="GTOval_sph"), v[None], ref[:1], 2e-11))
        worst = max(worst, compare(ck, S_M, dict(inp, call="GTOval_sph_deriv1"), g, ref[:4], 2e-11))
        worst = max(worst, compare(ck, S_M, dict(inp, call="GTOval_sph_deriv2"), l, ref, 2e-10))
        if it < 3:
            ck.sample({"atoms": [a[0] for a in mol._atom], "nao": int(ref.shape[2]), "lmax": lmax})
    ck.stats["mol_worst_scaled_error"] = worst
    ck.stats["mol_cases_by_lmax"] = ldist
    # angular momentum above the tables: refused, or right
    import pyscf.gto
    mol6 = pyscf.gto.M(atom="C 0 0 0", basis={"C": [[6, [0.8, 1.0]], [0, [1.1, 1.0]]]}, unit="B", verbose=0)
    pts = ck.rng.normal(size=(8, 3))
    ck.case(("mol", "l6"), nontrivial=True)
    try:
        v = np.asarray(ngto.AtomicOrbitalEvaluator(mol6).eval_gto("GTOval_sph", pts))
        ref = mol6.eval_gto("GTOval_sph", pts)
        if v.shape != ref.shape or not np.allclose(v, ref, rtol=0, atol=1e-10):
            ck.violation("numba_orbitals_differ_from_pyscf", S_M, {"basis": "one i shell (l = 6) and one s shell on C", "call": "GTOval_sph"}, expected="refusal or PySCF's values", got={"max |numba|": float(np.max(np.abs(v[:, :13]))), "max |pyscf|": float(np.max(np.abs(ref[:, :13])))},
                         note="l = 6 is beyond the hard-coded tables (l <= 5) but the evaluator accepts the basis")
    except Exception as ex:  # a refusal is fine
        ck.count("l=6 basis refused: %s" % type(ex).__name__)


def check_pbc(ck):
    import pyqmc.wf.numba.pbcgto as npbc
    worst = 0.0
    for it in range(14 if ck.thorough else 5):
        lmax = [2, 0, 3, 1, 4, 5][it % 6]
        cell, basis = random_mol(ck.rng, lmax, periodic=True, emin=0.25)
        lat = cell.lattice_vectors()
        nk = int(ck.rng.integers(1, 4))
        kpts = cell.make_kpts((2, 2, 2))[ck.rng.choice(8, size=nk, replace=False)] if it % 2 else (ck.rng.random((nk, 3)) - 0.5) @ (2 * np.pi * np.linalg.inv(lat).T)
        if it == 0:
            kpts = np.zeros((1, 3))
        pts = points(ck.rng, cell, 32, lat=lat)
        prec = 1e-9
        inp = {"lattice": lat.tolist(), "atoms": [(a[0], list(map(float, a[1]))) for a in cell._atom], "basis": basis, "kpts": np.asarray(kpts).tolist(), "eval_gto_precision": prec}
        def run():
            ev = npbc.PeriodicAtomicOrbitalEvaluator(cell, kpts=np.asarray(kpts), eval_gto_precision=prec)
            return np.asarray(ev.eval_gto("GTOval_sph_deriv2", pts)), np.asarray(ev.eval_gto("GTOval_sph", pts)), np.asarray(ev.eval_gto("GTOval_sph_deriv1", pts))
        ok, res = ck.guarded(run, "pbc", S_P, inp)
        ck.case(("pbc", it), nontrivial=True)
        if not ok:
            continue
        l, v, g = res
        cell.precision = 1e-12
        cell.rcut = max(cell.rcut, 40.0)
        ref = np.asarray(cell.pbc_eval_gto("GTOval_sph_deriv2", pts, kpts=np.asarray(kpts)))  # (nk, 10, n, nao)
        ref5 = np.stack([ref[:, 0], ref[:, 1], ref[:, 2], ref[:, 3], ref[:, 4] + ref[:, 7] + ref[:, 9]], axis=1)
        # numba layout: (nk, comp, n, nao) for derivatives, (nk, n, nao) for values
        for kk in range(len(kpts)):
            worst = max(worst, compare(ck, S_P, dict(inp, call="GTOval_sph_deriv2", kpoint=kk), l[kk], ref5[kk], 1e-7))
            worst = max(worst, compare(ck, S_P, dict(inp, call="GTOval_sph", kpoint=kk), v[kk][None], ref5[kk][:1], 1e-7))
            worst = max(worst, compare(ck, S_P, dict(inp, call="GTOval_sph_deriv1", kpoint=kk), g[kk], ref5[kk][:4], 1e-7))
        if it < 2:
            ck.sample({"pbc_atoms": [a[0] for a in cell._atom], "nk": len(kpts), "lmax": lmax})
    # directed case (own random stream): two elements whose FIRST shells have very different ranges — a tight s shell on the first atom, diffuse s and p
    # shells on the second — evaluated 1.5-4.5 bohr from the second atom, where only its diffuse shells contribute. A per-shell cutoff looked up at
    # the wrong index (without the atom's offset) silences exactly these contributions; random basis sets expose it only for some seeds.
    import pyscf.pbc.gto
    drng = np.random.default_rng(424242)
    for order in (0, 1):
        tight, diffuse = [[0, [8.0, 1.0]], [1, [6.0, 1.0]]], [[0, [0.30, 1.0]], [1, [0.45, 1.0]], [2, [0.6, 1.0]]]
        atoms = [("H", (0.1, 0.2, 0.0)), ("He", (2.6, 2.1, 1.7))]
        basis = {"H": tight, "He": diffuse}
        if order:
            atoms = atoms[::-1]
        lat = np.array([[6.0, 0.0, 0.0], [0.8, 6.2, 0.0], [0.3, 0.5, 6.4]])
        cell = pyscf.pbc.gto.M(a=lat, atom=[(el, tuple(c)) for el, c in atoms], basis=basis, unit="B", spin=1, verbose=0)
        he = np.array(dict(atoms)["He"])
        dirs = drng.normal(size=(24, 3))
        dirs /= np.linalg.norm(dirs, axis=1)[:, None]
        raw = he + dirs * drng.uniform(1.5, 4.5, size=(24, 1))
        pts = ((raw @ np.linalg.inv(lat)) % 1.0) @ lat
        kpts = np.array([[0.0, 0.0, 0.0], (np.array([0.25, -0.4, 0.1]) @ (2 * np.pi * np.linalg.inv(lat).T))])
        prec = 1e-9
        inp = {"lattice": lat.tolist(), "atoms": [(el, list(map(float, c))) for el, c in atoms], "basis": basis, "kpts": kpts.tolist(), "eval_gto_precision": prec, "directed": "first shells of different range"}

        def run_d():
            ev = npbc.PeriodicAtomicOrbitalEvaluator(cell, kpts=kpts, eval_gto_precision=prec)
            return np.asarray(ev.eval_gto("GTOval_sph_deriv2", pts)), np.asarray(ev.eval_gto("GTOval_sph", pts)), np.asarray(ev.eval_gto("GTOval_sph_deriv1", pts))
        ok, res = ck.guarded(run_d, "pbc", S_P, inp)
        ck.case(("pbc_directed", order), nontrivial=True)
        if not ok:
            continue
        l, v, g = res
        cell.precision = 1e-12
        cell.rcut = max(cell.rcut, 40.0)
        ref = np.asarray(cell.pbc_eval_gto("GTOval_sph_deriv2", pts, kpts=kpts))
        ref5 = np.stack([ref[:, 0], ref[:, 1], ref[:, 2], ref[:, 3], ref[:, 4] + ref[:, 7] + ref[:, 9]], axis=1)
        for kk in range(len(kpts)):
            worst = max(worst, compare(ck, S_P, dict(inp, call="GTOval_sph_deriv2", kpoint=kk), l[kk], ref5[kk], 1e-7))
            worst = max(worst, compare(ck, S_P, dict(inp, call="GTOval_sph", kpoint=kk), v[kk][None], ref5[kk][:1], 1e-7))
            worst = max(worst, compare(ck, S_P, dict(inp, call="GTOval_sph_deriv1", kpoint=kk), g[kk], ref5[kk][:4], 1e-7))
    ck.stats["pbc_worst_scaled_error"] = worst


def check_wf(ck):
    """choosing one or the other evaluator does not change the wave function"""
    import wfzoo
    from pyqmc.wf.slater import Slater
    import pyqmc.api as pyq
    mol, mf = wfzoo.lih_ecp()
    cfg = wfzoo.walkers(mol, 6, ck.rng)
    inp = {"system": "LiH ccECP/cc-pVDZ"}
    def run():
        a = Slater(mol, mf, evaluate_orbitals_with="pyscf")
        b = Slater(mol, mf, evaluate_orbitals_with="numba")
        va, vb = a.recompute(cfg), b.recompute(cfg)
        ga, gb = a.gradient_laplacian(0, cfg.electron(0)), b.gradient_laplacian(0, cfg.electron(0))
        return va, vb, ga, gb
    ok, res = ck.guarded(run, "wf", S_W, inp)
    ck.case(("wf", "mol"), nontrivial=True)
    if ok:
        va, vb, ga, gb = res
        if not (np.allclose(va[0], vb[0]) and np.allclose(va[1], vb[1], rtol=0, atol=1e-9) and np.allclose(ga[0], gb[0], rtol=1e-8, atol=1e-9) and np.allclose(ga[1], gb[1], rtol=1e-8, atol=1e-8)):
            ck.violation("evaluator_choice_changes_wave_function", S_W, inp, expected="same value, gradient, Laplacian", got={"dlog": float(np.max(np.abs(np.asarray(va[1]) - np.asarray(vb[1]))))})
    cell, kmf = wfzoo.h_pbc_tri()
    sup = pyq.get_supercell(cell, S=np.array([[1, 1, 0], [-1, 1, 0], [0, 0, 1]]))
    cfgp = wfzoo.walkers(sup, 5, ck.rng)
    cfgp.wrap += ck.rng.integers(-1, 2, size=cfgp.wrap.shape)
    for tw in (0, 1):
        inp = {"system": "triclinic H2 cell, supercell [[1,1,0],[-1,1,0],[0,0,1]]", "twist": tw}
        def runp():
            a = Slater(sup, kmf, twist=tw, eval_gto_precision=1e-8, evaluate_orbitals_with="pyscf")
            b = Slater(sup, kmf, twist=tw, eval_gto_precision=1e-8, evaluate_orbitals_with="numba")
            va, vb = a.recompute(cfgp), b.recompute(cfgp)
            ga, gb = a.gradient_laplacian(1, cfgp.electron(1)), b.gradient_laplacian(1, cfgp.electron(1))
            return va, vb, ga, gb
        ok, res = ck.guarded(runp, "wf", S_W, inp)
        ck.case(("wf", "pbc", tw), nontrivial=True)
        if ok:
            va, vb, ga, gb = res
            ratio = (np.asarray(vb[0]) / np.asarray(va[0])) * np.exp(np.asarray(vb[1]) - np.asarray(va[1]))
            if not (np.allclose(ratio, 1.0, rtol=0, atol=1e-6) and np.allclose(ga[0], gb[0], rtol=1e-5, atol=1e-6) and np.allclose(ga[1], gb[1], rtol=1e-5, atol=1e-5)):
                ck.violation("evaluator_choice_changes_wave_function", S_W, inp, expected="same value, gradient, Laplacian (to the requested orbital precision)", got={"psi ratio": [complex(x).__repr__() for x in ratio]})


def check_translation(ck, tables):
    """the polynomials the translator extracted from spherical_harmonics.py against the running evaluator: one atom at the origin with one
    primitive shell per l = 0..5, so that orbital / radial part = table entry (the compiled table routines are not called directly: a direct
    call from Python compiles a second specialisation that breaks numba's first-class function dispatch inside the evaluator)"""
    import pyscf.gto
    import pyqmc.wf.numba.gto as ngto
    if not tables:
        return
    alpha = 0.37
    mol = pyscf.gto.M(atom="C 0 0 0", basis={"C": [[l, [alpha, 1.0]] for l in range(6)]}, unit="B", verbose=0)
    n = 40
    pts = ck.rng.normal(size=(n, 3)) * ck.rng.choice([0.3, 1.0, 2.0], size=(n, 1))
    def run():
        ev = ngto.AtomicOrbitalEvaluator(mol)
        return ev, np.asarray(ev.eval_gto("GTOval_sph_deriv1", pts))
    ok, res = ck.guarded(run, "tables", S_M, {"basis": "one primitive per l = 0..5 on one atom"})
    ck.case(("tables",), nontrivial=True)
    if not ok:
        return
    ev, g = res  # (4, n, 36)
    worst = 0.0
    r2 = np.sum(pts ** 2, axis=1)
    col = 0
    for l in range(6):
        c0, c1 = ev.basis_arrays[ev.splits[l]: ev.splits[l + 1]][0]
        rad = c1 * np.exp(-c0 * r2)
        drad = -2 * c0 * pts * rad[:, None]
        for b in range(2 * l + 1):
            i = l * l + b
            Y = np.array([tables["values"][i].eval(*p) for p in pts])
            dY = np.array([[tables[k][i].eval(*p) for k in ("dx", "dy", "dz")] for p in pts])
            ref = np.concatenate([(Y * rad)[None], (dY * rad[:, None] + Y[:, None] * drad).T])
            err = float(np.max(np.abs(g[:, :, col] - ref) / np.maximum(1e-3, np.max(np.abs(ref)))))
            worst = max(worst, err)
            if err > 1e-10:
                ck.correspondence_broken("translator gen_sph.py vs the running evaluator", "table entry %d (l=%d) differs by %g" % (i, l, err))
                return
            col += 1
    ck.stats["translator_validation_worst_error"] = worst
    # the same one-shell-per-l orbitals against PySCF, each orbital and component on its own scale (the sharpest view of single table entries)
    ref = pyscf_ref(mol, pts)
    worst_rel = 0.0
    for c in range(4):
        scale = np.max(np.abs(ref[c]), axis=0, keepdims=True)
        rel = np.abs(g[c] - ref[c]) / np.maximum(scale, 1e-300)
        rel = np.where(scale > 1e-8, rel, 0.0)
        worst_rel = max(worst_rel, float(np.max(rel)))
        if np.max(rel) > 1e-11:
            i, j = np.unravel_index(int(np.argmax(rel)), rel.shape)
            ck.violation("numba_orbitals_differ_from_pyscf", S_M, {"basis": "one primitive (exponent %g) per l = 0..5 on one atom at the origin" % alpha, "point": pts[i].tolist(), "orbital": int(j), "component": ["value", "d/dx", "d/dy", "d/dz"][c]},
                         expected=float(ref[c][i, j]), got=float(g[c][i, j]), oracle="mol.eval_gto, error relative to the largest value of that orbital component over the points")
            break
    ck.stats["single_shell_worst_relative_error"] = worst_rel


def main(argv):
    ck = Check("C19", argv)
    ck.rule = ("molecules: random 1-3 atom molecules with random segmented-contraction basis sets (1-3 shells per element, l = 0..5 (every l as the maximum), 1-4 primitives, exponents 0.05-60, random contraction coefficients) "
               "at points on top of nuclei, near them, at 4 and 15 bohr: values, gradients and Laplacians of AtomicOrbitalEvaluator against mol.eval_gto; an l = 6 basis; "
               "periodic: random cubic/triclinic cells, random k-points (Gamma, mesh points, arbitrary) at points inside, on faces/corners and outside the cell against cell.pbc_eval_gto; "
               "Slater wave functions built with either evaluator (molecule with pseudopotential; triclinic supercell with two twists). gen/Sph_Gen.v regenerated from spherical_harmonics.py and re-checked.")
    ck.trusted = ["Coq 8.16.1 kernel + vm_compute", "Coq Reals/Coquelicot axioms", "translator/gen_sph.py", "PySCF (libcint) as the reference evaluator", "harness/c19.py"]
    ck.assumptions = ["errors are scaled by max(1, largest |reference| of that orbital over the points)", "periodic comparison at eval_gto_precision = 1e-9 with tolerance 1e-7 (both codes truncate lattice sums)",
                      "general contractions are outside the property (segmented contractions only)"]
    tables = ck.translate("gen_sph")
    ck.coq_build("C19", THEOREMS)
    if not ck.replay:
        check_translation(ck, tables)
        check_mol(ck)
        check_pbc(ck)
        check_wf(ck)
    return ck.finish()
