import importlib
import sys
import os
sys.path.insert(0, os.path.dirname(os.path.abspath(__file__)))

def main():
    import logging
    logging.disable(logging.CRITICAL)
    prop = sys.argv[1]
    try:
        import jax
        jax.config.update('jax_enable_x64', True)  # the JAX classes are single precision otherwise; finite-difference oracles need doubles
    except Exception:
        pass
    mod = importlib.import_module(prop.lower())
    rc = mod.main(sys.argv[2:])
    sys.exit(rc)

main()
