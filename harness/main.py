import importlib
import sys
import os
sys.path.insert(0, os.path.dirname(os.path.abspath(__file__)))

def main():
    import logging
    logging.disable(logging.CRITICAL)
    prop = sys.argv[1]
    try:
        import jax
        jax.config.update('jax_enable_x64', True)  # the JAX classes are single precision otherwise; finite-difference oracles need doubles
    except Exception:
        pass
    mod = importlib.import_module(prop.lower())
    try:
        rc = mod.main(sys.argv[2:])
    except SystemExit:
        raise
    except BaseException as ex:  # an exception that escaped every guard: the implementation (or the harness) failed outside a guarded call
        import json
        import traceback
        verif = os.path.dirname(os.path.dirname(os.path.abspath(__file__)))
        os.makedirs(os.path.join(verif, "replays"), exist_ok=True)
        path = os.path.join(verif, "replays", "%s_unguarded_exception.json" % prop)
        tb = traceback.format_exc()
        in_repo = [l.strip() for l in tb.splitlines() if 'File "' in l and "/verif/" not in l]
        json.dump({"property": prop, "kind": "exception_outside_guard", "exception": repr(ex)[:500], "traceback_tail": tb[-3000:],
                   "innermost_frame_outside_verif": in_repo[-1] if in_repo else None, "argv": sys.argv[1:]}, open(path, "w"), indent=1)
        print("VIOLATION property=%s replay=%s kind=exception_outside_guard %s" % (prop, path, repr(ex)[:120].replace("\n", " ")))
        rc = 1
    sys.exit(rc)

main()
