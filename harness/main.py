import importlib
import sys
import os
sys.path.insert(0, os.path.dirname(os.path.abspath(__file__)))

def main():
    import logging
    logging.disable(logging.CRITICAL)
    prop = sys.argv[1]
    mod = importlib.import_module(prop.lower())
    rc = mod.main(sys.argv[2:])
    sys.exit(rc)

main()
