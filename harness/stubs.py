"""Stub wave functions, recording accumulators and an in-process futures client used to drive the real
pyqmc drivers (vmc_worker, vmc_parallel, dmc_propagate, rundmc, ...) without touching /repo."""
import sys

import numpy as np


class GaussWF:
    """Psi(R) = prod_e exp(-alpha |r_e - c|^2 / 2) * (1 + beta x_e) optionally complex phase exp(i k.r).
    Closed-form value, gradient, Laplacian and ratios; keeps its own coordinate copy like the real classes."""

    def __init__(self, alpha=0.7, beta=0.0, kvec=None, center=0.0):
        self.parameters = {"alpha": np.array([float(alpha)])}
        self.beta = beta
        self.kvec = None if kvec is None else np.asarray(kvec, dtype=float)
        self.center = center
        self.dtype = complex if kvec is not None else float
        self.nupdates = 0

    @property
    def alpha(self):
        return float(np.asarray(self.parameters["alpha"]).ravel()[0])

    def _psi1(self, r):
        # r (..., 3)
        d = r - self.center
        v = np.exp(-0.5 * self.alpha * np.sum(d * d, axis=-1)) * (1.0 + self.beta * d[..., 0])
        if self.kvec is not None:
            v = v * np.exp(1j * (r @ self.kvec))
        return v

    def _grad1(self, r):
        # grad ln psi (..., 3)
        d = r - self.center
        g = -self.alpha * d
        g = g.astype(self.dtype)
        g[..., 0] = g[..., 0] + self.beta / (1.0 + self.beta * d[..., 0])
        if self.kvec is not None:
            g = g + 1j * self.kvec
        return g

    def recompute(self, configs):
        self.c = configs.configs.copy()
        return self.value()

    def value(self):
        v = np.prod(self._psi1(self.c), axis=1)
        return v / np.abs(v), np.log(np.abs(v))

    def gradient(self, e, epos):
        return self._grad1(epos.configs).T

    def gradient_value(self, e, epos):
        ratio = self._psi1(epos.configs) / self._psi1(self.c[:, e])
        return self._grad1(epos.configs).T, ratio, None

    def testvalue(self, e, epos, mask=None):
        if mask is None:
            mask = np.ones(self.c.shape[0], dtype=bool)
        old = self._psi1(self.c[mask, e])
        new = self._psi1(epos.configs[mask])
        if new.ndim == 2:
            old = old[:, np.newaxis]
        return new / old, None

    def gradient_laplacian(self, e, epos):
        g = self._grad1(epos.configs)
        d = epos.configs - self.center
        lap_ln = -3.0 * self.alpha - (self.beta / (1.0 + self.beta * d[..., 0])) ** 2
        return g.T, lap_ln + np.sum(g * g, axis=-1)

    def laplacian(self, e, epos):
        return self.gradient_laplacian(e, epos)[1]

    def updateinternals(self, e, epos, configs, mask=None, saved_values=None):
        if mask is None:
            mask = np.ones(self.c.shape[0], dtype=bool)
        self.c[mask, e] = epos.configs[mask]
        self.nupdates += 1

    def pgradient(self):
        d = self.c - self.center
        return {"alpha": (-0.5 * np.sum(d * d, axis=(1, 2)))[:, np.newaxis]}


CURRENT_TASK = [0]


class FakeFuture:
    def __init__(self, v):
        self.v = v

    def result(self):
        return self.v


class FakeClient:
    """submit() runs the task immediately in-process; tasks are numbered so that recorders can tag their logs"""

    def __init__(self):
        self.ntasks = 0

    def submit(self, fn, *a, **k):
        self.ntasks += 1
        CURRENT_TASK[0] = self.ntasks
        try:
            return FakeFuture(fn(*a, **k))
        finally:
            CURRENT_TASK[0] = 0


class RecAcc:
    """Recording accumulator: observable = fn(coords) -> dict key -> (nconf, ...) array. Logs per-walker values,
    the task it was called from, and (for DMC) the caller's current weight array."""

    def __init__(self, fn, shapes, log, reuse=False):
        self.fn = fn
        self._shapes = shapes
        self.log = log
        self.reuse = reuse  # hand back the SAME arrays on every avg() call (a preallocated output buffer): a driver must not write into them
        self._buf = {}

    def __call__(self, configs, wf):
        d = self.fn(configs.configs)
        w = None
        f = sys._getframe(1)
        for _ in range(3):
            if f is None:
                break
            if f.f_code.co_name == "dmc_propagate":
                w = np.array(f.f_locals["weights"], dtype=float).copy()
                break
            f = f.f_back
        self.log.append({"task": CURRENT_TASK[0], "vals": {k: np.array(v).copy() for k, v in d.items()}, "weights": w, "how": "call"})
        return d

    def avg(self, configs, wf):
        d = self(configs, wf)
        self.log[-1]["how"] = "avg"
        out = {k: np.mean(v, axis=0) for k, v in d.items()}
        if self.reuse:
            for k, v in out.items():
                b = self._buf.setdefault(k, np.zeros(np.shape(v), dtype=np.asarray(v).dtype))
                b[...] = v
                out[k] = b
        return out

    def keys(self):
        return set(self._shapes.keys())

    def shapes(self):
        return dict(self._shapes)

    def has_nonlocal_moves(self):
        return False


class CosWF(GaussWF):
    """lattice-periodic closed-form wave function: ln Psi = A sum_e sum_d cos(G_d . r_e) (+ optional Bloch phase k.r)"""

    def __init__(self, lattice, amp=0.6, kvec=None):
        GaussWF.__init__(self, alpha=0.0, kvec=kvec)
        self.G = 2 * np.pi * np.linalg.inv(np.asarray(lattice, dtype=float)).T  # rows: reciprocal vectors
        self.amp = amp

    def _psi1(self, r):
        ph = r @ self.G.T
        v = np.exp(self.amp * np.sum(np.cos(ph), axis=-1))
        if self.kvec is not None:
            v = v * np.exp(1j * (r @ self.kvec))
        return v

    def _grad1(self, r):
        ph = r @ self.G.T
        g = -self.amp * np.sin(ph) @ self.G
        g = g.astype(self.dtype)
        if self.kvec is not None:
            g = g + 1j * self.kvec
        return g

    def gradient_laplacian(self, e, epos):
        g = self._grad1(epos.configs)
        ph = epos.configs @ self.G.T
        lap_ln = -self.amp * np.sum(np.cos(ph) * np.sum(self.G * self.G, axis=1), axis=-1)
        return g.T, lap_ln + np.sum(g * g, axis=-1)

    def pgradient(self):
        return {}
