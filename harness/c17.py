"""C17 — supercells contain |det S| distinct images; twists partition the k-mesh."""
import itertools
import json
import math

import numpy as np

from common import Check, zlit, coq_list

THEOREMS = ["C17_copies_are_the_cell_points", "C17_copies_distinct_mod_supercell", "C17_copies_NoDup",
            "C17_card_is_abs_det_entries_le_2_partial", "C17_atom_count", "C17_same_twist_iff_reciprocal_vector",
            "C17_twists_partition", "C17_twist_keys", "C17_exclusive_box_refuted", "C17_nontrivial_instance", "C17_card_is_abs_det_for_diagonal_S"]
SITE_COPIES = "pyqmc/pbc/supercell.py:get_supercell_copies"
SITE_CELL = "pyqmc/pbc/supercell.py:get_supercell"
SITE_TW = "pyqmc/pbc/twists.py:create_supercell_twists"


def det3(S):
    a, b, c, d, e, f, g, h, i = [int(x) for x in np.asarray(S).ravel()]
    return a * (e * i - f * h) - b * (d * i - f * g) + c * (d * h - e * g)


def adj3(S):
    a, b, c, d, e, f, g, h, i = [int(x) for x in np.asarray(S).ravel()]
    return np.array([[e * i - f * h, c * h - b * i, b * f - c * e],
                     [f * g - d * i, a * i - c * g, c * d - a * f],
                     [d * h - e * g, b * g - a * h, a * e - b * d]], dtype=object)


def impl_copies(S):
    import pyqmc.pbc.supercell as sc
    pts = sc.get_supercell_copies(np.eye(3), np.asarray(S, dtype=float))
    r = np.rint(pts)
    ok_int = bool(np.all(np.abs(pts - r) < 1e-9))
    return sorted(tuple(int(x) for x in row) for row in r), ok_int


def oracle_copies(ck, S, pts, ok_int):
    """the property on the implementation's output, in exact integer arithmetic"""
    dt = det3(S)
    inp = {"S": [int(x) for x in np.asarray(S).ravel()]}
    good = True
    if not ok_int:
        ck.violation("copies_not_lattice_translates", SITE_COPIES, inp, expected="integer combinations of primitive vectors", got=pts[:5])
        return False
    if len(pts) != abs(dt):
        ck.violation("copies_count", SITE_COPIES, inp, expected=abs(dt), got=len(pts), oracle="|det S| images")
        good = False
    A = adj3(S)
    seen = {}
    for n in pts:
        v = tuple(int(sum(n[k] * A[k][j] for k in range(3))) % abs(dt) for j in range(3))  # class of n modulo Z^3 S
        if v in seen:
            ck.violation("copies_not_distinct", SITE_COPIES, inp, expected="pairwise distinct modulo the supercell lattice", got=[seen[v], n])
            good = False
            break
        seen[v] = n
    return good


def mats_cube(k):
    r = range(-k, k + 1)
    for t in itertools.product(r, repeat=9):
        yield np.array(t).reshape(3, 3)


def worker_chunk(args):
    """thorough tier: run the implementation + exact oracle on a chunk of the {-2..2}^9 cube; returns failures"""
    import sys
    sys.path.insert(0, "/repo")
    a, b = args
    bad = []
    n = 0
    for t in itertools.product(range(-2, 3), repeat=7):
        S = np.array((a, b) + t).reshape(3, 3)
        dt = det3(S)
        if dt == 0:
            continue
        n += 1
        try:
            pts, ok_int = impl_copies(S)
        except Exception as e:  # noqa
            bad.append((S.ravel().tolist(), "exception %r" % e))
            continue
        if not ok_int or len(pts) != abs(dt) or len(set(pts)) != len(pts):
            bad.append((S.ravel().tolist(), "count %d vs |det| %d" % (len(pts), abs(dt))))
    return n, bad[:5]


def check_copies(ck):
    mats = []
    if ck.replay:
        rec = json.load(open(ck.replay))
        if rec.get("call_site") == SITE_COPIES:
            mats = [np.array(rec["input"]["S"]).reshape(3, 3)]
        else:
            return
    else:
        mats = [np.array(t).reshape(3, 3) for t in ([-1, 0, 0, 0, -1, 0, 0, 0, -1],)]  # corpus: F3 witness
        mats += [S for S in mats_cube(1)]
        nrand = 20000 if ck.thorough else 2000
        for _ in range(nrand):
            k = int(ck.rng.integers(2, 6))
            mats.append(ck.rng.integers(-k, k + 1, size=(3, 3)))
    exprs, todo = [], []
    dist = {"singular_skipped": 0, "negative_det": 0, "abs_det_hist": {}}
    for S in mats:
        dt = det3(S)
        if dt == 0:
            dist["singular_skipped"] += 1
            continue
        inp = {"S": [int(x) for x in S.ravel()]}
        ok, res = ck.guarded(lambda: impl_copies(S), "copies", SITE_COPIES, inp)
        ck.case(tuple(inp["S"]), nontrivial=abs(dt) > 1 or bool(np.any(S < 0)))
        dist["negative_det"] += int(dt < 0)
        dist["abs_det_hist"][abs(dt)] = dist["abs_det_hist"].get(abs(dt), 0) + 1
        if not ok:
            continue
        pts, ok_int = res
        good = oracle_copies(ck, S, pts, ok_int)
        if len(todo) < 3:
            ck.sample({"S": inp["S"], "det": dt, "copies": pts[:6]})
        exprs.append("copies true (%s)" % ", ".join(zlit(x) for x in inp["S"]))
        todo.append((inp["S"], pts, good))
    vals = ck.coq_eval("copies", ["C17.Model"], exprs)
    nmis = 0
    for (S, pts, good), v in zip(todo, vals):
        if v is None:
            continue
        if sorted(tuple(x) for x in v) != pts:
            nmis += 1
            if good and nmis <= 3:
                ck.correspondence_broken("C17 model copies vs get_supercell_copies", json.dumps({"S": S, "model": v, "impl": pts}))
    ck.stats["copies_model_vs_impl_compared"] = len(todo)
    ck.stats["copies_model_vs_impl_mismatch"] = nmis
    ck.stats["copies_input_distribution"] = dist
    # non-trivial primitive lattice: returned Cartesian points are n . latvec
    import pyqmc.pbc.supercell as sc
    for _ in range(20):
        L = ck.rng.normal(size=(3, 3)) + 3 * np.eye(3)
        S = ck.rng.integers(-2, 3, size=(3, 3))
        if det3(S) == 0:
            continue
        ok, pts = ck.guarded(lambda: sc.get_supercell_copies(L, S.astype(float)), "copies", SITE_COPIES, {"S": S.ravel().tolist()})
        if not ok:
            continue
        n = np.linalg.solve(L.T, pts.T).T
        if not np.allclose(n, np.rint(n), atol=1e-9, rtol=0) or len(pts) != abs(det3(S)):
            ck.violation("copies_general_lattice", SITE_COPIES, {"S": S.ravel().tolist(), "latvec": L.tolist()},
                         expected="|det S| primitive-lattice translates", got=n.tolist()[:4])
        ck.case(("L", tuple(S.ravel().tolist()), float(L[0, 0])))
    if ck.thorough and not ck.replay:
        import multiprocessing as mp
        with mp.Pool(16) as pool:
            res = pool.map(worker_chunk, [(a, b) for a in range(-2, 3) for b in range(-2, 3)])
        tot = sum(r[0] for r in res)
        ck.evaluations += tot
        ck.stats["exhaustive_cube2_nonsingular_checked_on_impl"] = tot
        for n_, bad in res:
            for S, msg in bad:
                ck.violation("copies_count", SITE_COPIES, {"S": S}, expected="|det S| distinct integer images", got=msg)
        ck.exhaustive = True


def build_cell(kind, charge=0, spin=0):
    from pyscf.pbc import gto
    cell = gto.Cell()
    if kind == "h2cubic":
        cell.atom = "H 0. 0. 0.; H 1.4 0.3 0."
        cell.a = np.eye(3) * 4.0
    elif kind == "lih_fcc":
        cell.atom = "Li 0. 0. 0.; H 1.9 1.9 1.9"
        cell.a = (np.ones((3, 3)) - np.eye(3)) * 3.8
    else:
        cell.atom = "H 0.1 0.2 0.3; He 1.0 1.5 0.2; H 2.0 0.2 1.9"
        cell.a = np.array([[4.0, 0.3, 0.0], [0.5, 3.5, 0.2], [-0.4, 0.6, 4.2]])
    cell.basis = "sto-3g"
    cell.unit = "bohr"
    cell.charge = charge
    cell.spin = spin
    cell.verbose = 0
    cell.build()
    return cell


def check_cell(ck):
    import pyqmc.pbc.supercell as sc
    Ss = [np.diag([2, 1, 1]), -np.eye(3, dtype=int), np.array([[1, 1, 0], [0, 1, 1], [1, 0, 1]]), np.array([[0, 1, 0], [1, 0, 0], [0, 0, 1]]),
          np.array([[1, -1, 0], [1, 1, 0], [0, 0, -2]]), np.array([[2, 0, 0], [1, 1, 0], [0, -1, 1]])]
    n_extra = 12 if ck.thorough else 3
    for _ in range(n_extra):
        while True:
            S = ck.rng.integers(-2, 3, size=(3, 3))
            if 0 < abs(det3(S)) <= 8:
                Ss.append(S)
                break
    cells = [("h2cubic", 0, 0), ("lih_fcc", 0, 0), ("tric3", 0, 0), ("h2cubic", -1, 1), ("lih_fcc", 1, 1)]
    if not ck.thorough:
        cells = cells[:2] + cells[3:4]
    for kind, charge, spin in cells:
        cell = build_cell(kind, charge, spin)
        Lp = cell.lattice_vectors()
        neutral = sum(cell.atom_charges())
        for S in Ss:
            dt = det3(S)
            inp = {"cell": kind, "charge": charge, "spin": spin, "S": [int(x) for x in S.ravel()]}
            ok, sup = ck.guarded(lambda: sc.get_supercell(cell, np.asarray(S)), "supercell", SITE_CELL, inp)
            ck.case((kind, charge, tuple(inp["S"])), nontrivial=abs(dt) > 1 or bool(np.any(S < 0)))
            if not ok:
                continue
            Ls = sup.lattice_vectors()
            if not np.allclose(Ls, S @ Lp, atol=1e-10, rtol=0):
                ck.violation("supercell_lattice", SITE_CELL, inp, expected=(S @ Lp).tolist(), got=Ls.tolist(), oracle="lattice = S . primitive lattice")
            if sup.natm != abs(dt) * cell.natm:
                ck.violation("supercell_natm", SITE_CELL, inp, expected=abs(dt) * cell.natm, got=sup.natm, oracle="|det S| copies of each atom")
                continue
            pos = sup.atom_coords()
            cls = set()
            for ia in range(sup.natm):
                sym = sup.atom_symbol(ia)
                # a primitive atom of the same species it is a translate of
                found = None
                for ja in range(cell.natm):
                    if cell.atom_symbol(ja) != sym:
                        continue
                    n = np.linalg.solve(Lp.T, pos[ia] - cell.atom_coords()[ja])
                    if np.allclose(n, np.rint(n), atol=1e-8, rtol=0):
                        found = (ja, tuple(int(x) for x in np.rint(n)))
                        break
                if found is None:
                    ck.violation("supercell_atom_not_translate", SITE_CELL, inp, expected="primitive-lattice translate of a primitive atom", got=pos[ia].tolist())
                    break
                ja, n = found
                A = adj3(S)
                key = (ja,) + tuple(int(sum(n[k] * A[k][j] for k in range(3))) % abs(dt) for j in range(3))
                if key in cls:
                    ck.violation("supercell_atoms_not_distinct", SITE_CELL, inp, expected="distinct modulo the supercell lattice", got=list(key))
                    break
                cls.add(key)
            per_species = {}
            for ia in range(sup.natm):
                per_species[sup.atom_symbol(ia)] = per_species.get(sup.atom_symbol(ia), 0) + 1
            for ja in range(cell.natm):
                pass
            exp_ne = abs(dt) * neutral - charge
            if sup.nelectron != exp_ne or sup.spin != cell.spin or sup.charge != cell.charge:
                ck.violation("supercell_electrons", SITE_CELL, inp, expected={"nelectron": int(exp_ne), "spin": cell.spin, "charge": cell.charge},
                             got={"nelectron": int(sup.nelectron), "spin": sup.spin, "charge": sup.charge},
                             oracle="|det S| * sum Z - charge; charge and spin as pinned by tests/unit/test_supercell_charge.py")
            if getattr(sup, "scale", None) != abs(dt):
                ck.violation("supercell_scale", SITE_CELL, inp, expected=abs(dt), got=getattr(sup, "scale", None))
    ck.stats["supercell_builds"] = ck.stats.get("supercell_builds", 0) + len(cells) * len(Ss)


class FakeMF:
    def __init__(self, kpts):
        self.kpts = kpts


def check_twists(ck):
    import pyqmc.pbc.supercell as sc
    import pyqmc.pbc.twists as tw
    # (mesh, shift of the mesh in units of the mesh spacing): non-dyadic meshes and shifted meshes fold onto twists whose fractional
    # coordinates are not exactly representable, and different members of one twist reach it through different integer offsets
    meshes = [((2, 2, 2), None), ((3, 1, 1), None), ((2, 2, 1), None), ((3, 3, 1), None), ((4, 2, 2), None), ((3, 3, 3), None), ((6, 6, 6), None), ((2, 2, 1), (0.5, 0.25, 0.0)), ((3, 3, 1), (1 / 3.0, 0.5, 0.0))]
    if ck.thorough:
        meshes += [((4, 4, 4), None), ((4, 3, 2), None), ((1, 1, 1), None), ((5, 5, 1), None), ((3, 2, 2), (0.25, 0.25, 0.25))]
    Ss = [np.eye(3, dtype=int), np.diag([2, 1, 1]), np.diag([2, 2, 2]), np.array([[1, 1, 0], [1, -1, 0], [0, 0, 1]]), -np.eye(3, dtype=int),
          np.array([[1, 1, 0], [0, 1, 1], [1, 0, 1]]), np.diag([3, 1, 1]), np.array([[2, 0, 0], [1, 1, 0], [0, -1, 1]]), np.array([[3, 1, 0], [0, 1, 0], [0, 0, 1]]), np.diag([2, 2, 1])]
    exprs, todo = [], []
    for kind in (["h2cubic", "lih_fcc", "tric3"] if ck.thorough else ["lih_fcc", "tric3"]):
        cell = build_cell(kind)
        B = cell.reciprocal_vectors()
        for mesh, shift in meshes:
            kpts = cell.make_kpts(mesh)
            nn = int(np.lcm.reduce(mesh))
            if shift is not None:
                kpts = kpts + (np.asarray(shift) / np.asarray(mesh)) @ B
                nn = nn * 12
            if mesh == (6, 6, 6) and kind != "lih_fcc" and not ck.thorough:
                continue
            kappa = kpts @ np.linalg.inv(B)
            p = np.rint(kappa * nn)
            if not np.allclose(kappa * nn, p, atol=1e-8, rtol=0):
                continue
            p = p.astype(int)
            for S in Ss:
                dt = det3(S)
                inp = {"cell": kind, "mesh": list(mesh), "mesh_shift": list(shift) if shift is not None else None, "S": [int(x) for x in S.ravel()]}
                if mesh == (6, 6, 6) and not (abs(dt) == 8 or abs(dt) == 1):
                    continue
                def run():
                    sup = sc.get_supercell(cell, np.asarray(S))
                    return sup, tw.create_supercell_twists(sup, FakeMF(kpts))
                ok, res = ck.guarded(run, "twists", SITE_TW, inp)
                ck.case((kind, mesh, shift, tuple(inp["S"])), nontrivial=len(kpts) > 1 and abs(dt) > 1)
                if not ok:
                    continue
                sup, out = res
                kinds = [sorted(int(i) for i in k) for k in out["primitive_ks"]]
                flat = sorted(i for k in kinds for i in k)
                good = True
                if flat != list(range(len(kpts))):
                    ck.violation("twists_not_partition", SITE_TW, inp, expected="every k-point in exactly one twist", got=kinds)
                    good = False
                if [len(k) for k in kinds] != [int(c) for c in out["counts"]]:
                    ck.violation("twists_counts", SITE_TW, inp, expected=[len(k) for k in kinds], got=[int(c) for c in out["counts"]])
                    good = False
                As = sup.lattice_vectors()
                for t, ks in zip(out["twists"], kinds):
                    for i in ks:
                        m = (kpts[i] - t) @ As.T / (2 * np.pi)
                        if not np.allclose(m, np.rint(m), atol=1e-7, rtol=0):
                            ck.violation("twists_member_not_reciprocal_translate", SITE_TW, inp,
                                         expected="k - twist = integer combination of supercell reciprocal vectors", got={"k": i, "coeffs": m.tolist()})
                            good = False
                            break
                # different twists must not be equivalent
                for (t1, t2) in itertools.combinations(out["twists"], 2):
                    m = (t1 - t2) @ As.T / (2 * np.pi)
                    if np.allclose(m, np.rint(m), atol=1e-7, rtol=0):
                        ck.violation("twists_duplicate", SITE_TW, inp, expected="twists pairwise inequivalent", got=[t1.tolist(), t2.tolist()])
                        good = False
                        break
                Sl = "(%s)" % ", ".join(zlit(x) for x in inp["S"])
                ks = coq_list(["(%s)" % ", ".join(zlit(x) for x in row) for row in p])
                exprs.append("map (fun key => members %s %d %s key) (twist_keys %s %d %s)" % (Sl, nn, ks, Sl, nn, ks))
                todo.append((inp, kinds, good))
                if len(ck.samples) < 6 and abs(dt) > 1 and len(kpts) > 2:
                    ck.sample({"twists": inp, "partition": kinds})
    vals = ck.coq_eval("twists", ["C17.Model"], exprs)
    nmis = 0
    for (inp, kinds, good), v in zip(todo, vals):
        if v is None:
            continue
        if sorted(sorted(x) for x in v) != sorted(kinds):
            nmis += 1
            if good and nmis <= 3:
                ck.correspondence_broken("C17 model twist partition vs create_supercell_twists", json.dumps({"input": inp, "model": v, "impl": kinds}))
    ck.stats["twists_model_vs_impl_compared"] = len(todo)
    ck.stats["twists_model_vs_impl_mismatch"] = nmis


def main(argv):
    ck = Check("C17", argv)
    ck.rule = ("get_supercell_copies on every matrix of the {-1,0,1}^9 cube plus random matrices with entries up to +-5 (thorough: additionally all "
               "1.95M non-singular matrices of {-2..2}^9 through the implementation with an exact integer oracle), compared as point sets with the Coq model "
               "`copies true S` evaluated by vm_compute; get_supercell on PySCF cells (cubic, fcc, triclinic; neutral and charged) for S with mixed signs and "
               "both handednesses; create_supercell_twists on Monkhorst-Pack meshes compared with the Coq partition. Non-trivial: |det S|>1 or S has a negative entry; distinct by input.")
    ck.trusted = ["Coq 8.16.1 kernel + vm_compute (no native_compute)", "harness/c17.py drivers and exact-integer oracles", "PySCF Cell.build / make_kpts"]
    ck.assumptions = ["float arithmetic of np.linalg.inv / `< 1 - 1e-12` is outside the integer model (any effect shows up as a model/implementation difference)",
                      "charge and spin of the supercell follow the pinned test test_supercell_charge (not multiplied by |det S|)",
                      "|copies| = |det S| is proved exhaustively for entries in {-2..2} only; for larger entries completeness+distinctness are proved and the count is checked on samples"]
    ck.coq_build("C17", THEOREMS, extra_targets=["C17/Exhaustive.vo"], timeout=2400)
    check_copies(ck)
    if not ck.replay:
        check_cell(ck)
        check_twists(ck)
    return ck.finish()
