"""C01 — the VMC move is a Metropolis-Hastings kernel in detailed balance with |Psi|^2."""
import ast
import json
import math
import os
import sys

import numpy as np

from common import Check, VERIF, REPO
from stubs import GaussWF, CosWF

sys.path.insert(0, os.path.join(VERIF, "translator"))

THEOREMS = ["C01_exponent_is_log_density_ratio", "C01_ratio_is_psi2_times_tprob", "C01_proposal_variance_is_tstep",
            "C01_tprob_is_reverse_over_forward_density", "C01_acceptance_is_metropolis_hastings", "C01_detailed_balance",
            "C01_effects_consistent", "C01_rejected_walkers_keep_coordinates", "C01_limdrift_caps_the_drift", "C01_mixture_ratio"]
S_VMC = "pyqmc/method/mc.py:vmc_worker"
S_OVL = "pyqmc/method/sample_many.py:sample_overlap_worker"
LAT = np.array([[4.0, 0, 0], [0.5, 4.0, 0], [0, 0.3, 5.0]])

# the two statements of sample_overlap_worker that the hand model C01.Model.mix_ratio transcribes
OVL_TEMPLATES = {
    "weights": "np.exp(2 * (log_values - log_values[0]))",
    "ratio": "t_prob * np.sum(wf_ratios * weights, axis=0) / weights.sum(axis=0)",
    "wf_ratios": "np.abs(vals) ** 2",
    "t_prob": "np.exp(1 / (2 * tstep) * (forward - backward))",
    "forward": "np.sum(gauss ** 2, axis=1)",
    "backward": "np.sum((gauss + tstep * (grad + new_grad)) ** 2, axis=1)",
    "accept": "ratio > np.random.rand(nconf)",
}


class Draws:
    """replaces np.random.normal / np.random.rand by prepared draws (all randomness comes from the check's one generator)"""

    def __init__(self, gauss, us):
        self.gauss, self.us = list(gauss), list(us)
        self.scales = []

    def __enter__(self):
        self.o_n, self.o_r = np.random.normal, np.random.rand
        def normal(*a, **k):
            self.scales.append(float(k.get("scale", a[1] if len(a) > 1 else 1.0)))
            g = self.gauss.pop(0)
            return g * self.scales[-1]  # prepared draws are standard normal; the code's own scale is applied
        def rand(*a):
            return self.us.pop(0)
        np.random.normal, np.random.rand = normal, rand
        return self

    def __exit__(self, *a):
        np.random.normal, np.random.rand = self.o_n, self.o_r


def limdrift_ref(g, cutoff=1.0):
    n = np.linalg.norm(g, axis=-1, keepdims=True)
    return np.where(n > cutoff, cutoff * g / np.where(n == 0, 1, n), g)


def lnT(a, b, drift_a, tstep):
    d = b - a - tstep * drift_a
    return -np.sum(d * d, axis=-1) / (2 * tstep)


def make_wf(kind, rng):
    if kind == "gauss":
        return GaussWF(alpha=float(rng.uniform(0.3, 1.5)), beta=float(rng.uniform(-0.2, 0.2)), center=float(rng.uniform(-0.3, 0.3)))
    if kind == "gauss_complex":
        return GaussWF(alpha=float(rng.uniform(0.3, 1.5)), kvec=rng.normal(size=3) * 0.7)
    if kind == "steep":  # gradients around and above the drift cutoff 1
        return GaussWF(alpha=float(rng.uniform(0.8, 3.0)))
    if kind == "cos":
        return CosWF(LAT, amp=float(rng.uniform(0.2, 1.0)))
    if kind == "cos_complex":
        return CosWF(LAT, amp=float(rng.uniform(0.2, 1.0)), kvec=2 * np.pi * np.linalg.inv(LAT).T[0] * 0.5)
    raise ValueError(kind)


def make_cfg(kind, c):
    from pyqmc.configurations.coord import OpenConfigs, PeriodicConfigs
    return PeriodicConfigs(c.copy(), LAT.copy()) if kind.startswith("cos") else OpenConfigs(c.copy())


def simulate(wf, cfg, tstep, nsteps, gauss, us):
    """independent float oracle of the whole vmc_worker loop from the closed-form wave function: the MH rule itself"""
    x = cfg.configs.copy()
    nconf, nelec, _ = x.shape
    wrap = cfg.wrap.copy() if hasattr(cfg, "wrap") else None
    gi = iter(gauss)
    ui = iter(us)
    margins = []
    accepts = []
    for _ in range(nsteps):
        for e in range(nelec):
            g = next(gi) * math.sqrt(tstep)
            u = next(ui)
            xe = x[:, e]
            d0 = limdrift_ref(np.real(wf._grad1(xe)))
            xn_raw = xe + g + tstep * d0
            if wrap is not None:
                import pyqmc.pbc.pbc as pbc
                xn, w = pbc.enforce_pbc(LAT, xn_raw)
            else:
                xn, w = xn_raw, None
            d1 = limdrift_ref(np.real(wf._grad1(xn)))
            pi_ratio = np.abs(wf._psi1(xn) / wf._psi1(xe)) ** 2
            # densities with unwrapped displacement (a lattice translation changes neither |Psi| nor the Gaussian argument)
            t_ratio = np.exp(lnT(xn_raw, xe, d1, tstep) - lnT(xe, xn_raw, d0, tstep))
            p = np.minimum(1.0, pi_ratio * t_ratio)
            acc = u < p
            margins.append(np.abs(u - pi_ratio * t_ratio))
            accepts.append(acc)
            x[acc, e] = xn[acc]
            if wrap is not None:
                wrap[acc, e] += w[acc]
    return x, wrap, np.array(accepts), np.array(margins)


def check_vmc(ck, dag):
    import pyqmc.method.mc as mc
    from py2coq import evalf, evalc
    ncase = 400 if ck.thorough else 60
    kinds = ["gauss", "gauss_complex", "steep", "cos", "cos_complex"]
    dist = {k: 0 for k in kinds}
    dist.update({"edge_u0": 0, "edge_ratio_ge_1": 0, "near_boundary_skipped": 0})
    for it in range(ncase):
        kind = kinds[it % len(kinds)]
        dist[kind] += 1
        wf = make_wf(kind, ck.rng)
        nconf, nelec, nsteps = int(ck.rng.integers(1, 6)), int(ck.rng.integers(1, 4)), int(ck.rng.integers(1, 3))
        tstep = float(ck.rng.choice([0.02, 0.1, 0.5, 1.3]))
        c = ck.rng.normal(size=(nconf, nelec, 3)) * (1.2 if kind != "steep" else 2.0)
        cfg = make_cfg(kind, c)
        ndraw = nsteps * nelec
        gauss = [ck.rng.normal(size=(nconf, 3)) for _ in range(ndraw)]
        us = [ck.rng.random(nconf) for _ in range(ndraw)]
        if it % 7 == 0:
            us[0][:] = 0.0
            dist["edge_u0"] += 1
        if it % 11 == 0:
            gauss[0][:] = 0.0  # zero noise: ratio exactly 1 for a symmetric proposal at zero drift difference
            dist["edge_ratio_ge_1"] += 1
        inp = {"wf": kind, "nconf": nconf, "nelec": nelec, "nsteps": nsteps, "tstep": tstep, "x": c.tolist(), "gauss": [g.tolist() for g in gauss], "u": [u.tolist() for u in us]}
        ref_cfg = make_cfg(kind, c)
        ex, ewrap, eacc, marg = simulate(wf, ref_cfg, tstep, nsteps, gauss, us)
        run_cfg = make_cfg(kind, c)
        before = run_cfg.configs.copy()
        def run():
            with Draws(gauss, us) as d:
                mc.vmc_worker(wf, run_cfg, tstep, nsteps, {})
            return d
        ok, d = ck.guarded(run, "vmc_kernel", S_VMC, inp)
        ck.case(("vmc", it), nontrivial=bool(eacc.any() and (~eacc).any()) or nconf * ndraw == 1)
        if not ok:
            continue
        if any(abs(s - math.sqrt(tstep)) > 1e-15 for s in d.scales):
            ck.violation("proposal_scale", S_VMC, inp, expected=math.sqrt(tstep), got=d.scales[:3], oracle="Gaussian of variance tstep")
        if np.min(marg) < 1e-10:
            dist["near_boundary_skipped"] += 1
            continue
        if not np.allclose(run_cfg.configs, ex, atol=1e-12, rtol=0):
            bad = np.argwhere(np.abs(run_cfg.configs - ex) > 1e-12)
            ck.violation("acceptance_not_metropolis_hastings", S_VMC, inp, expected={"coords": ex.tolist()}, got={"coords": run_cfg.configs.tolist(), "first_difference_at": bad[0].tolist()},
                         oracle="independent simulation: accept iff u < min(1, |Psi'|^2 T(R'->R) / (|Psi|^2 T(R->R'))) with T Gaussian of variance tstep about the drifted position")
        # rejected walkers keep their coordinates bit for bit (single step, single electron cases make this direct)
        if nsteps == 1 and nelec == 1:
            rej = ~eacc[0]
            if not np.array_equal(run_cfg.configs[rej], before[rej]):
                ck.violation("rejected_walker_moved", S_VMC, inp, expected="bit-identical coordinates for rejected walkers", got=np.abs(run_cfg.configs[rej] - before[rej]).max())
        if ewrap is not None and not np.array_equal(run_cfg.wrap, ewrap):
            ck.violation("wrap_counters_after_moves", S_VMC, inp, expected=ewrap.tolist(), got=run_cfg.wrap.tolist())
        # translator validation: the generated DAG evaluated on the same inputs gives the same first-move decision
        if dag is not None and not kind.startswith("cos"):
            xe = c[:, 0]
            for w in range(nconf):
                g0 = tuple((gauss[0][w] * math.sqrt(tstep)).tolist())
                gc = tuple(np.real(wf._grad1(xe[w])).tolist())
                val = {"tstep": tstep, "x": tuple(xe[w].tolist()), "gauss": g0, "u": float(us[0][w]), "cutoff": 1.0, "g": gc}
                val["D_cur"] = evalf(dag["mc_limdrift"]["expr"], val)
                xn = evalf(dag["vmc_newcoorde"]["expr"], val)
                val["g"] = tuple(np.real(wf._grad1(np.array(xn))).tolist())
                val["D_new"] = evalf(dag["mc_limdrift"]["expr"], val)
                val["val_new"] = float(np.abs(wf._psi1(np.array(xn)) / wf._psi1(xe[w])))
                a = evalc(dag["vmc_accept"]["expr"], val)
                if bool(a) != bool(eacc[0][w]) and abs(evalf(dag["vmc_ratio"]["expr"], val) - us[0][w]) > 1e-10:
                    ck.correspondence_broken("translator validation: generated vmc_accept vs the independent oracle", json.dumps({"input": {"tstep": tstep, "walker": w}, "dag": bool(a), "oracle": bool(eacc[0][w])}))
        if len(ck.samples) < 3:
            ck.sample({"vmc_kernel": {k: inp[k] for k in ("wf", "nconf", "nelec", "nsteps", "tstep")}, "accepted_fraction": float(eacc.mean())})
    ck.stats["vmc_input_distribution"] = dist


def check_overlap_templates(ck):
    """the hand model of the multi-wave-function acceptance is tied to the source by comparing the statements it transcribes"""
    src = open(os.path.join(REPO, "pyqmc/method/sample_many.py")).read()
    tree = ast.parse(src)
    fn = [n for n in ast.walk(tree) if isinstance(n, ast.FunctionDef) and n.name == "sample_overlap_worker"]
    if not fn:
        ck.correspondence_broken("sample_overlap_worker not found", "")
        return
    found = {}
    for node in ast.walk(fn[0]):
        if isinstance(node, ast.Assign) and len(node.targets) == 1 and isinstance(node.targets[0], ast.Name) and node.targets[0].id in OVL_TEMPLATES:
            found.setdefault(node.targets[0].id, []).append(ast.unparse(node.value))
    differs = []
    for k, tmpl in OVL_TEMPLATES.items():
        want = ast.unparse(ast.parse(tmpl, mode="eval").body)
        if want not in found.get(k, []):
            differs.append({"statement": k, "expected": want, "found": found.get(k)})
    # A textual template is an auxiliary tie: a source that spells these statements differently (renamed temporaries, einsum for sum, hoisted
    # factors) is not an alarm — the tie of the multi-wave-function rule is then the Metropolis-Hastings oracle of check_overlap alone, which
    # compares every acceptance decision of the real sample_overlap_worker with the right-hand side of theorem C01_mixture_ratio.
    ck.stats["overlap_template_statements_checked"] = len(OVL_TEMPLATES)
    ck.stats["overlap_template_statements_spelled_differently"] = differs


def check_overlap(ck):
    import pyqmc.method.sample_many as sm
    ncase = 150 if ck.thorough else 30
    for it in range(ncase):
        nwf = int(ck.rng.integers(2, 4))
        wfs = [GaussWF(alpha=float(ck.rng.uniform(0.4, 1.4)), beta=float(ck.rng.uniform(-0.2, 0.2)), center=float(ck.rng.uniform(-0.5, 0.5))) for _ in range(nwf)]
        if it % 3 == 0:
            wfs[1] = GaussWF(alpha=0.9, kvec=ck.rng.normal(size=3) * 0.5)
        nconf, tstep = int(ck.rng.integers(1, 6)), float(ck.rng.choice([0.05, 0.3, 1.0]))
        c = ck.rng.normal(size=(nconf, 1, 3))
        from pyqmc.configurations.coord import OpenConfigs, PeriodicConfigs
        periodic = it % 2 == 1
        if periodic:
            # lattice-periodic wave functions and walkers near the faces of the cell, so that moves cross them and are wrapped
            wfs = [CosWF(LAT, amp=float(ck.rng.uniform(0.2, 1.0))) for _ in range(nwf)]
            frac = ck.rng.random((nconf, 1, 3))
            frac[:, 0, :] = np.where(ck.rng.random((nconf, 3)) < 0.6, np.where(ck.rng.random((nconf, 3)) < 0.5, 0.02, 0.98), frac[:, 0, :])
            c = frac @ LAT
            tstep = float(ck.rng.choice([0.3, 1.0]))
        cfg = PeriodicConfigs(c.copy(), LAT.copy()) if periodic else OpenConfigs(c.copy())
        c = cfg.configs.copy()
        gauss, us = [ck.rng.normal(size=(nconf, 3))], [ck.rng.random(nconf)]
        inp = {"nwf": nwf, "nconf": nconf, "tstep": tstep, "periodic": periodic, "x": c.tolist(), "gauss": gauss[0].tolist(), "u": us[0].tolist()}
        # oracle: sum_i |Psi_i|^2, drift = limdrift(mean_i Re grad ln Psi_i); densities with the UNWRAPPED displacement
        xe = c[:, 0]
        g = gauss[0] * math.sqrt(tstep)
        d0 = limdrift_ref(np.mean([np.real(w._grad1(xe)) for w in wfs], axis=0))
        xn = xe + g + tstep * d0
        d1 = limdrift_ref(np.mean([np.real(w._grad1(xn)) for w in wfs], axis=0))
        num = sum(np.abs(w._psi1(xn)) ** 2 for w in wfs)
        den = sum(np.abs(w._psi1(xe)) ** 2 for w in wfs)
        q = num / den * np.exp(lnT(xn, xe, d1, tstep) - lnT(xe, xn, d0, tstep))
        eacc = us[0] < np.minimum(1.0, q)
        if periodic:
            import pyqmc.pbc.pbc as pbc
            crossed = np.any(pbc.enforce_pbc(LAT, xn)[1] != 0, axis=1)
            ck.stats["overlap_moves_crossing_a_cell_face"] = ck.stats.get("overlap_moves_crossing_a_cell_face", 0) + int(crossed.sum())
            xn = pbc.enforce_pbc(LAT, xn)[0]
        def run():
            with Draws(gauss, us):
                sm.sample_overlap_worker(wfs, cfg, tstep, 1, None)
        ok, _ = ck.guarded(run, "overlap_kernel", S_OVL, inp)
        ck.case(("ovl", it), nontrivial=bool(eacc.any() and (~eacc).any()) or nconf == 1)
        if not ok or np.min(np.abs(us[0] - q)) < 1e-10:
            continue
        exp = c.copy()
        exp[eacc, 0] = xn[eacc]
        if not np.allclose(cfg.configs, exp, atol=1e-12, rtol=0):
            ck.violation("multi_wf_acceptance_not_mixture_rule", S_OVL, inp, expected=exp.tolist(), got=cfg.configs.tolist(),
                         oracle="accept iff u < min(1, sum_i|Psi_i(R')|^2 T(R'->R) / (sum_i|Psi_i(R)|^2 T(R->R')))")
        rej = ~eacc
        if not np.array_equal(cfg.configs[rej], c[rej]):
            ck.violation("rejected_walker_moved", S_OVL, inp, expected="bit-identical", got="changed")


def main(argv):
    ck = Check("C01", argv)
    ck.rule = ("gen/Kernels_Gen.v is regenerated from mc.py by the symbolic executor and the theorems are re-checked by coqc; the real vmc_worker / sample_overlap_worker are run with closed-form stub wave functions "
               "(Gaussian x polynomial, complex Bloch factor, steep Gaussians around the drift cutoff, lattice-periodic cosine functions in a triclinic cell) and every normal/uniform draw injected from the check's generator; "
               "final coordinates and wrap counters after 1-2 steps over 1-3 electrons are compared with an independent simulation of the Metropolis-Hastings rule (cases with |u - ratio| < 1e-10 skipped and counted); "
               "edge stream: u = 0, zero noise. The generated DAG is evaluated on the same inputs (translator validation). Non-trivial: both accepted and rejected walkers occur.")
    ck.trusted = ["Coq 8.16.1 kernel", "translator/py2coq.py + gen_kernels.py (symbolic executor; validated numerically on every run)", "harness/c01.py oracle and stubs.py", "Coq Reals axioms as listed by Print Assumptions"]
    ck.assumptions = ["wf.gradient_value returns (grad ln Psi(x'), Psi(x')/Psi(x)) — the subject of C03/C04", "make_irreducible does not change the point modulo the lattice — C18",
                      "complex wave functions: the model's |val| is the modulus; the acceptance formula is the same"]
    dag = ck.translate("gen_kernels")
    ck.coq_build("C01", THEOREMS)
    check_overlap_templates(ck)
    if not ck.replay:
        check_vmc(ck, dag)
        check_overlap(ck)
    return ck.finish()
