"""C15 — a failed checkpoint write never leaves misaligned records (exhaustive fault enumeration + protocol model)."""
import json
import os
import shutil
import tempfile

import numpy as np

from common import Check, coq_list
import restart_common as rc

THEOREMS = ["C15_failure_keeps_committed_rows", "C15_completed_write_is_aligned", "C15_any_failure_sequence_safe",
            "C15_new_file_satisfies_invariant", "C15_old_protocol_refuted", "C15_new_protocol_same_history"]
SITE = "pyqmc/method/hdftools.py:append_hdf"
NOT_PER_BLOCK = ("/configs", "/wrap", "/weights")


def is_data_op(op):
    kind, name = op[0], op[1]
    return kind in ("resize", "assign") and not name.startswith("/wf") and name not in NOT_PER_BLOCK


def attempt(kind, fname, nblocks, periodic, target_write=None, crash_at=None, exc=OSError):
    """one driver call under fault injection; returns (outcome, injector) with outcome in completed / raised:<type>"""
    inj = rc.Injector()
    inj.target_write, inj.crash_at, inj.exc = target_write, crash_at, exc
    try:
        with rc.instrumented(round_state=False), rc.fault_injection(inj):
            rc.run_driver(kind, fname, nblocks, periodic)
        return "completed", inj
    except BaseException as e:  # noqa  (KeyboardInterrupt is one of the injected faults)
        return "raised:%s:%s" % (type(e).__name__, str(e)[:80]), inj


def cut_of(inj):
    """how far the targeted write got, in the model's terms: None = counter advanced (block complete as far as the records go),
    ('setup', n) = failed while the file was being set up, ('cut', c) = c resize/assign operations on per-block datasets done"""
    tr = inj.trace
    body = [o for o in tr if o[0] != "CRASH-before"]
    committed = any(o[0] == "attr" and o[1] == "nrows" and i > 0 and any(is_data_op(p) for p in body[:i]) for i, o in enumerate(body))
    if committed:
        return None
    ndata = len([o for o in body if is_data_op(o)])
    if ndata == 0 and not any(o[0] == "attr" and o[1] == "nrows" for o in body):
        return ("setup", len(body))
    return ("cut", ndata)


def model_cut(c):
    return "None" if c is None else "(Some %d%%nat)" % c[1]


def file_summary(fname):
    d, nrows = rc.read_file(fname, keep_timing=True)
    pb = rc.per_block(d)
    return nrows, {k: int(v.shape[0]) for k, v in pb.items()}


def run_case(ck, td, kind, periodic, t, crashes, exc, exprs, todo, order):
    """crashes: list of crash indices, one per consecutive attempt (each in the first write of its call, the first one in write t);
    afterwards one complete call"""
    fname = os.path.join(td, "f.hdf5")
    if os.path.exists(fname):
        os.remove(fname)
    inp = {"driver": kind, "periodic": periodic, "failed_block": t, "crash_before_op": crashes, "exception": exc.__name__}
    cuts = []
    target = t
    nblocks = t + 1
    setup_phase = False
    for ci, c in enumerate(crashes):
        out, inj = attempt(kind, fname, nblocks, periodic, target_write=target if ci == 0 else 0, crash_at=c, exc=exc)
        if not out.startswith("raised") and inj.trace and not any(o[0] == "CRASH-before" for o in inj.trace):
            # the crash index was beyond the write (fewer operations this time): nothing injected
            cuts.append(None)
        else:
            cu = cut_of(inj)
            cuts.append(cu)
            if cu is not None and cu[0] == "setup":
                setup_phase = True
        if not os.path.exists(fname):
            return
        try:
            import h5py
            with h5py.File(fname, "r"):
                pass
        except Exception:
            return  # the property only speaks about files that can still be opened
        nblocks += 0  # the restarted call asks for the same total again
    pre_nrows, pre_lens = file_summary(fname)
    out, inj = attempt(kind, fname, t + 2, periodic)
    ck.case((kind, periodic, t, tuple(crashes), exc.__name__), nontrivial=True)
    if out.startswith("raised"):
        ck.count("restart_refused")
        ck.stats.setdefault("refusal_examples", [])
        if len(ck.stats["refusal_examples"]) < 3:
            ck.stats["refusal_examples"].append({"input": inp, "error": out})
        return
    ck.count("restart_completed")
    problems, lens, nrows = rc.alignment_report(fname, kind)
    if problems:
        ck.violation("misaligned_after_failed_write", SITE, inp, expected="every per-block dataset same length, row i = block i, contiguous", got={"problems": problems[:4], "lengths": lens},
                     oracle="restarted run completed without error")
    if not setup_phase and pre_nrows is not None and all(("/" + k) in order or k in order for k in pre_lens):
        K = len(order)
        plan = ["None"] * t + [model_cut(c) for c in cuts]
        exprs.append("let f := session %d (empty_file %d) %s in (nrows f, map (@length (option nat)) (dsets f))" % (K, K, coq_list(plan)))
        todo.append((inp, plan, pre_nrows, [pre_lens.get(k.lstrip("/"), 0) for k in order]))
    if len(ck.samples) < 5:
        ck.sample({"fault": inp, "model_cuts": [str(c) for c in cuts], "after_restart": {"nrows": nrows, "lengths": sorted(set(lens.values()))}})


def main(argv):
    ck = Check("C15", argv, level="proof")
    ck.rule = ("fault enumeration on the real block-write routines (mc.vmc_file, dmc.dmc_file, linemin.opt_hdf): every h5py Dataset.resize / Dataset.__setitem__ / Group.create_dataset / "
               "attrs.__setitem__ call inside the routine is a crash point (counted by a dry run); an exception (OSError, KeyboardInterrupt) is raised before operation i of the first or of a later block's write, "
               "the file is re-opened, the run restarted and completed; all single crash points, and ordered pairs (second failure in the restarted run's first write), for VMC, DMC and optimisation output, open and periodic. "
               "A restart may refuse (error) or must end with aligned records (equal lengths, row i = block i via tagging accumulators, contiguous numbering). "
               "The protocol model (Coq, session/attempt) is compared with the row counter after the same failure history. Every enumerated crash history is a distinct non-trivial case.")
    ck.trusted = ["Coq 8.16.1 kernel + vm_compute", "harness/c15.py, restart_common.py (h5py method patching; exceptions raised BEFORE the operation executes)", "h5py/HDF5 closing the file cleanly when the exception propagates"]
    ck.assumptions = ["a fault = a Python exception at an h5py call boundary of the write routine; torn writes inside one HDF5 call and files that cannot be re-opened are outside the property",
                      "files written by this version carry the row counter (setup_hdf writes nrows=0); for files of older versions the new code refuses datasets of unequal length"]
    ck.coq_build("C15", THEOREMS)
    td = tempfile.mkdtemp(prefix="c15_", dir=ck.work)
    exprs, todo = [], []
    try:
        kinds = [("vmc", False), ("vmc", True), ("dmc", False), ("opt", False)]
        if ck.thorough:
            kinds += [("dmc", True)]
        for kind, periodic in kinds:
            for t in (0, 2):
                # dry run: number of operations of write t
                fname = os.path.join(td, "f.hdf5")
                if os.path.exists(fname):
                    os.remove(fname)
                out, inj = attempt(kind, fname, t + 1, periodic)
                if out != "completed":
                    ck.violation("write_exception", SITE, {"driver": kind, "block": t}, expected="dry run completes", got=out)
                    continue
                nops = inj.counts_per_write.get(t, 0)
                order = []
                for o in inj.trace:
                    if is_data_op(o) and o[0] == "resize" and o[1] not in order:
                        order.append(o[1])
                ck.stats["ops_in_write_%s_%s_block%d" % (kind, "pbc" if periodic else "obc", t)] = nops
                excs = [OSError, KeyboardInterrupt]
                for i in range(nops + 1):
                    for exc in excs:
                        if exc is KeyboardInterrupt and not ck.thorough and i % 3:
                            continue
                        run_case(ck, td, kind, periodic, t, [i], exc, exprs, todo, order)
                # pairs of failures
                nops2 = nops
                pairs = [(i, j) for i in range(nops + 1) for j in range(nops2 + 1)]
                if not ck.thorough:
                    sel = ck.rng.choice(len(pairs), size=min(len(pairs), 25 if kind != "opt" else 10), replace=False)
                    pairs = [pairs[k] for k in sorted(sel)]
                elif kind in ("opt",) or periodic:
                    sel = ck.rng.choice(len(pairs), size=min(len(pairs), 120), replace=False)
                    pairs = [pairs[k] for k in sorted(sel)]
                else:
                    ck.exhaustive = True
                for (i, j) in pairs:
                    run_case(ck, td, kind, periodic, t, [i, j], OSError, exprs, todo, order)
    finally:
        shutil.rmtree(td, ignore_errors=True)
    vals = ck.coq_eval("session", ["C15.Model"], exprs, scope="nat_scope")
    nmis = 0
    for (inp, plan, pre_nrows, pre_lens), v in zip(todo, vals):
        if v is None:
            continue
        n_model, lens_model = v
        if n_model != pre_nrows or list(lens_model) != list(pre_lens):
            nmis += 1
            if nmis <= 3:
                ck.correspondence_broken("C15 model session vs file after the failure history (row counter and dataset lengths)",
                                         json.dumps({"input": inp, "plan": plan, "model": [n_model, list(lens_model)], "impl": [pre_nrows, list(pre_lens)]}))
    ck.stats["model_histories_compared"] = len(todo)
    ck.stats["model_mismatch"] = nmis
    return ck.finish()
