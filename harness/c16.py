"""C16 — parameter derivatives and the optimizer's parameter map are consistent."""
import json
import os

import numpy as np

from common import Check, zlit, coq_list
import wfzoo

THEOREMS = ["C16_flatten_restore_identity", "C16_unselected_entries_untouched", "C16_unselected_keys_untouched", "C16_structure_preserved",
            "C16_vector_length", "C16_empty_selection", "C16_gradient_duality_one_key_partial", "C16_gradient_duality_all_keys", "C16_hypotheses_satisfiable",
            "C16_pair_slice_of_electron_i_is_its_row", "C16_pair_slices_tile_the_packed_list", "C16_packed_list_is_the_ordered_pairs"]
S_LT = "pyqmc/observables/accumulators.py:LinearTransform"
S_PG = "pgradient"
S_CUSP = "pyqmc/wftools.py:generate_jastrow"


class FakeWF:
    def __init__(self, parameters):
        self.parameters = parameters


def cz(z):
    z = complex(z)
    return "(%s, %s)" % (zlit(int(round(z.real))), zlit(int(round(z.imag))))


def key_lit(cplx, vals, mask):
    return "mkKey %s %s %s" % ("true" if cplx else "false", coq_list([cz(v) for v in vals]), coq_list(["true" if b else "false" for b in mask]))


def gen_params(rng):
    nkeys = int(rng.integers(1, 5))
    params, to_opt = {}, {}
    order = []
    for i in range(nkeys):
        shape = tuple(int(x) for x in rng.integers(1, 4, size=int(rng.integers(1, 4))))
        cplx = bool(rng.random() < 0.4)
        v = rng.integers(-9, 10, size=shape).astype(float)
        if cplx:
            v = v + 1j * rng.integers(-9, 10, size=shape)
        name = "p%d" % i
        params[name] = v
        r = rng.random()
        if r < 0.15:
            continue  # key absent from to_opt
        m = rng.random(shape) < rng.choice([0.0, 0.3, 0.7, 1.0])
        to_opt[name] = m
        order.append(name)
    # dict order of to_opt decides the layout; shuffle it relative to parameters
    if len(order) > 1 and rng.random() < 0.5:
        order = list(rng.permutation(order))
        to_opt = {k: to_opt[k] for k in order}
    return params, to_opt


def model_keys(params, to_opt):
    """keys in to_opt order, then the parameters that are not in to_opt (never selected)"""
    names = list(to_opt.keys()) + [k for k in params if k not in to_opt]
    lits = []
    for k in names:
        v = np.asarray(params[k])
        m = to_opt[k].ravel() if k in to_opt else np.zeros(v.size, dtype=bool)
        lits.append(key_lit(v.dtype == complex, v.ravel(), m))
    return names, coq_list(lits)


def check_transform(ck):
    from pyqmc.observables.accumulators import LinearTransform
    exprs, todo = [], []
    ncase = 600 if ck.thorough else 120
    dist = {"empty_selection": 0, "with_complex": 0, "keys_missing_from_to_opt": 0}
    for it in range(ncase):
        params, to_opt = gen_params(ck.rng)
        inp = {"shapes": {k: list(np.shape(v)) for k, v in params.items()}, "dtypes": {k: str(v.dtype) for k, v in params.items()},
               "to_opt": {k: v.astype(int).ravel().tolist() for k, v in to_opt.items()}, "params": {k: [str(x) for x in np.ravel(v)] for k, v in params.items()}}
        wf = FakeWF({k: v.copy() for k, v in params.items()})
        def run():
            tr = LinearTransform(wf.parameters, {k: v.copy() for k, v in to_opt.items()})
            x0 = tr.serialize_parameters(wf.parameters)
            back = tr.deserialize(wf, x0)
            xr = ck.rng.integers(-20, 21, size=x0.shape).astype(float)
            new = tr.deserialize(wf, xr)
            # d ln Psi / dp is complex for a complex wave function even when the parameter itself is real-typed
            cg = bool(ck.rng.random() < 0.7)
            g = {k: ck.rng.integers(-5, 6, size=(2,) + np.shape(v)).astype(float) + (1j * ck.rng.integers(-5, 6, size=(2,) + np.shape(v)) if (cg or np.asarray(v).dtype == complex) else 0) for k, v in params.items()}
            G = tr.serialize_gradients(g)
            return tr, x0, back, xr, new, g, G
        ok, res = ck.guarded(run, "transform", S_LT, inp)
        nsel = sum(int(v.sum()) for v in to_opt.values())
        ck.case(("lt", it), nontrivial=nsel > 0 and len(to_opt) > 0)
        dist["empty_selection"] += int(nsel == 0)
        dist["with_complex"] += int(any(np.asarray(v).dtype == complex for v in params.values()))
        dist["keys_missing_from_to_opt"] += int(len(to_opt) < len(params))
        if not ok:
            continue
        tr, x0, back, xr, new, g, G = res
        good = True
        nimag = sum(int(to_opt[k].sum()) for k in to_opt if params[k].dtype == complex)
        if len(x0) != nsel + nimag:
            ck.violation("flatten_length", S_LT, inp, expected=nsel + nimag, got=len(x0), oracle="one coordinate per selected real entry, two per selected complex entry")
            good = False
        for k in to_opt:
            if k in back and not np.array_equal(np.asarray(back[k]), params[k]):
                ck.violation("flatten_restore_not_identity", S_LT, inp, expected=params[k].ravel().tolist().__repr__(), got=np.asarray(back[k]).ravel().tolist().__repr__(), oracle="deserialize(serialize(p)) = p")
                good = False
            if k in new:
                nv = np.asarray(new[k])
                if nv.shape != params[k].shape or nv.dtype != params[k].dtype:
                    ck.violation("restore_changes_shape_or_dtype", S_LT, inp, expected=[list(params[k].shape), str(params[k].dtype)], got=[list(nv.shape), str(nv.dtype)])
                    good = False
                elif not np.array_equal(nv[~to_opt[k]], params[k][~to_opt[k]]):
                    ck.violation("unselected_parameter_altered", S_LT, dict(inp, vector=xr.tolist()), expected=params[k][~to_opt[k]].tolist().__repr__(), got=nv[~to_opt[k]].tolist().__repr__(),
                                 oracle="entries with to_opt False keep their value under deserialize(any vector)")
                    good = False
        for k in new:
            if k not in to_opt or not to_opt[k].any():
                ck.violation("unselected_key_returned", S_LT, inp, expected="keys without selected entries are not touched", got=k)
                good = False
        for k, v in wf.parameters.items():
            if not np.array_equal(v, params[k]):
                ck.violation("transform_mutates_wf", S_LT, inp, expected="wf.parameters unchanged by (de)serialize", got=k)
                good = False
        # gradient duality on a linear functional f(p) = sum g.p (walker 0)
        if good and len(x0) > 0:
            def f(pd):
                tot = 0
                for k in params:
                    pv = np.asarray(pd[k]) if k in pd else params[k]
                    tot = tot + np.sum(g[k][0] * pv)
                return tot
            delta = ck.rng.integers(-3, 4, size=x0.shape).astype(float)
            lhs = f(tr.deserialize(wf, xr + delta)) - f(tr.deserialize(wf, xr))
            rhs = np.sum(np.asarray(G)[0] * delta)
            if abs(lhs - rhs) > 1e-9:
                ck.violation("flattened_gradient_not_dual", S_LT, inp, expected=complex(lhs).__repr__(), got=complex(rhs).__repr__(),
                             oracle="f(deserialize(x+d)) - f(deserialize(x)) = serialize_gradients(g) . d for the linear functional f(p)=sum g p")
                good = False
        names, kl = model_keys(params, to_opt)
        gl = coq_list([key_lit(np.asarray(params[k]).dtype == complex, np.asarray(g[k][0]).ravel(), (to_opt[k].ravel() if k in to_opt else np.zeros(np.asarray(params[k]).size, dtype=bool))) for k in names])
        xl = coq_list([zlit(int(v)) for v in xr])
        exprs.append("(serialize %s, map vals (deserialize %s %s), serialize_gradients %s %s)" % (kl, kl, xl, kl, gl))
        todo.append((inp, names, params, to_opt, x0, new, np.asarray(G)[0] if len(x0) else np.zeros(0), good))
        if len(ck.samples) < 3 and nsel > 0:
            ck.sample({"linear_transform": {"shapes": inp["shapes"], "to_opt": inp["to_opt"], "serialized": x0.tolist()}})
    vals = ck.coq_eval("lt", ["C16.Model"], exprs)
    nmis = 0
    for (inp, names, params, to_opt, x0, new, G0, good), v in zip(todo, vals):
        if v is None:
            continue
        ms, md, mg = v
        impl_s = [int(round(x)) for x in x0]
        impl_d = []
        for k in names:
            arr = np.asarray(new[k]) if k in new else params[k]
            impl_d.append([(int(round(complex(z).real)), int(round(complex(z).imag))) for z in arr.ravel()])
        impl_g = [(int(round(complex(z).real)), int(round(complex(z).imag))) for z in np.ravel(G0)]
        md_ = [[tuple(c) for c in kv] for kv in md]
        mg_ = [tuple(c) for c in mg]
        if list(ms) != impl_s or md_ != impl_d or mg_ != impl_g:
            nmis += 1
            if good and nmis <= 3:
                ck.correspondence_broken("C16 model serialize/deserialize/serialize_gradients vs LinearTransform",
                                         json.dumps({"input": inp, "model": [ms, md_, mg_], "impl": [impl_s, impl_d, impl_g]}, default=str)[:3000])
    ck.stats["transform_model_vs_impl_compared"] = len(todo)
    ck.stats["transform_model_vs_impl_mismatch"] = nmis
    ck.stats["transform_input_distribution"] = dist


def lnpsi(wf, configs):
    s, l = wf.recompute(configs)
    return np.asarray(s), np.asarray(l)


def check_real_wfs(ck):
    """every wave-function class: round trip on the real parameter dictionaries, cusp freezes, pgradient vs finite differences"""
    from pyqmc.observables.accumulators import LinearTransform
    from pyqmc.wftools import generate_jastrow
    import pyqmc.method.linemin as linemin
    zoo = wfzoo.obc_wfs(ck.rng, which="all") + wfzoo.pbc_wfs(ck.rng, which="all" if ck.thorough else "few")
    nper = 6 if ck.thorough else 3
    classes = {}
    for name, mol, wf in zoo:
        if wf is None:
            ck.count("wf_unavailable")
            continue
        cfg = wfzoo.walkers(mol, 3, ck.rng)
        try:
            wf.recompute(cfg)
        except Exception as e:  # noqa
            ck.violation("pgradient_exception", S_PG, {"wf": name}, expected="recompute works", got=repr(e))
            continue
        # --- parameter map on the real dictionaries, random masks
        if not hasattr(wf.parameters, "items"):
            ck.count("transform_skipped_parameters_without_items (JAX classes refuse: AttributeError, not a silent error)")
        pk = list(wf.parameters.keys())
        to_opt = {}
        for k in pk:
            shp = np.shape(wf.parameters[k])
            if ck.rng.random() < 0.85:
                to_opt[k] = ck.rng.random(shp) < ck.rng.choice([0.0, 0.5, 1.0])
        before = {k: np.array(wf.parameters[k]).copy() for k in pk}
        def rt():
            tr = LinearTransform(wf.parameters, to_opt)
            x0 = tr.serialize_parameters(wf.parameters)
            class _A:  # what linemin.set_wf_params expects
                transform = tr
            linemin.set_wf_params(wf, x0, _A)
            same = all(np.array_equal(np.asarray(wf.parameters[k]), before[k]) for k in pk)
            x1 = x0 + ck.rng.normal(size=x0.shape) * 1e-3
            linemin.set_wf_params(wf, x1, _A)
            frozen_ok = all(np.array_equal(np.asarray(wf.parameters[k])[~to_opt[k]], before[k][~to_opt[k]]) if k in to_opt else np.array_equal(np.asarray(wf.parameters[k]), before[k]) for k in pk)
            moved = tr.serialize_parameters(wf.parameters)
            linemin.set_wf_params(wf, x0, _A)
            return same, frozen_ok, np.allclose(moved, x1, rtol=0, atol=1e-15), len(x0)
        ok, res = (False, None) if not hasattr(wf.parameters, "items") else ck.guarded(rt, "transform", S_LT, {"wf": name})
        ck.case(("rt", name))
        if ok:
            same, frozen_ok, moved_ok, n = res
            if not same:
                ck.violation("flatten_restore_not_identity", S_LT, {"wf": name}, expected="bit-identical parameters", got="changed")
            if not frozen_ok:
                ck.violation("unselected_parameter_altered", S_LT, {"wf": name}, expected="frozen entries bit-identical", got="changed")
            if not moved_ok:
                ck.violation("restore_then_flatten_mismatch", S_LT, {"wf": name}, expected="serialize(deserialize(x)) = x", got="differs")
        for k in pk:
            wf.parameters[k] = before[k]
        # --- pgradient vs finite differences; the object reports its derivatives in the state a sampler leaves it in
        # (single-electron moves with partial accept masks and cached values), the numerical derivative recomputes from scratch
        wf.recompute(cfg)
        try:
            from c20 import sampler_step
            for e in range(cfg.configs.shape[1]):
                sampler_step(wf, cfg, ck.rng, e, scale=0.5)
        except Exception as e:  # noqa
            ck.violation("pgradient_exception", S_PG, {"wf": name}, expected="sampler steps work", got=repr(e))
            continue
        try:
            pg = {k: np.asarray(v) for k, v in wf.pgradient().items()}
        except Exception as e:  # noqa
            ck.violation("pgradient_exception", S_PG, {"wf": name}, expected="pgradient works", got=repr(e))
            continue
        for k in pg:
            p0 = np.array(wf.parameters[k]).copy()
            if p0.size == 0:
                continue
            idxs = [tuple(int(ck.rng.integers(0, s)) for s in p0.shape) for _ in range(nper)]
            for idx in set(idxs):
                dirs = [1.0] + ([1j] if p0.dtype == complex else [])
                for d in dirs:
                    h0 = 2e-4 * max(1.0, abs(p0[idx]))
                    est = []
                    for h in (h0, h0 / 2):
                        vals = []
                        for sgn in (+1, -1):
                            p = p0.copy()
                            p[idx] = p0[idx] + sgn * h * d
                            wf.parameters[k] = p
                            vals.append(lnpsi(wf, cfg))
                        (sp, lp), (sm, lm) = vals
                        ratio = (sp / sm) * np.exp(lp - lm)
                        est.append(np.log(ratio) / (2 * h))
                    wf.parameters[k] = p0.copy()
                    fd = (4 * est[1] - est[0]) / 3.0  # Richardson
                    an = pg[k][(slice(None),) + idx] * d
                    if wf.dtype == float:
                        fd = fd.real
                    err = np.max(np.abs(fd - an) / np.maximum(1.0, np.abs(an)))
                    ck.case(("pg", name, k, idx, complex(d).imag), nontrivial=bool(np.any(np.abs(an) > 1e-8)))
                    classes[name] = max(classes.get(name, 0.0), float(err))
                    if not np.isfinite(err) or err > 2e-5:
                        ck.violation("pgradient_not_derivative", S_PG, {"wf": name, "parameter": k, "index": list(idx), "direction": str(d)},
                                     expected=np.asarray(fd).tolist().__repr__(), got=np.asarray(an).tolist().__repr__(),
                                     oracle="Richardson-extrapolated central difference of ln Psi under recompute (h=2e-4, 1e-4)")
            # one random direction over ALL entries of the parameter: an error in any entry (e.g. one spin channel of a coefficient tensor) shows
            # with probability one, whatever entries the random indices above happened to pick (added after a seeded change that only affected
            # the down-down channel of the three-body coefficients for unequal spin counts)
            v = ck.rng.normal(size=p0.shape)
            v = v / max(1e-300, float(np.max(np.abs(v))))
            for d in [1.0] + ([1j] if p0.dtype == complex else []):
                h0 = 2e-4 * max(1.0, float(np.max(np.abs(p0))))
                est = []
                for h in (h0, h0 / 2):
                    vals = []
                    for sgn in (+1, -1):
                        wf.parameters[k] = (p0 + sgn * h * d * v).astype(p0.dtype)
                        vals.append(lnpsi(wf, cfg))
                    (sp, lp), (sm, lm) = vals
                    est.append(np.log((sp / sm) * np.exp(lp - lm)) / (2 * h))
                wf.parameters[k] = p0.copy()
                fd = (4 * est[1] - est[0]) / 3.0
                an = np.tensordot(pg[k], v, axes=(list(range(1, pg[k].ndim)), list(range(v.ndim)))) * d
                if wf.dtype == float:
                    fd = fd.real
                err = np.max(np.abs(fd - an) / np.maximum(1.0, np.abs(an)))
                ck.case(("pgdir", name, k, complex(d).imag), nontrivial=bool(np.any(np.abs(an) > 1e-8)))
                classes[name] = max(classes.get(name, 0.0), float(err))
                if not np.isfinite(err) or err > 2e-5:
                    ck.violation("pgradient_not_derivative", S_PG, {"wf": name, "parameter": k, "random_direction_over_all_entries": np.asarray(v).tolist(), "direction": str(d)},
                                 expected=np.asarray(fd).tolist().__repr__(), got=np.asarray(an).tolist().__repr__(),
                                 oracle="Richardson-extrapolated central difference of ln Psi along a random direction in the whole parameter array vs sum(pgradient * direction)")
        wf.recompute(cfg)
    ck.stats["pgradient_max_rel_err_by_wf"] = classes
    # --- cusp / normalisation freezes of generate_jastrow
    mol, mf = wfzoo.lih_rhf()
    for cusp in (None, True, False):
        j, to_opt = generate_jastrow(mol, ion_cusp=cusp)
        ck.case(("cusp", str(cusp)))
        if to_opt["bcoeff"][0, [0, 1, 2]].any():
            ck.violation("cusp_not_frozen", S_CUSP, {"ion_cusp": str(cusp)}, expected="bcoeff[0,:] (electron-electron cusp) not optimised", got=to_opt["bcoeff"][0].tolist())
        if cusp is not False and to_opt["acoeff"][:, 0, :].any():
            ck.violation("cusp_not_frozen", S_CUSP, {"ion_cusp": str(cusp)}, expected="acoeff[:,0,:] (electron-ion cusp) not optimised", got=to_opt["acoeff"][:, 0, :].tolist())
        from pyqmc.observables.accumulators import LinearTransform as LT
        tr = LT(j.parameters, to_opt)
        x = tr.serialize_parameters(j.parameters)
        new = tr.deserialize(j, x + 1.0)
        if not np.array_equal(np.asarray(new["bcoeff"])[0, :3], np.asarray(j.parameters["bcoeff"])[0, :3]):
            ck.violation("cusp_parameter_altered", S_CUSP, {"ion_cusp": str(cusp)}, expected=np.asarray(j.parameters["bcoeff"])[0, :3].tolist(), got=np.asarray(new["bcoeff"])[0, :3].tolist())
        if cusp is not False and not np.array_equal(np.asarray(new["acoeff"])[:, 0, :], np.asarray(j.parameters["acoeff"])[:, 0, :]):
            ck.violation("cusp_parameter_altered", S_CUSP, {"ion_cusp": str(cusp)}, expected="acoeff[:,0,:] unchanged", got=np.asarray(new["acoeff"])[:, 0, :].tolist())


def check_pair_packing(ck):
    """Tie of C16/Pairs.v to the source: the same-spin loops of ThreeBodyJastrow.pgradient are read from the AST and executed symbolically for
    every (nup, ndown) in 0..5: per iteration the electron index used on `a`, the j-range sliced from `a` and the range sliced from the pair
    values.  In local indices of the spin channel these must be the model's (i, offset n i, n-i-1, i+1, n) (vm_compute, packing_ok); and the
    order in which dist_matrix lists the pairs must be the model's `pairs n`.  AUXILIARY tie: when the source no longer has the shape read
    here it is reported as unavailable in the evidence (the finite-difference oracle remains), not as an alarm."""
    import ast
    from common import REPO
    try:
        src = open(os.path.join(REPO, "pyqmc/wf/three_body_jastrow.py")).read()
        tree = ast.parse(src)
        fn = [f for c in tree.body if isinstance(c, ast.ClassDef) and c.name == "ThreeBodyJastrow" for f in c.body if isinstance(f, ast.FunctionDef) and f.name == "pgradient"][0]
        loops = [st for st in fn.body if isinstance(st, ast.For) and any(isinstance(b, ast.AugAssign) and isinstance(b.target, ast.Name) for b in st.body)]
        if len(loops) != 2:
            raise ValueError("expected two same-spin loops, found %d" % len(loops))
        specs = []
        for lp in loops:
            aug = [b for b in lp.body if isinstance(b, ast.AugAssign) and isinstance(b.target, ast.Name)][0]
            tname = aug.target.id
            subs = [n for b in lp.body for n in ast.walk(b) if isinstance(n, ast.Subscript) and isinstance(n.value, ast.Name)]
            # slices whose bounds mention the running offset: the pair-value slice; the other sliced name is `a`
            tsl, asl, aidx = [], [], []
            for n in subs:
                parts = n.slice.elts if isinstance(n.slice, ast.Tuple) else [n.slice]
                for q in parts:
                    if isinstance(q, ast.Slice) and q.lower is not None and q.upper is not None:
                        names = {m.id for m in ast.walk(q) if isinstance(m, ast.Name)}
                        (tsl if tname in names else asl).append((n.value.id, q))
                if not isinstance(n.slice, (ast.Tuple, ast.Slice)) and not (isinstance(n.slice, ast.Constant) and n.slice.value is Ellipsis):
                    aidx.append((n.value.id, n.slice))
            if len(tsl) != 1 or len(asl) != 1:
                raise ValueError("loop shape not recognised")
            aname = asl[0][0]
            aidx = [q for (nm, q) in aidx if nm == aname]
            if len(aidx) != 1:
                raise ValueError("electron index on %s not recognised" % aname)
            specs.append((lp, aug, tname, tsl[0][1], asl[0][1], aidx[0]))
    except Exception as e:  # noqa
        ck.stats["pair_packing_tie"] = "unavailable: %r" % (e,)
        return
    ev = lambda node, env: eval(compile(ast.Expression(node), "<pgradient>", "eval"), {"range": range, "len": len}, env)
    exprs, inputs = [], []
    try:
        for nup in range(6):
            for ndown in range(6):
                for (lp, aug, tname, tq, aq, ai) in specs:
                    env = {"nup": nup, "ndown": ndown, "nelec": nup + ndown, tname: 0}
                    rows = []
                    for i in ev(lp.iter, env):
                        env[lp.target.id] = i
                        g = ev(ai, env)
                        t0, t1, j0, j1 = ev(tq.lower, env), ev(tq.upper, env), ev(aq.lower, env), ev(aq.upper, env)
                        rows.append((g, t0, max(0, t1 - t0), j0, j1))
                        env[tname] = env[tname] + ev(aug.value, env) if isinstance(aug.op, ast.Add) else None
                    if not rows:
                        continue
                    up = all(r[0] < nup for r in rows)
                    base, n = (0, nup) if up else (nup, ndown)
                    enc = lambda x: x if 0 <= x < 4000 else 4000  # a negative (or absurd) slice bound can never match the model: encoded as a value no offset reaches
                    ent = "; ".join("(%d, (%d, %d), (%d, %d))" % (enc(g - base), enc(t0), enc(ln), enc(j0 - base), enc(j1 - base)) for (g, t0, ln, j0, j1) in rows)
                    exprs.append("packing_ok %d [%s]" % (n, ent))
                    inputs.append({"nup": nup, "ndown": ndown, "channel": "up-up" if up else "down-down", "iterations (electron, slice start, slice length, j start, j stop)": rows})
    except Exception as e:  # noqa
        ck.stats["pair_packing_tie"] = "unavailable: %r" % (e,)
        return
    # the order of the packed pairs is that of dist_matrix
    from pyqmc.configurations.distance import RawDistance
    for n in range(2, 7):
        _, ij = RawDistance().dist_matrix(np.zeros((1, n, 3)))
        exprs.append("same_pairs %d [%s]" % (n, "; ".join("(%d, %d)" % (int(a), int(b)) for a, b in ij)))
        inputs.append({"dist_matrix_pair_order_for_n": n, "ij": [[int(a), int(b)] for a, b in ij]})
    vals = ck.coq_eval("pairs", ["C16.Pairs"], exprs, scope="nat_scope")
    bad = [inp for inp, v in zip(inputs, vals) if v is None or str(v).strip().lower() != "true"]
    for inp in bad[:2]:
        ck.correspondence_broken("C16 packed same-spin pair slices of ThreeBodyJastrow.pgradient vs C16/Pairs.v (offset n i, n-i-1)", str(inp))
    ck.stats["pair_packing_tie"] = "%d channel/size cases and %d pair orders agree with the model" % (len(exprs) - 5 - len([b for b in bad if "nup" in b]), 5 - len([b for b in bad if "nup" not in b]))
    for k in range(len(exprs)):
        ck.case(("pairs", k), nontrivial=True)


def main(argv):
    ck = Check("C16", argv)
    ck.rule = ("LinearTransform driven on random parameter dictionaries (1-4 keys, shapes up to 3x3x3, real and complex dtypes, masks of density 0/0.3/0.7/1, keys missing from to_opt, "
               "shuffled key order) with integer-valued entries so that every comparison with the Coq model (serialize / deserialize / serialize_gradients by vm_compute) is exact; "
               "then on the real parameter dictionaries of every wave-function class through linemin.set_wf_params (bit-identical round trip, frozen entries), the cusp freezes of generate_jastrow, "
               "and pgradient of every class against Richardson-extrapolated central differences of recompute for random entries of every parameter (both real and imaginary directions for complex ones). "
               "Non-trivial: at least one selected entry / a derivative that is not identically zero.")
    ck.trusted = ["Coq 8.16.1 kernel + vm_compute", "harness/c16.py, harness/wfzoo.py (PySCF fixtures)", "finite differences (tolerance 2e-5 relative after Richardson extrapolation)"]
    ck.assumptions = ["parameter values are copied, never computed with, by the transform: integers stand for doubles in the model", "the multi-key concatenation order of serialize_gradients is covered by the exact correspondence (theorem proved for one key)"]
    ck.coq_build("C16", THEOREMS, props_files=["C16/Props.v", "C16/PropsPairs.v"], extra_targets=["C16/Pairs.vo"])
    check_transform(ck)
    if not ck.replay:
        check_pair_packing(ck)
        check_real_wfs(ck)
    return ck.finish()
