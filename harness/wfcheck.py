"""Implementation-level oracles shared by C02/C03/C04/C06/C20: full recomputation on modified coordinates,
finite differences, state snapshots."""
import copy

import numpy as np


def fresh(wf):
    """an independent copy of the wave-function object (so that recompute on other coordinates cannot disturb the one under test)"""
    return copy.deepcopy(wf)


def value_at(wfc, configs):
    s, l = wfc.recompute(configs)
    return np.asarray(s), np.asarray(l)


def with_electron_at(configs, e, epos, mask=None):
    """copy of the walker set with electron e placed at the trial object's position (periodic: with the trial object's own wrap counters)"""
    c = configs.copy()
    if mask is None:
        mask = np.ones(c.configs.shape[0], dtype=bool)
    c.configs[mask, e] = epos.configs[mask]
    if hasattr(c, "wrap"):
        c.wrap[mask, e] = epos.wrap[mask]
    return c


def psi_ratio(wfc, configs_new, configs_old):
    """Psi(new)/Psi(old) from two full recomputations"""
    s1, l1 = value_at(wfc, configs_new)
    s0, l0 = value_at(wfc, configs_old)
    return (s1 / s0) * np.exp(l1 - l0)


def raw_electron(configs, e, pos):
    """trial object at the given raw positions (nconf,3) or (nconf,naip,3)"""
    return configs.make_irreducible(e, np.asarray(pos, dtype=float).copy())


def snapshot(obj, depth=0, seen=None):
    """all numpy arrays reachable from a wave-function object, as {path: copy} (bit-for-bit state)"""
    out = {}
    seen = seen if seen is not None else set()
    if id(obj) in seen or depth > 6:
        return out
    seen.add(id(obj))
    if isinstance(obj, np.ndarray):
        out[""] = obj.copy()
        return out
    try:
        import jax
        if isinstance(obj, jax.Array):
            out[""] = np.asarray(obj).copy()
            return out
    except Exception:
        pass
    if isinstance(obj, dict):
        items = list(obj.items())
    elif isinstance(obj, (list, tuple)):
        items = list(enumerate(obj))
    elif hasattr(obj, "__dict__"):
        items = list(vars(obj).items())
    else:
        return out
    for k, v in items:
        if callable(v) and not hasattr(v, "__dict__"):
            continue
        if isinstance(k, str) and k in ("_mol", "mol", "orbitals", "dist", "_mf"):
            continue
        sub = snapshot(v, depth + 1, seen)
        for p, a in sub.items():
            out["%s/%s" % (k, p) if p else str(k)] = a
    return out


def snapshots_equal(a, b):
    diffs = []
    for k in sorted(set(a) | set(b)):
        if k not in a or k not in b:
            diffs.append(k + " (appeared/disappeared)")
        elif a[k].shape != b[k].shape or not np.array_equal(a[k], b[k], equal_nan=True):
            diffs.append(k)
    return diffs


def fd_gradient_laplacian(wf, configs, e, pos, h=2e-3):
    """Richardson-extrapolated central differences of Psi under full recomputation, electron e at raw positions `pos` (nconf,3).
    Returns (grad ln Psi (3,nconf), lap Psi / Psi (nconf,))"""
    wfc = fresh(wf)
    base_cfg = with_electron_at(configs, e, raw_electron(configs, e, pos))
    s0, l0 = value_at(wfc, base_cfg)

    def rel(p):
        c = with_electron_at(configs, e, raw_electron(configs, e, p))
        s, l = value_at(wfc, c)
        return (s / s0) * np.exp(l - l0)

    grads, laps = [], []
    for hh in (h, h / 2):
        g = []
        lap = 0.0
        for d in range(3):
            dp = np.zeros(3)
            dp[d] = hh
            rp, rm = rel(pos + dp), rel(pos - dp)
            g.append((rp - rm) / (2 * hh))
            lap = lap + (rp + rm - 2.0) / hh ** 2
        grads.append(np.array(g))
        laps.append(lap)
    g = (4 * grads[1] - grads[0]) / 3.0
    lap = (4 * laps[1] - laps[0]) / 3.0
    return g, lap


def move_off_nodes(wf, configs, rng, tries=20, floor=1e-3):
    """re-draw walkers whose |Psi| is tiny relative to the median (finite-difference oracles divide by Psi)"""
    for _ in range(tries):
        s, l = wf.recompute(configs)
        l = np.real(np.asarray(l))
        bad = l < np.median(l) + np.log(floor)
        if not bad.any():
            return configs
        configs.configs[bad] += rng.normal(size=configs.configs[bad].shape) * 0.3
        if hasattr(configs, "wrap"):
            import pyqmc.pbc.pbc as pbc
            w0 = configs.wrap[bad].copy()
            c, w = pbc.enforce_pbc(configs.lvecs, configs.configs[bad])
            configs.configs[bad] = c
            configs.wrap[bad] = w0 + w
    return configs
