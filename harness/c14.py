"""C14 — restarting from a checkpoint continues exactly from the persisted state."""
import json
import os
import shutil
import tempfile

import numpy as np

from common import Check, coq_list
import restart_common as rc

THEOREMS = ["C14_block_numbers_contiguous_total_as_requested", "C14_no_extra_work_changes_nothing", "C14_resumed_equals_uninterrupted",
            "C14_stored_state_is_rounded_final_state", "C14_dmc_resumed_equals_uninterrupted", "C14_dmc_stale_reference_refuted", "C14_instance"]
SITES = {"vmc": "pyqmc/method/mc.py:vmc", "dmc": "pyqmc/method/dmc.py:rundmc", "opt": "pyqmc/method/linemin.py:line_minimization"}


def same_files(a, b):
    da, _ = rc.read_file(a)
    db, _ = rc.read_file(b)
    diffs = []
    for k in sorted(set(da) | set(db)):
        if k not in da or k not in db:
            diffs.append("%s only in one file" % k)
        elif da[k].shape != db[k].shape:
            diffs.append("%s shapes %s vs %s" % (k, da[k].shape, db[k].shape))
        elif not np.array_equal(da[k], db[k], equal_nan=True):
            idx = np.argwhere(da[k] != db[k])
            diffs.append("%s differs first at %s: %r vs %r" % (k, idx[0].tolist(), da[k][tuple(idx[0])], db[k][tuple(idx[0])]))
    return diffs


def check_sequences(ck, td):
    seqs = [[2, 5], [1, 1, 3], [3, 3], [4, 2], [3, 0], [0, 3]]
    if ck.thorough:
        seqs += [[1, 2, 3, 4], [2, 2, 6], [5, 1, 5], [1, 6]]
    exprs, todo = [], []
    for kind_label in ("vmc", "dmc", "opt", "dmc:feedback=0.3"):
        kind = kind_label.split(":")[0]
        rc.DMC_EXTRA = {"feedback": 0.3} if "feedback" in kind_label else {}
        for periodic in (False, True):
            for si, seq in enumerate(seqs):
                if kind == "opt" and (periodic or si % 2 == 1) and not ck.thorough:
                    continue
                if "feedback" in kind_label and (periodic or si > 1) and not ck.thorough:
                    continue
                inp = {"driver": kind_label, "periodic": periodic, "requested_totals": seq}
                fa, fb = os.path.join(td, "A.hdf5"), os.path.join(td, "B.hdf5")
                for f in (fa, fb):
                    if os.path.exists(f):
                        os.remove(f)
                def run():
                    with rc.instrumented(round_state=True):
                        for N in seq:
                            rc.run_driver(kind, fb, N, periodic)
                        rc.run_driver(kind, fa, max(seq), periodic)
                ok, _ = ck.guarded(run, "restart", SITES[kind], inp)
                ck.case((kind_label, periodic, tuple(seq)), nontrivial=len([n for n in seq if n > 0]) > 1)
                if not ok:
                    continue
                if max(seq) == 0:
                    continue
                problems, lens, nrows = rc.alignment_report(fb, kind)
                n_expected = max(seq)
                if problems or (lens and set(lens.values()) != {n_expected}):
                    ck.violation("restart_block_bookkeeping", SITES[kind], inp, expected="%d rows in every per-block dataset, block numbers 0..%d" % (n_expected, n_expected - 1),
                                 got={"problems": problems, "lengths": lens}, oracle="one row per block, contiguous numbering, total = largest request")
                diffs = same_files(fa, fb)
                if diffs:
                    ck.violation("resumed_differs_from_uninterrupted", SITES[kind], inp, expected="file of the call sequence == file of one uninterrupted run (same per-block random numbers, state rounded to storage precision at every block boundary in both)",
                                 got=diffs[:6], oracle="dataset-by-dataset exact comparison")
                d, _ = rc.read_file(fb)
                col = d["iteration" if kind == "opt" else "block"].astype(int).tolist()
                exprs.append("match calls nat nat (fun s b => (S s, s)) (fun s => s) None 0%%nat %s with Some f => map fst (rows _ _ f) | None => [] end" % coq_list(["%d%%nat" % n for n in seq]))
                todo.append((inp, col))
                if len(ck.samples) < 4:
                    ck.sample({"restart": inp, "block_column": col, "datasets": sorted(lens)[:8]})
                # asking again for no more than is recorded changes nothing
                before, _ = rc.read_file(fb)
                def again():
                    with rc.instrumented(round_state=True):
                        return rc.run_driver(kind, fb, max(seq) - (1 if max(seq) > 1 else 0), periodic)
                ok, res = ck.guarded(again, "restart", SITES[kind], dict(inp, extra_call=max(seq) - 1))
                if ok:
                    after, _ = rc.read_file(fb)
                    changed = [k for k in before if not np.array_equal(before[k], after[k], equal_nan=True)] + [k for k in after if k not in before]
                    if changed:
                        ck.violation("no_extra_work_changed_file", SITES[kind], inp, expected="file unchanged", got=changed[:6])
                    df = res[0]
                    if (isinstance(df, dict) and len(df) > 0 and any(len(np.atleast_1d(v)) for v in df.values())) or (isinstance(df, list) and len(df) > 0):
                        ck.violation("no_extra_work_returned_data", SITES[kind], inp, expected="no blocks run", got=str(df)[:200])
    rc.DMC_EXTRA = {}
    vals = ck.coq_eval("calls", ["C14.Model"], exprs, scope="nat_scope")
    nmis = 0
    for (inp, col), v in zip(todo, vals):
        if v is None:
            continue
        if list(v) != col:
            nmis += 1
            if nmis <= 3:
                ck.correspondence_broken("C14 model calls vs driver block column", json.dumps({"input": inp, "model": v, "impl": col}))
    ck.stats["sequence_model_vs_impl_compared"] = len(todo)
    ck.stats["sequence_model_vs_impl_mismatch"] = nmis


def check_stored_state(ck, td):
    """the file holds the final in-memory state: coordinates/weights to float32, wrap counters and parameters exactly"""
    for kind in ("vmc", "dmc", "opt"):
        for periodic in (False, True):
            if kind == "opt" and periodic:
                continue
            fn = os.path.join(td, "S.hdf5")
            if os.path.exists(fn):
                os.remove(fn)
            inp = {"driver": kind, "periodic": periodic}
            def run():
                with rc.instrumented(round_state=False):
                    return rc.run_driver(kind, fn, 3, periodic)
            ok, res = ck.guarded(run, "restart", SITES[kind], inp)
            ck.case(("stored", kind, periodic))
            if not ok:
                continue
            d, _ = rc.read_file(fn)
            cfg = res[1]
            if not np.array_equal(d["configs"], cfg.configs.astype(np.float32)):
                ck.violation("stored_coordinates_not_final_state", SITES[kind], inp, expected="file configs = float32(final in-memory configs)", got=float(np.max(np.abs(d["configs"] - cfg.configs))))
            if periodic and not np.array_equal(d["wrap"], cfg.wrap):
                ck.violation("stored_wrap_not_final_state", SITES[kind], inp, expected="wrap counters stored exactly", got=float(np.max(np.abs(d["wrap"] - cfg.wrap))))
            if kind == "dmc" and not np.array_equal(d["weights"], res[2].astype(np.float32)):
                ck.violation("stored_weights_not_final_state", SITES[kind], inp, expected="file weights = float32(final weights)", got=d["weights"].tolist())
            if kind == "opt":
                wf = res[2]
                if not np.array_equal(d["wf/alpha"], np.asarray(wf.parameters["alpha"])):
                    ck.violation("stored_parameters_not_exact", SITES[kind], inp, expected=np.asarray(wf.parameters["alpha"]).tolist(), got=d["wf/alpha"].tolist())


def check_continue_from(ck, td):
    for kind in ("vmc", "dmc"):
        for periodic in (False, True):
            f1, f2, fa = (os.path.join(td, n) for n in ("C1.hdf5", "C2.hdf5", "CA.hdf5"))
            for f in (f1, f2, fa):
                if os.path.exists(f):
                    os.remove(f)
            inp = {"driver": kind, "periodic": periodic, "continue_from": True, "N1": 2, "N2": 5}
            def run():
                with rc.instrumented(round_state=True):
                    rc.run_driver(kind, f1, 2, periodic)
                    rc.run_driver(kind, f2, 5, periodic, continue_from=f1)
                    rc.run_driver(kind, fa, 5, periodic)
            ok, _ = ck.guarded(run, "restart", SITES[kind], inp)
            ck.case(("cf", kind, periodic))
            if not ok:
                continue
            # ... and the continued file is itself restarted later (its first recorded block is 2, not 0)
            fa7 = os.path.join(td, "CA7.hdf5")
            if os.path.exists(fa7):
                os.remove(fa7)
            def run2():
                with rc.instrumented(round_state=True):
                    rc.run_driver(kind, f2, 7, periodic)
                    rc.run_driver(kind, fa7, 7, periodic)
            ok2, _ = ck.guarded(run2, "restart", SITES[kind], dict(inp, second_restart_to=7))
            if ok2:
                d7, _ = rc.read_file(f2)
                da7, _ = rc.read_file(fa7)
                if d7["block"].astype(int).tolist() != [2, 3, 4, 5, 6]:
                    ck.violation("restart_block_bookkeeping", SITES[kind], dict(inp, second_restart_to=7), expected=[2, 3, 4, 5, 6], got=d7["block"].tolist(),
                                 oracle="a file that starts at block 2 continues at block 5: no gap, no duplicate, total as requested")
                else:
                    bad = [k for k in rc.per_block(d7) if k in da7 and not np.array_equal(d7[k], da7[k][2:], equal_nan=True)]
                    if bad:
                        ck.violation("continue_from_differs_from_uninterrupted", SITES[kind], dict(inp, second_restart_to=7, first_resumed_block_identical=None), expected="rows 2..6 of the uninterrupted run", got=sorted(bad)[:8])
                # restore the 5-block state of f2 for the comparisons below
                os.remove(f2)
                with rc.instrumented(round_state=True):
                    rc.run_driver(kind, f2, 5, periodic, continue_from=f1)
            d2, _ = rc.read_file(f2)
            da, _ = rc.read_file(fa)
            if d2["block"].astype(int).tolist() != [2, 3, 4]:
                ck.violation("restart_block_bookkeeping", SITES[kind], inp, expected=[2, 3, 4], got=d2["block"].tolist(), oracle="continued file numbers its blocks from where the source file stopped")
            diffs = []
            for k in rc.per_block(d2):
                if k in da and not np.array_equal(d2[k], da[k][2:], equal_nan=True):
                    diffs.append(k)
            for k in ("configs", "wrap", "weights"):
                if k in d2 and not np.array_equal(d2[k], da[k]):
                    diffs.append(k)
            if diffs:
                first_block_ok = all(np.array_equal(d2[k][:1], da[k][2:3], equal_nan=True) for k in rc.per_block(d2) if k in da)
                ck.violation("continue_from_differs_from_uninterrupted", SITES[kind], dict(inp, first_resumed_block_identical=bool(first_block_ok)),
                             expected="rows 2..4 of the uninterrupted run", got=sorted(diffs)[:8], oracle="dataset-by-dataset exact comparison")


def pred_dmc_chain(v):
    i = v.get("input") or {}
    return i.get("driver") == "dmc" and i.get("continue_from") is True and i.get("second_restart_to") is not None


KNOWN = {"dmc: file continued from another file, then restarted itself": pred_dmc_chain}


def main(argv):
    ck = Check("C14", argv)
    ck.rule = ("real mc.vmc, dmc.rundmc and linemin.line_minimization driven with a closed-form stub wave function (one variational parameter), tagging accumulators and per-block reseeding "
               "keyed on the block/iteration number; for sequences of requested totals (e.g. [2,5], [1,1,3], [3,3], [4,2], [3,0], [0,3]) the file produced by the call sequence is compared dataset by dataset, bit for bit, "
               "with the file of one uninterrupted run (both rounding the in-memory state to storage precision at block boundaries), open and periodic, same file or separate continue_from file; "
               "block column compared with the Coq model `calls`; stored state compared with the final in-memory state. Non-trivial: at least two calls that run blocks.")
    ck.trusted = ["Coq 8.16.1 kernel + vm_compute", "harness/c14.py, restart_common.py (driver patches: reseeding, rounding wrapper), stubs.py", "h5py"]
    ck.assumptions = ["'given the same random numbers' is realised by reseeding numpy's global generator from the block number at the start of every block",
                      "theorems are parametric in the block propagator and assume no loss in storage (rnd = identity) for resumed = uninterrupted; the harness realises that by rounding both runs"]
    ck.coq_build("C14", THEOREMS)
    td = tempfile.mkdtemp(prefix="c14_", dir=ck.work)
    try:
        check_sequences(ck, td)
        check_stored_state(ck, td)
        check_continue_from(ck, td)
    finally:
        shutil.rmtree(td, ignore_errors=True)
    return ck.finish(KNOWN)
