"""C13 — randomised ECP evaluation is unbiased and both implementations agree."""
import fractions
import itertools
import json

import numpy as np

from common import Check, qlit, zlit, coq_list
from c12 import FakeMol, AngularWF, HARMONICS
from stubs import GaussWF, CosWF

F = fractions.Fraction
THEOREMS = ["C13_walker_skipping_unbiased", "C13_skip_probability_in_unit_interval", "C13_point_selection_unbiased", "C13_pick_interval",
            "C13_deterministic_set_size", "C13_negative_slice_refuted", "C13_naip_integer_means_every_atom", "C13_naip_default_total",
            "C13_naip_old_code_refuted", "C13_instance"]
S_MASK = "pyqmc/observables/eval_ecp.py:ecp_mask/ecp_ea"
S_SEL = "pyqmc/observables/jax_ecp.py:downselect_move_info"
S_NAIP = "pyqmc/observables/jax_ecp.py:ECPAccumulator.__init__"
S_BOTH = "pyqmc/observables/eval_ecp.py+jax_ecp.py"


class FixedRotation:
    """scipy Rotation.random -> identity, so that both implementations use the same grid orientation"""

    def __enter__(self):
        import scipy.spatial.transform as st
        self.st = st
        self.orig = st.Rotation.random
        st.Rotation.random = staticmethod(lambda *a, **k: st.Rotation.identity())
        return self

    def __exit__(self, *a):
        self.st.Rotation.random = self.orig


class Uniforms:
    def __init__(self, fn):
        self.fn = fn

    def __enter__(self):
        self.o = np.random.random
        np.random.random = lambda size=None, *a, **k: self.fn(size)
        return self

    def __exit__(self, *a):
        np.random.random = self.o


def check_mask(ck):
    import pyqmc.observables.eval_ecp as ee
    from pyqmc.configurations.coord import OpenConfigs
    # 1. ecp_mask against the exact model on dyadic inputs
    exprs, todo = [], []
    ncase = 200 if ck.thorough else 50
    for it in range(ncase):
        nl = int(ck.rng.integers(1, 5))
        nconf = int(ck.rng.integers(1, 5))
        v = ck.rng.integers(-16, 17, size=(nconf, nl + 1)) / 8.0
        if it % 4 == 0:
            v[0, :-1] = 0.0  # a walker with no non-local part: probability 0
        thr = float(ck.rng.choice([-1.0, 0.0, 2.0 ** -10, 0.125, 8.0, 2.0 ** 20]))
        u = ck.rng.integers(0, 64, size=nconf) / 64.0
        inp = {"v_l": v.tolist(), "threshold": thr, "u": u.tolist()}
        def run():
            with Uniforms(lambda size: u.copy()):
                return ee.ecp_mask(v.copy(), thr)
        ok, res = ck.guarded(run, "mask", S_MASK, inp)
        ck.case(("mask", it), nontrivial=thr > 0)
        if not ok:
            continue
        acc, prob = res
        if np.any(prob < 0) or np.any(prob > 1):
            ck.violation("skip_probability_range", S_MASK, inp, expected="0 <= p <= 1", got=prob.tolist())
        if not np.array_equal(np.asarray(acc, dtype=bool), prob > u):
            ck.violation("skip_decision", S_MASK, inp, expected=(prob > u).tolist(), got=np.asarray(acc).tolist(), oracle="accept iff u < p")
        for w in range(nconf):
            c = [thr * (2 * (2 * l + 1) + 1) for l in range(nl)]
            exprs.append("qz (mask_prob %s %s %s)" % ("true" if thr > 0 else "false", coq_list([qlit(x) for x in v[w, :-1]]), coq_list([qlit(x) for x in c])))
            todo.append((inp, w, float(prob[w])))
    vals = ck.coq_eval("maskprob", ["C09.Model", "C13.Model"], exprs, scope="Q_scope")
    nmis = 0
    for (inp, w, p), m in zip(todo, vals):
        if m is None:
            continue
        if F(*p.as_integer_ratio()) != F(*m):
            nmis += 1
            if nmis <= 3:
                ck.correspondence_broken("C13 model mask_prob vs eval_ecp.ecp_mask", json.dumps({"input": inp, "walker": w, "model": float(F(*m)), "impl": p}))
    ck.stats["mask_model_vs_impl_compared"] = len(todo)
    ck.stats["mask_model_vs_impl_mismatch"] = nmis
    # 2. unbiasedness of the whole ecp_ea: E_u[estimate] = p * (accepted value) + (1-p) * (rejected value) = deterministic value
    for it in range(60 if ck.thorough else 16):
        L = int(ck.rng.integers(0, 3))
        channels = {l: (float(ck.rng.uniform(0.3, 1.5)), float(ck.rng.normal())) for l in range(L + 1)}
        channels[-1] = (0.8, float(ck.rng.normal()))
        A = ck.rng.normal(size=3) * 0.3
        mol = FakeMol(A, channels)
        nconf = 5
        pos = A + ck.rng.normal(size=(nconf, 3)) * ck.rng.choice([0.3, 1.5, 4.0])
        wf = GaussWF(alpha=0.7, beta=0.3)
        cfg = OpenConfigs(pos[:, None, :].copy())
        wf.recompute(cfg)
        naip = int(ck.rng.choice([6, 12, 18]))
        thr = float(ck.rng.choice([1e-3, 0.05, 10.0, 1e6]))
        inp = {"channels": {str(k): v for k, v in channels.items()}, "naip": naip, "threshold": thr, "pos": pos.tolist()}
        def run():
            with FixedRotation():
                full = ee.ecp_ea(mol, cfg, wf, 0, mol._atom[0], -1, naip)["total"]
                with Uniforms(lambda size: np.zeros(size)):
                    acc = ee.ecp_ea(mol, cfg, wf, 0, mol._atom[0], thr, naip)
                with Uniforms(lambda size: np.ones(size) * (1 - 2.0 ** -53)):
                    rej = ee.ecp_ea(mol, cfg, wf, 0, mol._atom[0], thr, naip)
                r_ea = np.linalg.norm(pos - A, axis=1)
                _, v_l = ee.get_v_l(mol, "X", r_ea)
                with Uniforms(lambda size: np.zeros(size)):
                    _, prob = ee.ecp_mask(v_l, thr)
            return full, acc["total"], rej["total"], prob
        ok, res = ck.guarded(run, "mask", S_MASK, inp)
        ck.case(("maskE", it), nontrivial=True)
        if not ok:
            continue
        full, acc, rej, prob = res
        # a walker with p = 1 is accepted for every u: its 'rejected' run is the accepted value too
        expect = prob * acc + (1 - prob) * np.where(prob >= 1, acc, rej)
        if not np.allclose(expect, full, atol=1e-11, rtol=1e-11):
            ck.violation("walker_skipping_biased", S_MASK, inp, expected=np.asarray(full).tolist(), got=np.asarray(expect).tolist(),
                         oracle="p * value(accepted) + (1-p) * value(skipped) = deterministic value, with p from ecp_mask")
        if len(ck.samples) < 2:
            ck.sample({"mask_unbiased": {"threshold": thr, "naip": naip, "p": prob.tolist()}})


def check_selection(ck):
    import pyqmc.observables.jax_ecp as je
    exprs, todo = [], []
    ncase = 40 if ck.thorough else 12
    for it in range(ncase):
        npts = int(ck.rng.integers(2, 7))
        nl = 2
        # small distinct integer probabilities (argsort ties are implementation-defined), possibly one zero
        probs = ck.rng.permutation([7, 4, 2, 1, 3, 0][:npts]).astype(float)
        v = ck.rng.normal(size=(1, npts, nl + 1))
        v[0, probs == 0] = 0.0  # zero probability <-> zero term (prob = sum_l v_l^2 in the code)
        mi = je._MoveInfo(r_ea_vec=np.zeros((1, npts, 3)), r_ea_i=np.arange(npts)[None, :, None] * np.ones((1, npts, 3)), probability=probs[None].copy(), v_l=v.copy(), P_l=np.ones((1, npts, nl + 1)))
        full = v[0].sum(axis=0)
        for n_det in range(0, npts + 1):
            for n_rand in (1, 2):
                if n_det + n_rand >= npts:
                    rest = None
                inp = {"probability": probs.tolist(), "n_det": n_det, "n_rand": n_rand, "npoints": npts}
                # enumerate the uniform draws on a grid fine enough for the (dyadic) cdf of the renormalised rest
                order = np.argsort(probs)
                det = np.zeros(npts, dtype=bool)
                if n_det > 0:
                    det[order[npts - n_det:]] = True
                rest_tot = probs[~det].sum()
                # the cdf of the renormalised rest has its edges at multiples of 1/rest_tot: midpoints of that grid enumerate the draws exactly
                M = int(rest_tot) if rest_tot > 0 else max(1, npts - n_det)
                acc = np.zeros(nl + 1)
                ncomb = 0
                bad_shape = None
                grid = [(k + 0.5) / M for k in range(M)]
                for rs in itertools.product(grid, repeat=n_rand):
                    def run():
                        with Uniforms(lambda size: np.array(rs).reshape(size)):
                            return je.downselect_move_info(mi, n_det, n_rand)
                    ok, out = ck.guarded(run, "selection", S_SEL, inp)
                    if not ok:
                        break
                    acc += out.v_l[0].sum(axis=0)
                    ncomb += 1
                    if n_det + n_rand < npts and out.v_l.shape[1] != n_det + n_rand:
                        bad_shape = out.v_l.shape[1]
                ck.case(("sel", it, n_det, n_rand), nontrivial=n_det + n_rand < npts)
                if ncomb == 0:
                    continue
                est = acc / ncomb
                if bad_shape is not None:
                    ck.violation("selection_size", S_SEL, inp, expected=n_det + n_rand, got=bad_shape, oracle="n_det deterministic + n_rand random points")
                if not np.allclose(est, full, atol=1e-10, rtol=1e-10):
                    ck.violation("point_selection_biased", S_SEL, inp, expected=full.tolist(), got=est.tolist(),
                                 oracle="exact expectation over all uniform draws (dyadic cdf, midpoint grid) = sum over all points")
                if n_det + n_rand < npts:
                    detl = coq_list(["true" if d else "false" for d in det])
                    exprs.append("qz (select_expectation %s %s %s)" % (coq_list([qlit(x) for x in probs]), detl, coq_list([qlit(x) for x in v[0, :, 0]])))
                    todo.append((inp, float(est[0])))
        if len(ck.samples) < 4:
            ck.sample({"selection": {"probability": probs.tolist(), "full_sum": full.tolist()}})
    vals = ck.coq_eval("select", ["C09.Model", "C13.Model"], exprs, scope="Q_scope")
    nmis = 0
    for (inp, est), m in zip(todo, vals):
        if m is None:
            continue
        if abs(float(F(*m)) - est) > 1e-10 * max(1, abs(est)):
            nmis += 1
            if nmis <= 3:
                ck.correspondence_broken("C13 model select_expectation vs enumerated expectation of downselect_move_info", json.dumps({"input": inp, "model": float(F(*m)), "impl": est}))
    ck.stats["select_model_vs_impl_compared"] = len(todo)
    ck.stats["select_model_vs_impl_mismatch"] = nmis
    # n_random = 0 with points left over is an error branch (refusal), not a silent bias
    mi = je._MoveInfo(np.zeros((1, 4, 3)), np.zeros((1, 4, 3)), np.array([[4.0, 2, 1, 1]]), np.ones((1, 4, 2)), np.ones((1, 4, 2)))
    try:
        with np.errstate(all="ignore"):
            out = je.downselect_move_info(mi, 1, 0)
        tot = out.v_l[0].sum()
        if np.isfinite(tot) and abs(tot - 8.0) > 1e-9:
            ck.violation("point_selection_biased", S_SEL, {"n_det": 1, "n_rand": 0}, expected="error or the full sum", got=float(tot))
    except Exception:
        ck.count("n_random_zero_refused")


class Mol2:
    """two-atom fake molecule with possibly different channel sets"""

    def __init__(self, atoms):
        self._atom = [(n, list(p)) for n, p, _ in atoms]
        self._ecp = {n: (2, [[l, [[], [], [(ex, co)]]] for l, (ex, co) in sorted(ch.items())]) for n, p, ch in atoms if ch}
        self._A = np.array([p for _, p, _ in atoms], dtype=float)

    def atom_coords(self):
        return self._A


def check_naip_and_agreement(ck):
    import pyqmc.observables.eval_ecp as ee
    import pyqmc.observables.jax_ecp as je
    from pyqmc.configurations.coord import OpenConfigs, PeriodicConfigs
    lat = np.array([[6.0, 0, 0], [0.7, 6.0, 0], [0, 0.4, 7.0]])
    for it in range(30 if ck.thorough else 10):
        L1, L2 = int(ck.rng.integers(-1, 5)), int(ck.rng.integers(0, 4))
        ch = lambda L: dict([(l, (float(ck.rng.uniform(0.4, 1.5)), float(ck.rng.normal()))) for l in range(L + 1)] + [(-1, (0.9, float(ck.rng.normal())))])
        atoms = [("X", ck.rng.normal(size=3) * 0.3 + 1.0, ch(L1)), ("Y", ck.rng.normal(size=3) * 0.3 + np.array([3.0, 2.0, 2.5]), ch(L2))]
        mol = Mol2(atoms)
        periodic = bool(it % 2)
        nconf, nelec = 4, 2
        pos = ck.rng.normal(size=(nconf, nelec, 3)) * 1.2 + 2.0
        cfg = PeriodicConfigs(pos.copy(), lat) if periodic else OpenConfigs(pos.copy())
        wf = CosWF(lat, amp=0.5) if periodic else GaussWF(alpha=0.5, beta=0.2, center=2.0)
        wf.recompute(cfg)
        inp = {"max_channel": [L1, L2], "periodic": periodic}
        # default table is total over the highest channel
        ok, acc = ck.guarded(lambda: je.ECPAccumulator(mol), "naip", S_NAIP, inp)
        ck.case(("naipdef", it))
        if ok:
            for a, L in zip(range(2), (L1, L2)):
                if L >= 0 and acc.naip[a] == 0:
                    ck.violation("naip_default_drops_nonlocal_part", S_NAIP, inp, expected="a positive number of points for an atom with non-local channels", got=[int(x) for x in acc.naip])
        for n in ([6, 12, 18] if ck.thorough else [int(ck.rng.choice([6, 12, 18]))]):
            def run():
                with FixedRotation():
                    a_int = je.ECPAccumulator(mol, naip=n, stochastic_rotation=False, nselect_deterministic=2 * n, nselect_random=0)
                    a_lst = je.ECPAccumulator(mol, naip=np.array([n, n]), stochastic_rotation=False, nselect_deterministic=2 * n, nselect_random=0)
                    e_int = a_int(cfg, wf)
                    e_lst = a_lst(cfg, wf)
                    e_old = ee.ecp(mol, cfg, wf, -1, n)
                return a_int.naip, e_int, e_lst, e_old
            ok, res = ck.guarded(run, "naip", S_NAIP, dict(inp, naip=n))
            ck.case(("naip", it, n), nontrivial=True)
            if not ok:
                continue
            naip_norm, e_int, e_lst, e_old = res
            if [int(x) for x in naip_norm] != [n, n]:
                ck.violation("naip_integer_not_per_atom", S_NAIP, dict(inp, naip=n), expected=[n, n], got=[int(x) for x in naip_norm], oracle="one integer = that many points on every atom")
            if not np.allclose(e_int, e_lst, atol=1e-12, rtol=1e-12):
                ck.violation("naip_integer_vs_list", S_NAIP, dict(inp, naip=n), expected=np.asarray(e_lst).tolist(), got=np.asarray(e_int).tolist())
            if not np.allclose(e_lst, e_old, atol=1e-10, rtol=1e-10):
                ck.violation("implementations_disagree", S_BOTH, dict(inp, naip=n), expected=np.asarray(e_old).tolist(), got=np.asarray(e_lst).tolist(),
                             oracle="eval_ecp.ecp (threshold <= 0) vs jax_ecp.ECPAccumulator (all points deterministic), same orientation")
            if len(ck.samples) < 6:
                ck.sample({"both_implementations": dict(inp, naip=n), "ecp": np.real(np.asarray(e_old)).tolist()[:2]})


def main(argv):
    ck = Check("C13", argv)
    ck.rule = ("ecp_mask on dyadic channel values / thresholds {-1,0,2^-10,1/8,8,2^20} / uniforms compared exactly with the Coq model; ecp_ea expectation over the uniform computed exactly as p*accepted+(1-p)*skipped against the deterministic value "
               "(thresholds 1e-3..1e6, naip 6/12/18); downselect_move_info on synthetic move sets with dyadic probabilities: exact expectation by enumerating every uniform draw on the cdf grid for n_det = 0..npoints and n_rand = 1,2, compared with the full sum and with the Coq model; "
               "integer vs list naip, default naip table for highest channels -1..4, and agreement of the two implementations with a fixed orientation on two-atom pseudo-molecules (open and periodic) with stub wave functions. Non-trivial: a shortcut is actually active.")
    ck.trusted = ["Coq 8.16.1 kernel + vm_compute", "harness/c13.py (patched numpy.random.random and scipy Rotation.random), c12.py FakeMol, stubs.py"]
    ck.assumptions = ["expectations are over the uniform draws; measure-zero events (a uniform exactly on a cdf edge) are not counted", "n_random = 0 with points left over is an error branch (ZeroDivisionError/inf), treated as refusal"]
    ck.coq_build("C13", THEOREMS)
    if not ck.replay:
        check_mask(ck)
        check_selection(ck)
        check_naip_and_agreement(ck)
    return ck.finish()
