"""C03 — every wave-function ratio equals Psi(R')/Psi(R) (two full recomputations); ratio calls do not change state."""
import numpy as np

from common import Check
import wfzoo
import wfcheck as wc

THEOREMS = ["C03_determinant_ratio", "C03_exponential_ratio", "C03_multideterminant_reference_cancels", "C03_product_ratio", "C03_sum_ratio", "C03_batched_calls_are_maps",
            "C03_model_ratio_is_the_determinant_ratio", "C03_multideterminant_testrow_up_is_psi_moved_over_psi", "C03_multideterminant_testrow_down_is_psi_moved_over_psi",
            "C03_shared_determinants_move_together", "C03_testrow_computes"]
S_TR = "pyqmc/wf/slater.py:Slater._testrow/testvalue"
SITE = "wave function ratio"


def relerr(got, ref):
    got, ref = np.asarray(got), np.asarray(ref)
    return np.abs(got - ref) / np.maximum(np.abs(ref), 1e-300)


def check(ck):
    zoo = wfzoo.obc_wfs(ck.rng, which="all") + wfzoo.pbc_wfs(ck.rng, which="all+gps")
    worst = {}
    import os
    only = os.environ.get("VERIF_ONLY_WF")
    for name, mol, wf in zoo:
        if wf is None or (only and name != only):
            continue
        nconf = 5
        cfg = wfzoo.walkers(mol, nconf, ck.rng, spread=1.2)
        cfg = wc.move_off_nodes(wf, cfg, ck.rng)
        wf.recompute(cfg)
        ref_wf = wc.fresh(wf)
        nelec = cfg.configs.shape[1]
        periodic = hasattr(cfg, "wrap")
        es = sorted(set([0, nelec - 1] + [int(ck.rng.integers(0, nelec)) for _ in range(2 if ck.thorough else 1)]))
        werr = 0.0
        snap0 = wc.snapshot(wf)
        for e in es:
            for dist in ([0.01, 0.5, 3.0, 10.0] if ck.thorough else [0.01, 1.0, 10.0]):
                pos = cfg.configs[:, e] + ck.rng.normal(size=(nconf, 3)) * dist
                epos = wc.raw_electron(cfg, e, pos)
                new_cfg = wc.with_electron_at(cfg, e, epos)
                ref = wc.psi_ratio(ref_wf, new_cfg, cfg)
                ok_ref = np.isfinite(ref) & (np.abs(ref) > 1e-10) & (np.abs(ref) < 1e10)
                inp = {"wf": name, "electron": e, "move_scale": dist, "periodic": periodic}
                if not ok_ref.any():
                    ck.count("cases_skipped_ratio_out_of_range")
                    continue
                # single-position ratio
                ok, r1 = ck.guarded(lambda: np.asarray(wf.testvalue(e, epos)[0]), "ratio", SITE, dict(inp, call="testvalue"))
                ck.case(("tv", name, e, dist))
                if ok:
                    err = float(np.max(relerr(r1[ok_ref], ref[ok_ref])))
                    werr = max(werr, err)
                    if not np.isfinite(err) or err > 1e-7:
                        ck.violation("ratio_not_psi_ratio", SITE, dict(inp, call="testvalue"), expected=ref.tolist().__repr__()[:300], got=r1.tolist().__repr__()[:300], oracle="Psi(R')/Psi(R) from two full recomputations of an independent copy")
                # ratio returned with the gradient
                ok, r2 = ck.guarded(lambda: np.asarray(wf.gradient_value(e, epos)[1]), "ratio", SITE, dict(inp, call="gradient_value"))
                if ok:
                    err = float(np.max(relerr(r2[ok_ref], ref[ok_ref])))
                    werr = max(werr, err)
                    if not np.isfinite(err) or err > 1e-7:
                        ck.violation("ratio_not_psi_ratio", SITE, dict(inp, call="gradient_value"), expected=ref.tolist().__repr__()[:300], got=r2.tolist().__repr__()[:300], oracle="Psi(R')/Psi(R) from two full recomputations")
                # subset of walkers
                for mask in (ck.rng.random(nconf) < 0.5, np.zeros(nconf, dtype=bool), np.ones(nconf, dtype=bool)):
                    if not mask.any() and not ck.thorough:
                        continue
                    def runm():
                        return np.asarray(wf.testvalue(e, epos, mask=mask)[0])
                    ok, r3 = ck.guarded(runm, "ratio", SITE, dict(inp, call="testvalue(mask)", mask=mask.tolist()))
                    ck.case(("tvm", name, e, dist, tuple(mask.tolist())))
                    if ok:
                        r3 = np.asarray(r3).reshape(-1)
                        if r3.shape[0] != int(mask.sum()):
                            ck.violation("masked_ratio_shape", SITE, dict(inp, mask=mask.tolist()), expected=int(mask.sum()), got=list(r3.shape))
                        elif mask.any():
                            sel = ok_ref[mask]
                            err = float(np.max(relerr(r3[sel], ref[mask][sel]))) if sel.any() else 0.0
                            werr = max(werr, err)
                            if not np.isfinite(err) or err > 1e-7:
                                ck.violation("ratio_not_psi_ratio", SITE, dict(inp, call="testvalue(mask)", mask=mask.tolist()), expected=ref[mask].tolist().__repr__()[:300], got=r3.tolist().__repr__()[:300])
            # trial positions exactly ON a nucleus and exactly ON another (opposite-spin) electron: the cusp functions are finite there
            # (their gradients need not be), and the ratios must still be Psi(R')/Psi(R)
            nup = mol.nelec[0]
            others = [j for j in range(nelec) if (j >= nup) != (e >= nup)]
            specials = [("on nucleus", np.repeat(mol.atom_coords()[int(ck.rng.integers(0, len(mol.atom_coords())))][None], nconf, axis=0))]
            if others:
                specials.append(("on an opposite-spin electron", cfg.configs[:, others[int(ck.rng.integers(0, len(others)))]].copy()))
            for label, pos in specials:
                epos = wc.raw_electron(cfg, e, pos)
                with np.errstate(all="ignore"):
                    ref = wc.psi_ratio(ref_wf, wc.with_electron_at(cfg, e, epos), cfg)
                ok_ref = np.isfinite(ref) & (np.abs(ref) > 1e-10) & (np.abs(ref) < 1e10)
                if not ok_ref.any():
                    ck.count("coincidence cases skipped (reference ratio out of range)")
                    continue
                inp = {"wf": name, "electron": e, "trial_position": label, "periodic": periodic}
                for call, fn in (("testvalue", lambda: np.asarray(wf.testvalue(e, epos)[0])), ("gradient_value", lambda: np.asarray(wf.gradient_value(e, epos)[1]))):
                    with np.errstate(all="ignore"):
                        ok, r = ck.guarded(fn, "ratio", SITE, dict(inp, call=call))
                    ck.case(("coincide", name, e, label, call))
                    if ok:
                        err = float(np.max(relerr(r[ok_ref], ref[ok_ref])))
                        werr = max(werr, err) if np.isfinite(err) else werr
                        if not np.isfinite(err) or err > 1e-7:
                            ck.violation("ratio_not_psi_ratio", SITE, dict(inp, call=call), expected=ref.tolist().__repr__()[:300], got=np.asarray(r).tolist().__repr__()[:300],
                                         oracle="Psi(R')/Psi(R) from two full recomputations; trial position coincides with a nucleus / another electron")
            # several auxiliary points per walker (as the pseudopotential uses), with and without mask
            for naux in ([1, 6, 12] if ck.thorough else [6]):
                aux = cfg.configs[:, e][:, None, :] + ck.rng.normal(size=(nconf, naux, 3)) * ck.rng.choice([0.3, 2.0])
                eaux = wc.raw_electron(cfg, e, aux)
                refa = np.zeros((nconf, naux), dtype=complex)
                for k in range(naux):
                    from pyqmc.configurations.coord import OpenElectron, PeriodicElectron
                    ek = PeriodicElectron(eaux.configs[:, k], eaux.lvec, eaux.dist, wrap=eaux.wrap[:, k]) if periodic else OpenElectron(eaux.configs[:, k], eaux.dist)
                    refa[:, k] = wc.psi_ratio(ref_wf, wc.with_electron_at(cfg, e, ek), cfg)
                for mask in (None, ck.rng.random(nconf) < 0.6):
                    if mask is not None and not mask.any():
                        continue
                    inp = {"wf": name, "electron": e, "aux_points": naux, "masked": mask is not None, "periodic": periodic}
                    ok, ra = ck.guarded(lambda: np.asarray(wf.testvalue(e, eaux, mask=mask)[0]) if mask is not None else np.asarray(wf.testvalue(e, eaux)[0]), "ratio", SITE, inp)
                    ck.case(("aux", name, e, naux, mask is not None))
                    if not ok:
                        continue
                    rr = refa if mask is None else refa[mask]
                    if ra.shape != rr.shape:
                        ck.violation("aux_ratio_shape", SITE, inp, expected=list(rr.shape), got=list(ra.shape))
                        continue
                    good = np.isfinite(rr) & (np.abs(rr) > 1e-10) & (np.abs(rr) < 1e10)
                    err = float(np.max(relerr(ra[good], rr[good]))) if good.any() else 0.0
                    werr = max(werr, err)
                    if not np.isfinite(err) or err > 1e-7:
                        ck.violation("ratio_not_psi_ratio", SITE, dict(inp, call="testvalue(aux)"), expected=rr.tolist().__repr__()[:300], got=ra.tolist().__repr__()[:300])
        # many electrons to one position
        if hasattr(wf, "testvalue_many"):
            pos = cfg.configs[:, 0] + ck.rng.normal(size=(nconf, 3)) * 0.8
            ee = np.arange(nelec)
            for sub in (ee, ee[: max(1, nelec // 2)]):
                inp = {"wf": name, "electrons": sub.tolist(), "periodic": periodic}
                def runmany():
                    ep = wc.raw_electron(cfg, 0, pos)
                    return np.asarray(wf.testvalue_many(sub, ep))
                try:
                    rm = runmany()
                    ok = True
                except AttributeError as ex:
                    if "testvalue_many" in str(ex):
                        ck.count("compositions_with_a_factor_lacking_testvalue_many (refused with AttributeError)")
                        continue
                    ok, rm = ck.guarded(runmany, "ratio", SITE, dict(inp, call="testvalue_many"))
                except Exception:
                    ok, rm = ck.guarded(runmany, "ratio", SITE, dict(inp, call="testvalue_many"))
                ck.case(("many", name, tuple(sub.tolist())))
                if not ok:
                    continue
                # the trial object carries its own wrap counters (those of electron 0 here): the reference places each electron
                # at exactly that unwrapped position, not at a re-wrapped copy that differs by a lattice vector (twist phase)
                ep0 = wc.raw_electron(cfg, 0, pos)
                refm = np.zeros((nconf, len(sub)), dtype=complex)
                for k, el in enumerate(sub):
                    refm[:, k] = wc.psi_ratio(ref_wf, wc.with_electron_at(cfg, int(el), ep0), cfg)
                if rm.shape != refm.shape:
                    ck.violation("many_ratio_shape", SITE, inp, expected=list(refm.shape), got=list(rm.shape))
                    continue
                good = np.isfinite(refm) & (np.abs(refm) > 1e-10) & (np.abs(refm) < 1e10)
                err = float(np.max(relerr(rm[good], refm[good]))) if good.any() else 0.0
                werr = max(werr, err)
                if not np.isfinite(err) or err > 1e-7:
                    ck.violation("ratio_not_psi_ratio", SITE, dict(inp, call="testvalue_many"), expected=refm.tolist().__repr__()[:300], got=rm.tolist().__repr__()[:300])
        else:
            ck.count("classes_without_testvalue_many")
        # purity: no ratio call changed the object's state
        diffs = wc.snapshots_equal(snap0, wc.snapshot(wf))
        if diffs:
            ck.violation("ratio_call_changed_state", SITE, {"wf": name}, expected="bit-identical internal arrays", got=diffs[:6])
        worst[name] = werr
        if len(ck.samples) < 4:
            ck.sample({"wf": name, "max_relative_ratio_error": werr, "state_arrays_compared": len(snap0)})
    ck.stats["worst_relative_ratio_error_by_wf"] = worst


def check_testrow_model(ck):
    """Tie K for the Slater ratio: Slater.testvalue / gradient_value / testvalue_many on real (single- and multi-determinant) wave functions against
    the executable model C03/Multidet.v testrow (which uses C02/SM.v sm_ratio) evaluated by vm_compute in exact rational arithmetic on the object's
    own inverse matrices, determinant values, determinant maps and coefficients. The model is proved to be Psi'/Psi (Props3/Props4)."""
    import json
    from common import qlit, coq_list, frac
    from pyqmc.wf.slater import Slater
    fixtures = []
    mol, mf = wfzoo.lih_rhf()
    fixtures.append(("slater_rhf", mol, Slater(mol, mf)))
    molu, mfu = wfzoo.lih_uhf()
    fixtures.append(("slater_uhf_triplet", molu, Slater(molu, mfu)))
    molc, mfc, mc = wfzoo.h2_casci()
    fixtures.append(("multislater_h2_casci", molc, Slater(molc, mfc, mc=mc, tol=0.0)))
    moll, mfl, mcl = wfzoo.lih_casci()
    wfl = Slater(moll, mfl, mc=mcl, tol=0.0)
    fixtures.append(("multislater_lih_casci", moll, wfl))
    wfr = Slater(moll, mfl, mc=mcl, tol=0.0)
    wfr.parameters["det_coeff"] = ck.rng.normal(size=np.asarray(wfr.parameters["det_coeff"]).shape)     # every expansion term matters
    fixtures.append(("multislater_lih_random_coefficients", moll, wfr))

    def q(x):
        return "(Q2Qc %s)" % qlit(float(x))

    exprs, todo = [], []
    skipped = 0
    for name, m, wf in fixtures:
        nconf = 3
        cfg = wfzoo.walkers(m, nconf, ck.rng, spread=1.2)
        cfg = wc.move_off_nodes(wf, cfg, ck.rng)
        wf.recompute(cfg)
        try:
            nup = int(wf._nelec[0])
            maps = [[int(i) for i in wf._det_map[0]], [int(i) for i in wf._det_map[1]]]
            occ = wf._det_occup
            coeff = np.asarray(wf.parameters["det_coeff"])
            inverse = [np.asarray(x) for x in wf._inverse]
            dets = [np.asarray(x) for x in wf._dets]
        except AttributeError as ex:
            skipped += 1
            ck.stats["testrow_model_tie_skipped"] = "internals of Slater not found (%s): the model tie needs _nelec/_det_map/_det_occup/_inverse/_dets" % ex
            continue
        if any(np.iscomplexobj(x) and np.max(np.abs(np.imag(x))) > 0 for x in inverse + [coeff]):
            ck.count("testrow_complex_cases_not_modelled")
            continue
        nelec = cfg.configs.shape[1]
        for e in range(nelec):
            s = int(e >= nup)
            n = inverse[s].shape[-1]
            for call in ("testvalue", "gradient_value", "testvalue_many"):
                pos = cfg.configs[:, e] + ck.rng.normal(size=(nconf, 3)) * (0.05 if call == "gradient_value" else 0.8)
                epos = wc.raw_electron(cfg, e, pos)
                inp = {"wf": name, "electron": e, "call": call}
                if call == "testvalue":
                    ok, res = ck.guarded(lambda: wf.testvalue(e, epos), "ratio", S_TR, inp)
                    if not ok:
                        continue
                    ratio, (ao, mo) = res
                elif call == "gradient_value":
                    ok, res = ck.guarded(lambda: wf.gradient_value(e, epos), "ratio", S_TR, inp)
                    if not ok:
                        continue
                    ratio = res[1]
                    mo = wf.orbitals.mos(wf.orbitals.aos(wf._gtoval, epos), s)
                else:
                    same = np.array([k for k in range(nelec) if int(k >= nup) == s])
                    ok, res = ck.guarded(lambda: wf.testvalue_many(same, epos), "ratio", S_TR, inp)
                    if not ok:
                        continue
                    ratio = np.asarray(res)[:, list(same).index(e)]
                    mo = wf.orbitals.mos(wf.orbitals.aos(wf._gtoval, epos), s)
                ratio = np.asarray(ratio)
                for w in range(nconf):
                    vecs = [np.real(np.asarray(mo)[w, o]) for o in occ[s]]
                    Dv = [[float(np.real(dets[sp][0, w, k]) * np.exp(np.real(dets[sp][1, w, k]))) for k in range(dets[sp].shape[2])] for sp in (0, 1)]
                    if not all(np.isfinite(x) and x != 0 for sp in (0, 1) for x in Dv[sp]):
                        ck.count("testrow_cases_with_zero_or_overflowing_determinant_skipped")
                        continue
                    terms = [coeff[d] * Dv[0][maps[0][d]] * Dv[1][maps[1][d]] for d in range(len(coeff))]
                    if abs(sum(terms)) < 1e-6 * sum(abs(t) for t in terms):
                        ck.count("testrow_cases_near_node_skipped")
                        continue
                    invs = coq_list([coq_list([coq_list([q(x) for x in row]) for row in np.real(inverse[s][w, k])]) for k in range(inverse[s].shape[1])])
                    V = coq_list([coq_list([q(x) for x in v]) for v in vecs])
                    ex = "testrow_list %d %d %s %s %s %s %s %s %s %s" % (
                        n, e - s * nup, "true" if s == 0 else "false", invs, V, coq_list([q(x) for x in Dv[0]]), coq_list([q(x) for x in Dv[1]]),
                        coq_list(["%d%%nat" % i for i in maps[0]]), coq_list(["%d%%nat" % i for i in maps[1]]), coq_list([q(float(np.real(x))) for x in coeff]))
                    exprs.append(ex)
                    todo.append((dict(inp, walker=w, n=n, ndet=len(coeff)), complex(ratio[w])))
                    ck.case(("testrow", name, e, call, w), nontrivial=True)
    vals = ck.coq_eval("testrow", ["C02.SM", "C03.Multidet"], exprs, prelude="From Coq Require Import Qcanon.\n", shard=20, scope="Z_scope")
    nmis = 0
    worst = 0.0
    for (inp, r), v in zip(todo, vals):
        if v is None:
            continue
        mr = float(frac(v[0]) / v[1])
        err = abs(mr - r) / max(1.0, abs(mr))
        worst = max(worst, err)
        if err > 1e-8:
            nmis += 1
            if nmis <= 3:
                ck.correspondence_broken("C03 model testrow (C03/Multidet.v, C02/SM.v sm_ratio) vs Slater.%s" % inp["call"], json.dumps(dict(inp, model_ratio=mr, impl_ratio=repr(r))))
    ck.stats["testrow_model_vs_impl_compared"] = len(todo)
    ck.stats["testrow_model_vs_impl_mismatch"] = nmis
    ck.stats["testrow_model_vs_impl_worst_relative_difference"] = worst


def main(argv):
    ck = Check("C03", argv)
    ck.rule = ("for every wave-function class and composition (single/multi-determinant Slater, two/three-body Jastrow, geminal, GPS, products, sums with real and complex coefficients, JAX variants; open and periodic with real and complex twist): "
               "testvalue, gradient_value, masked testvalue (some/none/all), auxiliary-point testvalue (1/6/12 points, masked or not) and testvalue_many are compared with Psi(R')/Psi(R) from two full recomputations of an independent copy, "
               "for moves of 0.01-10 bohr (beyond the Jastrow cutoff; outside the periodic cell with the trial object's own wrap counters); a bit-for-bit snapshot of every internal array is compared before/after. Every (class, electron, move) is a distinct non-trivial case.")
    ck.trusted = ["Coq 8.16.1 kernel", "mathcomp 1.15 (determinant ratio: closed under the global context)", "Coq Reals axioms for the real-number identities", "harness/c03.py, wfcheck.py (recompute oracle), wfzoo.py (PySCF fixtures)"]
    ck.assumptions = ["cases whose reference ratio is outside [1e-10, 1e10] are skipped and counted", "JAX classes run with jax_enable_x64"]
    ck.coq_build("C03", THEOREMS, props_files=["C03/Props.v", "C03/Props2.v", "C03/Props3.v", "C03/Props4.v"])
    if not ck.replay:
        check_testrow_model(ck)
        check(ck)
    return ck.finish({"JAX class, trial position on a nucleus, NaN": lambda v: str(v.get("input", {}).get("wf", "")).startswith("jax") and v.get("input", {}).get("trial_position") == "on nucleus" and "nan" in str(v.get("got"))})
