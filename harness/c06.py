"""C06 — Psi and the local energy respect exchange of same-spin electrons, rigid translation, and lattice translations (twist phase)."""
import numpy as np

from common import Check, coq_list
import wfzoo
import wfcheck as wc

THEOREMS = ["C06_exchange_flips_determinant", "C06_relabelling_gives_signature", "C06_multideterminant_flips", "C06_pair_sums_ignore_same_spin_relabelling",
            "C06_exchange_of_same_spin_electrons_keeps_spins", "C06_one_body_sums_ignore_same_spin_relabelling", "C06_differences_ignore_translation",
            "C06_lattice_translation_multiplies_by_twist_phase", "C06_twist_phase_is_multiplicative", "C06_kpoints_of_one_twist_share_the_phase", "C06_twist_phase_has_modulus_one",
            "C06_signature_flips_on_adjacent_exchange", "C06_signature_of_identity_is_even", "C06_signature_flips_on_any_exchange", "C06_signature_is_parity_of_number_of_exchanges", "C06_signature_from_identity_is_parity_of_number_of_exchanges"]
S_X = "exchange of same-spin electrons"
S_T = "rigid translation of molecule and electrons"
S_L = "lattice translation of electrons"
TOL = 1e-7


def value(wfc, cfg):
    s, l = wfc.recompute(cfg)
    return np.asarray(s).astype(complex), np.asarray(l).astype(complex)


def energy_acc(mol, new_ecp=False):
    from pyqmc.observables.accumulators import EnergyAccumulator
    kw = {"ewald_gmax": 10} if hasattr(mol, "a") else {}
    acc = EnergyAccumulator(mol, threshold=-1, **kw)
    if new_ecp and mol._ecp != {}:
        import pyqmc.observables.jax_ecp as je
        acc.use_old_ecp = False
        acc.ecp = je.ECPAccumulator(mol, stochastic_rotation=False, nselect_deterministic=10000, nselect_random=0)
    return acc


def energy(acc, cfg, wfc):
    from c13 import FixedRotation
    wfc.recompute(cfg)
    with FixedRotation():
        d = acc(cfg, wfc)
    return {k: np.asarray(v).astype(complex) for k, v in d.items()}


def compare_energy(ck, site, inp, e1, e2, okw):
    bad = []
    for k in e1:
        a, b = e2[k][okw], e1[k][okw]
        fin = np.isfinite(b)
        if not fin.any():
            continue
        err = float(np.max(np.abs(a[fin] - b[fin]) / np.maximum(1.0, np.abs(b[fin]))))
        if not np.isfinite(err) or err > TOL * 10:
            bad.append((k, err))
    if bad:
        ck.violation("energy_component_changed", site, inp, expected="every component of the local energy unchanged", got=bad, oracle="the same accumulator on the transformed configuration (fixed quadrature orientation, no stochastic skipping)")


def is_fermionic(name):
    return any(t in name for t in ("slater", "add(", "multislater"))


def spin_blocks(mol):
    nup, ndn = mol.nelec
    return [list(range(nup)), list(range(nup, nup + ndn))]


def permuted(cfg, perm):
    c = cfg.copy()
    c.configs = cfg.configs[:, perm].copy()
    if hasattr(cfg, "wrap"):
        c.wrap = cfg.wrap[:, perm].copy()
    return c


def check_exchange(ck):
    zoo = wfzoo.obc_wfs(ck.rng, which="all", jax=True) + wfzoo.pbc_wfs(ck.rng, which="all")[: (3 if ck.thorough else 2)] + wfzoo.ecp_wfs(ck.rng, periodic=ck.thorough)
    perm_cases, perm_exprs = [], []
    for name, mol, wf in zoo:
        if wf is None:
            continue
        nconf = 4
        cfg = wfzoo.walkers(mol, nconf, ck.rng, spread=1.2)
        if hasattr(cfg, "wrap"):
            cfg.wrap += ck.rng.integers(-1, 2, size=cfg.wrap.shape)  # walkers that have already crossed cell faces
        cfg = wc.move_off_nodes(wf, cfg, ck.rng)
        ref = wc.fresh(wf)
        s0, l0 = value(ref, cfg)
        okw = np.real(l0) > np.median(np.real(l0)) - 25
        nelec = cfg.configs.shape[1]
        ferm = is_fermionic(name)
        blocks = spin_blocks(mol)
        pairs = [(a, b) for bl in blocks for i, a in enumerate(bl) for b in bl[i + 1:]]
        if len(pairs) > (6 if ck.thorough else 3):
            pairs = [pairs[int(i)] for i in ck.rng.choice(len(pairs), size=(6 if ck.thorough else 3), replace=False)]
        accs = None
        if "jax" not in name:
            accs = [energy_acc(mol)] + ([energy_acc(mol, new_ecp=True)] if mol._ecp != {} else [])
            e0 = [energy(a, cfg, ref) for a in accs]
        perms = []
        for a, b in pairs:
            p = list(range(nelec))
            p[a], p[b] = p[b], p[a]
            perms.append(("exchange", (a, b), p))
        for _ in range(3 if ck.thorough else 1):  # general same-spin relabellings (3-cycles etc.)
            p = list(range(nelec))
            for bl in blocks:
                sh = list(ck.rng.permutation(bl))
                for i, t in zip(bl, sh):
                    p[i] = int(t)
            if p != list(range(nelec)):
                perms.append(("relabel", None, p))
        for kind, pair, p in perms:
            inp = {"wf": name, "kind": kind, "pair": pair, "permutation": p, "periodic": hasattr(cfg, "wrap")}
            cfg2 = permuted(cfg, p)
            ok, res = ck.guarded(lambda: value(ref, cfg2), "exchange", S_X, inp)
            ck.case(("x", name, tuple(p)), nontrivial=True)
            if not ok:
                continue
            s2, l2 = res
            inv = sum(1 for i in range(nelec) for j in range(i + 1, nelec) if p[i] > p[j])
            want = (-1.0) ** inv if ferm else 1.0
            perm_cases.append((inp, inv % 2))
            perm_exprs.append("parity %s" % coq_list([str(x) for x in p]))
            ratio = (s2 / s0) * np.exp(l2 - l0)
            err = float(np.max(np.abs(ratio[okw] - want)))
            if not np.isfinite(err) or err > TOL:
                ck.violation("exchange_symmetry", S_X, inp, expected="Psi(permuted)/Psi = %+d (%s)" % (want, "fermionic" if ferm else "symmetric factor"), got=[complex(x).__repr__() for x in ratio],
                             oracle="two full recomputations of an independent copy")
            if accs is not None and (kind == "exchange" or ck.thorough):
                for ai, a in enumerate(accs):
                    ok, e2 = ck.guarded(lambda: energy(a, cfg2, ref), "exchange", S_X, dict(inp, accumulator=ai))
                    if ok:
                        compare_energy(ck, S_X, dict(inp, ecp_code="old" if ai == 0 else "new"), e0[ai], e2, okw)
        if len(ck.samples) < 3:
            ck.sample({"wf": name, "pairs": pairs, "fermionic": ferm})
    # the signature the model assigns to each relabelling (Coq, vm_compute) is the one used above
    vals = ck.coq_eval("parity", ["C06.Parity"], perm_exprs, scope="nat_scope")
    nmis = 0
    for (inp, par), v in zip(perm_cases, vals):
        if v is not None and str(v).strip().lower() != ("true" if par else "false"):
            nmis += 1
            if nmis <= 2:
                ck.correspondence_broken("C06 model parity vs harness signature", str((inp, v)))
    ck.stats["permutations_signed_by_the_model"] = len(perm_cases)
    # every relabelling applied above, decomposed into exchanges of two positions: the model's apply_swaps must reproduce it and the number of
    # exchanges must have the parity of the signature (C06_signature_is_parity_of_number_of_exchanges says this holds for every decomposition)
    ex_exprs = []
    for inp, par in perm_cases:
        p = inp["permutation"]
        cur, sw = list(range(len(p))), []
        for k in range(len(p)):
            if cur[k] != p[k]:
                j = cur.index(p[k])
                cur[k], cur[j] = cur[j], cur[k]
                sw.append((k, j))
        ex_exprs.append("exchanges_give %d [%s] %s" % (len(p), "; ".join("(%d, %d)" % s for s in sw), coq_list([str(x) for x in p])))
    vals = ck.coq_eval("exchanges", ["C06.Parity", "C06.Exchanges"], ex_exprs, scope="nat_scope")
    nmis = 0
    for (inp, par), v in zip(perm_cases, vals):
        if v is not None and str(v).strip().lower() != "true":
            nmis += 1
            if nmis <= 2:
                ck.correspondence_broken("C06 model apply_swaps vs the relabelling the harness applied", str((inp, v)))
    ck.stats["relabellings_reproduced_from_exchanges_by_the_model"] = len(ex_exprs) - nmis


BUILDERS = {}


def translated_pairs(ck):
    """(name, mol, wf, mol_t, wf_t, t): the same wave function built on a rigidly translated molecule"""
    from pyqmc.wf.slater import Slater
    from pyqmc.wf.multiplywf import MultiplyWF
    from pyqmc.wf.geminaljastrow import GeminalJastrow
    from pyqmc.wf.three_body_jastrow import ThreeBodyJastrow
    from pyqmc.wftools import generate_jastrow, default_jastrow_basis, generate_gps_jastrow
    out = []

    def shifted(mol, t):
        return mol.set_geom_(mol.atom_coords() + t, unit="Bohr", inplace=False)

    def j3(m):
        a, b = default_jastrow_basis(m)
        return ThreeBodyJastrow(m, a, b)

    mol, mf = wfzoo.lih_rhf()
    molu, mfu = wfzoo.lih_uhf()
    molc, mfc, mc = wfzoo.h2_casci()
    mole, mfe = wfzoo.lih_ecp()
    recipes = [
        ("slater*jastrow*threebody", mol, lambda m: MultiplyWF(Slater(m, mf), generate_jastrow(m)[0], j3(m))),
        ("slater_uhf_triplet*jastrow", molu, lambda m: MultiplyWF(Slater(m, mfu), generate_jastrow(m)[0])),
        ("multislater_casci*jastrow", molc, lambda m: MultiplyWF(Slater(m, mfc, mc=mc, tol=0.0), generate_jastrow(m)[0])),
        ("slater*geminal", mol, lambda m: MultiplyWF(Slater(m, mf), GeminalJastrow(m))),
        ("slater*gps", mol, lambda m: MultiplyWF(Slater(m, mf), generate_gps_jastrow(m)[0])),
        ("ecp_slater*jastrow", mole, lambda m: MultiplyWF(Slater(m, mfe), generate_jastrow(m)[0])),
    ]
    for name, m, build in recipes[: (len(recipes) if ck.thorough else 4)] + ([] if ck.thorough else recipes[5:]):
        t = ck.rng.normal(size=3) * ck.rng.choice([0.5, 5.0, 40.0])
        w0 = wfzoo.randomize(build(m), ck.rng)
        mt = shifted(m, t)
        wt = build(mt)
        for k in w0.parameters.keys():
            v = np.asarray(w0.parameters[k]).copy()
            if "Xsupport" in k:
                v = v + t  # support points are positions in space: they move with the molecule
            wt.parameters[k] = v
        out.append((name, m, w0, mt, wt, t))
    return out


def check_translation(ck):
    for name, mol, wf, mol_t, wf_t, t in translated_pairs(ck):
        nconf = 4
        cfg = wfzoo.walkers(mol, nconf, ck.rng, spread=1.2)
        cfg = wc.move_off_nodes(wf, cfg, ck.rng)
        cfg_t = cfg.copy()
        cfg_t.configs = cfg.configs + t
        inp = {"wf": name, "translation": t.tolist()}
        ok, res = ck.guarded(lambda: (value(wf, cfg), value(wf_t, cfg_t)), "translation", S_T, inp)
        ck.case(("t", name), nontrivial=True)
        if not ok:
            continue
        (s0, l0), (s1, l1) = res
        okw = np.real(l0) > np.median(np.real(l0)) - 25
        ratio = (s1 / s0) * np.exp(l1 - l0)
        err = float(np.max(np.abs(ratio[okw] - 1.0)))
        # orbitals are sums of products of Gaussians and polynomials about the nuclei: rounding grows with |t| only through r - R
        if not np.isfinite(err) or err > 1e-6:
            ck.violation("translation_symmetry", S_T, inp, expected="Psi unchanged", got=[complex(x).__repr__() for x in ratio], oracle="the same wave function (same parameters) built on the translated molecule, electrons translated alike")
        for new in ((False, True) if mol._ecp != {} else (False,)):
            ok, res = ck.guarded(lambda: (energy(energy_acc(mol, new), cfg, wf), energy(energy_acc(mol_t, new), cfg_t, wf_t)), "translation", S_T, dict(inp, new_ecp=new))
            if ok:
                compare_energy(ck, S_T, dict(inp, ecp_code="new" if new else "old"), res[0], res[1], okw)
        if len(ck.samples) < 5:
            ck.sample({"wf": name, "translation": t.tolist(), "max |Psi ratio - 1|": err})


def check_lattice(ck):
    import pyqmc.api as pyq
    import pyqmc.pbc.twists as twists
    from pyqmc.wf.slater import Slater
    from pyqmc.wf.multiplywf import MultiplyWF
    from pyqmc.wftools import generate_jastrow
    from pyqmc.configurations.coord import PeriodicConfigs
    shear = np.array([[1, 1, 0], [0, 1, 0], [0, 0, 1]])
    plan = [(wfzoo.h_pbc_k3, np.eye(3)), (wfzoo.h_pbc_kdiag, np.eye(3)), (wfzoo.h_pbc, np.ones((3, 3)) - 2 * np.eye(3)), (wfzoo.h_pbc, np.diag([2, 1, 1])), (wfzoo.h_pbc_tri, np.array([[1, 1, 0], [-1, 1, 0], [0, 0, 1]])),
            (wfzoo.h_pbc_tri, np.array([[2, 1, 0], [0, 1, 0], [0, 0, 1]])), (wfzoo.h_pbc, np.eye(3)), (wfzoo.h_pbc, np.array([[1, 1, 0], [0, 1, 0], [0, 0, 2]])), (wfzoo.h_pbc_tri, np.eye(3))]
    worst = 0.0
    for fx, S in (plan if ck.thorough else plan[:6]):
        cell, mf = fx()
        sup = pyq.get_supercell(cell, S=S)
        tw = twists.create_supercell_twists(sup, mf)
        ntw = len(tw["primitive_ks"])
        tlist = list(range(ntw)) if (ck.thorough or ntw <= 4) else sorted(set([0, 1, ntw - 1, int(ck.rng.integers(0, ntw))]))
        L = sup.lattice_vectors()
        for t in tlist:
            kinds = tw["primitive_ks"][t]
            ks = np.asarray(mf.kpts)[kinds]
            inp0 = {"S": np.asarray(S).astype(int).tolist(), "twist": int(t), "kpoints_in_twist": len(kinds)}
            ok, wf = ck.guarded(lambda: MultiplyWF(Slater(sup, mf, twist=t, eval_gto_precision=1e-6), wfzoo.randomize(generate_jastrow(sup)[0], ck.rng)), "lattice", S_L, inp0)
            if not ok:
                continue
            nconf = 3
            cfg = wfzoo.walkers(sup, nconf, ck.rng)
            cfg = wc.move_off_nodes(wf, cfg, ck.rng)
            nelec = cfg.configs.shape[1]
            s0, l0 = value(wf, cfg)
            okw = np.real(l0) > np.median(np.real(l0)) - 25
            acc = energy_acc(sup)
            e0 = energy(acc, cfg, wf)
            for rep in range(3 if ck.thorough else 2):
                moved = ck.rng.random((nconf, nelec)) < (0.5 if rep else 1.0 / nelec)
                if not moved.any():
                    moved[0, 0] = True
                n = ck.rng.integers(-2, 3, size=(nconf, nelec, 3)) * moved[:, :, None]
                shift = np.einsum("wed,dk->wek", n.astype(float), L)
                inp = dict(inp0, lattice_translations=n.tolist())
                # (a) the route of a user: a new walker set at the translated positions (wrapped by the constructor)
                cfg2 = PeriodicConfigs(cfg.configs + shift, L, wrap=cfg.wrap.copy())
                ok, res = ck.guarded(lambda: value(wf, cfg2), "lattice", S_L, inp)
                ck.case(("lat", tuple(np.asarray(S).astype(int).ravel().tolist()), t, rep), nontrivial=True)
                if not ok:
                    continue
                s2, l2 = res
                ratio = (s2 / s0) * np.exp(l2 - l0)
                # the k-points of one twist must all give the same phase for a supercell lattice vector
                phases = np.exp(1j * np.einsum("kd,wed->kw", ks, shift))
                if np.max(np.abs(phases - phases[0:1])) > 1e-9:
                    ck.violation("twist_kpoints_disagree_on_phase", S_L, inp, expected="exp(i k.L) equal for all k-points grouped into one twist", got=np.abs(phases - phases[0:1]).max().item())
                want = phases[0]
                err = float(np.max(np.abs(ratio[okw] - want[okw])))
                worst = max(worst, err)
                if not np.isfinite(err) or err > TOL:
                    ck.violation("lattice_translation_phase", S_L, inp, expected=[complex(x).__repr__() for x in want], got=[complex(x).__repr__() for x in ratio],
                                 oracle="exp(i k . n L) with k from mf.kpts of the twist's group; two full recomputations")
                if not np.allclose(cfg2.configs, cfg.configs, rtol=0, atol=1e-9) or not np.array_equal(cfg2.wrap - cfg.wrap, n.astype(float)):
                    # positions on a face can legitimately wrap to the other side: then counters differ by one and positions by a lattice vector
                    un0 = cfg.configs + np.einsum("wed,dk->wek", cfg.wrap, L) + shift
                    un2 = cfg2.configs + np.einsum("wed,dk->wek", cfg2.wrap, L)
                    if not np.allclose(un0, un2, rtol=0, atol=1e-9):
                        ck.violation("lattice_translation_wrap", S_L, inp, expected="same in-cell position, wrap counters + n (C18)", got=float(np.max(np.abs(un0 - un2))))
                ok, e2 = ck.guarded(lambda: energy(acc, cfg2, wf), "lattice", S_L, inp)
                if ok:
                    compare_energy(ck, S_L, inp, e0, e2, okw)
            if len(ck.samples) < 8:
                ck.sample(dict(inp0, electrons=nelec))
    ck.stats["worst_phase_error"] = worst


def main(argv):
    ck = Check("C06", argv)
    ck.rule = ("exchange: for every wave-function class/composition (open; periodic with real and complex twist and non-zero wrap counters; with pseudopotentials; JAX) all or sampled same-spin pairs and random same-spin relabellings: "
               "Psi(permuted)/Psi = signature (fermionic) or +1 (symmetric factors) from two full recomputations, every component of the local energy (old and new pseudopotential code at fixed orientation) unchanged; "
               "translation: the same wave function (same parameters) rebuilt on a molecule translated by 0.5-40 bohr; lattice: supercells S = ones-2I, diag(2,1,1), I (thorough: a sheared one), every twist (or a sample), "
               "random subsets of electrons moved by integer combinations in {-2..2}^3 of the supercell vectors: Psi ratio = exp(i k.nL) with k from mf.kpts, all k-points of the twist agreeing, energy components unchanged.")
    ck.trusted = ["Coq 8.16.1 kernel", "mathcomp 1.15 (closed under the global context)", "Coq Reals axioms for the phase identities", "harness/c06.py, wfcheck.py, wfzoo.py (PySCF fixtures)", "harness signature = parity of inversions (evaluated by the Coq function Parity.parity on the same permutations)"]
    ck.assumptions = ["walkers more than e^-25 below the median |Psi| are skipped", "pseudopotential energies are compared at a fixed quadrature orientation with no stochastic skipping / selection (the random rotation is drawn per electron, so a relabelling changes which electron gets which rotation)",
                      "translation tolerance 1e-6 relative on Psi (orbital values at large distances from the origin)"]
    ck.coq_build("C06", THEOREMS, props_files=["C06/Props.v", "C06/Props2.v"], extra_targets=["C06/Parity.vo", "C06/Exchanges.vo"])
    if not ck.replay:
        check_exchange(ck)
        check_translation(ck)
        check_lattice(ck)
    return ck.finish()
