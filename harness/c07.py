"""C07 — a DMC step is fixed-node, in detailed balance, and weight-bounded; T-move selection."""
import json
import math
import os
import sys

import numpy as np

from common import Check, VERIF, zlit, coq_list
from stubs import GaussWF, RecAcc
from c01 import Draws, lnT, make_wf, make_cfg, LAT

sys.path.insert(0, os.path.join(VERIF, "translator"))

THEOREMS = ["C07_proposal_variance_is_tstep", "C07_tprob_is_reverse_over_forward_density", "C07_acceptance_complex_is_metropolis_hastings",
            "C07_acceptance_real_is_metropolis_hastings_inside_nodal_pocket", "C07_fixed_node", "C07_returned_move", "C07_S_bounded",
            "C07_weight_factor_bounded", "C07_eigenfunction_keeps_weights", "C07_umrigar_drift_is_shrunk_drift", "C07_tmove_interval",
            "C07_tmove_never_to_nonpositive_amplitude", "C07_tmove_no_move_probability", "C07_tmove_left_side_refuted"]
S_DD = "pyqmc/method/dmc.py:propose_drift_diffusion"
S_W = "pyqmc/method/dmc.py:dmc_propagate"
S_S = "pyqmc/method/dmc.py:compute_S"
S_T = "pyqmc/method/dmc.py:propose_tmoves"
S_RUN = "pyqmc/method/dmc.py:rundmc"


def umrigar_ref(g, tau, a=0.5):
    v2 = np.sum(g * g, axis=-1)
    te = np.where(v2 > 1e-8, (np.sqrt(1 + 2 * tau * a * np.where(v2 > 1e-8, v2, 1.0)) - 1) / (a * np.where(v2 > 1e-8, v2, 1.0)), tau)
    return g * te[..., None]


def check_dd(ck, dag):
    import pyqmc.method.dmc as dmc
    from py2coq import evalf, evalc
    ncase = 500 if ck.thorough else 80
    kinds = ["gauss", "gauss_complex", "steep", "nodal", "cos", "cos_complex"]
    dist = {k: 0 for k in kinds}
    dist.update({"sign_changes_seen": 0, "near_boundary_skipped": 0})
    for it in range(ncase):
        kind = kinds[it % len(kinds)]
        dist[kind] += 1
        wf = GaussWF(alpha=float(ck.rng.uniform(0.4, 1.2)), beta=float(ck.rng.choice([-1.5, 0.9, 2.5]))) if kind == "nodal" else make_wf(kind, ck.rng)
        nconf, nelec = int(ck.rng.integers(1, 7)), int(ck.rng.integers(1, 3))
        tstep = float(ck.rng.choice([0.01, 0.1, 0.6]))
        if kind == "nodal":  # make node crossings frequent
            nconf, tstep = 12, float(ck.rng.choice([0.6, 1.0]))
        c = ck.rng.normal(size=(nconf, nelec, 3)) * 1.2
        e = int(ck.rng.integers(0, nelec))
        cfg = make_cfg(kind, c)
        wf.recompute(cfg)
        gauss, u = ck.rng.normal(size=(nconf, 3)), ck.rng.random(nconf)
        if it % 9 == 0:
            u[:] = 0.0
        inp = {"wf": kind, "tstep": tstep, "electron": e, "x": c.tolist(), "gauss": gauss.tolist(), "u": u.tolist()}
        def run():
            with Draws([gauss], [u]) as d:
                return dmc.propose_drift_diffusion(wf, cfg, tstep, e), d
        ok, res = ck.guarded(run, "dd_kernel", S_DD, inp)
        if not ok:
            continue
        (newepos, accept, r2, saved), d = res
        xe = cfg.configs[:, e]
        g = gauss * math.sqrt(tstep)
        d0 = umrigar_ref(np.real(wf._grad1(xe)), tstep)
        xn_raw = xe + g + d0
        xn = newepos.configs
        d1 = umrigar_ref(np.real(wf._grad1(xn)), tstep)
        rat = wf._psi1(xn) / wf._psi1(xe)
        q = np.abs(rat) ** 2 * np.exp((np.sum(g * g, axis=1) - np.sum((g + d0 + d1) ** 2, axis=1)) / (2 * tstep))
        eacc = u < np.minimum(1.0, q)
        if wf.dtype == float:
            crossed = np.real(rat) <= 0
            dist["sign_changes_seen"] += int(crossed.sum())
            eacc = eacc & ~crossed
            if np.any(np.asarray(accept)[crossed]):
                ck.violation("node_crossing_accepted", S_DD, inp, expected="never accepted when Psi'/Psi <= 0", got={"ratio": np.real(rat)[crossed].tolist()}, oracle="fixed node")
        ck.case(("dd", it), nontrivial=bool(eacc.any() and (~eacc).any()) or nconf == 1)
        if abs(d.scales[0] - math.sqrt(tstep)) > 1e-15:
            ck.violation("proposal_scale", S_DD, inp, expected=math.sqrt(tstep), got=d.scales[0])
        if kind.startswith("cos"):
            import pyqmc.pbc.pbc as pbc
            xw, _ = pbc.enforce_pbc(LAT, xn_raw)
            if not np.allclose(xn, xw, atol=1e-12, rtol=0):
                ck.violation("proposed_position", S_DD, inp, expected=xw.tolist(), got=xn.tolist())
        elif not np.allclose(xn, xn_raw, atol=1e-13, rtol=0):
            ck.violation("proposed_position", S_DD, inp, expected=xn_raw.tolist(), got=xn.tolist(), oracle="x + gauss + umrigar(Re grad, tstep)")
        if not np.allclose(r2, np.sum((g + d0) ** 2, axis=1), rtol=1e-12):
            ck.violation("r2_not_squared_displacement", S_DD, inp, expected=np.sum((g + d0) ** 2, axis=1).tolist(), got=np.asarray(r2).tolist())
        if np.min(np.abs(u - q)) < 1e-10:
            dist["near_boundary_skipped"] += 1
            continue
        if not np.array_equal(np.asarray(accept, dtype=bool), eacc):
            ck.violation("acceptance_not_metropolis_hastings", S_DD, inp, expected=eacc.tolist(), got=np.asarray(accept).tolist(),
                         oracle="u < min(1, |Psi'|^2 T(R'->R)/(|Psi|^2 T(R->R'))) with the Umrigar-limited drift, and Psi'/Psi > 0 for real wave functions")
        if dag is not None and not kind.startswith("cos"):
            sfx = "_real" if wf.dtype == float else "_complex"
            for w in range(nconf):
                val = {"tstep": tstep, "tau": tstep, "acyrus": 0.5, "x": tuple(xe[w].tolist()), "gauss": tuple(g[w].tolist()), "u": float(u[w]), "g": tuple(np.real(wf._grad1(xe[w])).tolist())}
                val["D_cur"] = evalf(dag["dmc_limdrift"]["expr"], val)
                val["g"] = tuple(np.real(wf._grad1(xn[w])).tolist())
                val["D_new"] = evalf(dag["dmc_limdrift"]["expr"], val)
                val["val_new"] = float(np.real(rat[w])) if wf.dtype == float else float(np.abs(rat[w]))
                a = evalc(dag["dd_accept" + sfx]["expr"], val)
                if bool(a) != bool(accept[w]):
                    ck.correspondence_broken("translator validation: generated dd_accept%s vs propose_drift_diffusion" % sfx, json.dumps({"walker": w, "dag": bool(a), "impl": bool(accept[w])}))
    ck.stats["dd_input_distribution"] = dist


class ProgEnergy:
    """energy accumulator returning a programmed sequence of local energies (divergent values included)"""

    def __init__(self, seq):
        self.seq = list(seq)
        self.i = 0

    def __call__(self, configs, wf):
        e = self.seq[min(self.i, len(self.seq) - 1)]
        self.i += 1
        return {"total": np.array(e, dtype=float)}

    def has_nonlocal_moves(self):
        return False

    def keys(self):
        return set(["total"])


def check_weights(ck, dag):
    import pyqmc.method.dmc as dmc
    from py2coq import evalf
    ncase = 300 if ck.thorough else 60
    specials = [np.inf, -np.inf, 1e300, -1e300, 1e-300, 0.0]
    for it in range(ncase):
        nconf = int(ck.rng.integers(1, 6))
        tstep = float(ck.rng.choice([0.01, 0.05, 0.3]))
        e_trial, e_est = float(ck.rng.normal()), float(ck.rng.normal())
        cut = float(ck.rng.choice([0.0, 0.5, 3.0, 50.0]))
        el0 = ck.rng.normal(size=nconf) * 3
        el1 = ck.rng.normal(size=nconf) * 3
        if it % 2 == 0:
            for k in range(nconf):
                if ck.rng.random() < 0.5:
                    el1[k] = specials[int(ck.rng.integers(0, len(specials)))]
                if ck.rng.random() < 0.3:
                    el0[k] = specials[int(ck.rng.integers(0, len(specials)))]
        wf = GaussWF(alpha=0.8)
        from pyqmc.configurations.coord import OpenConfigs
        cfg = OpenConfigs(ck.rng.normal(size=(nconf, 2, 3)))
        w0 = ck.rng.uniform(0.3, 2.0, size=nconf)
        inp = {"tstep": tstep, "e_trial": e_trial, "e_est": e_est, "branchcut": cut, "eloc_before": el0.tolist(), "eloc_after": el1.tolist()}
        np.random.seed(int(ck.rng.integers(0, 2 ** 31)))
        def run():
            with np.errstate(all="ignore"):
                return dmc.dmc_propagate(wf, cfg, w0.copy(), tstep, cut, e_trial, e_est, nsteps=1, accumulators={"energy": ProgEnergy([el0, el1])}, ekey=("energy", "total"))
        ok, res = ck.guarded(run, "weights", S_W, inp)
        ck.case(("w", it), nontrivial=bool(np.any(~np.isfinite(el1)) or np.ptp(el1) > 0))
        if not ok:
            continue
        wm = res[2] / w0
        lo = min(1.0, math.exp(tstep * (e_trial - e_est - cut)))
        hi = max(1.0, math.exp(tstep * (e_trial - e_est + cut)))
        if np.any(~np.isfinite(wm)) or np.any(wm < lo * (1 - 1e-12)) or np.any(wm > hi * (1 + 1e-12)):
            ck.violation("weight_factor_out_of_bounds", S_W, inp, expected=[lo, hi], got=wm.tolist(), oracle="min(1,exp(tau(E_T-E_est-cut))) <= w'/w <= max(1,exp(tau(E_T-E_est+cut)))")
        # compute_S directly, against the generated expression (finite local energies) and the bound (all)
        v2 = ck.rng.uniform(0, 50, size=nconf)
        if it % 3 == 0:  # a walker on a node: the squared drift diverges, alone or together with the local energy
            for k in range(nconf):
                if ck.rng.random() < 0.6:
                    v2[k] = [np.inf, 1e300, 1e160][int(ck.rng.integers(0, 3))]
            inp = dict(inp, v2=v2.tolist())
        with np.errstate(all="ignore"):
            ok, S = ck.guarded(lambda: dmc.compute_S(e_trial, e_est, cut, v2, tstep, el1.copy(), 2), "compute_S", S_S, inp)
        if ok:
            if np.any(~np.isfinite(S)) or np.any(S < e_trial - e_est - cut - 1e-12) or np.any(S > e_trial - e_est + cut + 1e-12):
                ck.violation("S_out_of_bounds", S_S, inp, expected=[e_trial - e_est - cut, e_trial - e_est + cut], got=np.asarray(S).tolist())
            if dag is not None:
                for k in range(nconf):
                    if np.isfinite(el1[k]) and v2[k] < 1e100 and abs(abs(e_est - el1[k]) - cut) > 1e-9:  # (Python floats raise on overflow where numpy returns inf)
                        m = evalf(dag["dmc_compute_S"]["expr"], {"tau": tstep, "branchcut": cut, "e_est": e_est, "e_trial": e_trial, "eloc": float(el1[k]), "nelec": 2.0, "v2": float(v2[k])})
                        if abs(m - S[k]) > 1e-12 * max(1, abs(m)):
                            ck.correspondence_broken("translator validation: generated dmc_compute_S vs dmc.compute_S", json.dumps({"model": m, "impl": float(S[k])}))


class HOEnergy:
    """harmonic oscillator: Psi = exp(-alpha r^2/2) is an exact eigenfunction of -1/2 lap + alpha^2 r^2 / 2 with E = 3 alpha / 2 per electron"""

    def __init__(self, alpha):
        self.alpha = alpha

    def __call__(self, configs, wf):
        n, ne = configs.configs.shape[:2]
        ke = np.zeros(n)
        for e in range(ne):
            _, lap = wf.gradient_laplacian(e, configs.electron(e))
            ke += -0.5 * np.real(lap)
        pot = 0.5 * self.alpha ** 2 * np.sum(configs.configs ** 2, axis=(1, 2))
        return {"total": ke + pot}

    def avg(self, configs, wf):
        return {k: np.mean(v) for k, v in self(configs, wf).items()}

    def has_nonlocal_moves(self):
        return False

    def keys(self):
        return set(["total"])

    def shapes(self):
        return {"total": ()}


def check_eigenfunction(ck):
    import pyqmc.method.dmc as dmc
    from pyqmc.configurations.coord import OpenConfigs
    for it in range(4 if ck.thorough else 2):
        alpha = float(ck.rng.uniform(0.5, 1.5))
        nelec = int(ck.rng.integers(1, 4))
        wf = GaussWF(alpha=alpha)
        cfg = OpenConfigs(ck.rng.normal(size=(20, nelec, 3)))
        np.random.seed(int(ck.rng.integers(0, 2 ** 31)))
        E = 1.5 * alpha * nelec
        inp = {"alpha": alpha, "nelec": nelec}
        ok, res = ck.guarded(lambda: dmc.rundmc(wf, cfg, tstep=0.05, nblocks=4, nsteps_per_block=3, accumulators={"energy": HOEnergy(alpha)}, vmc_warmup=2), "eigenfunction", S_RUN, inp)
        ck.case(("eig", it))
        if not ok:
            continue
        df, _, w = res
        if not np.allclose(df["energytotal"], E, rtol=1e-10) or not np.allclose(df["e_est"], E, rtol=1e-10) or not np.allclose(df["e_trial"], E, rtol=1e-9):
            ck.violation("eigenfunction_energy", S_RUN, inp, expected=E, got={"energytotal": df["energytotal"].tolist(), "e_trial": df["e_trial"].tolist()}, oracle="every energy estimate equals the eigenvalue")
        if not np.allclose(w, 1.0, rtol=1e-9) or not np.allclose(df["weight"], 1.0, rtol=1e-9) or np.max(df["weight_std"]) > 1e-9:
            ck.violation("eigenfunction_weights", S_RUN, inp, expected="all walkers keep equal weights 1", got={"weights": w.tolist()[:5], "block_weight": df["weight"].tolist()})


class FakeTmoveAcc:
    def __init__(self, ratio, weight, pts):
        self.ratio, self.weight, self.pts = ratio, weight, pts

    def nonlocal_tmoves(self, configs, wf, e, tau):
        from pyqmc.configurations.coord import OpenElectron
        return {"ratio": self.ratio.copy(), "weight": self.weight.copy(), "configs": OpenElectron(self.pts.copy(), configs.dist)}


def check_tmoves(ck):
    import pyqmc.method.dmc as dmc
    from pyqmc.configurations.coord import OpenConfigs
    ncase = 400 if ck.thorough else 80
    exprs, todo = [], []
    for it in range(ncase):
        npts = int(ck.rng.integers(1, 7))
        nconf = int(ck.rng.integers(1, 4))
        den = 2 ** int(ck.rng.integers(0, 4))
        a = ck.rng.integers(-4, 7, size=(nconf, npts))
        if it % 5 == 0:
            a[:, 0] = 0  # zero amplitude first: the F2 witness shape
        if it % 11 == 0:
            a[:] = np.minimum(a, 0)  # nothing positive: never move
        ratio = np.where(a == 0, 1.0, np.sign(a).astype(float)) * 1.0
        ratio[ratio == 0] = 1.0
        weight = a / den / ratio
        M = 2 ** int(ck.rng.integers(1, 8))
        rho = ck.rng.integers(0, M, size=nconf)
        if it % 3 == 0:
            rho[:] = 0
        pts = np.zeros((nconf, npts, 3))
        pts[:, :, 0] = np.arange(npts)[None, :] + 10.0  # identity of the point
        cfg = OpenConfigs(np.zeros((nconf, 1, 3)))
        inp = {"amplitudes_num": a.tolist(), "den": den, "M": M, "rho": rho.tolist()}
        def run():
            with Draws([], [float(r) / M for r in rho]):
                return dmc.propose_tmoves(None, cfg, FakeTmoveAcc(ratio, weight, pts), 0.01, 0)
        ok, res = ck.guarded(run, "tmoves", S_T, inp)
        ck.case(("tm", it), nontrivial=bool((a > 0).any()))
        if not ok:
            continue
        newpos, moved, acc, tot = res
        sel = []
        for w in range(nconf):
            if moved[w]:
                j = int(round(newpos.configs[w, 0] - 10.0))
                sel.append(j)
                if not (0 <= j < npts) or a[w, j] <= 0:
                    ck.violation("tmove_to_nonpositive_amplitude", S_T, inp, expected="selected point has positive amplitude", got={"walker": w, "point": j, "amplitude": float(a[w, j] / den) if 0 <= j < npts else None})
            else:
                sel.append(npts)
                if not np.allclose(newpos.configs[w], cfg.configs[w, 0]):
                    ck.violation("tmove_no_move_changes_position", S_T, inp, expected=cfg.configs[w, 0].tolist(), got=newpos.configs[w].tolist())
        for w in range(nconf):
            exprs.append("tmove_select true %s %d %d %d" % (coq_list([zlit(int(x)) for x in a[w]]), den, M, int(rho[w])))
            todo.append((inp, w, sel[w]))
        if len(ck.samples) < 7 and it < 3:
            ck.sample({"tmove": inp, "selected": sel})
    vals = ck.coq_eval("tmove", ["base.Cnt", "C07.Model"], exprs)
    nmis = 0
    for (inp, w, s), v in zip(todo, vals):
        if v is None:
            continue
        if int(v) != int(s):
            nmis += 1
            if nmis <= 3:
                ck.correspondence_broken("C07 model tmove_select vs propose_tmoves", json.dumps({"input": inp, "walker": w, "model": int(v), "impl": int(s)}))
    ck.stats["tmove_model_vs_impl_compared"] = len(todo)
    ck.stats["tmove_model_vs_impl_mismatch"] = nmis
    # exact probabilities on the implementation: all uniforms k/64 for amplitudes (3, 0, 1, -2, 2)/2 -> norm 1 + 3 = 4
    a = np.array([[3, 0, 1, -2, 2]])
    den, M = 2, 64
    ratio = np.ones_like(a, dtype=float)
    weight = a / den
    pts = np.zeros((1, 5, 3))
    pts[:, :, 0] = np.arange(5)[None, :] + 10.0
    cfg = OpenConfigs(np.zeros((1, 1, 3)))
    counts = [0] * 6
    for k in range(M):
        with Draws([], [k / M]):
            newpos, moved, acc, tot = dmc.propose_tmoves(None, cfg, FakeTmoveAcc(ratio, weight, pts), 0.01, 0)
        counts[int(round(newpos.configs[0, 0] - 10.0)) if moved[0] else 5] += 1
        ck.case(("tmgrid", k))
    exp = [int(M * max(x, 0) / den / 4) for x in a[0]] + [M // 4]
    if counts != exp:
        ck.violation("tmove_probability", S_T, {"amplitudes": (a[0] / den).tolist(), "grid": "r = k/64"}, expected=exp, got=counts, oracle="P(j) = t_j^+/(1+sum t^+), P(no move) = 1/(1+sum t^+), exact on the dyadic grid")


def main(argv):
    ck = Check("C07", argv)
    ck.rule = ("gen/Kernels_Gen.v regenerated from dmc.py and re-checked; propose_drift_diffusion driven with closed-form stubs (real with nodes, complex, periodic) and injected draws against an independent Metropolis-Hastings + fixed-node oracle; "
               "dmc_propagate driven with programmed local energies including +-inf and 1e300 against the weight bounds; compute_S against the generated expression; rundmc on an exact eigenfunction (harmonic oscillator); "
               "propose_tmoves with dyadic amplitudes and uniforms compared with the Coq model tmove_select (vm_compute) and with exact probabilities on a grid. Non-trivial: both outcomes occur / a positive amplitude exists.")
    ck.trusted = ["Coq 8.16.1 kernel + vm_compute", "translator (validated numerically on every run)", "harness/c07.py oracles, stubs.py", "Coq Reals axioms as listed by Print Assumptions"]
    ck.assumptions = ["local energies are extended reals (NaN excluded, as in the property); the R-valued theorem covers finite values, +-inf are covered on the implementation",
                      "wf.gradient / gradient_value are the derivatives and ratios of Psi (C03/C04)"]
    dag = ck.translate("gen_kernels")
    ck.coq_build("C07", THEOREMS)
    if not ck.replay:
        check_dd(ck, dag)
        check_weights(ck, dag)
        check_eigenfunction(ck)
        check_tmoves(ck)
    return ck.finish()
