"""C02 — incrementally updated wave-function state equals a from-scratch recompute."""
import json

import numpy as np

from common import Check, qlit, coq_list, frac
import wfzoo
import wfcheck as wc

THEOREMS = ["C02_inverse_update_is_inverse_of_updated_matrix", "C02_inverse_update_over_Qc", "C02_masked_update_is_pointwise",
            "C02_jastrow_incremental_equals_recompute", "C02_jastrow_recompute_satisfies_invariant", "C02_stale_old_position_refuted"]
SITE = "wave function updateinternals"
S_SM = "pyqmc/wf/slater.py:sherman_morrison_ms"
S_J = "pyqmc/wf/jastrowspin.py:JastrowSpin"
S_DRV = "drivers (vmc_worker / dmc_propagate) end state"


def rel(a, b):
    a, b = np.asarray(a), np.asarray(b)
    return float(np.max(np.abs(a - b) / np.maximum(1.0, np.abs(b)))) if a.size else 0.0


def compare_with_recompute(ck, name, wf, cfg, inp, tol=1e-7):
    """value, gradient, Laplacian, ratios and parameter derivatives of the incrementally updated object vs a fresh recompute"""
    ref = wc.fresh(wf)
    ref.recompute(cfg)
    nconf, nelec = cfg.configs.shape[:2]
    bad = []
    s1, l1 = wf.value()
    s0, l0 = ref.value()
    l0r = np.real(np.asarray(l0))
    okw = l0r > np.median(l0r) - 25  # walkers that ran into a node are compared only through the value
    if rel(np.asarray(l1)[okw], np.asarray(l0)[okw]) > tol or rel(np.asarray(s1)[okw], np.asarray(s0)[okw]) > tol:
        bad.append(("value", [np.asarray(l1).tolist(), np.asarray(l0).tolist()]))
    for e in sorted(set([0, nelec - 1, int(ck.rng.integers(0, nelec))])):
        ep = cfg.electron(e)
        g1, lap1 = wf.gradient_laplacian(e, ep)
        g0, lap0 = ref.gradient_laplacian(e, ep)
        if rel(np.asarray(g1)[..., okw], np.asarray(g0)[..., okw]) > tol * 10:
            bad.append(("gradient e=%d" % e, rel(np.asarray(g1)[..., okw], np.asarray(g0)[..., okw])))
        if rel(np.asarray(lap1)[okw], np.asarray(lap0)[okw]) > tol * 100:
            bad.append(("laplacian e=%d" % e, rel(np.asarray(lap1)[okw], np.asarray(lap0)[okw])))
        trial = wc.raw_electron(cfg, e, cfg.configs[:, e] + ck.rng.normal(size=(nconf, 3)) * 0.7)
        r1 = np.asarray(wf.testvalue(e, trial)[0])
        r0 = np.asarray(ref.testvalue(e, trial)[0])
        good = okw & np.isfinite(r0) & (np.abs(r0) < 1e8)
        if good.any() and rel(r1[good], r0[good]) > tol * 10:
            bad.append(("testvalue e=%d" % e, rel(r1[good], r0[good])))
    try:
        p1, p0 = wf.pgradient(), ref.pgradient()
        for k in p0:
            a, b = np.asarray(p1[k]), np.asarray(p0[k])
            if a.shape != b.shape or rel(a[okw], b[okw]) > tol * 100:
                bad.append(("pgradient " + k, rel(a[okw], b[okw]) if a.shape == b.shape else "shape"))
    except NotImplementedError:
        pass
    if bad:
        ck.violation("incremental_state_differs_from_recompute", SITE, inp, expected="equal to a fresh object recomputed on the resulting coordinates", got=bad[:5],
                     oracle="deep copy of the wave function, recompute(configs) on the final coordinates")
    return not bad


def check_histories(ck, sm_log):
    zoo = wfzoo.obc_wfs(ck.rng, which="all") + wfzoo.pbc_wfs(ck.rng, which="all")
    nhist = 4 if ck.thorough else 2
    modes = {}
    for name, mol, wf in zoo:
        if wf is None:
            continue
        for h in range(nhist):
            nconf = int(ck.rng.integers(2, 7))
            cfg = wfzoo.walkers(mol, nconf, ck.rng, spread=1.2)
            cfg = wc.move_off_nodes(wf, cfg, ck.rng)
            nelec = cfg.configs.shape[1]
            ops = []
            inp = {"wf": name, "nconf": nconf, "history": ops}
            def run():
                wf.recompute(cfg)
                last_e = None
                for step in range(int(ck.rng.integers(3, 13 if ck.thorough else 9))):
                    e = last_e if (last_e is not None and ck.rng.random() < 0.25) else int(ck.rng.integers(0, nelec))  # repeated moves of the same electron
                    last_e = e
                    pos = cfg.configs[:, e] + ck.rng.normal(size=(nconf, 3)) * ck.rng.choice([0.05, 0.5, 2.5])
                    mk = ck.rng.choice(["all", "some", "some", "none"])
                    accept = np.ones(nconf, dtype=bool) if mk == "all" else (np.zeros(nconf, dtype=bool) if mk == "none" else ck.rng.random(nconf) < 0.5)
                    cache = str(ck.rng.choice(["gradient_value", "testvalue", "none"]))
                    new = cfg.make_irreducible(e, pos)
                    saved = None
                    if cache == "gradient_value":
                        saved = wf.gradient_value(e, new)[2]
                    elif cache == "testvalue":
                        saved = wf.testvalue(e, new)[1]
                    ops.append({"e": e, "mask": mk, "cache": cache})
                    modes[(mk, cache)] = modes.get((mk, cache), 0) + 1
                    # the samplers' order: walker coordinates first, then the wave function is told
                    cfg.move(e, new, accept)
                    if mk == "all" and ck.rng.random() < 0.3:
                        wf.updateinternals(e, new, cfg, saved_values=saved)  # mask omitted
                    else:
                        wf.updateinternals(e, new, cfg, mask=accept, saved_values=saved)
            ok, _ = ck.guarded(run, "update", SITE, inp)
            ck.case(("hist", name, h), nontrivial=True)
            if not ok:
                continue
            try:
                compare_with_recompute(ck, name, wf, cfg, inp)
            except Exception as ex:  # noqa
                ck.violation("update_exception", SITE, inp, expected="state can be queried after the history", got=repr(ex))
            if len(ck.samples) < 3:
                ck.sample({"wf": name, "history": ops[:5]})
    # directed histories (own random stream, so the random histories above are unchanged): the first and last electron of each spin are updated
    # with cached values, all walkers then a subset — a state that the random histories reach only for some seeds (added after the seeded change
    # F24, which needs a spin-down electron updated with cached values, slipped through seed 0)
    drng = np.random.default_rng(1000003 * (ck.seed + 1) + 17)
    for name, mol, wf in zoo:
        if wf is None:
            continue
        nconf = 3
        cfg = wfzoo.walkers(mol, nconf, drng, spread=1.2)
        cfg = wc.move_off_nodes(wf, cfg, drng)
        nelec = cfg.configs.shape[1]
        nup = int(mol.nelec[0]) if hasattr(mol, "nelec") else nelec // 2
        targets = sorted(set([0, max(nup - 1, 0), min(nup, nelec - 1), nelec - 1]))
        ops = []
        inp = {"wf": name, "nconf": nconf, "history": ops, "directed": True}

        def run_directed():
            wf.recompute(cfg)
            for rnd, (mk, cache) in enumerate([("all", "gradient_value"), ("some", "testvalue")]):
                for e in targets:
                    pos = cfg.configs[:, e] + drng.normal(size=(nconf, 3)) * 0.4
                    accept = np.ones(nconf, dtype=bool) if mk == "all" else np.array([True, False, True])[:nconf]
                    new = cfg.make_irreducible(e, pos)
                    saved = wf.gradient_value(e, new)[2] if cache == "gradient_value" else wf.testvalue(e, new)[1]
                    ops.append({"e": e, "mask": mk, "cache": cache})
                    cfg.move(e, new, accept)
                    wf.updateinternals(e, new, cfg, mask=accept, saved_values=saved)
        ok, _ = ck.guarded(run_directed, "update", SITE, inp)
        ck.case(("hist_directed", name), nontrivial=True)
        if not ok:
            continue
        try:
            compare_with_recompute(ck, name, wf, cfg, inp)
        except Exception as ex:  # noqa
            ck.violation("update_exception", SITE, inp, expected="state can be queried after the history", got=repr(ex))
    ck.stats["update_modes_exercised"] = {"%s/%s" % k: v for k, v in modes.items()}


def check_drivers(ck):
    import pyqmc.method.mc as mc
    import pyqmc.method.dmc as dmc
    from stubs import RecAcc
    zoo = wfzoo.obc_wfs(ck.rng, which="few" if not ck.thorough else "all", jax=False) + wfzoo.pbc_wfs(ck.rng, which="few")
    for name, mol, wf in zoo:
        if wf is None:
            continue
        cfg = wfzoo.walkers(mol, 5, ck.rng)
        np.random.seed(int(ck.rng.integers(0, 2 ** 31)))
        inp = {"wf": name, "driver": "vmc_worker"}
        ok, _ = ck.guarded(lambda: mc.vmc_worker(wf, cfg, 0.3, 3, {}), "driver", S_DRV, inp)
        ck.case(("drv", name, "vmc"))
        if ok:
            compare_with_recompute(ck, name, wf, cfg, inp)
        def en(c):
            r2 = np.sum(c * c, axis=(1, 2))
            return {"total": 0.1 * np.cos(r2)}
        inp = {"wf": name, "driver": "dmc_propagate"}
        w = np.ones(cfg.configs.shape[0])
        ok, _ = ck.guarded(lambda: dmc.dmc_propagate(wf, cfg, w, 0.02, 5.0, 0.0, 0.0, nsteps=2, accumulators={"energy": RecAcc(en, {"total": ()}, [])}, ekey=("energy", "total")), "driver", S_DRV, inp)
        ck.case(("drv", name, "dmc"))
        if ok:
            compare_with_recompute(ck, name, wf, cfg, inp)


class StepProxy:
    """forwards everything to the wave function; after EVERY updateinternals issued by a driver compares the object's value with a
    fresh recompute on the driver's current coordinates, and checks that the walkers it was told about are those whose coordinates moved"""

    def __init__(self, wf, ck, name, driver):
        object.__setattr__(self, "_wf", wf)
        object.__setattr__(self, "_ref", wc.fresh(wf))
        object.__setattr__(self, "_ck", ck)
        object.__setattr__(self, "_inp", {"wf": name, "driver": driver})
        object.__setattr__(self, "stats", {"updates": 0, "told": 0, "bad": 0, "partial_masks": 0, "told_without_cached_values": 0})

    def __getattr__(self, k):
        return getattr(self._wf, k)

    def __setattr__(self, k, v):
        setattr(self._wf, k, v)

    def updateinternals(self, e, epos, configs, mask=None, saved_values=None):
        if saved_values is None:
            self._wf.updateinternals(e, epos, configs, mask=mask)
        else:
            self._wf.updateinternals(e, epos, configs, mask=mask, saved_values=saved_values)
        st = self.stats
        st["updates"] += 1
        nconf = configs.configs.shape[0]
        m = np.ones(nconf, dtype=bool) if mask is None else np.asarray(mask)
        st["told"] += int(m.sum())
        st["told_without_cached_values"] += int(m.sum()) if saved_values is None else 0
        st["partial_masks"] += int(0 < m.sum() < nconf)
        s1, l1 = self._wf.value()
        s0, l0 = self._ref.recompute(configs)
        l0r = np.real(np.asarray(l0))
        ok = np.isfinite(l0r) & (l0r > np.median(l0r) - 25)
        d = np.abs(np.asarray(l1) - np.asarray(l0))[ok]
        ds = np.abs(np.asarray(s1) - np.asarray(s0))[ok]
        if d.size and (np.max(d) > 1e-7 * max(1.0, float(np.max(np.abs(l0r[ok])))) or np.max(ds) > 1e-7):
            st["bad"] += 1
            if st["bad"] <= 2:
                w = int(np.flatnonzero(ok)[int(np.argmax(d + ds))])
                self._ck.violation("incremental_state_differs_from_recompute", S_DRV, dict(self._inp, update_number=st["updates"], electron=int(e), walker=w, told_to_update=bool(m[w])),
                                   expected={"sign": complex(np.asarray(s0)[w]).__repr__(), "log": complex(np.asarray(l0)[w]).__repr__()},
                                   got={"sign": complex(np.asarray(s1)[w]).__repr__(), "log": complex(np.asarray(l1)[w]).__repr__()},
                                   oracle="after each updateinternals issued by the driver: deep copy recomputed on the driver's coordinates")


def check_driver_steps(ck):
    """the drivers' own sequence of (move coordinates, tell the wave function) checked after every single update — including the
    pseudopotential T-move loop of dmc_propagate (selected-and-accepted vs selected-and-rejected walkers), which an end-state check can miss"""
    import pyqmc.method.mc as mc
    import pyqmc.method.dmc as dmc
    from pyqmc.observables.accumulators import EnergyAccumulator
    sel_log = []
    orig_pt = dmc.propose_tmoves
    def rec_pt(*a, **k):
        out = orig_pt(*a, **k)
        sel_log.append(np.asarray(out[1]).copy())
        return out
    totals = {}
    for name, mol, wf in wfzoo.ecp_wfs(ck.rng, periodic=True):
        periodic = hasattr(mol, "a")
        nconf = (24 if ck.thorough else 12) if periodic else (300 if ck.thorough else 120)
        cfg = wfzoo.walkers(mol, nconf, ck.rng)
        for use_old in ((True, False) if (ck.thorough or not periodic) else (False,)):
            np.random.seed(int(ck.rng.integers(0, 2 ** 31)))
            acc = EnergyAccumulator(mol, use_old_ecp=use_old)
            px = StepProxy(wf, ck, name, "dmc_propagate(T-moves, use_old_ecp=%s)" % use_old)
            del sel_log[:]
            dmc.propose_tmoves = rec_pt
            try:
                ok, _ = ck.guarded(lambda: dmc.dmc_propagate(px, cfg.copy(), np.ones(nconf), 0.5, 10.0, 0.0, 0.0, nsteps=3 if periodic else 16, accumulators={"energy": acc}, ekey=("energy", "total")),
                                   "driver", S_DRV, px._inp)
            finally:
                dmc.propose_tmoves = orig_pt
            ck.case(("drvstep", name, use_old), nontrivial=True)
            st = dict(px.stats, tmoves_selected=int(sum(m.sum() for m in sel_log)))
            st["tmoves_selected_then_rejected"] = st["tmoves_selected"] - st["told_without_cached_values"]
            totals["%s/old_ecp=%s" % (name, use_old)] = st
        np.random.seed(int(ck.rng.integers(0, 2 ** 31)))
        px = StepProxy(wf, ck, name, "vmc_worker")
        ok, _ = ck.guarded(lambda: mc.vmc_worker(px, cfg.copy(), 0.4, 2, {}), "driver", S_DRV, px._inp)
        ck.case(("drvstep", name, "vmc"), nontrivial=True)
        totals["%s/vmc" % name] = dict(px.stats)
    ck.stats["driver_updates_checked_one_by_one"] = totals


def check_sm(ck, sm_log):
    """slater.sherman_morrison_ms against the exact model (Qc, vm_compute): recorded calls + random matrices up to 6x6"""
    import pyqmc.wf.slater as sl
    cases = []
    for (e, inv, vec, ratio, invnew) in sm_log[: (40 if ck.thorough else 12)]:
        cases.append((e, inv[0, 0], vec[0, 0], ratio[0, 0], invnew[0, 0]))
    for it in range(30 if ck.thorough else 10):
        n = int(ck.rng.integers(1, 7))
        A = ck.rng.normal(size=(n, n)) + np.eye(n) * 2
        if it % 3 == 0:
            A = A + 1j * ck.rng.normal(size=(n, n)) * 0.0  # keep real for the rational model
        inv = np.linalg.inv(A)
        e = int(ck.rng.integers(0, n))
        v = ck.rng.normal(size=n)
        ok, res = ck.guarded(lambda: sl.sherman_morrison_ms(e, inv[None, None], v[None, None]), "sm", S_SM, {"n": n, "e": e})
        if not ok:
            continue
        ratio, invnew = res
        cases.append((e, inv, v, ratio[0, 0], invnew[0, 0]))
        # property oracle on the implementation: the returned matrix inverts A with row e replaced; ratio = det'/det
        A2 = A.copy()
        A2[e] = v
        if abs(np.linalg.det(A2)) > 1e-6 * abs(np.linalg.det(A)):
            if not np.allclose(A2 @ invnew[0, 0], np.eye(n), atol=1e-8, rtol=0) or abs(ratio[0, 0] - np.linalg.det(A2) / np.linalg.det(A)) > 1e-8 * max(1, abs(ratio[0, 0])):
                ck.violation("rank_one_update_wrong", S_SM, {"n": n, "e": e, "A": A.tolist(), "v": v.tolist()}, expected="inverse of the row-replaced matrix; ratio = det'/det", got={"ratio": complex(ratio[0, 0]).__repr__()})
    exprs, todo = [], []
    for (e, inv, v, ratio, invnew) in cases:
        if np.iscomplexobj(inv) and np.max(np.abs(np.imag(inv))) > 0 or np.iscomplexobj(v) and np.max(np.abs(np.imag(v))) > 0:
            ck.count("sm_complex_cases_not_modelled")
            continue
        inv, v = np.real(inv), np.real(v)
        n = inv.shape[0]
        if abs(np.real(ratio)) < 1e-6:
            ck.count("sm_ill_conditioned_skipped")
            continue
        B = coq_list([coq_list(["(Q2Qc %s)" % qlit(x) for x in row]) for row in inv])
        V = coq_list(["(Q2Qc %s)" % qlit(x) for x in v])
        exprs.append("let r := sm_step_list %d %d %s %s in (qcz (fst r), map (map qcz) (snd r))" % (n, e, B, V))
        todo.append((n, e, np.real(ratio), np.real(invnew)))
        ck.case(("sm", len(todo)))
    vals = ck.coq_eval("sm", ["C02.SM"], exprs, prelude="From Coq Require Import Qcanon.\n", shard=4, scope="Z_scope")
    nmis = 0
    for (n, e, ratio, invnew), v in zip(todo, vals):
        if v is None:
            continue
        mr = float(frac(v[0][0]) / v[0][1])
        mi = np.array([[float(frac(c[0]) / c[1]) for c in row] for row in v[1]])
        sc = max(1.0, float(np.max(np.abs(mi))))
        if abs(mr - ratio) > 1e-9 * max(1, abs(mr)) or np.max(np.abs(mi - invnew)) > 1e-8 * sc:
            nmis += 1
            if nmis <= 3:
                ck.correspondence_broken("C02 model sm_row vs slater.sherman_morrison_ms", json.dumps({"n": n, "e": e, "model_ratio": mr, "impl_ratio": float(ratio), "max_inverse_difference": float(np.max(np.abs(mi - invnew)))}))
    ck.stats["sm_model_vs_impl_compared"] = len(todo)
    ck.stats["sm_model_vs_impl_mismatch"] = nmis


class R2Basis:
    """duck-typed func3d basis b(r) = round(r^2): integer valued on integer coordinates, so that the Jastrow bookkeeping can be compared exactly"""

    def __init__(self):
        self.parameters = {"rcut": 1e6}

    def value(self, rvec, r):
        return np.rint(r * r)


class IntMol:
    def __init__(self, nup, ndown, atoms):
        self.nelec = (nup, ndown)
        self.natm = len(atoms)
        self._A = np.asarray(atoms, dtype=float)

    def atom_coords(self):
        return self._A


def check_jastrow_model(ck):
    from pyqmc.wf.jastrowspin import JastrowSpin
    from pyqmc.configurations.coord import OpenConfigs
    exprs, todo = [], []
    for it in range(20 if ck.thorough else 6):
        nup, ndn = int(ck.rng.integers(1, 4)), int(ck.rng.integers(0, 3))
        n = nup + ndn
        mol = IntMol(nup, ndn, [[0, 0, 0], [3, 1, -2]])
        wf = JastrowSpin(mol, [R2Basis()], [R2Basis()])
        wf.parameters["bcoeff"][...] = 1.0
        r0 = ck.rng.integers(-6, 7, size=(1, n, 3)).astype(float)
        cfg = OpenConfigs(r0.copy())
        moves = []
        def run():
            wf.recompute(cfg)
            for _ in range(int(ck.rng.integers(1, 9))):
                e = int(ck.rng.integers(0, n))
                x = ck.rng.integers(-6, 7, size=(1, 3)).astype(float)
                new = cfg.make_irreducible(e, x)
                saved = wf.gradient_value(e, new)[2] if False else None
                cfg.move(e, new, np.array([True]))
                wf.updateinternals(e, new, cfg, mask=np.array([True]), saved_values=saved)
                moves.append((e, x[0].astype(int).tolist()))
        ok, _ = ck.guarded(run, "jastrow_model", S_J, {"nup": nup, "ndown": ndn})
        ck.case(("jm", it), nontrivial=n > 1)
        if not ok:
            continue
        impl_part = [[int(round(wf._b_partial[i, 0, 0, s])) for s in (0, 1)] for i in range(n)]
        impl_val = [int(round(wf._bvalues[0, 0, c])) for c in range(3)]
        zt = lambda p: "(%d, %d, %d)%%Z" % tuple(int(v) for v in p)
        rl = coq_list([zt(p) for p in r0[0]])
        ml = coq_list(["(%d%%nat, %s)" % (e, zt(x)) for e, x in moves])
        exprs.append("let b := fun (x y : Z*Z*Z) => let '(a,b0,c) := x in let '(d,e0,f) := y in ((a-d)*(a-d)+(b0-e0)*(b0-e0)+(c-f)*(c-f))%%Z in "
                     "let s := run (Z*Z*Z) b %d %d (recompute (Z*Z*Z) b %d %d (fun k => nth k %s (0,0,0)%%Z)) %s in "
                     "(map (fun i => [bpart _ s i false; bpart _ s i true]) (seq 0 %d), map (bval _ s) [0;1;2]%%nat)" % (n, nup, n, nup, rl, ml, n))
        todo.append(({"nup": nup, "ndown": ndn, "r0": r0[0].astype(int).tolist(), "moves": moves}, impl_part, impl_val))
    vals = ck.coq_eval("jastrow", ["C02.Jastrow"], exprs, shard=4)
    nmis = 0
    for (inp, ip, iv), v in zip(todo, vals):
        if v is None:
            continue
        if [list(x) for x in v[0]] != ip or list(v[1]) != iv:
            nmis += 1
            if nmis <= 3:
                ck.correspondence_broken("C02 model Jastrow bookkeeping vs JastrowSpin (_b_partial, _bvalues)", json.dumps({"input": inp, "model": [v[0], v[1]], "impl": [ip, iv]}))
    ck.stats["jastrow_model_vs_impl_compared"] = len(todo)
    ck.stats["jastrow_model_vs_impl_mismatch"] = nmis


def main(argv):
    ck = Check("C02", argv)
    ck.rule = ("for every wave-function class and composition (open and periodic, real and complex, JAX): random histories of 3-12 single-electron updates in the samplers' order (coordinates moved first, then updateinternals) with masks all/some/none "
               "(and mask omitted), repeated moves of one electron, cached values from gradient_value, from testvalue, or none; afterwards value, gradient, Laplacian, ratios and parameter derivatives are compared with a deep copy recomputed on the final coordinates; "
               "the same after vmc_worker and dmc_propagate; sherman_morrison_ms (recorded calls and random matrices up to 6x6) against the exact Qc model by vm_compute; JastrowSpin with an integer-valued stand-in basis against the Coq bookkeeping model exactly. "
               "Every history is a distinct non-trivial case.")
    ck.trusted = ["Coq 8.16.1 kernel + vm_compute", "harness/c02.py, wfcheck.py (recompute oracle), wfzoo.py"]
    ck.assumptions = ["walkers whose |Psi| dropped more than e^-25 below the median (moved onto a node) are compared through the value only",
                      "JAX classes are covered by the recompute oracle only (no model of jax.jit tracing); complex Sherman-Morrison steps are covered by the generic-field theorem and the oracle, not by the Qc evaluation"]
    ck.coq_build("C02", THEOREMS)
    import pyqmc.wf.slater as sl
    sm_log = []
    orig = sl.sherman_morrison_ms
    def rec(e, inv, vec):
        out = orig(e, inv, vec)
        if len(sm_log) < 200 and inv.shape[0] > 0:
            sm_log.append((e, np.array(inv).copy(), np.array(vec).copy(), np.array(out[0]).copy(), np.array(out[1]).copy()))
        return out
    sl.sherman_morrison_ms = rec
    try:
        if not ck.replay:
            check_histories(ck, sm_log)
            check_drivers(ck)
            check_driver_steps(ck)
    finally:
        sl.sherman_morrison_ms = orig
    check_sm(ck, sm_log)
    check_jastrow_model(ck)
    return ck.finish()
