"""C08 — branching conserves walkers and weight and is exactly unbiased (DESIGN.md section C08)."""
import fractions
import json
import math
import os

import numpy as np

from common import Check, frac, zlit, coq_list, VERIF

THEOREMS = ["C08_floor_or_ceil", "C08_zero_weight_never_copied", "C08_indices_valid", "C08_walkers_conserved",
            "C08_weights_equal", "C08_unbiased", "C08_resample_gathers", "C08_left_side_refuted",
            "C08_hypotheses_satisfiable"]
SITE = "pyqmc/method/dmc.py:branch"


def run_branch(weights, u, periodic=False):
    """Call the real dmc.branch with np.random.rand() -> u; walker identity is encoded in the coordinates."""
    import pyqmc.method.dmc as dmc
    from pyqmc.configurations.coord import OpenConfigs, PeriodicConfigs

    n = len(weights)
    coords = np.zeros((n, 2, 3))
    coords[:, 0, 0] = np.arange(n) / (4.0 * n)  # identity, inside the unit cell
    coords[:, 1, 2] = 0.25
    if periodic:
        cfg = PeriodicConfigs(coords.copy(), np.eye(3) * 1.0)
        cfg.wrap[:, 1, 1] = np.arange(n) + 3  # identity in the wrap counters too
    else:
        cfg = OpenConfigs(coords.copy())
    w = np.array(weights, dtype=float)
    orig = np.random.rand
    np.random.rand = lambda *a: float(u) if not a else orig(*a)
    try:
        cfg2, w2, info = dmc.branch(cfg, w)
    finally:
        np.random.rand = orig
    inds = np.rint(cfg2.configs[:, 0, 0] * 4.0 * n).astype(int)
    ok_rows = True
    for k, i in enumerate(inds):
        if not (0 <= i < n) or not np.array_equal(cfg2.configs[k], coords[i]):
            ok_rows = False
        if periodic and (cfg2.wrap[k, 1, 1] != i + 3):
            ok_rows = False
    return [int(i) for i in inds], [float(x) for x in w2], ok_rows, info


def to_int_weights(weights):
    fr = [frac(x) for x in weights]
    den = 1
    for f in fr:
        den = den * f.denominator // math.gcd(den, f.denominator)
    return [int(f * den) for f in fr], den


def model_expr(weights, u):
    wi, _ = to_int_weights(weights)
    fu = frac(u)
    return "newinds true %s %s %s" % (coq_list([zlit(x) for x in wi]), zlit(fu.denominator), zlit(fu.numerator))


def oracle(ck, weights, u, inds, w2, ok_rows, info, exact):
    """Check the property itself on the implementation's result. Returns True if it holds."""
    n = len(weights)
    inp = {"weights": [float(x).hex() for x in weights], "weights_dec": [float(x) for x in weights], "u": float(u).hex(), "u_dec": float(u)}
    good = True
    if len(inds) != n or len(w2) != n:
        ck.violation("branch_walker_count", SITE, inp, expected=n, got=len(inds), oracle="number of returned walkers = N")
        return False
    if not ok_rows:
        ck.violation("branch_not_a_copy", SITE, inp, expected="every returned walker equals an input walker (coordinates and wrap counters)",
                     got=inds, oracle="row equality")
        good = False
    W = sum(frac(x) for x in weights)
    fw = [frac(x) for x in w2]
    target = W / n
    if any(abs(x - target) > abs(target) * fractions.Fraction(1, 10**12) for x in fw) or len(set(w2)) != 1:
        ck.violation("branch_weight", SITE, inp, expected=float(target), got=w2[:4], oracle="every new weight = W/N")
        good = False
    counts = [0] * n
    for i in inds:
        if 0 <= i < n:
            counts[i] += 1
    for i in range(n):
        x = n * frac(weights[i]) / W
        lo, hi = math.floor(x), math.ceil(x)
        if not exact:
            # float cumsum/linspace rounding: when N w_i/W is within 1e-9 of an integer both neighbours are admissible
            if x - lo < fractions.Fraction(1, 10**9):
                lo -= 1
            if hi - x < fractions.Fraction(1, 10**9):
                hi += 1
        if weights[i] == 0 and counts[i] != 0:
            ck.violation("branch_zero_weight_copied", SITE, inp, expected=0, got=counts[i], oracle="zero-weight walker %d never copied" % i)
            good = False
        elif not (lo <= counts[i] <= hi):
            ck.violation("branch_floor_ceil", SITE, inp, expected=[math.floor(x), math.ceil(x)], got={"walker": i, "copies": counts[i]},
                         oracle="copies in {floor,ceil}(N w_i/W), exact rational arithmetic on the doubles")
            good = False
    return good


def near_boundary(weights, u, rel=1e-9):
    """True if some comb point is within rel*W of a cumulative weight (exact arithmetic)."""
    n = len(weights)
    fr = [frac(x) for x in weights]
    W = sum(fr)
    P = []
    s = fractions.Fraction(0)
    for f in fr:
        s += f
        P.append(s)
    tol = W * fractions.Fraction(rel)
    fu = frac(u)
    for k in range(n):
        p = (fu * W + k * W / n) % W
        for b in P[:-1] + [fractions.Fraction(0), W]:
            if abs(p - b) <= tol:
                return True
    return False


def gen_exact(rng, nmax_pow=4):
    n = 2 ** int(rng.integers(0, nmax_pow + 1))
    m = int(rng.integers(1, 5))
    w = [int(x) for x in rng.integers(0, 2 ** m + 1, size=n)]
    if rng.random() < 0.3:
        w[int(rng.integers(0, n))] = 2 ** (m + 3)  # weight far above 2 after scaling
    if sum(w) == 0:
        w[0] = 1
    scale = 2.0 ** -int(rng.integers(0, 4))
    mm = int(rng.integers(0, 7))
    j = int(rng.integers(0, 2 ** mm))
    return [x * scale for x in w], j / 2.0 ** mm


def gen_generic(rng):
    n = int(rng.integers(1, 65))
    mode = rng.integers(0, 4)
    if mode == 0:
        w = rng.random(n) * 2
    elif mode == 1:
        w = np.exp(rng.normal(0, 6, size=n))  # huge ratios
    elif mode == 2:
        w = rng.random(n)
        w[rng.random(n) < 0.4] = 0.0
    else:
        w = np.abs(rng.normal(1, 0.3, size=n))
        w[int(rng.integers(0, n))] *= 50  # weights above 2
    if w.sum() == 0:
        w[0] = 1.0
    return [float(x) for x in w], float(rng.random())


def main(argv):
    ck = Check("C08", argv)
    ck.rule = ("real dmc.branch driven with np.random.rand patched to the chosen offset; walker identity encoded in coordinates/wrap counters. "
               "exact-hit stream: N in {1..16} powers of two, dyadic weights and offsets (float pipeline exact; indices compared bit-for-bit with "
               "the Coq model evaluated by vm_compute); generic stream: N<=64, random/huge-ratio/zero/heavy weights, random offset (property oracle in "
               "exact rational arithmetic; model comparison when no comb point is within 1e-9 W of a boundary); grid stream: all offsets j/(N W) for "
               "integer weights (exact unbiasedness sum). A case is non-trivial when N>=2 and at least two walkers have different weights; distinct by (weights,u).")
    ck.trusted = ["Coq 8.16.1 kernel + vm_compute (no native_compute)", "harness/c08.py driver and exact-rational oracle",
                  "numpy searchsorted/cumsum semantics modelled as 'number of table entries <= x' (side=right)"]
    ck.assumptions = ["weights are finite non-negative doubles with positive sum; offset in [0,1)",
                      "floating-point rounding of cumsum/linspace is outside the exact model: generic-stream comparisons skip cases within 1e-9 W of a boundary"]
    ck.coq_build("C08", THEOREMS)

    cases = []  # (weights, u, exact, periodic)
    # corpus first (witnesses of the defect fixed by the "fix: branch() comb ..." commit)
    cdir = os.path.join(VERIF, "corpus", "C08")
    if os.path.isdir(cdir):
        for fn in sorted(os.listdir(cdir)):
            rec = json.load(open(os.path.join(cdir, fn)))
            cases.append((rec["weights"], rec["u"], True, False))
    if ck.replay:
        rec = json.load(open(ck.replay))
        inp = rec.get("input") or {}
        if "weights" in inp:
            cases = [([float.fromhex(x) for x in inp["weights"]], float.fromhex(inp["u"]), False, False)]
    else:
        nexact = 4000 if ck.thorough else 400
        ngen = 4000 if ck.thorough else 400
        for _ in range(nexact):
            w, u = gen_exact(ck.rng)
            cases.append((w, u, True, bool(ck.rng.random() < 0.3)))
        for _ in range(ngen):
            w, u = gen_generic(ck.rng)
            cases.append((w, u, False, bool(ck.rng.random() < 0.3)))
        # grid of offsets j/(4N) for a few weight vectors (DESIGN: enumerate u on the grid)
        for w in ([1.0, 1.0], [0.0, 1.0], [1.0, 0.0, 1.0, 2.0], [3.0, 1.0, 0.0, 0.0], [0.5, 0.25, 0.25, 1.0, 0.0, 2.0, 0.0, 4.0]):
            n = len(w)
            for j in range(4 * n):
                cases.append((w, j / (4.0 * n), True, False))

        # offsets within a few ulp of 1 with zero-weight walkers at the end: the last tooth can round onto the total weight
        for w in ([1.0, 1.0, 1.0, 0.0], [0.0, 3.0, 0.0], [2.0, 0.0], [1.0, 0.5, 0.0], [0.3, 0.0, 0.0], [5.0, 1.0, 0.0, 0.0]):
            for u in (1 - 2.0 ** -53, 1 - 2.0 ** -52, 1 - 2.0 ** -51, 1 - 2.0 ** -30):
                cases.append((w, u, False, False))

    exprs, todo = [], []
    dist = {"exact": 0, "generic": 0, "generic_near_boundary_skipped_model": 0, "periodic": 0, "N_hist": {}}
    for (w, u, exact, periodic) in cases:
        inp = {"weights": [float(x).hex() for x in w], "u": float(u).hex()}
        ok, res = ck.guarded(lambda: run_branch(w, u, periodic), "branch", SITE, inp)
        sig = (tuple(w), u)
        ck.case(sig, nontrivial=(len(w) >= 2 and len(set(w)) >= 2))
        dist["exact" if exact else "generic"] += 1
        dist["periodic"] += int(periodic)
        dist["N_hist"][len(w)] = dist["N_hist"].get(len(w), 0) + 1
        if not ok:
            continue
        inds, w2, ok_rows, info = res
        good = oracle(ck, w, u, inds, w2, ok_rows, info, exact)
        ck.sample({"weights": w[:8], "u": u, "newinds": inds[:8], "stream": "exact" if exact else "generic"})
        if exact or not near_boundary(w, u):
            exprs.append(model_expr(w, u))
            todo.append((w, u, inds, good))
        else:
            dist["generic_near_boundary_skipped_model"] += 1
    vals = ck.coq_eval("newinds", ["base.Cnt", "C08.Model"], exprs)
    nmis = 0
    for (w, u, inds, good), v in zip(todo, vals):
        if v is None:
            continue
        if list(v) != list(inds):
            nmis += 1
            if good and nmis <= 3:
                ck.correspondence_broken("C08 model newinds vs dmc.branch", json.dumps({"weights": w, "u": u, "model": v, "impl": inds}))
    ck.stats["model_vs_impl_compared"] = len(todo)
    ck.stats["model_vs_impl_mismatch"] = nmis

    # exact unbiasedness on the implementation: integer weights, N and W powers of two, all offsets m/(N W)
    if not ck.replay:
        grids = [[1, 0, 2, 5], [3, 1], [1, 1, 1, 1, 0, 0, 2, 2], [7, 1, 0, 0]]
        if ck.thorough:
            grids += [[1, 2, 3, 2, 0, 0, 5, 3, 4, 4, 1, 1, 2, 2, 1, 1], [13, 1, 1, 1]]
        for wi in grids:
            n, W = len(wi), sum(wi)
            tot = [0] * n
            fail = False
            for m in range(n * W):
                u = m / float(n * W)
                ok, res = ck.guarded(lambda: run_branch([float(x) for x in wi], u), "branch", SITE, {"weights": wi, "u": u})
                ck.case((tuple(wi), u))
                if not ok:
                    fail = True
                    break
                for i in res[0]:
                    if 0 <= i < n:
                        tot[i] += 1
            if not fail and tot != [n * n * x for x in wi]:
                ck.violation("branch_biased", SITE, {"weights": wi, "grid": "u = m/(N W), m < N W"}, expected=[n * n * x for x in wi], got=tot,
                             oracle="sum over the exact offset grid of copies_i = N^2 w_i (count is constant on [m/(NW),(m+1)/(NW)))")
            ck.count("unbiased_grids")
    ck.stats["input_distribution"] = dist
    return ck.finish()
