"""C11 — 2D (slab) Ewald energy: independent oracle, splitting independence, in-plane translation / relabelling invariance,
unequal numbers and charges of ions and electrons."""
import math

import numpy as np
from scipy.special import erfc

from common import Check
import ewald_oracle as eo
from c10 import FakeCell

THEOREMS = ["C11_reciprocal_weight_is_even_in_height", "C11_charge_weight_is_even_in_height", "C11_self_term_is_the_zero_height_limit",
            "C11_contractions_pair_like_axes", "C11_typed_contraction_sums_like_axes", "C11_half_plane_picks_one_of_each_pair"]
S_E = "pyqmc/observables/ewald2d.py:Ewald.energy"


def lattices2d(rng, thorough):
    a = float(rng.uniform(2.5, 5.0))
    Lz = 160.0
    out = [("square", np.array([[a, 0, 0], [0, a, 0], [0, 0, Lz]])),
           ("hexagonal", np.array([[a, 0, 0], [-a / 2, a * math.sqrt(3) / 2, 0], [0, 0, Lz]])),
           ("oblique", np.array([[a, 0, 0], [0.37 * a, 1.2 * a, 0], [0, 0, Lz]])),
           ("rectangular", np.array([[a, 0, 0], [0, 1.7 * a, 0], [0, 0, Lz]]))]
    if thorough:
        out.append(("oblique2", np.array([[1.3 * a, 0.2 * a, 0], [-0.4 * a, a, 0], [0, 0, Lz]])))
    return out


def dropped_weight2d(ew, lat):
    """(sum over the whole half plane of 2 pi erfc(k/2 alpha)/(A k)) - (sum of kept weights): bound on the dropped reciprocal part per unit |S|^2"""
    A = abs(np.linalg.det(lat[:2, :2]))
    alpha = float(ew.alpha)
    rec2 = 2 * np.pi * np.linalg.inv(lat[:2, :2]).T
    rec = np.zeros((3, 3))
    rec[:2, :2] = rec2
    rec[2, 2] = 1.0
    gcut = 2 * alpha * math.sqrt(-math.log(1e-19))
    gd, _ = eo._images(rec, gcut + np.max(np.linalg.norm(rec2, axis=1)), dims=2)
    g = np.linalg.norm(gd[:, :2], axis=1)
    g = g[g > 1e-12]
    full_half = 0.5 * np.sum(2 * np.pi * erfc(g / (2 * alpha)) / (A * g))
    return float(full_half - np.sum(np.asarray(ew.gweight)))


def check(ck):
    import pyqmc.observables.ewald2d as e2
    from pyqmc.configurations.coord import PeriodicConfigs
    worst = {"ee": 0.0, "ei": 0.0, "ii": 0.0, "total": 0.0, "alpha": 0.0, "shift": 0.0}
    shapes = {}
    for name, lat in lattices2d(ck.rng, ck.thorough):
        for rep in range(12 if ck.thorough else 5):
            nat = int(ck.rng.integers(1, 5))
            Z = ck.rng.integers(1, 6, size=nat)
            ne = int(ck.rng.integers(1, 7))
            if rep == 0:
                ne = nat  # the situation of the existing tests: as many electrons as ions
                if not ck.thorough:
                    Z[:] = 1
            if rep == 1 and ne == nat:
                ne += 1
            shapes["nat=%d ne=%d" % (nat, ne)] = shapes.get("nat=%d ne=%d" % (nat, ne), 0) + 1
            apos = ck.rng.random((nat, 3)) @ lat
            apos[:, 2] = ck.rng.normal(size=nat) * ck.rng.choice([0.0, 0.5, 2.0])
            if rep % 2:
                sh = ck.rng.integers(-2, 3, size=(nat, 3))
                sh[:, 2] = 0
                apos = apos + sh @ lat  # ions listed in other in-plane periodic images
            nconf = 3
            frac = ck.rng.random((nconf, ne, 3))
            frac[0, :, :2] = frac[0, :, :2] * 5 - 2.5  # outside the cell in the plane
            epos = frac @ lat
            epos[:, :, 2] = ck.rng.normal(size=(nconf, ne)) * ck.rng.choice([0.0, 0.7, 2.5])
            if rep == 2:
                # a bilayer: two sheets several in-plane cell heights apart (still far below half the third lattice vector), electrons on both
                hgt = float(np.min(1 / np.linalg.norm(np.linalg.inv(lat[:2, :2]).T, axis=1)))
                D = float(ck.rng.uniform(5.5, 9.0)) * hgt
                apos[:, 2] = np.where(np.arange(nat) % 2 == 0, 0.0, D) + ck.rng.normal(size=nat) * 0.2
                epos[:, :, 2] = np.where(ck.rng.random((nconf, ne)) < 0.5, 0.0, D) + ck.rng.normal(size=(nconf, ne)) * 0.3
            cell = FakeCell(lat, apos, Z, (ne - ne // 2, ne // 2))
            inp = {"lattice": name, "lattice_vectors": lat.tolist(), "ion_charges": Z.tolist(), "ions": apos.tolist(), "nelec": ne, "electrons": epos.tolist()}
            def run(scaling=5.0, gmax=18):
                ew = e2.Ewald(cell, gmax=gmax, alpha_scaling=scaling)
                return ew, ew.energy(PeriodicConfigs(epos.copy(), lat))
            ok, res = ck.guarded(run, "ewald2d", S_E, inp)
            ck.case(("e2", name, rep), nontrivial=True)
            if not ok:
                continue
            ew, (ee, ei, ii) = res
            ee, ei = np.asarray(ee, dtype=float).reshape(-1), np.asarray(ei, dtype=float).reshape(-1)
            ii = float(np.real(np.asarray(ii)).reshape(-1)[0])
            if ee.shape != (nconf,) or ei.shape != (nconf,):
                if ee.size == 1:
                    ee = np.repeat(ee, nconf)  # single electron: the self term is returned as a scalar
                else:
                    ck.violation("ewald2d_shape", S_E, inp, expected=[nconf], got=[list(ee.shape), list(ei.shape)])
                    continue
            T = dropped_weight2d(ew, lat)
            qabs = float(Z.sum() + ne)
            h = float(np.min(1 / np.linalg.norm(np.linalg.inv(lat[:2, :2]).T, axis=1)))
            real_tail = 12 * math.erfc(4.9) * qabs ** 2 / h
            tols = {"ee": T * ne ** 2, "ii": T * float(Z.sum()) ** 2, "ei": 2 * T * ne * float(Z.sum()), "total": T * qabs ** 2}
            tols = {k: 1.05 * v + real_tail + 1e-10 for k, v in tols.items()}
            o_ii = eo.ewald2d(lat, apos, Z.astype(float))
            for w in range(nconf):
                o_ee = eo.ewald2d(lat, epos[w], -np.ones(ne))
                o_tot = eo.ewald2d(lat, np.concatenate([epos[w], apos]), np.concatenate([-np.ones(ne), Z.astype(float)]))
                ref = {"ee": o_ee, "ei": o_tot - o_ee - o_ii, "ii": o_ii, "total": o_tot}
                got = {"ee": float(ee[w]), "ei": float(ei[w]), "ii": ii, "total": float(ee[w] + ei[w] + ii)}
                for k in got:
                    err = abs(got[k] - ref[k])
                    worst[k] = max(worst[k], err / tols[k])
                    if not np.isfinite(err) or err > tols[k]:
                        ck.violation("ewald2d_differs_from_converged_sum", S_E, dict(inp, walker=w, part=k), expected=ref[k], got=got[k],
                                     oracle="independent 2D Ewald sum (Parry form, own splitting parameter; validated each run against the 3D sum of the slab + dipole correction and the checkerboard Madelung constant)")
            for sc in (6.2, 7.5):
                ok, r2 = ck.guarded(lambda: run(sc, 28), "ewald2d", S_E, dict(inp, alpha_scaling=sc))
                if not ok:
                    continue
                ew2, (ee2, ei2, ii2) = r2
                T2 = dropped_weight2d(ew2, lat)
                for k, a, b in (("ee", ee2, ee), ("ei", ei2, ei), ("ii", np.real(ii2), ii)):
                    a = np.asarray(a, dtype=float).reshape(-1)
                    err = float(np.max(np.abs(a - b)))
                    tol_a = tols[k] * (1 + max(T2, 0) / max(T, 1e-300))
                    worst["alpha"] = max(worst["alpha"], err / tol_a)
                    if not np.isfinite(err) or err > tol_a:
                        ck.violation("ewald2d_depends_on_splitting", S_E, dict(inp, alpha_scaling=sc, part=k), expected=np.asarray(b).tolist(), got=a.tolist())
            n = ck.rng.integers(-3, 4, size=(nconf, ne, 3)) * (ck.rng.random((nconf, ne, 1)) < 0.5)
            n[:, :, 2] = 0
            perm = ck.rng.permutation(ne)
            def run3():
                a = ew.energy(PeriodicConfigs(epos + n @ lat, lat))
                b = ew.energy(PeriodicConfigs(epos[:, perm].copy(), lat))
                return a, b
            ok, r3 = ck.guarded(run3, "ewald2d", S_E, dict(inp, lattice_translations=n.tolist(), permutation=perm.tolist()))
            if ok:
                for label, r in zip(("in-plane lattice translation", "relabelling"), r3):
                    for k, a, b in (("ee", r[0], ee), ("ei", r[1], ei)):
                        a = np.asarray(a, dtype=float).reshape(-1)
                        a = np.repeat(a, nconf) if a.size == 1 else a
                        err = float(np.max(np.abs(a - b)))
                        worst["shift"] = max(worst["shift"], err)
                        if not np.isfinite(err) or err > 1e-10 * max(1.0, qabs ** 2):
                            ck.violation("ewald2d_not_invariant", S_E, dict(inp, operation=label, part=k, lattice_translations=n.tolist(), permutation=perm.tolist()), expected=np.asarray(b).tolist(), got=a.tolist())
            if len(ck.samples) < 6:
                ck.sample({"lattice": name, "ions": Z.tolist(), "nelec": ne, "heights_spread": float(np.std(epos[:, :, 2]))})
    ck.stats["worst_error_over_truncation_bound (ee, ei, ii, total, alpha); shift absolute"] = worst
    ck.stats["ion/electron count combinations"] = shapes


def check_axes(ck):
    """the axis meanings the translator assumes for the distance routines, probed on the running code with pairwise different sizes"""
    from pyqmc.configurations.coord import PeriodicConfigs
    import pyqmc.configurations.distance as distance
    lat = np.diag([4.0, 5.0, 60.0])
    nconf, nat, ne = 3, 2, 4
    cfg = PeriodicConfigs(ck.rng.random((nconf, ne, 3)) @ lat, lat)
    A = (ck.rng.random((nat, 3)) @ lat)[np.newaxis]
    got = {"pairwise(atom_coords, configs)": list(cfg.dist.pairwise(A, cfg.configs).shape), "dist_matrix(configs)[0]": list(cfg.dist.dist_matrix(cfg.configs)[0].shape),
           "dist_matrix(atom_coords)[0]": list(distance.MinimalImageDistance(lat).dist_matrix(A)[0].shape)}
    want = {"pairwise(atom_coords, configs)": [nconf, nat, ne, 3], "dist_matrix(configs)[0]": [nconf, ne * (ne - 1) // 2, 3], "dist_matrix(atom_coords)[0]": [1, nat * (nat - 1) // 2, 3]}
    ck.case(("axes",), nontrivial=True)
    if got != want:
        ck.correspondence_broken("axis meanings assumed by translator/gen_ewald2d.py vs the running distance routines", str({"assumed": want, "running": got}))
    # pairwise is (walker, ion, electron): entry [c, a, e] = electron e minus ion a (minimum image)
    d = cfg.dist.pairwise(A, cfg.configs)
    raw = cfg.configs[:, None, :, :] - A[0][None, :, None, :]
    f = (raw - d) @ np.linalg.inv(lat)
    if not np.allclose(f, np.round(f), atol=1e-9):
        ck.correspondence_broken("pairwise axis order (walker, ion, electron)", "entries are not electron-minus-ion differences modulo the lattice")


def main(argv):
    ck = Check("C11", argv)
    ck.rule = ("ewald2d.Ewald.energy on square, hexagonal, oblique and rectangular in-plane lattices with 1-4 ions of charge 1-5 at heights spread 0-2 bohr and 1-6 electrons (numbers of ions and electrons equal and unequal; "
               "electrons inside and outside the cell, heights spread 0-2.5 bohr) against an independent 2D Ewald sum per part (ee = electrons alone, ii = ions alone, total; ei by difference) within the implementation's own truncation bound; "
               "re-run with alpha_scaling 6.2 and 7.5; random in-plane lattice translations of subsets of electrons and relabellings; gen/Ewald2d_Gen.v regenerated from ewald2d.py and re-checked.")
    ck.trusted = ["Coq 8.16.1 kernel + vm_compute", "Coq Reals axioms", "translator/gen_ewald2d.py", "harness/ewald_oracle.py (validated in every run: 2D sum vs 3D slab sum + dipole correction, checkerboard Madelung constant, splitting independence)", "scipy erfc/erf"]
    ck.assumptions = ["the slab is thin compared with the third lattice vector (the implementation takes minimum images in z as well)",
                      "tolerance = rigorous truncation bound of the implementation's cut-offs (dropped half-plane weights x max|S|^2, the z = 0 weight bounding every height) + real-space tail + 1e-10",
                      "the 2D Ewald identity itself is not proved in Coq: splitting independence is decided per input by the oracle and by re-running the implementation"]
    val = eo.validate()
    ck.stats["oracle_self_validation_residuals"] = val
    if max(val.values()) > 1e-10:
        ck.correspondence_broken("ewald_oracle self-validation", str(val))
    tr = ck.translate("gen_ewald2d")
    if tr is not None:
        import gen_ewald2d
        ck.stats["einsum_sites_typed"] = len(tr["contractions"])
        ck.stats["einsum_sites_left_to_the_oracle_untyped"] = list(gen_ewald2d.UNTYPED)
    ck.coq_build("C11", THEOREMS)
    if not ck.replay:
        check_axes(ck)
        check(ck)
    return ck.finish()
