"""C12 — ECP angular quadrature is exact to its design degree; the projector is exact."""
import fractions
import os
import sys
import itertools
import json
import math

import numpy as np

from common import Check

F = fractions.Fraction
THEOREMS = ["C12_rule6_exact_to_degree_3", "C12_rule12_exact_to_degree_5", "C12_rule18_exact_to_degree_5", "C12_rule26_exact_to_degree_7",
            "C12_rule32_exact_to_degree_9", "C12_rule50_exact_to_degree_11", "C12_degrees_are_sharp", "C12_unit_weight_unit_norm",
            "C12_points_on_unit_sphere_R", "C12_legendre_table"]
DEGREE = {6: 3, 12: 5, 18: 5, 26: 7, 32: 9, 50: 11}
S_GRID = "pyqmc/observables/eval_ecp.py:generate_quadrature_grids"
S_PL = "pyqmc/observables/eval_ecp.py:P_l/get_P_l"
S_EA = "pyqmc/observables/eval_ecp.py:ecp_ea"
S_JAX = "pyqmc/observables/jax_ecp.py:ECPAccumulator"


def val8(coeffs, octa):
    q = [float(F(n, d)) for n, d in coeffs]
    if octa:  # ((a + b r2) + (c + d r2) r3) + ((e + f r2) + (g + h r2) r3) r11
        r2, r3, r11 = math.sqrt(2), math.sqrt(3), math.sqrt(11)
        return (q[0] + q[1] * r2 + (q[2] + q[3] * r2) * r3) + (q[4] + q[5] * r2 + (q[6] + q[7] * r2) * r3) * r11
    r5, s, r3 = math.sqrt(5), math.sin(math.pi / 5), math.sqrt(3)
    return (q[0] + q[1] * r5 + (q[2] + q[3] * r5) * s) + (q[4] + q[5] * r5 + (q[6] + q[7] * r5) * s) * r3


def moment(a, b, c):
    def df(n):
        return 1 if n <= 0 else n * df(n - 2)
    if a % 2 or b % 2 or c % 2:
        return 0.0
    return df(a - 1) * df(b - 1) * df(c - 1) / df(a + b + c + 1)


def check_grids(ck):
    import importlib
    exprs = ["map (fun wp => let '(w,(x,y,z)) := wp in [show8 w; show8 x; show8 y; show8 z]) rule%d" % n for n in (6, 18, 26, 50, 12, 32)]
    vals = ck.coq_eval("rules", ["base.ExactRing", "C12.Model"], exprs, shard=1)
    model = {}
    for n, v in zip((6, 18, 26, 50, 12, 32), vals):
        if v is None:
            continue
        octa = n in (6, 18, 26, 50)
        model[n] = [(val8(wp[0], octa), [val8(wp[k], octa) for k in (1, 2, 3)]) for wp in v]
    for modname in ("pyqmc.observables.eval_ecp", "pyqmc.observables.ecp_accumulator"):
        try:
            mod = importlib.import_module(modname)
        except Exception as e:  # noqa
            ck.count("module_not_importable:" + modname)
            continue
        if not hasattr(mod, "generate_quadrature_grids"):
            continue
        ok, grids = ck.guarded(lambda: mod.generate_quadrature_grids(), "grids", modname, {})
        if not ok:
            continue
        if sorted(grids.keys()) != sorted(DEGREE):
            ck.violation("quadrature_sizes", modname, {}, expected=sorted(DEGREE), got=sorted(grids.keys()))
        for n, (pts, wts) in grids.items():
            pts, wts = np.asarray(pts, dtype=float), np.asarray(wts, dtype=float)
            inp = {"naip": int(n), "module": modname}
            ck.case(("grid", modname, n))
            if abs(wts.sum() - 1) > 1e-14 or np.max(np.abs(np.linalg.norm(pts, axis=1) - 1)) > 1e-14 or len(pts) != n:
                ck.violation("quadrature_weight_or_norm", modname, inp, expected="unit total weight, unit vectors, n points", got={"sum_w": float(wts.sum()), "max_norm_err": float(np.max(np.abs(np.linalg.norm(pts, axis=1) - 1)))})
            # property oracle on the implementation's own numbers: all monomials up to the design degree (and in random orientations)
            d = DEGREE.get(n)
            if d is None:
                continue
            rots = [np.eye(3)] + [np.linalg.qr(ck.rng.normal(size=(3, 3)))[0] for _ in range(3 if not ck.thorough else 12)]
            worst = 0.0
            for Rm in rots:
                p = pts @ Rm.T
                for a in range(d + 1):
                    for b in range(d + 1 - a):
                        for c in range(d + 1 - a - b):
                            # for a rotated grid the polynomial x^a y^b z^c of degree <= d must still be integrated exactly
                            err = abs(np.sum(wts * p[:, 0] ** a * p[:, 1] ** b * p[:, 2] ** c) - moment(a, b, c))
                            worst = max(worst, err)
            if worst > 5e-15:
                ck.violation("quadrature_not_exact", modname, inp, expected="all monomials of degree <= %d integrated to 5e-15 in every orientation" % d, got=worst,
                             oracle="closed-form moments (a-1)!!(b-1)!!(c-1)!!/(a+b+c+1)!!")
            ck.stats["max_moment_error_%s_%d" % (modname.split(".")[-1], n)] = worst
            # correspondence with the exact model: same point set and weights
            if n in model:
                m = model[n]
                used = set()
                bad = None
                for i in range(n):
                    best = None
                    for j, (w, p) in enumerate(m):
                        if j in used:
                            continue
                        dist = max(abs(p[k] - pts[i, k]) for k in range(3)) + abs(w - wts[i])
                        if best is None or dist < best[0]:
                            best = (dist, j)
                    if best is None or best[0] > 1e-14:
                        bad = (i, pts[i].tolist(), float(wts[i]), None if best is None else best[0])
                        break
                    used.add(best[1])
                if bad is not None:
                    ck.correspondence_broken("C12 model rule%d vs %s.generate_quadrature_grids" % (n, modname), json.dumps({"unmatched_impl_point": bad}))
                else:
                    ck.count("rules_matching_the_exact_model")
                if len(ck.samples) < 2:
                    ck.sample({"rule": int(n), "first_points_impl": pts[:2].tolist(), "first_points_model": [p for _, p in m[:2]]})


def check_legendre(ck):
    import pyqmc.observables.eval_ecp as ee
    xs = [F(k, 8) for k in range(-8, 9)] + [F(int(ck.rng.integers(-64, 65)), 64) for _ in range(20)]
    exprs = ["map (fun l => qz (P_table l %s)) [0;1;2;3;4]%%nat" % ("(%d # %d)" % (x.numerator, x.denominator) if x >= 0 else "((%d) # %d)" % (x.numerator, x.denominator)) for x in xs]
    vals = ck.coq_eval("legendre", ["C12.Model"], exprs, scope="Q_scope")
    import pyqmc.observables.ecp_accumulator as ea
    copies = [("eval_ecp", ee, S_PL)] + ([("ecp_accumulator", ea, "pyqmc/observables/ecp_accumulator.py:P_l")] if hasattr(ea, "P_l") else [])
    for x, v in zip(xs, vals):
        ck.case(("pl", str(x)))
        for tag, mod, site in copies:
            for l in range(5):
                ok, got = ck.guarded(lambda: mod.P_l(np.array([float(x)]), l)[0], "legendre", site, {"x": str(x), "l": l, "copy": tag})
                if not ok or v is None:
                    continue
                m = F(*v[l])
                if F(*float(got).as_integer_ratio()) != m:
                    ck.violation("legendre_value", site, {"x": str(x), "l": l, "copy": tag}, expected=float(m), got=float(got), oracle="exact rational Legendre polynomial (dyadic x: float arithmetic is exact)")
    for tag, mod, site in copies:
        if not np.all(mod.P_l(np.array([0.3, -0.7]), -1) == 0):
            ck.violation("legendre_value", site, {"l": -1, "copy": tag}, expected=0, got=mod.P_l(np.array([0.3]), -1).tolist())
    # get_P_l folds (2l+1) and the weights exactly once
    for naip in DEGREE:
        r = np.array([0.7, 1.9])
        vec = np.array([[0.7, 0, 0], [0.3, -1.1, 1.52]])
        vec[1] *= 1.9 / np.linalg.norm(vec[1])
        ok, res = ck.guarded(lambda: ee.get_P_l(r, vec, [0, 1, 2, 3, 4, -1], naip, stochastic=False), "get_P_l", S_PL, {"naip": naip})
        ck.case(("getpl", naip))
        if not ok:
            continue
        P, rea = res
        pts, wts = ee.generate_quadrature_grids()[naip]
        for l in (0, 1, 2, 3, 4):
            cosv = (rea @ vec[:, :, None])[:, :, 0] / (r[:, None] ** 2)
            exp = (2 * l + 1) * ee.P_l(cosv, l) * wts[None]
            if not np.allclose(P[:, :, l], exp, atol=1e-14, rtol=1e-13):
                ck.violation("projector_weights", S_PL, {"naip": naip, "l": l}, expected=exp[0, :3].tolist(), got=P[0, :3, l].tolist(), oracle="(2l+1) P_l(cos) w_i, once")
        if not np.allclose(P[:, :, -1], 0):
            ck.violation("projector_weights", S_PL, {"naip": naip, "l": -1}, expected=0, got=float(np.abs(P[:, :, -1]).max()))


# ---------------------------------------------------------------- end-to-end projector
HARMONICS = {
    0: [lambda x, y, z: 1.0 + 0 * x],
    1: [lambda x, y, z: x, lambda x, y, z: y - 0.5 * z],
    2: [lambda x, y, z: x * y, lambda x, y, z: 3 * z * z - (x * x + y * y + z * z), lambda x, y, z: x * x - y * y + 0.3 * y * z],
    3: [lambda x, y, z: x * y * z, lambda x, y, z: z * (5 * z * z - 3 * (x * x + y * y + z * z))],
    4: [lambda x, y, z: x ** 4 - 6 * x * x * y * y + y ** 4, lambda x, y, z: 35 * z ** 4 - 30 * z * z * (x * x + y * y + z * z) + 3 * (x * x + y * y + z * z) ** 2],
    5: [lambda x, y, z: x ** 5 - 10 * x ** 3 * y * y + 5 * x * y ** 4],
}


class AngularWF:
    """one electron: Psi(r) = H(r - A) * exp(-a |r-A|^2), H a solid harmonic of degree lp"""

    def __init__(self, H, A, a, dtype=float):
        self.H, self.A, self.a, self.dtype = H, np.asarray(A, dtype=float), a, dtype

    def psi(self, r):
        d = r - self.A
        v = self.H(d[..., 0], d[..., 1], d[..., 2]) * np.exp(-self.a * np.sum(d * d, axis=-1))
        return v * (1 + 0j) if self.dtype == complex else v

    def recompute(self, configs):
        self.c = configs.configs.copy()

    def testvalue(self, e, epos, mask=None):
        if mask is None:
            mask = np.ones(self.c.shape[0], dtype=bool)
        old = self.psi(self.c[mask, e])
        new = self.psi(epos.configs[mask])
        if new.ndim == 2:
            old = old[:, None]
        return new / old, None


class FakeMol:
    def __init__(self, A, channels):
        # channels: dict l -> (exponent, coefficient); -1 = local
        self._atom = [("X", list(A))]
        self._ecp = {"X": (2, [[l, [[], [], [(ex, co)]]] for l, (ex, co) in sorted(channels.items())])}
        self._A = np.asarray([A], dtype=float)

    def atom_coords(self):
        return self._A


def check_projector(ck):
    import pyqmc.observables.eval_ecp as ee
    from pyqmc.configurations.coord import OpenConfigs
    ncase = 0
    worst = 0.0
    for naip, deg in DEGREE.items():
        for lp in range(0, 6):
            for L in range(0, 5):
                if L + lp > deg:
                    continue
                reps = 2 if ck.thorough else 1
                for rep in range(reps):
                    H = HARMONICS[lp][int(ck.rng.integers(0, len(HARMONICS[lp])))]
                    A = ck.rng.normal(size=3) * 0.5
                    channels = {l: (float(ck.rng.uniform(0.3, 2.0)), float(ck.rng.normal())) for l in range(L + 1)}
                    channels[-1] = (float(ck.rng.uniform(0.3, 2.0)), float(ck.rng.normal()))
                    mol = FakeMol(A, channels)
                    nconf = 3
                    dirs = ck.rng.normal(size=(nconf, 3))
                    dirs /= np.linalg.norm(dirs, axis=1)[:, None]
                    rad = np.array([10 ** ck.rng.uniform(-3, 1), ck.rng.uniform(0.2, 2.0), ck.rng.uniform(2, 6)])
                    pos = A + dirs * rad[:, None]
                    wf = AngularWF(H, A, 0.3)
                    cfg = OpenConfigs(pos[:, None, :].copy())
                    wf.recompute(cfg)
                    if np.min(np.abs(wf.psi(pos))) < 1e-6 * np.max(np.abs(wf.psi(pos))) + 1e-300:
                        ck.count("projector_cases_skipped_near_angular_node")
                        continue
                    vl = {l: co * np.exp(-ex * rad ** 2) for l, (ex, co) in channels.items()}
                    expect = vl[-1] + (vl[lp] if lp in vl and lp >= 0 else 0.0)
                    inp = {"naip": naip, "l_wavefunction": lp, "max_channel": L, "atom": A.tolist(), "r": rad.tolist()}
                    ok, res = ck.guarded(lambda: ee.ecp_ea(mol, cfg, wf, 0, mol._atom[0], -1, naip), "projector", S_EA, inp)
                    ck.case(("proj", naip, lp, L, rep), nontrivial=lp > 0 or L > 0)
                    ncase += 1
                    if not ok:
                        continue
                    err = np.max(np.abs(res["total"] - expect) / np.maximum(1e-3, np.max(np.abs(list(vl.values())))))
                    worst = max(worst, float(err))
                    if err > 1e-10:
                        ck.violation("projector_not_exact", S_EA, inp, expected=expect.tolist(), got=np.asarray(res["total"]).tolist(),
                                     oracle="v_l'(r) + v_local(r) for a wave function of angular momentum l' about the atom (exact when l + l' <= degree for every channel l)")
                    if len(ck.samples) < 4 and lp >= 2:
                        ck.sample({"projector": inp, "expected": expect.tolist(), "got": np.real(res["total"]).tolist()})
    ck.stats["projector_cases"] = ncase
    ck.stats["projector_worst_relative_error"] = worst


def check_mixed_rules(ck):
    """the accelerated pseudopotential code with a DIFFERENT rule on each atom (12/6, 6/12, 18/6, 26/12 points, the default table):
    the energy is additive over atoms, so it must equal the sum of single-atom evaluations with each atom's own rule (fixed orientation,
    every point kept)"""
    import pyqmc.observables.jax_ecp as je
    from pyqmc.configurations.coord import OpenConfigs
    from c13 import Mol2, FixedRotation
    from stubs import GaussWF
    S = "pyqmc/observables/jax_ecp.py:evaluate_vl (per-atom rules)"
    combos = [(12, 6), (6, 12), (18, 6), (6, 18), (26, 12), (12, 12), None]
    for it, combo in enumerate(combos if ck.thorough else combos[:4] + combos[-1:]):
        ch = lambda L: dict([(l, (float(ck.rng.uniform(0.4, 1.5)), float(ck.rng.normal()))) for l in range(L + 1)] + [(-1, (0.9, float(ck.rng.normal())))])
        L1, L2 = (3, 1) if combo is None else (2, 2)   # default table: 12 points for the first atom (channels up to f), 6 for the second
        A = ("X", ck.rng.normal(size=3) * 0.3 + 1.0, ch(L1))
        B = ("Y", ck.rng.normal(size=3) * 0.3 + np.array([3.0, 2.0, 2.5]), ch(L2))
        nconf, nelec = 4, 2
        cfg = OpenConfigs(ck.rng.normal(size=(nconf, nelec, 3)) * 1.2 + 2.0)
        wf = GaussWF(alpha=0.5, beta=0.2, center=2.0)
        wf.recompute(cfg)
        inp = {"rules": list(combo) if combo else "default table", "max_channel": [L1, L2]}
        def run():
            with FixedRotation():
                kw = dict(stochastic_rotation=False, nselect_deterministic=1000, nselect_random=0)
                both = je.ECPAccumulator(Mol2([A, B]), naip=(np.array(combo) if combo else None), **kw)
                rules = [int(x) for x in both.naip]
                ea = je.ECPAccumulator(Mol2([A]), naip=np.array([rules[0]]), **kw)(cfg, wf)
                eb = je.ECPAccumulator(Mol2([B]), naip=np.array([rules[1]]), **kw)(cfg, wf)
                return rules, np.asarray(both(cfg, wf)), np.asarray(ea) + np.asarray(eb)
        ok, res = ck.guarded(run, "mixed_rules", S, inp)
        ck.case(("mixed", it), nontrivial=True)
        if not ok:
            continue
        rules, got, ref = res
        err = float(np.max(np.abs(got - ref) / np.maximum(1.0, np.abs(ref))))
        if not np.isfinite(err) or err > 1e-10:
            ck.violation("projector_not_additive_over_atoms", S, dict(inp, rules_used=rules), expected=np.real(ref).tolist(), got=np.real(got).tolist(),
                         oracle="sum of single-atom evaluations, each with that atom's own quadrature rule, same orientation")


LEGENDRE_THEOREMS = ["C12_legendre_source_eval_ecp", "C12_legendre_source_ecp_accumulator", "C12_legendre_source_is_the_model_table"]


def check_legendre_source(ck):
    """Tie T for P_l: every copy of P_l in /repo is translated to a rational expression (gen/Legendre_Gen.v) and proved to be the Bonnet recurrence for
    every argument. When the source is no longer in the shape the translator reads (an if/elif chain of arithmetic returns), this tie is reported as
    not available in the evidence and the hand model P_table + its exact correspondence on dyadic arguments (check_legendre) remains the tie: no alarm."""
    import importlib
    from common import REPO, COQ
    sys.path.insert(0, os.path.join(os.path.dirname(os.path.dirname(os.path.abspath(__file__))), "translator"))
    gl = importlib.import_module("gen_legendre")
    try:
        evals = gl.main_for(REPO, os.path.join(COQ, "gen"))
    except gl.TranslationError as ex:
        ck.stats["legendre_source_translation"] = "not available for the current source (%s); the tie is the exact correspondence of P_table" % ex
        return
    except Exception as ex:  # noqa
        ck.stats["legendre_source_translation"] = "translator failed (%r); the tie is the exact correspondence of P_table" % ex
        return
    ck.stats["legendre_source_translation"] = "translated %d branches" % len(evals)
    # validation of the translation against the running functions
    import pyqmc.observables.eval_ecp as ee
    import pyqmc.observables.ecp_accumulator as ea
    mods = {"eval_ecp": ee, "ecp_accumulator": ea}
    xs = [F(int(ck.rng.integers(-1000, 1001)), 1000) for _ in range(12)]
    for (tag, l), ev in sorted(evals.items()):
        for x in xs:
            ok, got = ck.guarded(lambda: float(np.asarray(mods[tag].P_l(np.array([float(x)]), l))[0]), "legendre", S_PL, {"x": str(x), "l": l, "copy": tag})
            if ok and abs(got - float(ev(x))) > 1e-13 * max(1.0, abs(got)):
                ck.correspondence_broken("translation of %s.P_l (l=%d) vs the running function" % (tag, l), json.dumps({"x": str(x), "translated": float(ev(x)), "impl": got}))
                return
        ck.case(("pl_src", tag, l))
    ck.coq_build("C12", LEGENDRE_THEOREMS, props_files=["C12/PropsLegendre.v"], timeout=600)


def main(argv):
    ck = Check("C12", argv)
    ck.rule = ("the six rules are built in exact rings inside Coq and printed; every copy of generate_quadrature_grids in /repo is compared with them point by point (1e-14) and tested on all monomials up to its degree in random orientations; "
               "P_l is compared exactly with the Coq table on dyadic arguments; get_P_l's (2l+1)*weight folding; end-to-end: ecp_ea on a one-electron wave function H_l'(r-A) exp(-a r^2) (solid harmonics l' = 0..5, "
               "channels 0..L, L <= 4, radii 1e-3..6, random atom position and random grid rotation) against v_l'(r)+v_local(r) for all (naip, l', L) with L + l' <= degree. Non-trivial: l' > 0 or L > 0.")
    ck.trusted = ["Coq 8.16.1 kernel + vm_compute", "Coq Reals axioms (interpretation of the exact rings into R)", "harness/c12.py (numeric evaluation of ring elements, solid-harmonic test functions)", "scipy random rotations"]
    ck.assumptions = ["rotation invariance of the uniform measure and 'degree is preserved by linear substitution' (rotated grids) and the Funk-Hecke formula (projector) are classical facts used by the numerical oracles, not proved in Coq",
                      "the theorems are about the exact point sets; the implementation's doubles agree with them to 1e-14"]
    ck.coq_build("C12", THEOREMS, timeout=2400)
    check_legendre_source(ck)
    check_grids(ck)
    check_legendre(ck)
    check_projector(ck)
    check_mixed_rules(ck)
    return ck.finish()
