"""C05 — the trial wave function is the PySCF state it was built from: determinants of PySCF's occupied orbitals evaluated independently
(molecules exactly; periodic for every supercell and twist incl. Bloch phases), CI expansions, spin eigenfunctions."""
import itertools

import numpy as np

from common import Check, coq_list
import wfzoo

THEOREMS = ["C05_occupation_string_decoding", "C05_packing_keeps_every_determinant", "C05_flattening_is_injective"]
S_MOL = "pyqmc/wf/slater.py:Slater (molecule)"
S_CI = "pyqmc/pyscftools.py:interpret_ci / determinant_tools"
S_PBC = "pyqmc/wf/slater.py:Slater (periodic)"
S_AO = "pyqmc/wf/orbitals.py:PBCOrbitalEvaluatorKpoints.aos"
S_S2 = "spin eigenfunction (S2Accumulator on a spin-adapted CI expansion)"


def slogdet(m):
    s, l = np.linalg.slogdet(m)
    return s, l


def psi_ratio(s1, l1, s0, l0):
    return (np.asarray(s1) / np.asarray(s0)) * np.exp(np.asarray(l1) - np.asarray(l0))


def mol_points(mol, nconf, rng):
    cfg = wfzoo.walkers(mol, nconf, rng, spread=1.0)
    A = mol.atom_coords()
    ne = cfg.configs.shape[1]
    cfg.configs[0] = A[rng.integers(0, len(A), size=ne)] + rng.normal(size=(ne, 3)) * 0.05   # close to nuclei
    cfg.configs[1] = rng.normal(size=(ne, 3)) * 6.0                                            # far tails
    return cfg


def ref_single_det(mol, mo_up, mo_dn, coords):
    """sign, log of det(up) det(down) from PySCF's AO values"""
    nup, ndn = mo_up.shape[1], mo_dn.shape[1]
    s, l = [], []
    for c in coords:
        ao = mol.eval_gto("GTOval_cart" if mol.cart else "GTOval_sph", c)
        su, lu = slogdet(ao[:nup] @ mo_up) if nup else (1.0, 0.0)
        sd, ld = slogdet(ao[nup:] @ mo_dn) if ndn else (1.0, 0.0)
        s.append(su * sd)
        l.append(lu + ld)
    return np.array(s), np.array(l)


def check_single(ck):
    from pyscf import gto, scf
    from pyqmc.wf.slater import Slater
    cases = []
    mol, mf = wfzoo.lih_rhf()
    cases.append(("RHF LiH", mol, mf))
    molu, mfu = wfzoo.lih_uhf()
    cases.append(("UHF LiH triplet", molu, mfu))
    molr = gto.M(atom="Li 0. 0. 0.; H 0. 0. 1.5", basis="6-31g", unit="bohr", spin=2, verbose=0)
    cases.append(("ROHF LiH triplet", molr, scf.ROHF(molr).run()))
    molo = gto.M(atom="O 0 0 0", basis="sto-3g", spin=2, verbose=0)
    cases.append(("UHF O atom triplet", molo, scf.UHF(molo).run()))
    mole, mfe = wfzoo.lih_ecp()
    cases.append(("RHF LiH ccECP", mole, mfe))
    for name, m, f in cases:
        cfg = mol_points(m, 6, ck.rng)
        inp = {"system": name, "nelec": list(m.nelec)}
        ok, res = ck.guarded(lambda: Slater(m, f).recompute(cfg), "single", S_MOL, inp)
        ck.case(("single", name), nontrivial=True)
        if not ok:
            continue
        u = f.to_uhf() if not isinstance(f, scf.uhf.UHF) else f
        occ = [np.asarray(o) > 0.5 for o in u.mo_occ]
        rs, rl = ref_single_det(m, np.asarray(u.mo_coeff[0])[:, occ[0]], np.asarray(u.mo_coeff[1])[:, occ[1]], cfg.configs)
        ratio = psi_ratio(res[0], res[1], rs, rl)
        err = float(np.max(np.abs(ratio - 1.0)))
        if not np.isfinite(err) or err > 1e-9:
            ck.violation("wave_function_differs_from_pyscf_determinant", S_MOL, inp, expected="det(up) det(down) of PySCF's occupied orbitals", got=[complex(x).__repr__() for x in ratio],
                         oracle="mol.eval_gto x mf.mo_coeff[:, occupied], numpy slogdet")
        if len(ck.samples) < 3:
            ck.sample({"system": name, "max |Psi/Psi_ref - 1|": err})


def ci_reference(mol, mc, coords, ci):
    """Psi = sum_{a,b} c[a,b] det(core + active_a)(up) det(core + active_b)(down), strings and coefficients straight from PySCF"""
    from pyscf.fci import cistring
    ncore, ncas = mc.ncore, mc.ncas
    na, nb = mc.nelecas
    sa = cistring.make_strings(range(ncas), na)
    sb = cistring.make_strings(range(ncas), nb)
    occ = lambda s: [i for i in range(ncas) if (int(s) >> i) & 1]
    mo = np.asarray(mc.mo_coeff)
    nup = ncore + na
    vals = []
    for c in coords:
        ao = mol.eval_gto("GTOval_sph", c)
        phi = ao @ mo
        tot = 0.0
        for ia, a in enumerate(sa):
            da = np.linalg.det(phi[:nup][:, list(range(ncore)) + [ncore + i for i in occ(a)]]) if nup else 1.0
            for ib, b in enumerate(sb):
                if ci[ia, ib] == 0:
                    continue
                db = np.linalg.det(phi[nup:][:, list(range(ncore)) + [ncore + i for i in occ(b)]]) if (ncore + nb) else 1.0
                tot += ci[ia, ib] * da * db
        vals.append(tot)
    return np.array(vals)


def spin_project(ci, ncas, nelecas, ss):
    """project a CI vector onto the S^2 = ss eigenspace exactly (Loewdin projector built from PySCF's contract_ss): iterative solvers
    leave contaminations of 1e-7 in amplitude, which the LOCAL S^2 = (S^2 Psi)/Psi magnifies wherever Psi is small"""
    from pyscf.fci import spin_op
    na, nb = nelecas
    n = na + nb
    sz = abs(na - nb) / 2.0
    out = ci.copy()
    sp = sz
    while sp <= n / 2.0 + 1e-9:
        e = sp * (sp + 1)
        if abs(e - ss) > 1e-9:
            out = (spin_op.contract_ss(out, ncas, nelecas) - e * out) / (ss - e)
        sp += 1.0
    return out / np.linalg.norm(out)


def check_ci(ck):
    from pyscf import gto, scf, mcscf
    from pyqmc.wf.slater import Slater
    from pyqmc.observables.s2_accumulator import S2Accumulator
    mol = gto.M(atom="Li 0. 0. 0.; H 0. 0. 1.5", basis="6-31g", unit="bohr", verbose=0)
    mf = scf.RHF(mol).run()
    plans = [("CASCI(2e,4o) singlet, core 1", dict(ncas=4, nelecas=(1, 1)), 0, 0.0),
             ("CASCI(4e,5o) singlet, no core", dict(ncas=5, nelecas=(2, 2)), 0, 0.0),
             ("CASCI(2e,4o) triplet Sz=1", dict(ncas=4, nelecas=(2, 0)), 0, 2.0),
             ("CASCI(4e,5o) triplet Sz=1 root", dict(ncas=5, nelecas=(3, 1)), 0, 2.0),
             ("CASCI(4e,5o) singlet, excited root 2", dict(ncas=5, nelecas=(2, 2)), 2, 0.0)]
    for name, kw, root, ss in (plans if ck.thorough else plans[:4]):
        def build():
            mc = mcscf.CASCI(mf, kw["ncas"], kw["nelecas"])
            mc.verbose = 0
            mc.fix_spin_(ss=ss)
            mc.fcisolver.conv_tol = 1e-13
            if root:
                mc.fcisolver.nroots = root + 1
            mc.kernel()
            if root:
                mc.ci = mc.ci[root]
            mc.ci = spin_project(np.asarray(mc.ci), mc.ncas, mc.nelecas, ss)
            return mc
        ok, mc = ck.guarded(build, "ci", S_CI, {"system": name})
        if not ok:
            continue
        molx = mol.copy()
        molx.spin = kw["nelecas"][0] - kw["nelecas"][1]
        molx.build()
        cfg = mol_points(molx, 6, ck.rng)
        inp = {"system": name, "nelec": list(molx.nelec), "ndet": int(np.count_nonzero(np.abs(mc.ci) > 1e-14))}
        ok, res = ck.guarded(lambda: Slater(molx, mf, mc=mc, tol=-1).recompute(cfg), "ci", S_CI, inp)
        ck.case(("ci", name), nontrivial=True)
        if not ok:
            continue
        ref = ci_reference(molx, mc, cfg.configs, np.asarray(mc.ci))
        got = np.asarray(res[0]) * np.exp(np.asarray(res[1]))
        ratio = got / ref
        err = float(np.max(np.abs(ratio - 1.0)))
        if not np.isfinite(err) or err > 1e-8:
            ck.violation("wave_function_differs_from_pyscf_ci_expansion", S_CI, inp, expected="sum_ab c_ab det_a(up) det_b(down) with PySCF's strings and coefficients", got=[complex(x).__repr__() for x in ratio],
                         oracle="pyscf.fci.cistring strings, mc.ci, mol.eval_gto x mc.mo_coeff")
        # spin eigenfunction: local S^2 = S(S+1) everywhere
        # the statement is about spin-ADAPTED vectors: PySCF's own <S^2> of this CI vector must be S(S+1) (a penalty-based solver can
        # return slightly contaminated excited roots; local S^2 = sum/Psi magnifies that where Psi is small)
        from pyscf.fci import spin_op
        ss_ci = float(spin_op.spin_square(np.asarray(mc.ci), mc.ncas, mc.nelecas)[0])
        if abs(ss_ci - ss) > 1e-10:
            ck.count("CI vector not spin-adapted to 1e-10 according to PySCF's spin_square (local S^2 not asserted)")
            continue
        wf = Slater(molx, mf, mc=mc, tol=-1)
        wf.recompute(cfg)
        ok, s2 = ck.guarded(lambda: np.asarray(S2Accumulator(molx.nelec)(cfg, wf)["S2"]), "ci", S_S2, inp)
        if ok:
            e2 = float(np.max(np.abs(s2 - ss)))
            if not np.isfinite(e2) or e2 > 1e-6:
                ck.violation("not_a_spin_eigenfunction", S_S2, dict(inp, expected_S2=ss), expected=ss, got=np.asarray(s2).tolist(), oracle="sum over up-down exchanges of Psi(R_ij)/Psi(R)")
        if len(ck.samples) < 6:
            ck.sample({"system": name, "ndet": inp["ndet"], "max |Psi/Psi_ref - 1|": err})


def check_pbc(ck):
    import pyqmc.api as pyq
    import pyqmc.pbc.twists as twists
    from pyqmc.wf.slater import Slater
    from pyqmc.configurations.coord import PeriodicConfigs
    plans = [(wfzoo.h_pbc_k3, np.diag([3, 1, 1])), (wfzoo.h_pbc_k3, np.array([[1, 1, 0], [0, 1, 0], [0, 0, 1]])), (wfzoo.h_pbc_k3, np.eye(3)), (wfzoo.h_pbc, np.diag([2, 1, 1])), (wfzoo.h_pbc_tri, np.array([[1, 1, 0], [-1, 1, 0], [0, 0, 1]])), (wfzoo.diamond, np.eye(3)),
             (wfzoo.h_pbc, np.ones((3, 3)) - 2 * np.eye(3)), (wfzoo.h_pbc_tri, np.array([[2, 1, 0], [0, 1, 0], [0, 0, 1]])), (wfzoo.h_pbc_tri, np.eye(3))]
    worst = 0.0
    for fx, S in (plans if ck.thorough else plans[:6]):
        cell, mf = fx()
        sup = pyq.get_supercell(cell, S=S)
        L = sup.lattice_vectors()
        tw = twists.create_supercell_twists(sup, mf)
        ntw = len(tw["primitive_ks"])
        tlist = list(range(ntw)) if (ck.thorough or ntw <= 2) else sorted(set([0, ntw - 1, int(ck.rng.integers(0, ntw))]))
        u = mf.to_uhf() if hasattr(mf, "to_uhf") else mf
        nelec = sup.nelec
        for t in tlist:
            kinds = tw["primitive_ks"][t]
            inp = {"cell": fx.__name__, "S": np.asarray(S).astype(int).tolist(), "twist": int(t), "kpoints": len(kinds), "eval_gto_precision": 1e-8}
            nconf = 6
            ne = sum(nelec)
            frac = ck.rng.random((nconf, ne, 3))
            ax = ck.rng.integers(0, 3, size=ne)
            frac[0, np.arange(ne), ax] = 1 - 1e-9            # a hair inside a far face (one coordinate per electron: no two electrons coincide)
            frac[1, np.arange(ne), ax] = 0.0                 # on a near face
            frac[2, np.arange(ne), ax] = 0.5                 # on a lattice plane of a doubled cell
            frac[2, 0] = [1 - 1e-9, 1 - 1e-9, 1 - 1e-9]     # one electron in the far corner
            pos = frac @ L
            for w in (3, 4):                                   # two configurations outside the cell: non-zero wrap counters in every direction
                shift = ck.rng.integers(-2, 3, size=(ne, 3))
                shift[0] = [1, 2, -1] if w == 3 else [-2, 1, 1]
                pos[w] += shift @ L
            cfg = PeriodicConfigs(pos.copy(), L)
            ok, res = ck.guarded(lambda: Slater(sup, mf, twist=t, eval_gto_precision=1e-8).recompute(cfg), "pbc", S_PBC, inp)
            ck.case(("pbc", fx.__name__, tuple(np.asarray(S).astype(int).ravel().tolist()), t), nontrivial=True)
            if not ok:
                continue
            # independent: Bloch orbitals of the PRIMITIVE cell at the absolute (unwrapped) positions, occupied columns of every k-point of the twist
            mo_occ = np.asarray(u.mo_occ)
            rs, rl = [], []
            cell.precision = 1e-12
            Lp = cell.lattice_vectors()
            for c in pos:
                cols_up, cols_dn = [], []
                # PySCF's lattice sum is centred on the home cell: evaluate at the image inside the primitive cell and apply the Bloch phase
                fp = c @ np.linalg.inv(Lp)
                T = np.floor(fp + 1e-12) @ Lp
                for k in kinds:
                    kv = np.asarray(mf.kpts)[k]
                    ao = np.asarray(cell.pbc_eval_gto("GTOval_sph", c - T, kpts=kv[None])[0]) * np.exp(1j * (T @ kv))[:, None]
                    cu = np.asarray(u.mo_coeff[0][k])[:, mo_occ[0][k] > 0.5]
                    cd = np.asarray(u.mo_coeff[1][k])[:, mo_occ[1][k] > 0.5]
                    cols_up.append(ao[: nelec[0]] @ cu)
                    cols_dn.append(ao[nelec[0]:] @ cd)
                mu, md = np.concatenate(cols_up, axis=1), np.concatenate(cols_dn, axis=1)
                if mu.shape[0] != mu.shape[1] or md.shape[0] != md.shape[1]:
                    rs.append(np.nan)
                    rl.append(np.nan)
                    continue
                su, lu = slogdet(mu)
                sd, ld = slogdet(md)
                rs.append(su * sd)
                rl.append(lu + ld)
            rs, rl = np.array(rs), np.array(rl)
            if not np.all(np.isfinite(rl)):
                ck.count("twists whose occupied orbitals do not fill the determinant (metallic occupation): skipped")
                continue
            ratio = psi_ratio(res[0], res[1], rs, rl)
            # a configuration-independent normalisation constant is allowed; everything else is not
            const = 1.0  # observed: the normalisation is exactly that of the determinant of PySCF's Bloch orbitals
            dev = np.abs(ratio / const - 1.0)
            big = np.real(rl) > np.median(np.real(rl)) - 20
            err = float(np.max(dev[big]))
            worst = max(worst, err)
            if not np.isfinite(err) or err > 2e-5:
                ck.violation("periodic_wave_function_differs_from_pyscf_bloch_determinant", S_PBC, dict(inp, electrons_fractional=frac.tolist()), expected="Psi = det(Bloch orbitals from cell.pbc_eval_gto) at every configuration",
                             got=[complex(x).__repr__() for x in ratio / const], oracle="cell.pbc_eval_gto at the absolute positions x mo_coeff[k][:, occupied], all k-points of the twist concatenated")
            if len(ck.samples) < 10:
                ck.sample(dict(inp, const=complex(const).__repr__(), max_dev=err))
    ck.stats["pbc_worst_deviation_from_constant_ratio"] = worst


def check_ao_precision(ck):
    """orbitals to within the requested precision everywhere in the cell (faces and corners included)"""
    import pyqmc.api as pyq
    import pyqmc.wf.orbitals as orb
    from pyqmc.configurations.coord import PeriodicConfigs
    worst = {}
    for fx in (wfzoo.h_pbc, wfzoo.h_pbc_tri, wfzoo.diamond):
        cell, mf = fx()
        lat = cell.lattice_vectors()
        kpts = np.asarray(mf.kpts)[[0, len(mf.kpts) - 1]]
        f = np.concatenate([ck.rng.random((40, 3)), 1 - ck.rng.random((30, 3)) * 0.05, ck.rng.random((30, 3)) * 0.05,
                            np.array(list(itertools.product([0.0, 0.5, 1 - 1e-10], repeat=3)))])
        pts = f @ lat
        cell.precision = 1e-12
        ref = np.asarray(cell.pbc_eval_gto("GTOval_sph_deriv1", pts, kpts=kpts))  # (nk, 4, n, nao)
        sup = pyq.get_supercell(cell, S=np.eye(3))
        for prec in (1e-2, 1e-4, 1e-6, 1e-8):
            for how in ("pyscf", "numba"):
                if how == "numba" and (fx is wfzoo.diamond or not ck.thorough and prec not in (1e-2, 1e-8)):
                    continue
                inp = {"cell": fx.__name__, "eval_gto_precision": prec, "evaluate_orbitals_with": how}
                def run():
                    oe = orb.PBCOrbitalEvaluatorKpoints(sup, kpts=kpts, eval_gto_precision=prec, evaluate_orbitals_with=how)
                    return np.asarray(oe.aos("GTOval_sph_deriv1", PeriodicConfigs(pts[None].copy(), lat)))
                ok, a = ck.guarded(run, "ao", S_AO, inp)
                ck.case(("ao", fx.__name__, prec, how), nontrivial=True)
                if not ok:
                    continue
                a = a.reshape(ref.shape)
                err = np.abs(a[:, 0] - ref[:, 0]).max(axis=(0, 2))
                e = float(err.max())
                worst["%s/%s/%g" % (fx.__name__, how, prec)] = e
                if not np.isfinite(e) or e > 3 * prec:
                    i = int(np.argmax(err))
                    ck.violation("orbital_error_exceeds_requested_precision", S_AO, dict(inp, fractional_position=f[i].tolist()), expected="|orbital - converged lattice sum| <= ~precision everywhere in the cell",
                                 got={"error": e, "largest orbital value": float(np.abs(ref[:, 0]).max())}, oracle="cell.pbc_eval_gto with cell.precision = 1e-12")
    ck.stats["ao_error_by_cell_evaluator_precision"] = worst


def check_models(ck):
    """determinant bookkeeping: the Coq models evaluated on the inputs the real functions get"""
    import pyqmc.wf.determinant_tools as dt
    exprs, todo = [], []
    for it in range(60 if ck.thorough else 25):
        n = int(ck.rng.integers(1, 12))
        bits = "".join(ck.rng.choice(["0", "1"], size=n))
        ncore = int(ck.rng.integers(0, 4))
        ok, r = ck.guarded(lambda: dt.binary_to_occ(bits, ncore), "model", S_CI, {"bits": bits, "ncore": ncore})
        ck.case(("b2o", it), nontrivial="1" in bits)
        if ok:
            exprs.append("binary_to_occ %s %d" % (coq_list(["true" if c == "1" else "false" for c in bits]), ncore))
            todo.append(("binary_to_occ", {"bits": bits, "ncore": ncore}, [int(x) for x in r[0]]))
    for it in range(40 if ck.thorough else 15):
        nd = int(ck.rng.integers(1, 8))
        pool = [sorted(int(x) for x in ck.rng.choice(6, size=2, replace=False)) for _ in range(3)]
        dets = [(int(ck.rng.integers(-3, 4)), [pool[int(ck.rng.integers(0, 3))], pool[int(ck.rng.integers(0, 3))]]) for _ in range(nd)]
        tol = int(ck.rng.integers(0, 2))
        ok, r = ck.guarded(lambda: dt.create_packed_objects(dets, tol=tol), "model", S_CI, {"determinants": dets, "tol": tol})
        ck.case(("pack", it), nontrivial=True)
        if ok:
            cd = coq_list(["((%d)%%Z, (%s, %s))" % (w, coq_list([str(x) for x in o[0]]), coq_list([str(x) for x in o[1]])) for w, o in dets])
            exprs.append("pack_view (%d)%%Z %s" % (tol, cd))
            mp = np.asarray(r[2]).reshape(2, -1)
            got = [[[int(x) for x in r[0]]], [[int(y) for y in x] for x in r[1][0]], [[int(y) for y in x] for x in r[1][1]], [[int(x) for x in mp[0]]], [[int(x) for x in mp[1]]]]
            todo.append(("create_packed_objects", {"determinants": dets, "tol": tol}, got))
    for it in range(30 if ck.thorough else 12):
        nk = int(ck.rng.integers(2, 5))
        ntot = nk + int(ck.rng.integers(1, 3))
        max_orb = np.array([ck.rng.permutation(np.arange(1, ntot + 1)) for _ in (0, 1)])  # all different: a wrong column shows
        kinds = sorted(int(x) for x in ck.rng.choice(ntot, size=nk, replace=False))
        if it % 2 == 0 and kinds[0] == 0:
            kinds = sorted(set(kinds[1:] + [ntot - 1])) if len(set(kinds[1:] + [ntot - 1])) == nk - 0 else kinds[1:] + [k for k in range(1, ntot) if k not in kinds][:1]
            kinds = sorted(kinds)
        det = [[sorted(int(x) for x in ck.rng.choice(int(max_orb[s][k]), size=int(ck.rng.integers(0, max_orb[s][k] + 1)), replace=False)) for k in range(ntot)] for s in (0, 1)]
        npdet = [[np.array(d, dtype=int) for d in det[s]] for s in (0, 1)]
        ok, r = ck.guarded(lambda: dt.flatten_determinants([(1.0, npdet)], max_orb, kinds), "model", S_CI, {"max_orb": max_orb.tolist(), "kinds": kinds, "det": det})
        ck.case(("flat", it), nontrivial=True)
        if ok:
            for s in (0, 1):
                exprs.append("flatten_spin %s %s %s" % (coq_list([str(int(x)) for x in max_orb[s]]), coq_list([str(k) for k in kinds]), coq_list([coq_list([str(x) for x in d]) for d in det[s]])))
                todo.append(("flatten_determinants", {"max_orb": max_orb[s].tolist(), "kinds": kinds, "det": det[s]}, [int(x) for x in r[0][1][s]]))
    vals = ck.coq_eval("dets", ["C05.Model"], exprs, scope="nat_scope")
    nmis = 0
    for (fn, inp, got), v in zip(todo, vals):
        if v is None:
            continue
        if v != got:
            nmis += 1
            if nmis <= 3:
                ck.correspondence_broken("C05 model %s vs pyqmc.wf.determinant_tools.%s" % (fn, fn), str({"input": inp, "model": v, "impl": got})[:600])
            # the model is proved to have the property; does the implementation's own answer have it?
            bad = None
            if fn == "binary_to_occ":
                want = list(range(inp["ncore"])) + [i + inp["ncore"] for i, c in enumerate(reversed(inp["bits"])) if c == "1"]
                bad = got != want
            elif fn == "flatten_determinants":
                sizes = [inp["max_orb"][k] for k in inp["kinds"]]
                offs = [sum(sizes[:j]) for j in range(len(sizes))]
                want = [n + offs[j] for j, k in enumerate(inp["kinds"]) for n in inp["det"][k]]
                bad = got != want or len(set(got)) != len(got)
            elif fn == "create_packed_objects":
                kept = [d for d in inp["determinants"] if abs(d[0]) > inp["tol"]]
                w, ou, od, mu, md = got[0][0], got[1], got[2], got[3][0], got[4][0]
                bad = (w != [d[0] for d in kept] or len(mu) != len(kept) or len(md) != len(kept)
                       or any(ou[mu[i]] != kept[i][1][0] or od[md[i]] != kept[i][1][1] for i in range(min(len(kept), len(mu), len(md)))))
            if bad:
                ck.violation("determinant_bookkeeping", S_CI, dict(inp, function=fn), expected=v, got=got, oracle="the Coq model (proved to decode / pack / number determinants correctly) evaluated on the same input")
    ck.stats["determinant_bookkeeping_cases_compared_with_model"] = len(todo)
    ck.stats["determinant_bookkeeping_mismatches"] = nmis


def main(argv):
    ck = Check("C05", argv)
    ck.rule = ("molecules: Slater(mol, mf) for RHF / ROHF / UHF (closed shell, triplets, pseudopotential) at configurations incl. electrons on nuclei and in far tails against det(up) det(down) of PySCF's occupied orbitals; "
               "CASCI expansions (core / no core, singlet and triplet, excited root) against sum_ab c_ab det_a det_b built from PySCF's strings and coefficients, and local S^2 = S(S+1) at every configuration; "
               "periodic: supercells (identity, diag(2,1,1), rotated/sheared triclinic, ones-2I; with pseudopotentials) and every twist (or a sample) at configurations on far and near faces, lattice planes, outside the cell, against the determinant of "
               "Bloch orbitals from cell.pbc_eval_gto at the absolute positions (ratio must not depend on the configuration); orbitals vs the converged lattice sum at eval_gto_precision 1e-2..1e-8 everywhere in the cell for both evaluators; "
               "determinant bookkeeping (binary_to_occ, create_packed_objects, flatten_determinants) against the Coq model by vm_compute.")
    ck.trusted = ["Coq 8.16.1 kernel + vm_compute", "PySCF (eval_gto, pbc_eval_gto, fci.cistring, SCF/CASCI solutions) as the independent reference", "numpy slogdet", "harness/c05.py, wfzoo.py"]
    ck.assumptions = ["periodic comparison at eval_gto_precision = 1e-8 with tolerance 2e-5 on Psi/Psi_ref - 1",
                      "orbital error bound: 3 x requested precision", "pyscf.hci is not installed: the HCI string conversion is not exercised"]
    ck.coq_build("C05", THEOREMS)
    if not ck.replay:
        check_single(ck)
        check_ci(ck)
        check_pbc(ck)
        check_ao_precision(ck)
        check_models(ck)
    return ck.finish()
