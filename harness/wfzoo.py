"""Wave-function fixtures shared by C02/C03/C04/C06/C16/C20: every class and several compositions,
open and periodic, real and complex; cheap PySCF inputs built once per process."""
import functools

import numpy as np

_cache = {}


def cached(fn):
    @functools.wraps(fn)
    def w(*a):
        k = (fn.__name__,) + a
        if k not in _cache:
            _cache[k] = fn(*a)
        return _cache[k]
    return w


@cached
def lih_rhf():
    from pyscf import gto, scf
    mol = gto.M(atom="Li 0. 0. 0.; H 0. 0. 1.5", basis="unc-sto-3g", unit="bohr", cart=True, verbose=0)
    mf = scf.RHF(mol).run()
    return mol, mf


@cached
def lih_uhf():
    from pyscf import gto, scf
    mol = gto.M(atom="Li 0. 0. 0.; H 0. 0. 1.5", basis="sto-3g", unit="bohr", spin=2, verbose=0)
    mf = scf.UHF(mol).run()
    return mol, mf


@cached
def n_doublet_mol():
    """7 electrons, (nup, ndown) = (4, 3): unequal spin counts with at least three electrons of each spin (no SCF: used for Jastrow factors only)"""
    from pyscf import gto
    return gto.M(atom="N 0. 0. 0.", basis="sto-3g", unit="bohr", spin=1, verbose=0)


@cached
def h2_casci():
    from pyscf import gto, scf, mcscf
    mol = gto.M(atom="H 0. 0. 0.; H 0. 0. 2.4", basis="cc-pvdz", unit="bohr", verbose=0)
    mf = scf.RHF(mol).run()
    mc = mcscf.CASCI(mf, 4, 2)
    mc.kernel()
    return mol, mf, mc


@cached
def lih_casci():
    """LiH CASCI(3 orbitals, 2 electrons) with one frozen core orbital: 2 up / 2 down electrons, 3 x 3 determinants built from 3 distinct
    2x2 up and 3 distinct 2x2 down matrices (every distinct determinant is shared by three expansion terms)"""
    from pyscf import gto, scf, mcscf
    mol = gto.M(atom="Li 0. 0. 0.; H 0. 0. 3.0", basis="sto-3g", unit="bohr", verbose=0)
    mf = scf.RHF(mol).run()
    mc = mcscf.CASCI(mf, 3, 2)
    mc.kernel()
    return mol, mf, mc


@cached
def h_pbc():
    import pyscf.pbc.gto
    import pyscf.pbc.scf
    cell = pyscf.pbc.gto.M(atom="H 0. 0. 0.; H 1. 1. 1.", basis="sto-3g", unit="bohr", a=(np.ones((3, 3)) - np.eye(3)) * 4, verbose=0)
    mf = pyscf.pbc.scf.KRKS(cell, cell.make_kpts((2, 2, 2))).run()
    return cell, mf


@cached
def h_pbc_tri():
    """triclinic primitive cell (non-symmetric lattice matrix), 2x2x1 mesh: exposes transposed-lattice / transposed-supercell mistakes"""
    import pyscf.pbc.gto
    import pyscf.pbc.scf
    cell = pyscf.pbc.gto.M(atom="H 0. 0. 0.; H 1.1 0.9 1.0", basis="sto-3g", unit="bohr", a=np.array([[4.0, 0, 0], [1.0, 4.2, 0], [0.5, 0.3, 4.5]]), verbose=0)
    mf = pyscf.pbc.scf.KRKS(cell, cell.make_kpts((2, 2, 1))).run()
    return cell, mf


@cached
def h_pbc_k3():
    """three k-points along a1 (phases exp(2 pi i/3): not their own conjugates, unlike any 2x2x2 mesh), oblique cell"""
    import pyscf.pbc.gto
    import pyscf.pbc.scf
    cell = pyscf.pbc.gto.M(atom="H 0.3 0.2 0.1; H 1.6 0.9 1.2", basis="sto-3g", unit="bohr", a=np.array([[3.6, 0, 0], [0.7, 4.4, 0], [0.2, -0.5, 4.8]]), verbose=0)
    mf = pyscf.pbc.scf.KRKS(cell, cell.make_kpts((3, 1, 1), wrap_around=True)).run()  # k = 0, +1/3, -1/3: the k-points of the tripled cell sum to zero
    return cell, mf


@cached
def h_pbc_kdiag():
    """one k-point whose Cartesian components cancel, k = (q, -q, 0): non-trivial twist phases although sum(k) = 0"""
    import pyscf.pbc.gto
    import pyscf.pbc.scf
    a = 4.2
    cell = pyscf.pbc.gto.M(atom="H 0.4 0.3 0.2; H 1.7 1.1 1.3", basis="sto-3g", unit="bohr", a=np.eye(3) * a, verbose=0)
    q = 2 * np.pi / a / 4
    mf = pyscf.pbc.scf.KRKS(cell, np.array([[q, -q, 0.0]])).run()
    return cell, mf


def randomize(wf, rng, skip=("mo_coeff", "det_coeff"), scale=0.3):
    for k in list(wf.parameters.keys()):
        if any(s in k for s in skip):
            continue
        p = np.asarray(wf.parameters[k])
        new = rng.normal(size=p.shape) * scale
        if "Xsupport" in k:
            new = p + rng.normal(size=p.shape) * 0.2
        if k.endswith("alpha") or k.endswith("f"):
            new = np.abs(new) + 0.2
        wf.parameters[k] = new.astype(p.dtype) if p.dtype != complex else new + 0j
    return wf


def complex_orbitals(mf):
    """the same mean-field object with each occupied orbital mixed with a virtual one through an imaginary coefficient: orbitals whose
    phase varies in space, so that wave-function ratios are genuinely complex (a constant phase would cancel)"""
    import copy
    m = copy.copy(mf)
    C = np.asarray(mf.mo_coeff).astype(complex)
    nocc = int(np.sum(np.asarray(mf.mo_occ) > 0))
    for j in range(nocc):
        C[:, j] = C[:, j] + 1j * (0.3 + 0.1 * j) * np.asarray(mf.mo_coeff)[:, nocc + (j % (C.shape[1] - nocc))]
    m.mo_coeff = C
    return m


def obc_wfs(rng, which="all", jax=True):
    """list of (name, mol, wf) for open boundary conditions"""
    from pyqmc.wf.slater import Slater
    from pyqmc.wf.multiplywf import MultiplyWF
    from pyqmc.wf.addwf import AddWF
    from pyqmc.wf.geminaljastrow import GeminalJastrow
    from pyqmc.wf.three_body_jastrow import ThreeBodyJastrow
    from pyqmc.wf.gps2 import GPSJastrow
    from pyqmc.wftools import generate_jastrow, default_jastrow_basis, generate_gps_jastrow
    import pyqmc.api as pyq
    mol, mf = lih_rhf()
    out = []

    def jast(m=mol):
        return randomize(generate_jastrow(m)[0], rng)

    def j3(m=mol):
        a, b = default_jastrow_basis(m)
        return randomize(ThreeBodyJastrow(m, a, b), rng, scale=0.1)

    out.append(("slater_rhf", mol, Slater(mol, mf)))
    out.append(("jastrow", mol, jast()))
    out.append(("threebody", mol, j3()))
    out.append(("slater*jastrow", mol, MultiplyWF(Slater(mol, mf), jast())))
    out.append(("slater*jastrow*threebody", mol, MultiplyWF(Slater(mol, mf), jast(), j3())))
    if which == "all":
        out.append(("geminal", mol, randomize(GeminalJastrow(mol), rng)))
        out.append(("gps", mol, randomize(generate_gps_jastrow(mol)[0], rng)))
        out.append(("slater*gps", mol, MultiplyWF(Slater(mol, mf), randomize(generate_gps_jastrow(mol)[0], rng))))
        out.append(("slater*jastrow*geminal", mol, MultiplyWF(Slater(mol, mf), jast(), randomize(GeminalJastrow(mol), rng))))
        # unequal spin counts with >= 3 electrons per spin: the packed pair indices of the same-spin channels of the three-body Jastrow differ
        # between up-up and down-down only there (added after a seeded change copied the up-up offset into the down-down loop of pgradient)
        moln = n_doublet_mol()
        out.append(("jastrow*threebody_n_doublet(4,3)", moln, MultiplyWF(jast(moln), j3(moln))))
        molu, mfu = lih_uhf()
        out.append(("slater_uhf_triplet*jastrow", molu, MultiplyWF(Slater(molu, mfu), jast(molu))))
        molc, mfc, mc = h2_casci()
        out.append(("multislater_casci", molc, Slater(molc, mfc, mc=mc, tol=0.0)))
        out.append(("multislater_casci*jastrow", molc, MultiplyWF(Slater(molc, mfc, mc=mc, tol=0.0), jast(molc))))
        out.append(("add(sj,sj)", mol, AddWF([0.7, 0.5], [MultiplyWF(Slater(mol, mf), jast()), MultiplyWF(Slater(mol, mf), jast())])))
        out.append(("add(sj,sj3)complexcoef", mol, AddWF([0.7, 0.2 + 0.4j], [MultiplyWF(Slater(mol, mf), jast()), MultiplyWF(Slater(mol, mf), jast(), j3())])))
        out.append(("slater_complex_orbitals*jastrow", mol, MultiplyWF(Slater(mol, complex_orbitals(mf)), jast())))
        if jax:
            try:
                from pyqmc.wf.jax.slater import JAXSlater
                from pyqmc.wf.jax.jastrowspin import JAXJastrowSpin
                out.append(("jax_slater", mol, JAXSlater(mol, mf)))
                out.append(("jax_jastrow", mol, randomize(JAXJastrowSpin(mol), rng)))
            except Exception as e:  # noqa
                out.append(("jax_unavailable:%r" % e, None, None))
    return out


def pbc_wfs(rng, which="all"):
    """list of (name, supercell, wf) for periodic boundary conditions (real twist and complex twist)"""
    from pyqmc.wf.slater import Slater
    from pyqmc.wf.multiplywf import MultiplyWF
    from pyqmc.wf.three_body_jastrow import ThreeBodyJastrow
    from pyqmc.wftools import generate_jastrow, default_jastrow_basis
    import pyqmc.api as pyq
    cell, mf = h_pbc()
    out = []
    S1 = np.ones((3, 3)) - 2 * np.eye(3)
    sup = pyq.get_supercell(cell, S=S1)
    out.append(("pbc_slater_twist0*jastrow", sup, MultiplyWF(Slater(sup, mf, twist=0, eval_gto_precision=1e-6), randomize(generate_jastrow(sup)[0], rng))))
    if which in ("all", "all+gps"):
        cellt, mft = h_pbc_tri()
        supt = pyq.get_supercell(cellt, S=np.array([[1, 1, 0], [-1, 1, 0], [0, 0, 1]]))
        out.append(("pbc_triclinic_slater_twist1*jastrow", supt, MultiplyWF(Slater(supt, mft, twist=1, eval_gto_precision=1e-6), randomize(generate_jastrow(supt)[0], rng))))
        cell3, mf3 = h_pbc_k3()
        sup3 = pyq.get_supercell(cell3, S=np.eye(3))
        out.append(("pbc_k3_slater_twist1*jastrow", sup3, MultiplyWF(Slater(sup3, mf3, twist=1, eval_gto_precision=1e-6), randomize(generate_jastrow(sup3)[0], rng))))
        sup2 = pyq.get_supercell(cell, S=np.diag([2, 1, 1]))
        out.append(("pbc_slater_complex_twist", sup2, Slater(sup2, mf, twist=1, eval_gto_precision=1e-6)))
        a, b = default_jastrow_basis(sup2)
        out.append(("pbc_slater_complex_twist*jastrow*threebody", sup2,
                    MultiplyWF(Slater(sup2, mf, twist=1, eval_gto_precision=1e-6), randomize(generate_jastrow(sup2)[0], rng), randomize(ThreeBodyJastrow(sup2, a, b), rng, scale=0.1))))
    if which == "all+gps":
        # ratio checks only (C03): the Gaussian-process Jastrow on minimal-image distances is a well-defined function of the walker in a periodic
        # cell (not a smooth one, so it is not offered to the derivative checks).  Added after a seeded change dropped the minimal image in
        # the batched auxiliary-position path of GPSJastrow only.
        from pyqmc.wftools import generate_gps_jastrow
        cellt, mft = h_pbc_tri()
        supt = pyq.get_supercell(cellt, S=np.array([[1, 1, 0], [-1, 1, 0], [0, 0, 1]]))
        out.append(("pbc_triclinic_gps", supt, randomize(generate_gps_jastrow(supt)[0], rng)))
        out.append(("pbc_triclinic_slater_twist1*gps", supt, MultiplyWF(Slater(supt, mft, twist=1, eval_gto_precision=1e-6), randomize(generate_gps_jastrow(supt)[0], rng))))
    return out


def walkers(mol, nconf, rng, spread=1.0):
    import pyqmc.api as pyq
    st = np.random.get_state()
    np.random.seed(int(rng.integers(0, 2 ** 31)))
    try:
        c = pyq.initial_guess(mol, nconf, r=spread)
    finally:
        np.random.set_state(st)
    return c


@cached
def lih_ecp():
    from pyscf import gto, scf
    mol = gto.M(atom="Li 0. 0. 0.; H 0. 0. 1.5", basis="ccecp-ccpvdz", ecp="ccecp", unit="bohr", verbose=0)
    mf = scf.RHF(mol).run()
    return mol, mf


@cached
def diamond():
    """periodic cell with pseudopotentials: the repository's own stored SCF result (tests/files/diamond_primitive.hdf5)"""
    import os
    import pyqmc.api as pyq
    repo = os.environ.get("VERIF_REPO", "/repo")
    return pyq.recover_pyscf(os.path.join(repo, "tests/files/diamond_primitive.hdf5"), cancel_outputs=False)


def ecp_wfs(rng, periodic=True):
    """(name, mol, wf) for systems WITH pseudopotentials (T-moves, non-local energy): LiH/ccECP open, diamond/ccECP periodic"""
    from pyqmc.wf.slater import Slater
    from pyqmc.wf.multiplywf import MultiplyWF
    from pyqmc.wftools import generate_jastrow
    mol, mf = lih_ecp()
    out = [("ecp_lih_slater*jastrow", mol, MultiplyWF(Slater(mol, mf), randomize(generate_jastrow(mol)[0], rng)))]
    if periodic:
        cell, kmf = diamond()
        out.append(("ecp_diamond_slater*jastrow", cell, MultiplyWF(Slater(cell, kmf), randomize(generate_jastrow(cell)[0], rng, scale=0.1))))
    return out
