"""C10 — Coulomb energies: direct sums for molecules, converged Ewald sums in 3D (independent oracle, splitting independence,
lattice-translation and relabelling invariance), total = sum of parts."""
import math

import numpy as np

from common import Check, coq_list, zlit
import ewald_oracle as eo

THEOREMS = ["C10_constants_are_self_plus_background", "C10_total_is_sum_of_parts", "C10_half_space_picks_one_of_each_pair", "C10_generated_gpoints_are_the_half_space",
            "C10_structure_factor_is_pair_sum", "C10_cross_term_is_pair_sum", "C10_reciprocal_term_ignores_lattice_translation", "C10_pair_term_is_even_in_G", "C10_contractions_pair_like_axes"]
S_OPEN = "pyqmc/observables/energy.py:OpenCoulomb"
S_EW = "pyqmc/observables/ewald.py:Ewald.energy"
S_ACC = "pyqmc/observables/accumulators.py:EnergyAccumulator.__call__"
S_G = "pyqmc/observables/ewald.py:generate_positive_gpoints"


class FakeMol:
    def __init__(self, coords, charges, nelec):
        self._c = np.asarray(coords, dtype=float)
        self._q = np.asarray(charges)
        self.nelec = tuple(nelec)
        self._ecp = {}
        self._atom = [("X%d" % i, list(c)) for i, c in enumerate(self._c)]
        self.natm = len(self._q)

    def atom_coords(self):
        return self._c.copy()

    def atom_charges(self):
        return self._q.copy()


class FakeCell(FakeMol):
    def __init__(self, lat, coords, charges, nelec):
        FakeMol.__init__(self, coords, charges, nelec)
        self.a = np.asarray(lat, dtype=float)

    def lattice_vectors(self):
        return self.a.copy()


def lattices(rng, thorough):
    a = float(rng.uniform(2.5, 6.0))
    out = [("cubic", np.eye(3) * a),
           ("fcc", (np.ones((3, 3)) - np.eye(3)) * a / 2),
           ("bcc", (np.ones((3, 3)) - 2 * np.eye(3)) * a / 2),
           ("hexagonal", np.array([[a, 0, 0], [-a / 2, a * math.sqrt(3) / 2, 0], [0, 0, a * 1.6]])),
           ("triclinic", np.array([[a, 0, 0], [0.23 * a, 0.95 * a, 0], [-0.31 * a, 0.27 * a, 1.1 * a]])),
           ("orthorhombic", np.diag([a, 1.4 * a, 0.8 * a]))]
    if thorough:
        out.append(("triclinic2", np.array([[a, 0.1 * a, -0.2 * a], [0.3 * a, 1.2 * a, 0.1 * a], [-0.2 * a, 0.35 * a, 0.9 * a]])))
        out.append(("tetragonal_long", np.diag([a, a, 2.2 * a])))
    return out


def direct_open(epos, apos, Z):
    """pairwise sums with math.fsum (exactly rounded summation)"""
    ne = len(epos)
    ee = math.fsum(1.0 / math.dist(epos[i], epos[j]) for i in range(ne) for j in range(i + 1, ne))
    ei = math.fsum(-float(Z[I]) / math.dist(epos[i], apos[I]) for i in range(ne) for I in range(len(apos)))
    ii = math.fsum(float(Z[I]) * float(Z[J]) / math.dist(apos[I], apos[J]) for I in range(len(apos)) for J in range(I + 1, len(apos)))
    return ee, ei, ii


def check_open(ck):
    import pyqmc.observables.energy as en
    from pyqmc.configurations.coord import OpenConfigs
    worst = 0.0
    for it in range(60 if ck.thorough else 20):
        nat = int(ck.rng.integers(1, 5))
        ne = int(ck.rng.integers(1, 7))
        Z = ck.rng.integers(1, 30, size=nat)
        apos = ck.rng.normal(size=(nat, 3)) * ck.rng.choice([0.5, 2.0, 10.0]) + ck.rng.normal(size=3) * ck.rng.choice([0, 50.0])
        nconf = 3
        epos = apos[ck.rng.integers(0, nat, size=(nconf, ne))] + ck.rng.normal(size=(nconf, ne, 3)) * ck.rng.choice([0.01, 1.0, 20.0])
        mol = FakeMol(apos, Z, (ne - ne // 2, ne // 2))
        inp = {"atoms": apos.tolist(), "charges": Z.tolist(), "electrons": epos.tolist()}
        ok, res = ck.guarded(lambda: en.OpenCoulomb(mol).energy(OpenConfigs(epos.copy())), "open", S_OPEN, inp)
        ck.case(("open", it), nontrivial=True)
        if not ok:
            continue
        ee, ei, ii = [np.asarray(x, dtype=float) for x in res]
        for w in range(nconf):
            r = direct_open(epos[w], apos, Z)
            got = (float(np.ravel(ee)[w]), float(np.ravel(ei)[w]), float(np.ravel(ii)[0]) if np.ndim(ii) else float(ii))
            for nm, g, x in zip(("ee", "ei", "ii"), got, r):
                err = abs(g - x) / max(1.0, abs(x))
                worst = max(worst, err)
                if not np.isfinite(err) or err > 1e-12:
                    ck.violation("open_coulomb_sum", S_OPEN, dict(inp, walker=w, part=nm), expected=x, got=g, oracle="direct pairwise sums with exactly rounded summation (math.fsum)")
        if it < 2:
            ck.sample({"open": {"atoms": nat, "electrons": ne}})
    ck.stats["open_worst_relative_error"] = worst


def set_alpha(ew, alpha, gmax):
    """re-run the set-up of an Ewald object with another splitting parameter (the constructor fixes alpha = 5 / smallest height)"""
    import pyqmc.observables.ewald as ewm
    vol = np.linalg.det(ew.latvec)
    recvec = np.linalg.inv(ew.latvec).T
    ew.alpha = alpha
    gp = ewm.generate_positive_gpoints(gmax, recvec)
    ew.gpoints, ew.gweight = ewm.select_big(gp, vol, ew.alpha)
    ew.set_ewald_constants(vol)
    return ew


def dropped_weight(ew, lat):
    """(sum over the whole half space of 4 pi/(V G^2) exp(-G^2/4 alpha^2)) - (sum of the weights the object kept)"""
    lat = np.asarray(lat, dtype=float)
    V = abs(np.linalg.det(lat))
    rec = 2 * np.pi * np.linalg.inv(lat).T
    alpha = float(ew.alpha)
    gcut = 2 * alpha * math.sqrt(-math.log(1e-19))
    gd, _ = eo._images(rec, gcut + np.max(np.linalg.norm(rec, axis=1)))
    g2 = np.sum(gd * gd, axis=1)
    g2 = g2[g2 > 1e-14]
    full_half = 0.5 * np.sum(4 * np.pi / (V * g2) * np.exp(-g2 / (4 * alpha ** 2)))
    return float(full_half - np.sum(np.asarray(ew.gweight)))


def check_ewald(ck):
    import pyqmc.observables.ewald as ewm
    from pyqmc.configurations.coord import PeriodicConfigs
    worst = {"ee": 0.0, "ei": 0.0, "ii": 0.0, "total": 0.0, "alpha": 0.0, "shift": 0.0}
    for name, lat in lattices(ck.rng, ck.thorough):
        for rep in range(4 if ck.thorough else 2):
            nat = int(ck.rng.integers(1, 4))
            Z = ck.rng.integers(1, 7, size=nat)
            charge = int(ck.rng.choice([0, 0, 1, -1, 2, -3]))
            ne = max(1, int(Z.sum()) - charge)
            if rep == 1 and not ck.thorough:
                ne = 1 if name in ("cubic", "triclinic") else ne
            ne = min(ne, 9)
            apos = ck.rng.random((nat, 3)) @ lat
            if rep == 0:
                apos[0] = 0.0
            else:
                apos = apos + ck.rng.integers(-2, 3, size=(nat, 3)) @ lat  # ions listed in other periodic images (a Cell accepts that)
            nconf = 3
            frac = ck.rng.random((nconf, ne, 3))
            frac[0] = frac[0] * 5 - 2.5  # electrons outside the cell
            frac[1, : ne // 2] = frac[1, : ne // 2].round(1)
            epos = frac @ lat
            cell = FakeCell(lat, apos, Z, (ne - ne // 2, ne // 2))
            inp = {"lattice": name, "lattice_vectors": lat.tolist(), "ion_charges": Z.tolist(), "ions": apos.tolist(), "nelec": ne, "net_charge": int(Z.sum()) - ne, "electrons": epos.tolist()}
            def run():
                ew = ewm.Ewald(cell, ewald_gmax=14)
                return ew, ew.energy(PeriodicConfigs(epos.copy(), lat))
            ok, res = ck.guarded(run, "ewald", S_EW, inp)
            ck.case(("ew", name, rep), nontrivial=True)
            if not ok:
                continue
            ew, (ee, ei, ii) = res
            ee, ei = np.asarray(ee, dtype=float), np.asarray(ei, dtype=float)
            ii = float(np.real(ii))
            o_ii = eo.ewald3d(lat, apos, Z.astype(float))
            # rigorous truncation bound: the implementation keeps the reciprocal points with weight > 1e-10 inside its box; the dropped
            # part of sum_G W_G |S(G)|^2 is at most T * max|S|^2 with T = (sum of ALL half-space weights) - (sum of kept weights)
            T = dropped_weight(ew, lat)
            qabs = float(Z.sum() + ne)
            real_tail = 30 * math.erfc(4.9) * qabs ** 2 / float(np.min(1 / np.linalg.norm(np.linalg.inv(lat).T, axis=1)))
            tols = {"ee": T * ne ** 2, "ii": T * float(Z.sum()) ** 2, "ei": 2 * T * ne * float(Z.sum()), "total": T * qabs ** 2}
            tols = {k: 1.05 * v + real_tail + 1e-10 for k, v in tols.items()}
            if T < -1e-12:
                ck.violation("ewald_keeps_unknown_reciprocal_points", S_EW, inp, expected="kept weights are a subset of the half-space weights", got=T)
            for w in range(nconf):
                o_ee = eo.ewald3d(lat, epos[w], -np.ones(ne))
                o_tot = eo.ewald3d(lat, np.concatenate([epos[w], apos]), np.concatenate([-np.ones(ne), Z.astype(float)]))
                o_ei = o_tot - o_ee - o_ii
                got = {"ee": float(ee[w]), "ei": float(ei[w]), "ii": ii, "total": float(ee[w] + ei[w] + ii)}
                ref = {"ee": o_ee, "ei": o_ei, "ii": o_ii, "total": o_tot}
                for k in got:
                    err = abs(got[k] - ref[k])
                    tol = tols[k]
                    worst[k] = max(worst[k], err / tol)
                    if not np.isfinite(err) or err > tol:
                        ck.violation("ewald_differs_from_converged_sum", S_EW, dict(inp, walker=w, part=k), expected=ref[k], got=got[k],
                                     oracle="independent Ewald sum (own splitting parameter, terms kept to 1e-17; validated on NaCl/CsCl/Wigner constants each run)")
            # splitting independence of the implementation itself
            for fac in (1.2, 1.45):
                def run2():
                    e2 = set_alpha(ewm.Ewald(cell, ewald_gmax=14), ew.alpha * fac, 22)
                    return e2.energy(PeriodicConfigs(epos.copy(), lat)), dropped_weight(e2, lat)
                ok, r2 = ck.guarded(run2, "ewald", S_EW, dict(inp, alpha_factor=fac))
                if ok:
                    r2, T2 = r2
                    for k, a, b in (("ee", r2[0], ee), ("ei", r2[1], ei), ("ii", np.real(r2[2]), ii)):
                        err = float(np.max(np.abs(np.asarray(a, dtype=float) - b)))
                        tol_a = tols[k] * (1 + max(T2, 0) / max(T, 1e-300))  # both runs truncate: the bounds add
                        worst["alpha"] = max(worst["alpha"], err / tol_a)
                        if not np.isfinite(err) or err > tol_a:
                            ck.violation("ewald_depends_on_splitting", S_EW, dict(inp, alpha_factor=fac, part=k), expected=np.asarray(b).tolist(), got=np.asarray(a, dtype=float).tolist())
            # lattice translations of any subset of electrons, and relabelling
            n = ck.rng.integers(-3, 4, size=(nconf, ne, 3)) * (ck.rng.random((nconf, ne, 1)) < 0.5)
            perm = ck.rng.permutation(ne)
            def run3():
                a = ew.energy(PeriodicConfigs(epos + n @ lat, lat))
                b = ew.energy(PeriodicConfigs(epos[:, perm].copy(), lat))
                return a, b
            ok, r3 = ck.guarded(run3, "ewald", S_EW, dict(inp, lattice_translations=n.tolist(), permutation=perm.tolist()))
            if ok:
                for label, r in zip(("lattice translation", "relabelling"), r3):
                    for k, a, b in (("ee", r[0], ee), ("ei", r[1], ei)):
                        err = float(np.max(np.abs(np.asarray(a, dtype=float) - b)))
                        worst["shift"] = max(worst["shift"], err)
                        if not np.isfinite(err) or err > 1e-10 * max(1.0, qabs ** 2):  # same truncation on both sides: only rounding differs
                            ck.violation("ewald_not_invariant", S_EW, dict(inp, operation=label, part=k, lattice_translations=n.tolist(), permutation=perm.tolist()), expected=np.asarray(b).tolist(), got=np.asarray(a, dtype=float).tolist())
            if len(ck.samples) < 6:
                ck.sample({"lattice": name, "ions": Z.tolist(), "nelec": ne, "net_charge": int(Z.sum()) - ne})
    ck.stats["ewald_worst_error_over_tolerance (ee, ei, ii, total, alpha); shift absolute"] = worst


def check_gpoints(ck):
    """generate_positive_gpoints with the identity reciprocal basis / 2 pi returns integer points: compare as a set with the model's half space"""
    import pyqmc.observables.ewald as ewm
    exprs, todo = [], []
    for gmax in ([1, 2, 3, 4, 6] if ck.thorough else [1, 2, 3]):
        ok, g = ck.guarded(lambda: np.asarray(ewm.generate_positive_gpoints(gmax, np.eye(3) / (2 * np.pi))), "gpoints", S_G, {"gmax": gmax})
        ck.case(("gp", gmax), nontrivial=True)
        if not ok:
            continue
        gi = np.rint(g).astype(int)
        if np.max(np.abs(g - gi)) > 1e-9:
            ck.violation("gpoints_not_integer_combinations", S_G, {"gmax": gmax}, expected="integer combinations of the reciprocal vectors", got=float(np.max(np.abs(g - gi))))
            continue
        pts = sorted(map(tuple, gi.tolist()))
        exprs.append("same_points (pos_points %d) %s" % (gmax, coq_list(["(%s, %s, %s)" % tuple(zlit(int(x)) for x in p) for p in pts])))
        todo.append(gmax)
        s = set(pts)
        if len(s) != len(pts) or any((-a, -b, -c) in s for a, b, c in pts) or (0, 0, 0) in s or len(pts) != ((2 * gmax + 1) ** 3 - 1) // 2:
            ck.violation("gpoints_not_a_half_space", S_G, {"gmax": gmax}, expected="exactly one of G, -G for every non-zero G of the box", got={"n": len(pts), "distinct": len(s)})
    vals = ck.coq_eval("gpoints", ["C10.Model"], exprs, timeout=600)
    for gmax, v in zip(todo, vals):
        if v is not None and str(v).strip().lower() != "true":
            ck.correspondence_broken("C10 model pos_points vs generate_positive_gpoints", "gmax=%d model says the point sets differ" % gmax)
    ck.stats["gpoint_sets_compared_with_model"] = len(todo)


def check_total(ck):
    """EnergyAccumulator: total = ke + ee + ei + ecp + ii, where ii is what the Coulomb object reports"""
    import wfzoo
    from pyqmc.observables.accumulators import EnergyAccumulator
    zoo = wfzoo.obc_wfs(ck.rng, which="few", jax=False)[3:5] + wfzoo.pbc_wfs(ck.rng, which="all")[:2] + wfzoo.ecp_wfs(ck.rng, periodic=ck.thorough)
    for name, mol, wf in zoo:
        cfg = wfzoo.walkers(mol, 4, ck.rng)
        wf.recompute(cfg)
        kw = {"ewald_gmax": 10} if hasattr(mol, "a") else {}
        for old in ((True, False) if mol._ecp != {} else (True,)):
            inp = {"wf": name, "use_old_ecp": old}
            def run():
                acc = EnergyAccumulator(mol, use_old_ecp=old, **kw)
                d = acc(cfg, wf)
                return d, acc.coulomb.energy(cfg)
            ok, res = ck.guarded(run, "total", S_ACC, inp)
            ck.case(("total", name, old), nontrivial=True)
            if not ok:
                continue
            d, (ee, ei, ii) = res
            parts = np.asarray(d["ke"]) + np.asarray(d["ee"]) + np.asarray(d["ei"]) + np.asarray(d["ecp"]) + np.real(np.asarray(ii))
            err = float(np.max(np.abs(np.asarray(d["total"]) - parts) / np.maximum(1.0, np.abs(parts))))
            if not np.isfinite(err) or err > 1e-12:
                ck.violation("total_is_not_sum_of_parts", S_ACC, inp, expected=np.asarray(parts).tolist().__repr__()[:200], got=np.asarray(d["total"]).tolist().__repr__()[:200])
            if not np.allclose(np.asarray(d["ee"]), np.asarray(ee), rtol=0, atol=1e-10) or not np.allclose(np.asarray(d["ei"]), np.asarray(ei), rtol=0, atol=1e-10):
                ck.violation("reported_parts_differ_from_coulomb_object", S_ACC, inp, expected="ee, ei as returned by the Coulomb object", got="different")


def main(argv):
    ck = Check("C10", argv)
    ck.rule = ("open: OpenCoulomb on random molecules (1-4 atoms, charges 1-29, 1-6 electrons, spreads 0.01-20 bohr, far from the origin) against exactly rounded direct sums; "
               "3D: Ewald.energy on cubic, fcc, bcc, hexagonal, triclinic, orthorhombic cells with 1-3 ions of charge 1-6 (listed in the home cell or in other periodic images), neutral and charged (-3..+2), 1-9 electrons inside and outside the cell, against an independent Ewald sum "
               "(ee = electrons alone, ii = ions alone, total = all charges; ei by difference), the implementation re-run with splitting parameter x1.25 and x1.6, random lattice translations of subsets of electrons and relabellings; "
               "generate_positive_gpoints against the model's half space as point sets; EnergyAccumulator total against ke+ee+ei+ecp+ii.")
    ck.trusted = ["Coq 8.16.1 kernel + vm_compute", "Coq Reals axioms", "translator/gen_energy.py", "harness/ewald_oracle.py (validated in every run: NaCl, CsCl, Wigner constants; its own splitting independence)", "scipy erfc"]
    ck.assumptions = ["lattices are size-reduced (the property's quantifier); tolerance = rigorous truncation bound of the implementation's own cut-offs: (sum of all half-space reciprocal weights - sum of kept weights) x max|S(G)|^2 per part, plus the real-space tail beyond the 27 nearest images (30 erfc(4.9) (sum|q|)^2 / height) plus 1e-10",
                      "the Ewald summation identity itself (Poisson summation) is not proved in Coq: splitting independence is decided per input by the independent oracle and by re-running the implementation with other splitting parameters"]
    val = eo.validate()
    ck.stats["oracle_self_validation_residuals"] = val
    if max(val.values()) > 1e-10:
        ck.correspondence_broken("ewald_oracle self-validation", str(val))
    tr = ck.translate("gen_energy")
    if tr is not None:
        import gen_energy
        ck.stats["einsum_sites_typed"] = len(tr["contractions"])
        ck.stats["einsum_sites_left_to_the_oracle_untyped"] = list(gen_energy.UNTYPED)
    ck.coq_build("C10", THEOREMS)
    if not ck.replay:
        check_open(ck)
        check_ewald(ck)
        check_gpoints(ck)
        check_total(ck)
    return ck.finish()
