"""Independent Ewald sums (C10, C11): point charges q_i at x_i in a cell periodic in 3 or in 2 directions.
Written from the textbook formulas with their own splitting parameter and generous cut-offs (terms below 1e-17 of the leading ones);
validated inside every run against Madelung constants, against themselves at several splitting parameters, and (2D) against the 3D sum
of a slab with vacuum plus the dipole correction."""
import itertools

import numpy as np
from scipy.special import erfc, erf


def _images(lat, rcut, dims=3):
    """all integer combinations n with |n.L| possibly <= rcut (bounding box from the reciprocal heights), as displacement vectors"""
    lat = np.asarray(lat, dtype=float)
    if dims == 2:
        sub = lat[:2, :2]
        heights = 1.0 / np.linalg.norm(np.linalg.inv(sub).T, axis=1)
        nmax = [int(np.ceil(rcut / h)) + 1 for h in heights] + [0]
    else:
        heights = 1.0 / np.linalg.norm(np.linalg.inv(lat).T, axis=1)
        nmax = [int(np.ceil(rcut / h)) + 1 for h in heights]
    rng = [np.arange(-m, m + 1) for m in nmax]
    n = np.stack(np.meshgrid(*rng, indexing="ij"), axis=-1).reshape(-1, 3)
    return n @ lat, n


def ewald3d(lat, pos, q, alpha=None, tol=1e-17):
    """total Coulomb energy per cell of point charges in a neutralising background (if charged)"""
    lat = np.asarray(lat, dtype=float)
    pos = np.asarray(pos, dtype=float)
    q = np.asarray(q, dtype=float)
    V = abs(np.linalg.det(lat))
    if alpha is None:
        alpha = 2.8 / V ** (1.0 / 3.0)
    t = np.sqrt(-np.log(tol))
    rcut = t / alpha
    disp, nint = _images(lat, rcut + np.max(np.linalg.norm(lat, axis=1)))
    d = pos[:, None, :] - pos[None, :, :]
    # bring differences to some nearby image (any representative works: all images within rcut are summed)
    frac = d @ np.linalg.inv(lat)
    d = (frac - np.round(frac)) @ lat
    rv = d[:, :, None, :] + disp[None, None, :, :]
    r = np.linalg.norm(rv, axis=-1)
    same = np.eye(len(q), dtype=bool)[:, :, None] & (np.all(nint == 0, axis=1))[None, None, :]
    with np.errstate(divide="ignore", invalid="ignore"):
        term = np.where(same, 0.0, erfc(alpha * r) / r)
    term = np.where(r > rcut + 1e-9, 0.0, term)
    e_real = 0.5 * np.einsum("i,j,ijn->", q, q, term)
    rec = 2 * np.pi * np.linalg.inv(lat).T
    gcut = 2 * alpha * t
    gd, gint = _images(rec, gcut + np.max(np.linalg.norm(rec, axis=1)))
    g2 = np.sum(gd * gd, axis=1)
    keep = (g2 > 1e-14) & (g2 <= gcut * gcut * 1.0000001)
    gd, g2 = gd[keep], g2[keep]
    S = np.exp(1j * (gd @ pos.T)) @ q
    e_rec = 2 * np.pi / V * np.sum(np.exp(-g2 / (4 * alpha ** 2)) / g2 * np.abs(S) ** 2)
    e_self = -alpha / np.sqrt(np.pi) * np.sum(q * q)
    e_bg = -np.pi / (2 * V * alpha ** 2) * np.sum(q) ** 2
    return float(e_real + e_rec + e_self + e_bg)


def ewald2d(lat, pos, q, alpha=None, tol=1e-17):
    """total Coulomb energy per cell for charges periodic in the first two lattice directions only (Parry / Heyes-Barber-Clarke form);
    lat[2] must be along z and is otherwise ignored"""
    lat = np.asarray(lat, dtype=float)
    pos = np.asarray(pos, dtype=float)
    q = np.asarray(q, dtype=float)
    A = abs(np.linalg.det(lat[:2, :2]))
    if alpha is None:
        alpha = 2.8 / np.sqrt(A)
    t = np.sqrt(-np.log(tol))
    rcut = t / alpha
    disp, nint = _images(lat, rcut + np.max(np.linalg.norm(lat[:2], axis=1)), dims=2)
    d = pos[:, None, :] - pos[None, :, :]
    sub_inv = np.linalg.inv(lat[:2, :2])
    f2 = d[..., :2] @ sub_inv
    d = d.copy()
    d[..., :2] = (f2 - np.round(f2)) @ lat[:2, :2]
    rv = d[:, :, None, :] + disp[None, None, :, :]
    r = np.linalg.norm(rv, axis=-1)
    same = np.eye(len(q), dtype=bool)[:, :, None] & (np.all(nint == 0, axis=1))[None, None, :]
    with np.errstate(divide="ignore", invalid="ignore"):
        term = np.where(same, 0.0, erfc(alpha * r) / r)
    term = np.where(r > rcut + 1e-9, 0.0, term)
    e_real = 0.5 * np.einsum("i,j,ijn->", q, q, term)
    rec2 = 2 * np.pi * sub_inv.T
    rec = np.zeros((3, 3))
    rec[:2, :2] = rec2
    rec[2, 2] = 1.0
    gcut = 2 * alpha * t
    gd, gint = _images(rec, gcut + np.max(np.linalg.norm(rec2, axis=1)), dims=2)
    g = np.linalg.norm(gd[:, :2], axis=1)
    keep = (g > 1e-12) & (g <= gcut * 1.0000001)
    gd, g = gd[keep], g[keep]
    z = d[..., 2]  # (i, j)
    ph = np.cos(np.einsum("ijd,kd->ijk", d[..., :2], gd[:, :2]))
    gz = g[None, None, :] * z[:, :, None]
    a1 = g[None, None, :] / (2 * alpha) + alpha * z[:, :, None]
    a2 = g[None, None, :] / (2 * alpha) - alpha * z[:, :, None]
    # exp(gz) erfc(a1) can overflow*underflow for large |z|: evaluate through scaled complementary error function
    from scipy.special import erfcx
    def stable(gzv, a):
        # exp(gzv) * erfc(a) = exp(gzv - a^2) * erfcx(a) for a >= 0 ; for a < 0 use erfc directly (bounded by 2)
        out = np.empty_like(a)
        pos_ = a >= 0
        out[pos_] = np.exp(gzv[pos_] - a[pos_] ** 2) * erfcx(a[pos_])
        out[~pos_] = np.exp(gzv[~pos_]) * erfc(a[~pos_])
        return out
    w = stable(gz, a1) + stable(-gz, a2)
    e_rec = 0.5 * np.pi / A * np.einsum("i,j,ijk,ijk,k->", q, q, ph, w, 1.0 / g)
    k0 = z * erf(alpha * z) + np.exp(-(alpha * z) ** 2) / (alpha * np.sqrt(np.pi))
    e_k0 = -np.pi / A * np.einsum("i,j,ij->", q, q, k0)
    e_self = -alpha / np.sqrt(np.pi) * np.sum(q * q)
    return float(e_real + e_rec + e_k0 + e_self)


def validate(log=None):
    """self-validation of the oracles; returns a dictionary of residuals (all should be ~1e-12 or smaller, Madelung ~1e-12)"""
    out = {}
    # NaCl (rock salt), nearest-neighbour distance 1: Madelung constant 1.7475645946331822
    a = 2.0
    lat = np.eye(3) * a
    pos, q = [], []
    for i, j, k in itertools.product(range(2), repeat=3):
        pos.append([i, j, k])
        q.append((-1.0) ** (i + j + k))
    e = ewald3d(lat, np.array(pos, dtype=float), np.array(q))
    out["NaCl"] = abs(e / 4 + 1.7475645946331822)  # energy per ion pair (8 ions = 4 pairs)
    # CsCl, nearest-neighbour distance 1: 1.76267477307099
    a = 2 / np.sqrt(3)
    e = ewald3d(np.eye(3) * a, np.array([[0, 0, 0], [a / 2, a / 2, a / 2.0]]), np.array([1.0, -1.0]))
    out["CsCl"] = abs(e + 1.76267477307099)
    # Wigner crystal (one charge + background), simple cubic, a = 1: -1.418648739...  (E = -2.837297479/2 )
    e = ewald3d(np.eye(3), np.zeros((1, 3)), np.array([1.0]))
    out["sc_wigner"] = abs(e + 2.837297479480620 / 2)
    rng = np.random.default_rng(12345)
    lat = np.array([[3.0, 0, 0], [0.8, 2.9, 0], [-0.5, 0.7, 3.3]])
    pos = rng.random((5, 3)) @ lat
    q = np.array([1.0, 3.0, -1.0, -1.0, -1.0])
    vals = [ewald3d(lat, pos, q, alpha=al) for al in (0.6, 0.9, 1.4)]
    out["alpha_independence_3d_charged_triclinic"] = float(np.ptp(vals))
    # 2D: alpha independence, charged and with unequal charges
    lat2 = np.array([[3.0, 0, 0], [1.1, 2.7, 0], [0, 0, 30.0]])
    pos2 = rng.random((5, 3)) @ lat2
    pos2[:, 2] = rng.normal(size=5) * 1.5
    vals = [ewald2d(lat2, pos2, q, alpha=al) for al in (0.6, 0.9, 1.4)]
    out["alpha_independence_2d_charged"] = float(np.ptp(vals))
    # 2D against the 3D sum of the neutral slab with vacuum + dipole correction 2 pi M_z^2 / V (Yeh-Berkowitz), Lz -> large
    qn = np.array([2.0, 1.0, -1.0, -1.0, -1.0])
    e2 = ewald2d(lat2, pos2, qn)
    res = []
    for Lz in (40.0, 80.0):
        l3 = lat2.copy()
        l3[2, 2] = Lz
        Mz = np.sum(qn * pos2[:, 2])
        res.append(ewald3d(l3, pos2, qn, alpha=0.9) + 2 * np.pi * Mz ** 2 / (np.linalg.det(l3)))
    out["2d_vs_3d_slab_Lz40"] = abs(res[0] - e2)
    out["2d_vs_3d_slab_Lz80"] = abs(res[1] - e2)
    # 2D square checkerboard of +-1 at distance 1: Madelung constant 1.6155426267128247 per ion
    lat2 = np.array([[2.0, 0, 0], [0, 2.0, 0], [0, 0, 10.0]])
    p = np.array([[0, 0, 0], [1, 0, 0], [0, 1, 0], [1, 1, 0.0]])
    e = ewald2d(lat2, p, np.array([1.0, -1, -1, 1]))
    out["2d_checkerboard"] = abs(e / 4 * 2 + 1.6155426267128247)
    return out


if __name__ == "__main__":
    for k, v in validate().items():
        print(k, v)
