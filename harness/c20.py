"""C20 — evaluating observables never disturbs the walkers or the wave function; advertised keys/shapes = returned keys/shapes."""
import numpy as np

from common import Check
import wfzoo
import wfcheck as wc

THEOREMS = ["C20_bracketed_moves_restore_jastrow_state", "C20_restore_is_not_vacuous", "C20_slater_inverse_after_move_and_back",
            "C20_advertised_keys_are_returned_keys", "C20_key_table_covers_the_observables"]
SITE = "observable call"
S_KEYS = "observable keys()/shapes()"
TOL = 1e-7


class Isolated:
    """forwards to an observable but gives it a private random stream, so that the sampler's stream is the same with and without it"""

    def __init__(self, acc):
        self.acc = acc

    def _run(self, f, *a):
        st = np.random.get_state()
        try:
            return f(*a)
        finally:
            np.random.set_state(st)

    def __call__(self, configs, wf):
        return self._run(self.acc, configs, wf)

    def avg(self, configs, wf):
        return self._run(self.acc.avg, configs, wf)

    def keys(self):
        return self.acc.keys()

    def shapes(self):
        return self.acc.shapes()


def mo_for(mol):
    """orbital coefficients (nao, norb<=3) for the density-matrix observables of this fixture"""
    for fx in (wfzoo.lih_rhf, wfzoo.lih_uhf, wfzoo.h2_casci, wfzoo.lih_ecp):
        try:
            t = fx()
        except Exception:
            continue
        if t[0] is mol:
            c = np.asarray(t[1].mo_coeff)
            c = c[0] if c.ndim == 3 else c
            return c[:, :3]
    return None


def observables(name, mol, wf, rng, thorough):
    """dict name -> constructor of every built-in observable applicable to this system"""
    from pyqmc.observables.accumulators import EnergyAccumulator, SqAccumulator, SymmetryAccumulator, SymmetryAccumulatorPBC, gradient_generator
    from pyqmc.observables.obdm import OBDMAccumulator
    from pyqmc.observables.tbdm import TBDMAccumulator
    from pyqmc.observables.s2_accumulator import S2Accumulator
    periodic = hasattr(mol, "a")
    nelec = int(np.sum(mol.nelec))
    obs = {}
    kw = {"ewald_gmax": 10} if periodic else {}
    obs["energy(old ecp)"] = lambda: EnergyAccumulator(mol, **kw)
    obs["energy(new ecp)"] = lambda: EnergyAccumulator(mol, use_old_ecp=False, **kw)
    if hasattr(wf, "parameters") and hasattr(wf.parameters, "items") and "jax" not in name:
        obs["pgradient"] = lambda: gradient_generator(mol, wf, **kw)
    if name.startswith("ecp_diamond"):
        return obs
    th = 0.7
    rot = np.array([[np.cos(th), -np.sin(th), 0], [np.sin(th), np.cos(th), 0], [0, 0, 1.0]])
    refl = np.diag([-1.0, 1.0, 1.0])
    if periodic:
        import pyqmc.pbc.supercell as supercell
        cell, mf = wfzoo.h_pbc()
        kpts = supercell.get_supercell_kpts(mol)
        kd = np.asarray(mf.kpts)[np.newaxis] - kpts[:, np.newaxis]
        kinds = np.nonzero(np.linalg.norm(kd, axis=-1) < 1e-10)[1]
        dm_orbs = [np.asarray(mf.mo_coeff[k])[:, :2] for k in kinds]
        kk = np.asarray(mf.kpts)[kinds]
        obs["obdm"] = lambda: OBDMAccumulator(mol, dm_orbs, kpts=kk, nsweeps=2, warmup=4)
        obs["obdm_down"] = lambda: OBDMAccumulator(mol, dm_orbs, kpts=kk, nsweeps=1, warmup=4, spin=1)
        obs["tbdm_updown"] = lambda: TBDMAccumulator(mol, [dm_orbs, dm_orbs], (0, 1), nsweeps=2, warmup=4, kpts=kk)
        obs["structure factor"] = lambda: SqAccumulator(mol, nq=2)
        obs["symmetry(pbc)"] = lambda: SymmetryAccumulatorPBC({"inversion": -np.eye(3), "mirror": refl}, {"inversion": np.array([0.3, 0.1, 0.2]), "mirror": np.zeros(3)})
        obs["symmetry"] = lambda: SymmetryAccumulator({"inversion": -np.eye(3)})
    else:
        C = mo_for(mol)
        if C is not None:
            obs["obdm"] = lambda: OBDMAccumulator(mol, C, nsweeps=2, warmup=4)
            obs["obdm_up"] = lambda: OBDMAccumulator(mol, C, nsweeps=1, warmup=4, spin=0)
            obs["tbdm_updown"] = lambda: TBDMAccumulator(mol, np.asarray([C, C]), (0, 1), nsweeps=2, warmup=4)
            if mol.nelec[0] > 1:
                obs["tbdm_upup"] = lambda: TBDMAccumulator(mol, np.asarray([C, C]), (0, 0), nsweeps=1, warmup=4, ijkl=[[0, 1, 1, 0], [0, 0, 1, 1]])
        obs["structure factor"] = lambda: SqAccumulator.__new__(SqAccumulator)
        obs["symmetry"] = lambda: SymmetryAccumulator({"rotation_z": rot, "reflection_yz": refl})
    obs["S2"] = lambda: S2Accumulator(mol.nelec)
    return obs


def build(obs_name, ctor, mol):
    acc = ctor()
    if obs_name == "structure factor" and not hasattr(acc, "qlist"):
        # open boundary conditions: explicit q list (the constructor's default grid needs a lattice)
        nup = mol.nelec[0]
        acc.qlist = np.array([[0.5, 0, 0], [0, 0.7, 0.2], [1.0, 1.0, 1.0]])
        acc.nelec = sum(mol.nelec)
        acc.spins = np.ones((2, acc.nelec))
        acc.spins[1, nup:] = -1
    return acc


def observe(wf, cfg, probes):
    """everything a later caller can read from the pair (walkers, wave function)"""
    out = {"coords": cfg.configs.copy()}
    if hasattr(cfg, "wrap"):
        out["wrap"] = cfg.wrap.copy()
    s, l = wf.value()
    out["sign"], out["log"] = np.asarray(s).copy(), np.asarray(l).copy()
    for e, trial in probes:
        out["gradient e=%d" % e] = np.asarray(wf.gradient(e, cfg.electron(e))).copy()
        out["testvalue e=%d" % e] = np.asarray(wf.testvalue(e, trial)[0]).copy()
        g, lap = wf.gradient_laplacian(e, cfg.electron(e))
        out["laplacian e=%d" % e] = np.asarray(lap).copy()
    # parameter derivatives are read from cached arrays too (the gradient accumulator of an optimisation sees them)
    try:
        for k, v in wf.pgradient().items():
            out["pgradient " + k] = np.asarray(v).copy()
    except Exception:
        pass
    return out


def differences(before, after, okw):
    bad = []
    for k in before:
        a, b = np.asarray(after[k]), np.asarray(before[k])
        if k in ("coords", "wrap"):
            if a.shape != b.shape or a.tobytes() != b.tobytes():
                bad.append((k, "not bit-for-bit equal; max |diff| = %g" % (float(np.max(np.abs(a - b))) if a.shape == b.shape else np.nan)))
            continue
        if a.shape != b.shape:
            bad.append((k, "shape"))
            continue
        aa, bb = (a[okw], b[okw]) if k.startswith("pgradient") else (a[..., okw], b[..., okw])
        fin = np.isfinite(bb) & (np.abs(bb) < 1e8)
        if not np.array_equal(np.isfinite(aa), np.isfinite(bb)):
            bad.append((k, "non-finite pattern changed"))
        elif fin.any():
            err = float(np.max(np.abs(aa[fin] - bb[fin]) / np.maximum(1.0, np.abs(bb[fin]))))
            if err > TOL:
                bad.append((k, err))
    return bad


def refusal(ex, oname=""):
    """documented-by-behaviour refusals (exceptions, never silent): classes without testvalue_many cannot feed the density matrices;
    density matrices over real orbitals cannot hold the complex ratios of a complex-valued wave function"""
    msg = "%s: %s" % (type(ex).__name__, ex)
    if not (oname.startswith("obdm") or oname.startswith("tbdm")):
        return None  # only the density matrices have these documented limits; anywhere else the same exception is an alarm
    if isinstance(ex, AttributeError) and "testvalue_many" in msg:
        return "wave-function class without testvalue_many offered to a density matrix (AttributeError)"
    if "UFuncTypeError" in msg and "complex128" in msg and "float64" in msg:
        return "complex-valued wave function offered to a density matrix over real orbitals (UFuncTypeError)"
    return None


def check_shapes(ck, acc, oname, inp, d, nconf, per_walker):
    adv = set(acc.keys())
    shp = acc.shapes()
    call = "__call__" if per_walker else "avg"
    if not isinstance(d, dict):
        ck.violation("returned_no_dictionary", S_KEYS, dict(inp, call=call), expected=sorted(adv), got=type(d).__name__)
        return
    if set(d.keys()) != adv or set(shp.keys()) != adv:
        ck.violation("keys_differ_from_advertised", S_KEYS, dict(inp, call=call), expected=sorted(adv), got={"returned": sorted(d.keys()), "shapes": sorted(shp.keys())})
        return
    for k in adv:
        want = ((nconf,) if per_walker else ()) + tuple(int(x) for x in shp[k])
        got = tuple(np.asarray(d[k]).shape)
        if got != want:
            ck.violation("shape_differs_from_advertised", S_KEYS, dict(inp, call=call, key=k), expected=list(want), got=list(got))


def sampler_step(wf, cfg, rng, e, scale=0.4):
    """one single-electron Metropolis-like step exactly as the samplers issue it: gradient_value -> move coordinates -> updateinternals"""
    nconf = cfg.configs.shape[0]
    newpos = cfg.configs[:, e] + rng.normal(size=(nconf, 3)) * scale
    ep = cfg.make_irreducible(e, newpos)
    g, ratio, saved = wf.gradient_value(e, ep)
    acc = rng.random(nconf) < np.minimum(1.0, np.abs(np.asarray(ratio)) ** 2)
    cfg.move(e, ep, acc)
    wf.updateinternals(e, ep, cfg, mask=acc, saved_values=saved)


def check_state(ck):
    zoo = wfzoo.obc_wfs(ck.rng, which="all" if ck.thorough else "few", jax=ck.thorough)
    if not ck.thorough:
        allw = wfzoo.obc_wfs(ck.rng, which="all", jax=True)
        pick = {"slater_uhf_triplet*jastrow", "multislater_casci*jastrow", "add(sj,sj)", "add(sj,sj3)complexcoef", "jax_slater", "jax_jastrow"}
        zoo = [z for z in zoo if z[0] in ("slater*jastrow*threebody", "jastrow")] + [z for z in allw if z[0] in pick]
    zoo += wfzoo.pbc_wfs(ck.rng, which="all")[: (3 if ck.thorough else 2)]
    zoo += wfzoo.ecp_wfs(ck.rng, periodic=True)
    coverage = {}
    import os
    only = os.environ.get("VERIF_ONLY_WF")
    for name, mol, wf in zoo:
        if wf is None or (only and name != only):
            continue
        nconf = 3 if name.startswith("ecp_diamond") else 4
        cfg = wfzoo.walkers(mol, nconf, ck.rng, spread=1.0)
        cfg = wc.move_off_nodes(wf, cfg, ck.rng)
        wf.recompute(cfg)
        nelec = cfg.configs.shape[1]
        # leave the object in an INCREMENTALLY updated state, as in the middle of a sampling run
        for e in range(nelec):
            sampler_step(wf, cfg, ck.rng, e)
        probes = []
        for e in sorted(set([0, nelec - 1])):
            probes.append((e, wc.raw_electron(cfg, e, cfg.configs[:, e] + ck.rng.normal(size=(nconf, 3)) * 0.6)))
        l0 = np.real(np.asarray(wf.value()[1]))
        okw = l0 > np.median(l0) - 25
        obs = observables(name, mol, wf, ck.rng, ck.thorough)
        built = {}
        for oname, ctor in obs.items():
            inp = {"wf": name, "observable": oname, "periodic": hasattr(cfg, "wrap")}
            try:
                acc = build(oname, ctor, mol)
            except ValueError as ex:
                if oname == "energy(new ecp)" and mol._ecp == {} and "zero-size" in str(ex):
                    ck.count("new pseudopotential code refuses a molecule without pseudopotentials at construction (ValueError)")
                    continue
                ok, acc = ck.guarded(lambda: build(oname, ctor, mol), "construct", SITE, inp)
                continue
            except Exception:
                ok, acc = ck.guarded(lambda: build(oname, ctor, mol), "construct", SITE, inp)
                continue
            built[oname] = acc
            for call in ("__call__", "avg", "__call__ again"):
                before = observe(wf, cfg, probes)
                np.random.seed(int(ck.rng.integers(0, 2 ** 31)))
                fn = (lambda: acc.avg(cfg, wf)) if call == "avg" else (lambda: acc(cfg, wf))
                try:
                    d = fn()
                    ok = True
                except Exception as ex:
                    # a loud refusal is not a silent disturbance: the object is recomputed and the pair counted
                    wf.recompute(cfg)
                    ok = False
                    if refusal(ex, oname):
                        ck.count("refused: " + refusal(ex, oname))
                        built.pop(oname, None)
                    else:
                        ck.guarded(fn, "observable", SITE, dict(inp, call=call))
                        wf.recompute(cfg)
                ck.case(("obs", name, oname, call), nontrivial=True)
                if not ok:
                    break
                check_shapes(ck, acc, oname, inp, d, nconf, per_walker=(call != "avg"))
                after = observe(wf, cfg, probes)
                bad = differences(before, after, okw)
                if bad:
                    ck.violation("observable_disturbed_state", SITE, dict(inp, call=call), expected="coordinates bit-for-bit, value/gradient/ratio/Laplacian to rounding", got=[(k, str(v)) for k, v in bad[:5]],
                                 oracle="the same queries on the same objects before and after the observable was evaluated")
                    wf.recompute(cfg)
            coverage.setdefault(oname, 0)
            coverage[oname] += 1
        # against a fresh object: the state after all of that is still the state of these coordinates
        ref = wc.fresh(wf)
        ref.recompute(cfg)
        bad = differences(observe(ref, cfg, probes), observe(wf, cfg, probes), okw)
        if bad:
            ck.violation("observable_disturbed_state", SITE, {"wf": name, "observable": "all, one after the other"}, expected="equal to a fresh recompute on the (unchanged) coordinates", got=[(k, str(v)) for k, v in bad[:5]])
            wf.recompute(cfg)
        # interleaving: observables (in random order, per-walker and averaged) between sampling steps; deterministic parts of the
        # energy are the probe a later caller would see
        names = list(built)
        if names:
            order = [names[int(i)] for i in ck.rng.integers(0, len(names), size=(10 if ck.thorough else 6))]
            inp = {"wf": name, "interleaving": order}
            def run():
                for i, oname in enumerate(order):
                    sampler_step(wf, cfg, ck.rng, int(ck.rng.integers(0, nelec)))
                    before = observe(wf, cfg, probes)
                    l1 = np.real(before["log"])
                    okl = l1 > np.median(l1) - 25
                    d = built[oname].avg(cfg, wf) if i % 2 else built[oname](cfg, wf)
                    bad = differences(before, observe(wf, cfg, probes), okl)
                    if bad:
                        return (i, oname, bad)
                r = wc.fresh(wf)
                r.recompute(cfg)
                l1 = np.real(np.asarray(r.value()[1]))
                bad = differences(observe(r, cfg, probes), observe(wf, cfg, probes), l1 > np.median(l1) - 25)
                return (len(order), "fresh recompute at the end", bad) if bad else None
            ok, res = ck.guarded(run, "observable", SITE, inp)
            ck.case(("interleave", name), nontrivial=True)
            if ok and res is not None:
                ck.violation("observable_disturbed_state", SITE, dict(inp, position=res[0], observable=res[1]), expected="state unchanged by every observable between sampling steps", got=[(k, str(v)) for k, v in res[2][:5]])
                wf.recompute(cfg)
        # the Markov chain with and without observables (each observable on a private random stream)
        if built and not name.startswith("ecp_diamond") and "jax" not in name:
            import pyqmc.method.mc as mc
            seed = int(ck.rng.integers(0, 2 ** 31))
            chains = {}
            for label, accs in (("without", {}), ("with", {k.replace("(", "_").replace(")", "").replace(" ", "_"): Isolated(a) for k, a in built.items()})):
                np.random.seed(seed)
                c = cfg.copy()
                ok, res = ck.guarded(lambda: mc.vmc_worker(wf, c, 0.3, 3, accs), "chain", "mc.vmc_worker with/without observables", {"wf": name, "observables": sorted(accs)})
                if ok:
                    chains[label] = res[1].configs.copy()
            ck.case(("chain", name), nontrivial=True)
            if len(chains) == 2 and not np.allclose(chains["with"], chains["without"], rtol=0, atol=1e-9):
                ck.violation("observables_changed_markov_chain", "mc.vmc_worker with/without observables", {"wf": name, "observables": sorted(built), "seed": seed},
                             expected="identical walker coordinates after 3 steps (observables drawing from a private random stream)", got=float(np.max(np.abs(chains["with"] - chains["without"]))))
            wf.recompute(cfg)
        if len(ck.samples) < 5:
            ck.sample({"wf": name, "observables": sorted(built), "walkers": nconf})
    ck.stats["observable_x_wavefunction_pairs"] = coverage


def check_periodic_bitwise(ck):
    """periodic walkers that carry non-zero wrap counters and sit near cell faces: observables that move electrons or transform
    coordinates must hand back coordinates AND wrap counters bit-for-bit (closed-form periodic stand-in wave function)"""
    from stubs import CosWF
    from pyqmc.configurations.coord import PeriodicConfigs
    from pyqmc.observables.accumulators import SymmetryAccumulatorPBC, SymmetryAccumulator, SqAccumulator
    from pyqmc.observables.s2_accumulator import S2Accumulator
    lats = [np.eye(3) * 5.0, np.array([[5.0, 0, 0], [1.3, 4.6, 0], [0.4, -0.9, 6.1]]), (np.ones((3, 3)) - np.eye(3)) * 3.7]
    for li, lat in enumerate(lats if ck.thorough else lats[1:]):
        for nelec in ((2, 1), (1, 1), (3, 2)) if ck.thorough else ((2, 1),):
            nconf, ne = (400 if ck.thorough else 150), sum(nelec)
            frac = ck.rng.random((nconf, ne, 3))
            frac[: nconf // 4] = (np.round(frac[: nconf // 4] * 4) / 4) % 1.0  # on faces / lattice planes (fraction 0, never 1)
            frac[nconf // 4: nconf // 2] *= 1e-9                         # a hair inside the origin corner
            cfg = PeriodicConfigs(frac @ lat, lat, wrap=ck.rng.integers(-2, 3, size=(nconf, ne, 3)).astype(float))
            wf = CosWF(lat, amp=0.4)  # strictly lattice-periodic (the stand-in has no wrap-aware Bloch phase; twisted orbitals are covered in check_state)
            wf.recompute(cfg)
            accs = {"S2": S2Accumulator(nelec), "symmetry(pbc)": SymmetryAccumulatorPBC({"inversion": -np.eye(3)}, {"inversion": np.array([0.3, 0.1, 0.2])}),
                    "symmetry": SymmetryAccumulator({"inversion": -np.eye(3)})}
            for oname, acc in accs.items():
                for call in ("__call__", "avg"):
                    inp = {"wf": "periodic closed form", "lattice": lat.tolist(), "nelec": list(nelec), "observable": oname, "call": call, "wrap_counters": "random in [-2,2]"}
                    c0, w0, v0 = cfg.configs.copy(), cfg.wrap.copy(), [np.asarray(x).copy() for x in wf.value()]
                    ok, d = ck.guarded((lambda: acc.avg(cfg, wf)) if call == "avg" else (lambda: acc(cfg, wf)), "observable", SITE, inp)
                    ck.case(("pbcbit", li, nelec, oname, call), nontrivial=True)
                    if not ok:
                        wf.recompute(cfg)
                        continue
                    check_shapes(ck, acc, oname, inp, d, nconf, per_walker=(call != "avg"))
                    bad = []
                    if cfg.configs.tobytes() != c0.tobytes():
                        bad.append(("coords", "max |diff| = %g in %d entries" % (float(np.max(np.abs(cfg.configs - c0))), int(np.sum(cfg.configs != c0)))))
                    if cfg.wrap.tobytes() != w0.tobytes():
                        bad.append(("wrap", "%d counters changed" % int(np.sum(cfg.wrap != w0))))
                    v1 = wf.value()
                    if not np.allclose(np.asarray(v1[1]), v0[1], rtol=0, atol=1e-9) or not np.allclose(np.asarray(v1[0]), v0[0], rtol=0, atol=1e-9):
                        bad.append(("value", float(np.max(np.abs(np.asarray(v1[1]) - v0[1])))))
                    if bad:
                        ck.violation("observable_disturbed_state", SITE, inp, expected="coordinates and wrap counters bit-for-bit, value to rounding", got=[(k, str(v)) for k, v in bad])
                        cfg.configs[...] = c0
                        cfg.wrap[...] = w0
                        wf.recompute(cfg)


def check_keys_static(ck, table):
    """the generated key table against the running classes; the internal helper jax_ecp.ECPAccumulator (which advertises keys but returns a bare array)"""
    from stubs import GaussWF
    import pyqmc.observables.jax_ecp as je
    from pyqmc.configurations.coord import OpenConfigs
    t = table.get("ECPAccumulator")
    if t is not None and t["returned"] != t["advertised"]:
        mol, mf = wfzoo.lih_ecp()
        acc = je.ECPAccumulator(mol)
        cfg = OpenConfigs(ck.rng.normal(size=(3, 2, 3)))
        wf = GaussWF(alpha=0.6)
        wf.recompute(cfg)
        inp = {"observable": "jax_ecp.ECPAccumulator (internal helper of EnergyAccumulator)"}
        ck.case(("ecp_helper",), nontrivial=True)
        try:
            d = acc(cfg, wf)
            if not isinstance(d, dict) or set(d.keys()) != set(acc.keys()):
                ck.violation("returned_no_dictionary", S_KEYS, inp, expected=sorted(acc.keys()), got=type(d).__name__, note="jax_ecp.ECPAccumulator advertises keys()={'ecp'} and avg() but __call__ returns a bare array")
        except Exception as ex:
            ck.violation("returned_no_dictionary", S_KEYS, inp, expected=sorted(acc.keys()), got=repr(ex)[:200])


def main(argv):
    ck = Check("C20", argv)
    ck.rule = ("for every built-in observable (energy with the old and the new pseudopotential code, parameter-gradient accumulator, one-body density matrix (all/up/down), two-body density matrix (up-down, up-up), structure factor, "
               "symmetry (open and periodic), S^2) on wave functions of every kind (open, periodic with real and complex twist, with pseudopotentials) left in an incrementally updated state: "
               "coordinates and wrap counters compared bit-for-bit, value / gradient / ratio / Laplacian compared before and after __call__, avg and a repeated __call__, then against a fresh recompute; "
               "random interleavings of observables with sampler steps; vmc_worker with all observables (each on a private random stream) against vmc_worker with none; returned keys and shapes against keys()/shapes() for per-walker and averaged calls; "
               "gen/Keys_Gen.v regenerated from the observables' source and re-checked.")
    ck.trusted = ["Coq 8.16.1 kernel + vm_compute", "translator/gen_keys.py (AST extraction of literal key sets)", "harness/c20.py, wfcheck.py, wfzoo.py (PySCF fixtures; tests/files/diamond_primitive.hdf5)"]
    ck.assumptions = ["walkers whose |Psi| is more than e^-25 below the median are compared through coordinates only",
                      "the chain comparison gives every observable a private random stream (observables draw random numbers, so the raw stream differs by construction)",
                      "the Coq restore theorem covers the two-body Jastrow bookkeeping and the Slater inverse (C02 models); the other classes are covered by the before/after oracle only"]
    table = ck.translate("gen_keys")
    ck.coq_build("C20", THEOREMS)
    if not ck.replay:
        check_state(ck)
        check_periodic_bitwise(ck)
        check_keys_static(ck, table or {})
    return ck.finish({"jax_ecp.ECPAccumulator returns a bare array": lambda v: v.get("kind") == "returned_no_dictionary" and "jax_ecp.ECPAccumulator" in str(v.get("input", {}).get("observable", ""))})
