"""C04 — analytic gradient and Laplacian are the derivatives of the value."""
import json
import os
import sys

import numpy as np

from common import Check, VERIF
import wfzoo
import wfcheck as wc

sys.path.insert(0, os.path.join(VERIF, "translator"))

THEOREMS = ["C04_polypade_routes_agree", "C04_polypade_gradient_is_derivative", "C04_polypade_laplacian_is_second_derivative",
            "C04_polypade_smooth_at_cutoff", "C04_cusp_routes_agree", "C04_cusp_gradient_is_derivative", "C04_cusp_laplacian_is_second_derivative",
            "C04_cusp_smooth_at_cutoff", "C04_exponential_rule", "C04_product_rule", "C04_sum_rule", "C04_hypotheses_satisfiable",
            "C04_kinetic_energy_is_minus_half_the_laplacians", "C04_determinant_is_linear_in_the_moved_row", "C04_slater_derivative_is_the_ratio_formula_on_derivative_orbitals"]
S_F3 = "pyqmc/wf/func3d.py"
S_WF = "wave function gradient/laplacian"
S_KE = "pyqmc/observables/energy.py:kinetic"


def check_func3d(ck, dag):
    import pyqmc.wf.func3d as f3
    from py2coq import evalf
    ncase = 200 if ck.thorough else 40
    worst = {"grad": 0.0, "lap": 0.0, "dag": 0.0}
    for it in range(ncase):
        rcut = float(ck.rng.choice([1.0, 3.7, 7.5, 20.0]))
        if it % 2 == 0:
            par = float(ck.rng.choice([0.0, 0.2, 2.0, 30.0, -0.5]))
            fobj, kind, pname = f3.PolyPadeFunction(par, rcut), "polypade", "beta"
        else:
            par = float(ck.rng.choice([0.0, 1.0, 24.0, 200.0]))
            fobj, kind, pname = f3.CutoffCuspFunction(par, rcut), "cusp", "gamma"
        # radii uniform in r/rcut in (0, 1.2] plus a dense band around the cutoff
        x = np.concatenate([ck.rng.uniform(1e-3, 1.2, size=24), 1 + ck.rng.uniform(-1e-3, 1e-3, size=8), [1.0 - 1e-9, 1.0 + 1e-9]])
        r = x * rcut
        dirs = ck.rng.normal(size=(len(r), 3))
        dirs /= np.linalg.norm(dirs, axis=1)[:, None]
        rvec = dirs * r[:, None]
        inp = {"function": kind, pname: par, "rcut": rcut}
        def run():
            v = fobj.value(rvec, r)
            g = fobj.gradient(rvec, r)
            g2, v2 = fobj.gradient_value(rvec, r)
            g3, lap = fobj.gradient_laplacian(rvec, r)
            lap2 = fobj.laplacian(rvec, r)
            return v, g, g2, v2, g3, lap, lap2
        with np.errstate(all="ignore"):
            ok, res = ck.guarded(run, "func3d", S_F3, inp)
        ck.case(("f3", it))
        if not ok:
            continue
        v, g, g2, v2, g3, lap, lap2 = res
        inside = r < rcut * (1 - 1e-12)
        fin = np.isfinite(lap) & inside
        if not (np.allclose(v[inside], v2[inside], atol=1e-13, rtol=1e-12) and np.allclose(g[inside], g2[inside], atol=1e-13, rtol=1e-11) and np.allclose(g[inside], g3[inside], atol=1e-13, rtol=1e-11) and np.allclose(lap[fin], lap2[fin], atol=1e-13, rtol=1e-11)):
            ck.violation("func3d_routes_disagree", S_F3, inp, expected="value/gradient/laplacian routes agree", got="differ")
        # radial finite differences (the value depends on r only): f'(r) = r G(r) = grad . rhat,  lap = f'' + 2 f'/r ; Richardson
        def val_r(rr):
            return fobj.value(dirs * rr[:, None], rr)
        f1, f2 = np.zeros(len(r)), np.zeros(len(r))
        for (hh, wgt) in ((5e-4 * rcut, -1.0 / 3), (2.5e-4 * rcut, 4.0 / 3)):
            fp, fm = val_r(r + hh), val_r(r - hh)
            f1 += wgt * (fp - fm) / (2 * hh)
            f2 += wgt * (fp + fm - 2 * v) / hh ** 2
        sel = (r > 2e-2 * rcut) & (np.abs(r - rcut) > 5e-3 * rcut) & inside
        gr = np.sum(g * dirs, axis=1)
        scale = max(1.0, float(np.max(np.abs(v[inside])))) / rcut
        eg = float(np.max(np.abs(f1[sel] - gr[sel])) / scale) if sel.any() else 0.0
        lap_fd = f2 + 2 * f1 / r
        el = float(np.max(np.abs(lap_fd[sel] - lap[sel]) / np.maximum(scale / rcut, np.abs(lap[sel])))) if sel.any() else 0.0
        tang = float(np.max(np.abs(g[sel] - gr[sel, None] * dirs[sel]))) if sel.any() else 0.0
        worst["grad"], worst["lap"] = max(worst["grad"], eg), max(worst["lap"], el)
        if eg > 1e-6 or tang > 1e-12 * max(1.0, scale):
            ck.violation("func3d_gradient_not_derivative", S_F3, inp, expected="radial finite difference of the value; gradient parallel to rvec", got={"radial_error": eg, "tangential_component": tang}, oracle="Richardson central differences, relative to value/rcut")
        if el > 1e-5:
            ck.violation("func3d_laplacian_not_derivative", S_F3, inp, expected="f'' + 2 f'/r by finite differences", got=el)
        # continuity at the cutoff (evaluator masks r < rcut): value, gradient, laplacian tend to 0
        near = (x > 1 - 1e-3) & (x < 1)
        if near.any():
            if np.max(np.abs(v[near])) > 1e-5 * max(1.0, rcut) or np.max(np.abs(g[near])) > 1e-2 or np.max(np.abs(lap[near & np.isfinite(lap)])) > 2e-1 * max(1.0, abs(par)) / rcut:
                ck.violation("func3d_not_smooth_at_cutoff", S_F3, inp, expected="value, slope, laplacian -> 0 at rcut", got={"v": float(np.max(np.abs(v[near]))), "g": float(np.max(np.abs(g[near]))), "lap": float(np.max(np.abs(lap[near & np.isfinite(lap)])))})
        # translator validation
        if dag is not None:
            names = {"polypade": ("pp_value", "pp_gv_gradr", "pp_gl_lap"), "cusp": ("cusp_value", "cusp_g_gradr", "cusp_gl_lap")}[kind]
            for k in np.where(sel)[0][:6]:
                val = {"r": float(r[k]), "rcut": rcut, "beta": par, "gamma": par}
                m = [evalf(dag[n]["expr"], val) for n in names]
                impl = [float(v[k]), float(g[k, 0] / rvec[k, 0]) if abs(rvec[k, 0]) > 1e-6 else m[1], float(lap[k])]
                err = max(abs(a - b) / max(1.0, abs(a)) for a, b in zip(m, impl))
                worst["dag"] = max(worst["dag"], err)
                if err > 1e-9:
                    ck.correspondence_broken("translator validation: generated %s expressions vs func3d objects" % kind, json.dumps({"input": inp, "r": float(r[k]), "model": m, "impl": impl}))
    # masked evaluator: zero at and beyond the cutoff, basis values inside
    from pyqmc.wftools import default_jastrow_basis
    mol, _ = wfzoo.lih_rhf()
    a_basis, b_basis = default_jastrow_basis(mol, ion_cusp=True)
    ev = f3.CutoffFunc3dEvaluator(b_basis, b_basis[0].parameters["rcut"])
    rc = float(ev.rcut)
    r = np.array([0.3 * rc, rc * (1 - 1e-12), rc, rc * (1 + 1e-12), 1.5 * rc, 10 * rc])
    d = np.stack([r, 0 * r, 0 * r], axis=1)
    with np.errstate(all="ignore"):
        ok, res = ck.guarded(lambda: (ev.value(d, r), ev.gradient_value(d, r), ev.gradient_laplacian(d, r)), "func3d", S_F3, {"evaluator": "CutoffFunc3dEvaluator"})
    ck.case(("f3mask", 0))
    if ok:
        v, (g, v2), (g3, lap) = res
        if np.any(v[2:] != 0) or np.any(g[2:] != 0) or np.any(lap[2:] != 0) or not np.all(np.isfinite(v)) or not np.all(np.isfinite(g)) or not np.all(np.isfinite(lap)):
            ck.violation("func3d_beyond_cutoff_nonzero", S_F3, {"r_over_rcut": (r / rc).tolist()}, expected="exactly zero (and finite) at and beyond the cutoff", got={"v": v[2:].tolist(), "lap_finite": bool(np.all(np.isfinite(lap)))})
    ck.stats["func3d_worst_errors"] = worst


def check_wfs(ck):
    import pyqmc.observables.energy as energy
    zoo = wfzoo.obc_wfs(ck.rng, which="all") + wfzoo.pbc_wfs(ck.rng, which="all" if ck.thorough else "few")
    worst = {}
    for name, mol, wf in zoo:
        if wf is None:
            continue
        nconf = 4
        cfg = wfzoo.walkers(mol, nconf, ck.rng)
        cfg = wc.move_off_nodes(wf, cfg, ck.rng)
        wf.recompute(cfg)
        nelec = cfg.configs.shape[1]
        es = sorted(set([0, nelec - 1] + ([int(ck.rng.integers(0, nelec))] if ck.thorough else [])))
        errg = errl = 0.0
        for e in es:
            for where in ("current", "trial"):
                pos = cfg.configs[:, e].copy() if where == "current" else cfg.configs[:, e] + ck.rng.normal(size=(nconf, 3)) * ck.rng.choice([0.05, 0.7, 3.0])
                inp = {"wf": name, "electron": e, "position": where}
                def run():
                    epos = wc.raw_electron(cfg, e, pos)
                    g = np.asarray(wf.gradient(e, epos))
                    g2, val, _ = wf.gradient_value(e, epos)
                    g3, lap = wf.gradient_laplacian(e, epos)
                    lap2 = np.asarray(wf.laplacian(e, epos)) if hasattr(wf, "laplacian") else np.asarray(lap)
                    return g, np.asarray(g2), np.asarray(val), np.asarray(g3), np.asarray(lap), lap2
                ok, res = ck.guarded(run, "wf_derivative", S_WF, inp)
                ck.case(("wfd", name, e, where), nontrivial=True)
                if not ok:
                    continue
                g, g2, val, g3, lap, lap2 = res
                if not (np.allclose(g, g2, atol=1e-9, rtol=1e-9) and np.allclose(g, g3, atol=1e-9, rtol=1e-9) and np.allclose(lap, lap2, atol=1e-8, rtol=1e-8)):
                    ck.violation("gradient_routes_disagree", S_WF, inp, expected="gradient == gradient_value[0] == gradient_laplacian[0]; laplacian == gradient_laplacian[1]",
                                 got={"g_vs_gv": float(np.max(np.abs(g - g2))), "g_vs_gl": float(np.max(np.abs(g - g3))), "lap": float(np.max(np.abs(lap - lap2)))})
                gfd, lfd = wc.fd_gradient_laplacian(wf, cfg, e, pos)
                if wf.dtype == float:
                    gfd, lfd = np.real(gfd), np.real(lfd)
                sg = max(1.0, float(np.max(np.abs(g))))
                sl = max(1.0, float(np.max(np.abs(lap))))
                eg = float(np.max(np.abs(gfd - g)) / sg)
                el = float(np.max(np.abs(lfd - lap)) / sl)
                errg, errl = max(errg, eg), max(errl, el)
                if not np.isfinite(eg) or eg > 2e-6:
                    ck.violation("gradient_not_derivative", S_WF, inp, expected=np.asarray(gfd).tolist().__repr__()[:300], got=np.asarray(g).tolist().__repr__()[:300],
                                 oracle="Richardson central differences of ln Psi under full recomputation (h = 2e-3, 1e-3)")
                if not np.isfinite(el) or el > 2e-5:
                    ck.violation("laplacian_not_derivative", S_WF, inp, expected=np.asarray(lfd).tolist().__repr__()[:300], got=np.asarray(lap).tolist().__repr__()[:300],
                                 oracle="Richardson finite-difference (sum of second derivatives of Psi)/Psi under full recomputation")
                # the ratio reported with the gradient is Psi(trial)/Psi(current)
                wf.recompute(cfg)
        # kinetic energy = -1/2 sum of the Laplacians
        wf.recompute(cfg)
        ok, res = ck.guarded(lambda: energy.kinetic(cfg, wf), "kinetic", S_KE, {"wf": name})
        if ok:
            ke, grad2 = res
            laps = np.array([np.asarray(wf.gradient_laplacian(e, cfg.electron(e))[1]) for e in range(nelec)])
            if not np.allclose(ke, -0.5 * np.sum(np.real(laps), axis=0), atol=1e-10, rtol=1e-10):
                ck.violation("kinetic_energy", S_KE, {"wf": name}, expected=(-0.5 * np.sum(np.real(laps), axis=0)).tolist(), got=np.asarray(ke).tolist(), oracle="-1/2 sum_e Re lap_e")
        worst[name] = [errg, errl]
        if len(ck.samples) < 4:
            ck.sample({"wf": name, "max_rel_gradient_error": errg, "max_rel_laplacian_error": errl})
    ck.stats["wf_worst_fd_errors"] = worst


def main(argv):
    ck = Check("C04", argv)
    ck.rule = ("gen/Func3d_Gen.v regenerated from func3d.py and the derivative theorems re-checked (Coquelicot); func3d objects evaluated at radii uniform in r/rcut in (0,1.2] with a dense band at 1 +- 1e-3 for several parameters against Richardson finite differences, "
               "route agreement, smoothness at the cutoff, masked evaluator beyond the cutoff; every wave-function class and composition (open, periodic real/complex twist, JAX) at the current and at displaced trial positions (0.05-3 bohr): "
               "three gradient routes, Laplacian routes, Richardson finite differences of Psi under full recomputation, kinetic energy. Non-trivial: every (wave function, electron, position) triple.")
    ck.trusted = ["Coq 8.16.1 kernel", "Coquelicot + Coq Reals axioms (incl. Classical_Prop.classic via Coquelicot)", "translator (validated numerically per run)", "finite-difference oracles (tolerances 2e-6 gradient, 2e-5 Laplacian relative)", "PySCF fixtures"]
    ck.assumptions = ["orbital derivatives supplied by PySCF/numba evaluators are the derivatives of the orbitals (C19)", "JAX classes run with jax_enable_x64"]
    dag = ck.translate("gen_func3d")
    ck.coq_build("C04", THEOREMS, props_files=["C04/Props.v", "C04/Props3.v"])
    if not ck.replay:
        check_func3d(ck, dag)
        check_wfs(ck)
    return ck.finish()
