"""C09 — reported averages are the averages they claim to be, under any partitioning."""
import fractions
import json

import numpy as np

from common import Check, frac, qlit, coq_list
from stubs import GaussWF, FakeClient, RecAcc

F = fractions.Fraction
THEOREMS = ["C09_vmc_block_is_plain_mean", "C09_vmc_parallel_is_plain_mean", "C09_array_split_is_a_partition",
            "C09_dmc_block_is_weighted_mean", "C09_dmc_parallel_is_weighted_mean", "C09_reblock_preserves_weighted_mean",
            "C09_reblock_plain_mean_refuted", "C09_hypotheses_satisfiable"]
S_VMC = "pyqmc/method/mc.py:vmc_worker/vmc_parallel"
S_DMC = "pyqmc/method/dmc.py:dmc_propagate/dmc_propagate_parallel"
S_OVL = "pyqmc/method/sample_many.py:sample_overlap_client"
S_RB = "pyqmc/reblock.py:_reblock"


def ql(xs):
    return coq_list([qlit(x) for x in xs])


def obs_fn(c):
    # scalar and array-valued observable of the coordinates
    a = np.sum(np.cos(c[:, :, 0]) + 0.3 * c[:, :, 1], axis=1)
    v = np.stack([np.sum(c[:, :, 2] ** 2, axis=1), np.sin(c[:, 0, 0])], axis=1)
    # a rectangular, non-symmetric matrix-valued observable (like a density matrix block)
    m = np.stack([np.stack([np.cos((i + 1) * c[:, 0, 0] + j * c[:, 0, 1]) for j in range(3)], axis=1) for i in range(2)], axis=1)
    return {"a": a, "v": v, "m": m}


def en_fn(c):
    r2 = np.sum(c * c, axis=(1, 2))
    return {"total": 0.5 * r2 - 1.0 / np.sqrt(1.0 + r2) + 0.2 * np.cos(3 * c[:, 0, 0]), "ke": 0.1 * r2}


def close(a, b, tol=1e-11):
    a, b = np.asarray(a, dtype=float), np.asarray(b, dtype=float)
    return bool(np.all(np.abs(a - b) <= tol * np.maximum(1.0, np.abs(b))))


def components(vals):
    """per-walker array (nconf, ...) -> list of (suffix, 1-d per-walker array)"""
    v = np.asarray(vals)
    if v.ndim == 1:
        return [("", v)]
    return [(str(list(idx)), v[(slice(None),) + idx]) for idx in np.ndindex(v.shape[1:])]


def pick(arr, suf):
    arr = np.asarray(arr)
    if suf == "":
        return float(arr)
    idx = tuple(json.loads(suf))
    if arr.ndim != len(idx) or any(i >= n for i, n in zip(idx, arr.shape)):
        return float("nan")
    return float(arr[idx])


def fmean(xs):
    return sum(frac(x) for x in xs) / len(xs)


def make_configs(rng, nconf, nelec, periodic):
    from pyqmc.configurations.coord import OpenConfigs, PeriodicConfigs
    c = rng.normal(size=(nconf, nelec, 3))
    if periodic:
        return PeriodicConfigs(c, np.array([[4.0, 0, 0], [0.5, 4.0, 0], [0, 0.3, 5.0]]))
    return OpenConfigs(c)


def seed_np(ck):
    np.random.seed(int(ck.rng.integers(0, 2 ** 31)))


def check_vmc(ck):
    import pyqmc.method.mc as mc
    exprs, todo = [], []
    ncase = 60 if ck.thorough else 14
    hist = {}
    for it in range(ncase):
        nconf = int(ck.rng.integers(1, 14))
        nelec = int(ck.rng.integers(1, 4))
        nsteps = int(ck.rng.integers(1, 5))
        npart = int(ck.rng.integers(1, nconf + 1))
        periodic = bool(it % 3 == 0)
        parallel = bool(it % 4 != 0)
        hist[(nconf, npart if parallel else 0)] = 1
        cfg = make_configs(ck.rng, nconf, nelec, periodic)
        wf = GaussWF(alpha=0.8)
        log = []
        reuse = bool(it % 2)  # every other case: the observable hands back the same preallocated arrays on every call
        acc = {"o": RecAcc(obs_fn, {"a": (), "v": (2,), "m": (2, 3)}, log, reuse=reuse)}
        seed_np(ck)
        inp = {"nconf": nconf, "nelec": nelec, "nsteps": nsteps, "npartitions": npart if parallel else None, "periodic": periodic, "observable_reuses_its_output_arrays": reuse}
        if parallel:
            ok, res = ck.guarded(lambda: mc.vmc_parallel(wf, cfg, 0.3, nsteps, acc, FakeClient(), npart), "vmc_average", S_VMC, inp)
        else:
            ok, res = ck.guarded(lambda: mc.vmc_worker(wf, cfg, 0.3, nsteps, acc), "vmc_average", S_VMC, inp)
        ck.case(("vmc", it), nontrivial=nconf > 1)
        if not ok:
            continue
        block, cfg2 = res
        if cfg2.configs.shape[0] != nconf:
            ck.violation("vmc_walkers_lost", S_VMC, inp, expected=nconf, got=cfg2.configs.shape[0])
        tasks = sorted(set(l["task"] for l in log))
        sizes = [log[[l["task"] for l in log].index(t)]["vals"]["a"].shape[0] for t in tasks]
        if parallel and (len(tasks) != npart or sum(sizes) != nconf or max(sizes) - min(sizes) > 1):
            ck.violation("vmc_partition", S_VMC, inp, expected="npartitions tasks of floor/ceil(nconf/npartitions) walkers", got=sizes)
        for key in ("a", "v", "m"):
            comps = {}
            for l in log:
                for suf, arr in components(l["vals"][key]):
                    comps.setdefault(suf, {}).setdefault(l["task"], []).append(arr)
            for suf, bytask in comps.items():
                allvals = [x for t in tasks for step in bytask[t] for x in step]
                exact = fmean(allvals) if allvals else None
                got = pick(block["o" + key], suf)
                if not abs(got - float(exact)) <= 1e-11 * max(1.0, abs(float(exact))):
                    ck.violation("vmc_average_not_plain_mean", S_VMC, dict(inp, key=key + suf), expected=float(exact), got=got,
                                 oracle="exact rational mean over all steps and all walkers of the logged per-walker values")
                parts = coq_list([coq_list([ql(step) for step in bytask[t]]) for t in tasks])
                if parallel:
                    exprs.append("qz (vmc_parallel %s)" % parts)
                else:
                    exprs.append("qz (vmc_block %s)" % coq_list([ql(step) for step in bytask[tasks[0]]]))
                todo.append((dict(inp, key=key + suf), got))
        if len(ck.samples) < 2:
            ck.sample({"vmc": inp, "partition_sizes": sizes, "block_oa": float(block["oa"])})
    vals = ck.coq_eval("vmc", ["C09.Model"], exprs, scope="Q_scope")
    compare(ck, "C09 model vmc_block/vmc_parallel vs mc.vmc_worker/vmc_parallel", todo, vals)
    ck.stats["vmc_shapes_tried"] = len(hist)


def compare(ck, name, todo, vals, tol=1e-11):
    nmis = 0
    for (inp, got), v in zip(todo, vals):
        if v is None:
            continue
        m = float(F(v[0], v[1]))
        if abs(m - got) > tol * max(1.0, abs(m)):
            nmis += 1
            if nmis <= 3:
                ck.correspondence_broken(name, json.dumps({"input": inp, "model": m, "impl": got}))
    ck.stats[name + " compared"] = len(todo)
    ck.stats[name + " mismatch"] = nmis


def check_dmc(ck):
    import pyqmc.method.dmc as dmc
    exprs, todo = [], []
    ncase = 50 if ck.thorough else 12
    for it in range(ncase):
        nconf = int(ck.rng.integers(1, 12))
        nelec = int(ck.rng.integers(1, 3))
        nsteps = int(ck.rng.integers(1, 5))
        npart = int(ck.rng.integers(1, nconf + 1))
        parallel = bool(it % 4 != 0)
        periodic = bool(it % 3 == 1)
        cfg = make_configs(ck.rng, nconf, nelec, periodic)
        wf = GaussWF(alpha=0.9)
        elog, plog = [], []
        acc = {"energy": RecAcc(en_fn, {"total": (), "ke": ()}, elog), "p": RecAcc(obs_fn, {"a": (), "v": (2,), "m": (2, 3)}, plog)}
        w0 = ck.rng.uniform(0.2, 3.0, size=nconf)
        if it % 5 == 0:
            w0[:] = 1.0
        seed_np(ck)
        inp = {"nconf": nconf, "nelec": nelec, "nsteps": nsteps, "npartitions": npart if parallel else None, "periodic": periodic, "w0": w0.tolist()}
        kw = dict(e_trial=0.3, e_est=0.1, nsteps=nsteps, accumulators=acc, ekey=("energy", "total"))
        if parallel:
            ok, res = ck.guarded(lambda: dmc.dmc_propagate_parallel(wf, cfg, w0.copy(), FakeClient(), npart, 0.05, 2.0, **kw), "dmc_average", S_DMC, inp)
        else:
            ok, res = ck.guarded(lambda: dmc.dmc_propagate(wf, cfg, w0.copy(), 0.05, 2.0, **kw), "dmc_average", S_DMC, inp)
        ck.case(("dmc", it), nontrivial=nconf > 1)
        if not ok:
            continue
        block, cfg2, wfinal = res
        tasks = sorted(set(l["task"] for l in plog))
        # per task, per step: weights (after the step's update) and per-walker values
        for key, src, pre in (("total", "e", "energy"), ("a", "p", "p"), ("v", "p", "p"), ("m", "p", "p")):
            comps = {}
            for t in tasks:
                psteps = [l for l in plog if l["task"] == t]
                esteps = [l for l in elog if l["task"] == t][1:]  # first energy call is the initial evaluation
                if len(psteps) != nsteps or len(esteps) != nsteps:
                    ck.correspondence_broken("C09 dmc_propagate call pattern", "expected %d per-step accumulator calls, saw %d/%d" % (nsteps, len(psteps), len(esteps)))
                    comps = None
                    break
                for s in range(nsteps):
                    vals = (esteps if src == "e" else psteps)[s]["vals"][key]
                    for suf, arr in components(vals):
                        comps.setdefault(suf, {}).setdefault(t, []).append(list(zip(psteps[s]["weights"], arr)))
            if not comps:
                continue
            for suf, bytask in comps.items():
                num = sum(frac(w) * frac(o) for t in tasks for step in bytask[t] for (w, o) in step)
                den = sum(frac(w) for t in tasks for step in bytask[t] for (w, o) in step)
                nw = sum(len(bytask[t][0]) for t in tasks)
                ex_val, ex_w = num / den, den / (nsteps * nw)
                got = pick(block[pre + key], suf)
                if not abs(got - float(ex_val)) <= 1e-11 * max(1.0, abs(float(ex_val))):
                    ck.violation("dmc_average_not_weighted_mean", S_DMC, dict(inp, key=key + suf), expected=float(ex_val), got=got,
                                 oracle="exact rational sum_t sum_i w o / sum_t sum_i w over the logged weights and values")
                if abs(float(block["weight"]) - float(ex_w)) > 1e-11 * max(1.0, float(ex_w)):
                    ck.violation("dmc_block_weight_not_mean_walker_weight", S_DMC, inp, expected=float(ex_w), got=float(block["weight"]),
                                 oracle="mean over steps and all walkers of the walker weights")
                parts = coq_list([coq_list([coq_list(["(%s, %s)" % (qlit(w), qlit(o)) for (w, o) in step]) for step in bytask[t]]) for t in tasks])
                if parallel:
                    exprs.append("let r := dmc_parallel %s in [qz (fst r); qz (snd r)]" % parts)
                else:
                    exprs.append("let r := dmc_block %s in [qz (fst r); qz (snd r)]" % coq_list([coq_list(["(%s, %s)" % (qlit(w), qlit(o)) for (w, o) in step]) for step in bytask[tasks[0]]]))
                todo.append((dict(inp, key=key + suf), got, float(block["weight"])))
        if len(ck.samples) < 4:
            ck.sample({"dmc": {k: v for k, v in inp.items() if k != "w0"}, "block_energytotal": float(block["energytotal"]), "block_weight": float(block["weight"])})
    vals = ck.coq_eval("dmc", ["C09.Model"], exprs, scope="Q_scope")
    nmis = 0
    for (inp, got, gw), v in zip(todo, vals):
        if v is None:
            continue
        mv, mw = float(F(*v[0])), float(F(*v[1]))
        if abs(mv - got) > 1e-11 * max(1, abs(mv)) or abs(mw - gw) > 1e-11 * max(1, abs(mw)):
            nmis += 1
            if nmis <= 3:
                ck.correspondence_broken("C09 model dmc_block/dmc_parallel vs dmc.dmc_propagate(_parallel)", json.dumps({"input": {k: v_ for k, v_ in inp.items() if k != "w0"}, "model": [mv, mw], "impl": [got, gw]}))
    ck.stats["dmc_model_vs_impl_compared"] = len(todo)
    ck.stats["dmc_model_vs_impl_mismatch"] = nmis


class OverlapEnergy:
    """stands in for the multi-wave-function energy accumulator of sample_many; logs the per-walker weight matrix"""

    def __init__(self, log):
        self.log = log

    def avg(self, configs, wfs, weights):
        from stubs import CURRENT_TASK
        per = en_fn(configs.configs)["total"]
        self.log.append({"task": CURRENT_TASK[0], "weights": np.array(weights).copy(), "per": per.copy()})
        return {"total": np.einsum("ijc,c->ij", weights, per) / weights.shape[-1]}


def check_overlap(ck):
    import pyqmc.method.sample_many as sm
    ncase = 24 if ck.thorough else 6
    for it in range(ncase):
        nconf = int(ck.rng.integers(2, 11))
        npart = int(ck.rng.integers(1, nconf + 1))
        nsteps = int(ck.rng.integers(1, 4))
        cfg = make_configs(ck.rng, nconf, 2, False)
        wfs = [GaussWF(alpha=0.8), GaussWF(alpha=1.1, beta=0.2)]
        log = []
        seed_np(ck)
        inp = {"nconf": nconf, "npartitions": npart, "nsteps": nsteps}
        ok, res = ck.guarded(lambda: sm.sample_overlap_client(wfs, cfg, 0.3, nsteps, OverlapEnergy(log), FakeClient(), npart), "overlap_average", S_OVL, inp)
        ck.case(("ovl", it))
        if not ok:
            continue
        wblock, ublock, _ = res
        # plain mean over steps and ALL walkers of the per-walker weight matrix / weighted energy
        W = np.concatenate([l["weights"] for l in log], axis=-1)  # (2,2, sum over tasks and steps of n_p)
        per = np.concatenate([l["per"] for l in log])
        ex_ovl = W.sum(axis=-1) / (nsteps * nconf)
        ex_tot = np.einsum("ijc,c->ij", W, per) / (nsteps * nconf)
        if not close(ublock["overlap"], ex_ovl) or not close(wblock["total"], ex_tot):
            ck.violation("overlap_average_not_plain_mean", S_OVL, inp, expected=ex_ovl.tolist(), got=np.asarray(ublock["overlap"]).tolist(),
                         oracle="mean over steps and all walkers of the logged per-walker quantities")


def check_reblock(ck):
    import pandas as pd
    import pyqmc.reblock as rb
    exprs, todo = [], []
    ncase = 300 if ck.thorough else 60
    for it in range(ncase):
        n = int(ck.rng.integers(1, 40))
        k = int(ck.rng.integers(1, n + 1))
        x = ck.rng.normal(size=n)
        mode = it % 3
        w = None if mode == 0 else ck.rng.uniform(0.1, 3.0, size=n)
        how = ["array", "series", "frame"][it % 3 if it % 2 else 0]
        inp = {"n": n, "nblocks": k, "weighted": w is not None, "container": how}
        def run():
            if how == "array":
                return np.asarray(rb.reblock(x.copy(), k, weights=None if w is None else w.copy()))
            if how == "series":
                return np.asarray(rb.reblock(pd.Series(x), k, weights=None if w is None else pd.Series(w)).values)
            return np.asarray(rb.reblock(pd.DataFrame({"c": x}), k, weights=None if w is None else pd.Series(w))["c"].values)
        ok, out = ck.guarded(run, "reblock", S_RB, inp)
        ck.case(("rb", it), nontrivial=n > k > 1)
        if not ok:
            continue
        ww = np.ones(n) if w is None else w
        if len(out) != k:
            ck.violation("reblock_length", S_RB, inp, expected=k, got=len(out))
            continue
        Wb = [float(s.sum()) for s in np.array_split(ww, k)]
        lhs = sum(frac(a) * frac(b) for a, b in zip(Wb, out))
        rhs = sum(frac(a) * frac(b) for a, b in zip(ww, x))
        if abs(float(lhs - rhs)) > 1e-10 * max(1.0, abs(float(rhs))):
            ck.violation("reblock_weighted_mean", S_RB, dict(inp, x=x.tolist(), w=ww.tolist()), expected=float(rhs), got=float(lhs),
                         oracle="sum_b W_b v_b = sum_i w_i x_i (the identity re-blocking preserves, theorem C09_reblock_preserves_weighted_mean)")
        plain = float(np.mean(out))
        true = float(np.average(x, weights=ww))
        if abs(plain - true) > 1e-10 * max(1.0, abs(true)):
            ck.violation("reblock_plain_mean", S_RB, dict(inp, x=x.tolist(), w=ww.tolist(), block_weight_sums=Wb), expected=true, got=plain,
                         oracle="mean of the re-blocked series vs (weighted) mean of the series")
        exprs.append("map qz (reblock %d %s)" % (k, coq_list(["(%s, %s)" % (qlit(a), qlit(b)) for a, b in zip(x, ww)])))
        todo.append((inp, out))
        if it < 2:
            ck.sample({"reblock": inp, "out": out.tolist()[:4]})
    # vector-valued data
    for it in range(6):
        n, k = 11 + it, 3 + it % 3
        x = ck.rng.normal(size=(n, 2))
        w = ck.rng.uniform(0.5, 2, size=n)
        ok, out = ck.guarded(lambda: rb.reblock(x.copy(), k, weights=w.copy()), "reblock", S_RB, {"n": n, "nblocks": k, "vector": True})
        ck.case(("rbv", it))
        if ok:
            Wb = np.array([s.sum() for s in np.array_split(w, k)])
            if not close((Wb[:, None] * out).sum(axis=0), (w[:, None] * x).sum(axis=0), 1e-10):
                ck.violation("reblock_weighted_mean", S_RB, {"n": n, "nblocks": k, "vector": True}, expected=(w[:, None] * x).sum(axis=0).tolist(), got=(Wb[:, None] * out).sum(axis=0).tolist())
    vals = ck.coq_eval("reblock", ["C09.Model"], exprs, scope="Q_scope")
    nmis = 0
    for (inp, out), v in zip(todo, vals):
        if v is None:
            continue
        m = [float(F(*q)) for q in v]
        if len(m) != len(out) or not close(out, m, 1e-10):
            nmis += 1
            if nmis <= 3:
                ck.correspondence_broken("C09 model reblock vs reblock._reblock", json.dumps({"input": inp, "model": m[:5], "impl": out.tolist()[:5]}))
    ck.stats["reblock_model_vs_impl_compared"] = len(todo)
    ck.stats["reblock_model_vs_impl_mismatch"] = nmis


def pred_unequal_block_weights(v):
    bw = (v.get("input") or {}).get("block_weight_sums")
    return bool(bw) and (max(bw) - min(bw)) > 1e-12 * max(bw)


KNOWN = {"block weight sums unequal": pred_unequal_block_weights}


def main(argv):
    ck = Check("C09", argv)
    ck.rule = ("real vmc_worker / vmc_parallel / dmc_propagate / dmc_propagate_parallel / sample_overlap_client / reblock driven with a closed-form stub wave function, an in-process "
               "futures client that numbers tasks, and recording accumulators (scalar and array valued) that log per-walker values and the caller's weight array at each call; walker "
               "counts 1..13, 1..nconf partitions (including non-divisors), 1..4 steps, open and periodic. Reported block values are compared with (a) the exact rational mean / weighted mean "
               "of the logged doubles and (b) the Coq model (vmc_block, vmc_parallel, dmc_block, dmc_parallel, reblock) evaluated by vm_compute on the same doubles. Non-trivial: more than one walker / n>k>1.")
    ck.trusted = ["Coq 8.16.1 kernel + vm_compute", "harness/c09.py, harness/stubs.py (stub wave function, recorders, frame inspection to read dmc_propagate's weights)", "numpy/pandas"]
    ck.assumptions = ["float summation order differs from exact arithmetic: comparisons use 1e-11 relative", "DMC weights are positive (theorem hypothesis good_step)"]
    ck.coq_build("C09", THEOREMS)
    if not ck.replay:
        check_vmc(ck)
        check_dmc(ck)
        check_overlap(ck)
    check_reblock(ck)
    return ck.finish(KNOWN)
