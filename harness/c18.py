"""C18 — periodic coordinates: wrapping, minimum image and walker bookkeeping."""
import fractions
import itertools
import json
import os
import tempfile

import numpy as np

from common import Check, frac, qlit, coq_list, VERIF

F = fractions.Fraction
THEOREMS = ["C18_wrap_spec", "C18_orthogonal_min_image_is_image", "C18_orthogonal_min_image_minimal",
            "C18_general_min_over_27_partial", "C18_general_raw_search_refuted", "C18_oracle_shell_complete",
            "C18_trial_position_unwrapped", "C18_rewrap_preserves_unwrapped", "C18_only_accepted_walkers_change",
            "C18_move_touches_only_electron_e", "C18_split_then_join", "C18_join_split_identity", "C18_resample_gathers",
            "C18_run_normalisation_is_identity", "C18_hypotheses_satisfiable"]
S_WRAP = "pyqmc/pbc/pbc.py:enforce_pbc"
S_DIST = "pyqmc/configurations/distance.py:MinimalImageDistance"
S_CONF = "pyqmc/configurations/coord.py:PeriodicConfigs"

# lattices on which every float operation of the implementation is exact (checked again at run time)
EXACT_LATTICES = [
    [[1, 0, 0], [0, 1, 0], [0, 0, 1]],
    [[2, 0, 0], [0, 4, 0], [0, 0, 0.5]],
    [[1, 1, 0], [0, 1, 0], [0, 0, 2]],
    [[2, 0, 0], [1, 2, 0], [0, 0, 4]],
    [[0, 2, 0], [-2, 0, 0], [0, 0, 4]],          # orthogonal, not diagonal
    [[1, 1, 0], [-1, 1, 0], [0, 0, 2]],          # orthogonal, not diagonal
    [[2, 0, 0], [1, 2, 0], [1, 1, 2]],           # triclinic, size-reduced
    [[4, 0, 0], [0, 4, 0], [2, 2, 4]],
    [[-2, 0, 0], [0, 2, 0], [0, 0, 2]],          # left-handed diagonal
]


def fmat(L):
    return [[frac(x) for x in row] for row in L]


def finv(L):
    """exact inverse of a 3x3 Fraction matrix"""
    (a, b, c), (d, e, f), (g, h, i) = L
    det = a * (e * i - f * h) - b * (d * i - f * g) + c * (d * h - e * g)
    adj = [[e * i - f * h, c * h - b * i, b * f - c * e], [f * g - d * i, a * i - c * g, c * d - a * f], [d * h - e * g, b * g - a * h, a * e - b * d]]
    return [[x / det for x in row] for row in adj]


def vm(p, M):
    return [sum(p[k] * M[k][j] for k in range(3)) for j in range(3)]


def qv(v):
    return "(%s, %s, %s)" % tuple(qlit(x) for x in v)


def qm(M):
    return "(%s, %s, %s)" % tuple(qv(r) for r in M)


def exact_ok(L):
    Lf = np.array(L, dtype=float)
    inv = np.linalg.inv(Lf)
    ex = finv(fmat(L))
    return all(frac(inv[i, j]) == ex[i][j] for i in range(3) for j in range(3))


def dyadic_point(rng, span=12, bits=3):
    return [float(rng.integers(-span * 2 ** bits, span * 2 ** bits + 1)) / 2 ** bits for _ in range(3)]


# ------------------------------------------------------------------ A. wrapping
def check_wrap(ck):
    import pyqmc.pbc.pbc as pbc
    exprs, todo = [], []
    lat_ok = [L for L in EXACT_LATTICES if exact_ok(L)]
    ck.stats["exact_lattices_usable"] = len(lat_ok)
    n_exact = 2000 if ck.thorough else 300
    for _ in range(n_exact):
        L = lat_ok[int(ck.rng.integers(0, len(lat_ok)))]
        Lf = fmat(L)
        Li = finv(Lf)
        mode = int(ck.rng.integers(0, 4))
        if mode == 0:  # faces / edges / corners: integer fractional coordinates
            fr = [F(int(ck.rng.integers(-3, 4))) if ck.rng.random() < 0.7 else F(int(ck.rng.integers(-24, 25)), 8) for _ in range(3)]
            p = [float(x) for x in vm(fr, Lf)]
        elif mode == 1:  # far outside
            p = dyadic_point(ck.rng, span=40)
        else:
            p = dyadic_point(ck.rng, span=3, bits=4)
        ok, res = ck.guarded(lambda: pbc.enforce_pbc(np.array(L, dtype=float), np.array([p])), "wrap", S_WRAP, {"L": L, "p": p})
        ck.case(("wrapE", json.dumps(L), tuple(p)))
        if not ok:
            continue
        fin, wr = res
        good = wrap_oracle(ck, L, p, fin[0], wr[0], exact=True)
        exprs.append("let '(x, w) := enforce %s %s %s in [vz x; vz w]" % (qm(Lf), qm(Li), qv(p)))
        todo.append((L, p, [frac(x) for x in fin[0]], [frac(x) for x in wr[0]], good))
        if len(ck.samples) < 2:
            ck.sample({"wrap": {"L": L, "p": p, "wrapped": fin[0].tolist(), "counts": wr[0].tolist()}})
    vals = ck.coq_eval("wrap", ["C18.Model"], exprs, scope="Q_scope")
    nmis = 0
    for (L, p, fin, wr, good), v in zip(todo, vals):
        if v is None:
            continue
        mx, mw = [F(*x) for x in v[0]], [F(*x) for x in v[1]]
        if mx != fin or mw != wr:
            nmis += 1
            if good and nmis <= 3:
                ck.correspondence_broken("C18 model enforce vs enforce_pbc", json.dumps({"L": L, "p": p, "model": [str(x) for x in mx + mw], "impl": [str(x) for x in fin + wr]}))
    ck.stats["wrap_model_vs_impl_compared"] = len(todo)
    ck.stats["wrap_model_vs_impl_mismatch"] = nmis
    # generic lattices (any non-singular), points anywhere, array shapes (n,3) and (n,m,3); rounding edge just below a face
    n_gen = 3000 if ck.thorough else 400
    for it in range(n_gen):
        L = ck.rng.normal(size=(3, 3)) * ck.rng.choice([0.5, 3.0, 20.0]) + np.diag(ck.rng.choice([2.0, 5.0], size=3))
        if abs(np.linalg.det(L)) < 1e-2:
            continue
        shape = (3, 3) if it % 3 else (2, 4, 3)
        p = ck.rng.normal(size=shape) * ck.rng.choice([1.0, 30.0, 1e3])
        if it % 5 == 0:  # points within rounding of a face (F13): fractional coordinate -1e-17
            fr = np.rint(ck.rng.normal(size=shape) * 2) + ck.rng.choice([-1e-17, 1e-17, 0.0, -3e-16], size=shape)
            p = fr @ L
        ok, res = ck.guarded(lambda: pbc.enforce_pbc(L, p.copy()), "wrap", S_WRAP, {"L": L.tolist(), "p": p.tolist()})
        ck.case(("wrapG", it))
        if not ok:
            continue
        fin, wr = res
        for idx in np.ndindex(shape[:-1]):
            wrap_oracle(ck, L.tolist(), p[idx].tolist(), fin[idx], wr[idx], exact=False)
    # exact rounding edge on an exact lattice: coordinate -2^-60 in a unit cube
    for L in ([[1, 0, 0], [0, 1, 0], [0, 0, 1]], [[2, 0, 0], [0, 4, 0], [0, 0, 0.5]]):
        for eps in (-2.0 ** -60, -2.0 ** -54, -1e-17):
            p = [eps * L[0][0], 0.25 * L[1][1], 3.0 * L[2][2] + eps * L[2][2]]
            ok, res = ck.guarded(lambda: pbc.enforce_pbc(np.array(L, dtype=float), np.array([p])), "wrap", S_WRAP, {"L": L, "p": p})
            ck.case(("wrapEdge", json.dumps(L), eps))
            if ok:
                wrap_oracle(ck, L, p, res[0][0], res[1][0], exact=False, exact_frac=True)


def wrap_oracle(ck, L, p, fin, wr, exact, exact_frac=None):
    inp = {"L": L, "p": [float(x) for x in p], "p_hex": [float(x).hex() for x in p]}
    good = True
    if not np.all(wr == np.rint(wr)):
        ck.violation("wrap_counts_not_integer", S_WRAP, inp, expected="integer counts", got=[float(x) for x in wr])
        good = False
    La = np.array(L, dtype=float)
    scale = max(1.0, float(np.max(np.abs(p))), float(np.max(np.abs(La))) * max(1.0, float(np.max(np.abs(wr)))))
    rec = np.asarray(fin) + np.asarray(wr) @ La
    if not np.allclose(rec, np.asarray(p, dtype=float), atol=1e-11 * scale, rtol=0):
        ck.violation("wrap_does_not_reproduce_input", S_WRAP, inp, expected=[float(x) for x in p], got=rec.tolist(), oracle="wrapped + counts . L = input")
        good = False
    if exact or exact_frac:
        fr = vm([frac(x) for x in fin], finv(fmat(L)))
        if not all(0 <= x < 1 for x in fr):
            ck.violation("wrap_fraction_outside_unit_interval", S_WRAP, inp, expected="fractional coordinates in [0,1)", got=[float(x) for x in fr],
                         oracle="exact rational fractional coordinates of the returned point")
            good = False
    else:
        fr = np.asarray(fin) @ np.linalg.inv(La)
        if np.any(fr < -1e-9) or np.any(fr > 1 + 1e-9):
            ck.violation("wrap_fraction_outside_unit_interval", S_WRAP, inp, expected="fractional coordinates in [0,1)", got=fr.tolist())
            good = False
    return good


# ------------------------------------------------------------------ B. minimum image
def size_reduced(L):
    G = L @ L.T
    for i in range(3):
        for j in range(i + 1, 3):
            if abs(G[i, j]) > min(G[i, i], G[j, j]) / 2 * (1 - 1e-9):
                return False
    return True


def reduce_pairwise(L, iters=50):
    """make a random basis size-reduced in the property's sense by pairwise Gauss reduction"""
    L = L.copy()
    for _ in range(iters):
        changed = False
        for i in range(3):
            for j in range(3):
                if i == j:
                    continue
                m = np.rint(L[i] @ L[j] / (L[j] @ L[j]))
                if m != 0 and (L[i] - m * L[j]) @ (L[i] - m * L[j]) < L[i] @ L[i] - 1e-12:
                    L[i] = L[i] - m * L[j]
                    changed = True
        if not changed:
            break
    return L


def brute_min(L, d):
    """global minimum image by exhaustive search of the shell proved sufficient by C18_oracle_shell_complete"""
    G = L @ L.T
    sig2 = float(np.linalg.eigvalsh(G)[0]) * 0.999
    f = d @ np.linalg.inv(L)
    d0 = (f - np.rint(f)) @ L  # an image of d: searching around it is searching all of Z^3
    R = int(np.ceil(2 * np.sqrt(d0 @ d0 / sig2))) + 1
    rng_ = np.arange(-R, R + 1)
    n = np.stack(np.meshgrid(rng_, rng_, rng_, indexing="ij"), -1).reshape(-1, 3)
    c = d0 + n @ L
    n2 = np.sum(c * c, axis=1)
    return float(n2.min()), R


def check_minimage(ck):
    import pyqmc.configurations.distance as distance
    # exact stream on orthogonal / diagonal / triclinic exact lattices vs the Coq model
    exprs, todo = [], []
    lat_ok = [L for L in EXACT_LATTICES if exact_ok(L)]
    n_exact = 1500 if ck.thorough else 250
    for _ in range(n_exact):
        L = lat_ok[int(ck.rng.integers(0, len(lat_ok)))]
        La = np.array(L, dtype=float)
        if L[0][0] < 0:
            continue  # negative diagonal: python % sign convention differs from the model's centred interval (checked by the oracle stream)
        d = dyadic_point(ck.rng, span=int(ck.rng.choice([2, 6, 30])), bits=2)
        md = distance.MinimalImageDistance(La)
        ok, res = ck.guarded(lambda: md._minimal_dist(np.array([[d]], dtype=float).copy())[0, 0], "minimage", S_DIST, {"L": L, "d": d})
        ck.case(("miE", json.dumps(L), tuple(d)))
        if not ok:
            continue
        kind = md._minimal_dist.__name__
        Lf, Li = fmat(L), finv(fmat(L))
        if kind in ("diagonal_dist", "orthogonal_dist"):
            exprs.append("vz (orthogonal_dist %s %s %s)" % (qm(Lf), qm(Li), qv(d)))
        else:
            exprs.append("vz (general_dist %s %s %s)" % (qm(Lf), qm(Li), qv(d)))
        good = minimage_oracle(ck, La, np.array(d), res, kind)
        todo.append((L, d, kind, [frac(x) for x in res], good))
    vals = ck.coq_eval("minimage", ["C18.Model"], exprs, scope="Q_scope")
    nmis = 0
    for (L, d, kind, got, good), v in zip(todo, vals):
        if v is None:
            continue
        mv = [F(*x) for x in v]
        if mv != got:
            # ties (|d+s| equal for two images, e.g. displacement exactly half a cell) may be broken differently: compare lengths
            if sum(x * x for x in mv) == sum(x * x for x in got):
                ck.count("minimage_tie_broken_differently")
                continue
            nmis += 1
            if good and nmis <= 3:
                ck.correspondence_broken("C18 model %s vs MinimalImageDistance" % kind, json.dumps({"L": L, "d": d, "model": [str(x) for x in mv], "impl": [str(x) for x in got]}))
    ck.stats["minimage_model_vs_impl_compared"] = len(todo)
    ck.stats["minimage_model_vs_impl_mismatch"] = nmis
    # generic stream: size-reduced lattices of all shapes, points inside / on faces / far outside; brute-force oracle
    n_gen = 2500 if ck.thorough else 350
    kinds = {}
    for it in range(n_gen):
        mode = it % 8
        if mode == 0:
            L = np.diag(ck.rng.uniform(1, 6, size=3))
        elif mode == 6:  # orthogonal COLUMNS but non-orthogonal rows: rotation @ diagonal (must take the general branch)
            ax = ck.rng.normal(size=3)
            ax /= np.linalg.norm(ax)
            th = ck.rng.uniform(0.05, 0.35)
            K = np.array([[0, -ax[2], ax[1]], [ax[2], 0, -ax[0]], [-ax[1], ax[0], 0]])
            Rm = np.eye(3) + np.sin(th) * K + (1 - np.cos(th)) * K @ K
            L = Rm @ np.diag(ck.rng.uniform(1, 4, size=3))
        elif mode == 7:  # almost orthogonal / almost diagonal: off-diagonal terms around the branch-selection tolerance
            L = np.diag(ck.rng.uniform(1, 6, size=3)) + ck.rng.normal(size=(3, 3)) * ck.rng.choice([1e-12, 1e-9, 1e-6, 1e-3])
        elif mode == 1:  # orthogonal rotated
            Q, _ = np.linalg.qr(ck.rng.normal(size=(3, 3)))
            L = np.diag(ck.rng.uniform(1, 6, size=3)) @ Q
        elif mode == 2:  # fcc / bcc / hex like
            L = [np.array([[0, 1, 1], [1, 0, 1], [1, 1, 0]]) * 2.0, np.array([[-1, 1, 1], [1, -1, 1], [1, 1, -1]]) * 1.5,
                 np.array([[1, 0, 0], [-0.5, np.sqrt(3) / 2, 0], [0, 0, 1.6]]) * 3.0][it % 3]
        else:
            L = reduce_pairwise(ck.rng.normal(size=(3, 3)) * 3 + np.diag(ck.rng.uniform(-4, 4, size=3)))
        if abs(np.linalg.det(L)) < 0.05 or not size_reduced(L):
            ck.count("minimage_lattice_rejected_not_size_reduced")
            continue
        md = distance.MinimalImageDistance(L)
        kind = md._minimal_dist.__name__
        kinds[kind] = kinds.get(kind, 0) + 1
        far = ck.rng.choice([1.0, 1.0, 4.0, 25.0])
        fa = ck.rng.uniform(-far, far, size=(2, 3, 3))
        if it % 4 == 0:
            fa = np.rint(fa * 2) / 2  # faces, edges, corners, cell centres
        a, b = fa[0] @ L, fa[1] @ L
        # dist_i(a, b): a (m, n, 3), b (m, 3) -> (m, n, 3)
        ok, res = ck.guarded(lambda: md.dist_i(a[np.newaxis].repeat(3, 0), b.copy()), "minimage", S_DIST, {"L": L.tolist()})
        ck.case(("miG", it))
        if not ok:
            continue
        for m in range(3):
            for n in range(3):
                raw = b[m] - a[n]
                minimage_oracle(ck, L, raw, res[m, n], kind)
    ck.stats["minimage_branches"] = kinds


def minimage_oracle(ck, L, raw, got, kind):
    inp = {"L": np.asarray(L).tolist(), "raw_displacement": [float(x) for x in raw], "branch": kind}
    n = (np.asarray(got) - raw) @ np.linalg.inv(L)
    scale = max(1.0, float(np.max(np.abs(raw))))
    if not np.allclose(n, np.rint(n), atol=1e-9 * scale, rtol=0):
        ck.violation("minimage_not_lattice_image", S_DIST, inp, expected="returned - raw = lattice vector", got={"returned": [float(x) for x in got], "coeffs": n.tolist()})
        return False
    best, R = brute_min(np.asarray(L, dtype=float), np.asarray(raw, dtype=float))
    g2 = float(np.dot(got, got))
    if g2 > best + 1e-9 * max(1.0, best):
        ck.violation("minimage_not_minimal", S_DIST, inp, expected={"min_length": best ** 0.5, "shell_radius_searched": R}, got={"returned": [float(x) for x in got], "length": g2 ** 0.5},
                     oracle="exhaustive search of the shell proved sufficient by C18_oracle_shell_complete")
        return False
    return True


# ------------------------------------------------------------------ C. walker bookkeeping
def snapshot(cfg):
    return [[([frac(x) for x in cfg.configs[w, e]], [frac(x) for x in cfg.wrap[w, e]]) for e in range(cfg.configs.shape[1])] for w in range(cfg.configs.shape[0])]


def coq_state(st):
    return coq_list([coq_list(["mkE %s %s" % (qv(p), qv(w)) for (p, w) in wk]) for wk in st])


def bl(b):
    return coq_list(["true" if x else "false" for x in b])


def unwrapped(cfg, L):
    return cfg.configs + cfg.wrap @ L


def check_bookkeeping(ck):
    from pyqmc.configurations.coord import PeriodicConfigs
    lat_ok = [L for L in EXACT_LATTICES if exact_ok(L) and L[0][0] > 0]
    nseq = 400 if ck.thorough else 60
    exprs, todo = [], []
    opdist = {}
    for it in range(nseq):
        L = lat_ok[int(ck.rng.integers(0, len(lat_ok)))]
        La = np.array(L, dtype=float)
        nconf, nelec = int(ck.rng.integers(1, 5)), int(ck.rng.integers(1, 4))
        init = np.array([[dyadic_point(ck.rng, span=5) for _ in range(nelec)] for _ in range(nconf)])
        cfg = PeriodicConfigs(init.copy(), La)
        st0 = snapshot(cfg)
        # the constructor itself: unwrapped positions = the raw input
        if not np.allclose(unwrapped(cfg, La), init, atol=1e-12, rtol=0):
            ck.violation("configs_constructor_unwrapped", S_CONF, {"L": L, "init": init.tolist()}, expected=init.tolist(), got=unwrapped(cfg, La).tolist())
        ops_coq, ops_log = [], []
        expect_unw = unwrapped(cfg, La).copy()
        okseq = True
        for _ in range(int(ck.rng.integers(1, 9))):
            n = cfg.configs.shape[0]
            kind = ck.rng.choice(["move", "move", "move_masked", "resample", "splitjoin", "mask", "copy", "hdf"])
            opdist[kind] = opdist.get(kind, 0) + 1
            try:
                if kind in ("move", "move_masked"):
                    e = int(ck.rng.integers(0, nelec))
                    vec = np.array([dyadic_point(ck.rng, span=int(ck.rng.choice([1, 8]))) for _ in range(n)])
                    mask = np.ones(n, dtype=bool) if kind == "move" else ck.rng.random(n) < 0.6
                    accept = ck.rng.random(n) < 0.5
                    if ck.rng.random() < 0.15:
                        accept[:] = False
                    if ck.rng.random() < 0.15:
                        accept[:] = True
                    before = cfg.configs.copy(), cfg.wrap.copy()
                    new = cfg.make_irreducible(e, vec.copy(), mask=None if kind == "move" else mask)
                    # trial position: unwrapped = raw vector + current wrap of electron e
                    tu = new.configs + new.wrap @ La
                    if not np.allclose(tu, vec + before[1][:, e] @ La, atol=1e-12, rtol=0):
                        ck.violation("trial_unwrapped", S_CONF, {"L": L, "vec": vec.tolist()}, expected=(vec + before[1][:, e] @ La).tolist(), got=tu.tolist())
                    cfg.move(e, new, accept)
                    for w in range(n):
                        if not accept[w] and not (np.array_equal(cfg.configs[w], before[0][w]) and np.array_equal(cfg.wrap[w], before[1][w])):
                            ck.violation("rejected_walker_changed", S_CONF, {"L": L, "walker": w}, expected=before[0][w].tolist(), got=cfg.configs[w].tolist())
                        for e2 in range(nelec):
                            if e2 != e and not (np.array_equal(cfg.configs[w, e2], before[0][w, e2]) and np.array_equal(cfg.wrap[w, e2], before[1][w, e2])):
                                ck.violation("other_electron_changed", S_CONF, {"L": L, "walker": w, "electron": e2}, expected=before[0][w, e2].tolist(), got=cfg.configs[w, e2].tolist())
                    expect_unw[accept, e] = (vec + before[1][:, e] @ La)[accept]
                    ops_coq.append("OpMove %d %s %s %s" % (e, coq_list([qv(v) for v in vec]), bl(mask), bl(accept)))
                elif kind == "resample":
                    inds = ck.rng.integers(0, n, size=n)
                    cfg.resample(inds)
                    expect_unw = expect_unw[inds]
                    ops_coq.append("OpResample %s" % coq_list(["%d%%nat" % i for i in inds]))
                elif kind == "splitjoin":
                    k = int(ck.rng.integers(1, n + 1))
                    parts = cfg.split(k)
                    sizes = [p.configs.shape[0] for p in parts]
                    if len(parts) != k or sum(sizes) != n or max(sizes) - min(sizes) > 1:
                        ck.violation("split_sizes", S_CONF, {"n": n, "k": k}, expected="k parts of floor/ceil(n/k) walkers", got=sizes)
                    cfg.join(parts)
                    ops_coq.append("OpSplitJoin %d" % k)
                elif kind == "mask":
                    m = ck.rng.random(n) < 0.7
                    if not m.any():
                        m[0] = True
                    cfg = cfg.mask(m)
                    expect_unw = expect_unw[m]
                    ops_coq.append("OpMask %s" % bl(m))
                elif kind == "copy":
                    c2 = cfg.copy()
                    c2.configs += 1.0  # a copy must not alias
                    ops_coq.append("OpCopy")
                elif kind == "hdf":
                    import h5py
                    with tempfile.TemporaryDirectory() as td:
                        fn = os.path.join(td, "c.hdf5")
                        with h5py.File(fn, "w") as h:
                            cfg.initialize_hdf(h)
                            cfg.to_hdf(h)
                        c3 = PeriodicConfigs(np.zeros_like(cfg.configs), La)
                        with h5py.File(fn, "r") as h:
                            c3.load_hdf(h)
                    if not (np.array_equal(c3.configs, cfg.configs.astype(np.float32).astype(float)) and np.array_equal(c3.wrap, cfg.wrap)):
                        ck.violation("hdf_roundtrip", S_CONF, {"L": L}, expected=cfg.configs.tolist(), got=c3.configs.tolist(), oracle="load(save(x)) = x to float32 storage precision, wraps exactly")
                    ops_coq.append("OpCopy")
            except Exception as ex:  # noqa
                ck.violation("walker_op_exception", S_CONF, {"L": L, "op": str(kind)}, expected="no exception", got=repr(ex))
                okseq = False
                break
            ops_log.append(str(kind))
            if not np.allclose(unwrapped(cfg, La), expect_unw, atol=1e-12, rtol=0):
                ck.violation("unwrapped_position_not_preserved", S_CONF, {"L": L, "ops": ops_log, "init": init.tolist()}, expected=expect_unw.tolist(), got=unwrapped(cfg, La).tolist(),
                             oracle="configs + wrap . L tracked independently")
                okseq = False
                break
        ck.case(("ops", it), nontrivial=len(ops_log) >= 2)
        if not okseq:
            continue
        Lf, Li = fmat(L), finv(fmat(L))
        exprs.append("showz (run %s %s %s %s)" % (qm(Lf), qm(Li), coq_state(st0), coq_list(ops_coq)))
        todo.append((L, ops_log, snapshot(cfg)))
        if len(ck.samples) < 5:
            ck.sample({"walker_ops": {"L": L, "nconf": nconf, "nelec": nelec, "ops": ops_log}})
    vals = ck.coq_eval("ops", ["C18.Model"], exprs, scope="Q_scope", shard=10)
    nmis = 0
    for (L, ops_log, snap), v in zip(todo, vals):
        if v is None:
            continue
        model = [[([F(*x) for x in el[0]], [F(*x) for x in el[1]]) for el in wk] for wk in v]
        if model != snap:
            nmis += 1
            if nmis <= 3:
                ck.correspondence_broken("C18 model run(ops) vs PeriodicConfigs", json.dumps({"L": L, "ops": ops_log}))
    ck.stats["ops_model_vs_impl_compared"] = len(todo)
    ck.stats["ops_model_vs_impl_mismatch"] = nmis
    ck.stats["ops_distribution"] = opdist
    # auxiliary points (nconf, naip, 3) with and without mask, generic lattice
    for it in range(40 if ck.thorough else 10):
        L = reduce_pairwise(ck.rng.normal(size=(3, 3)) * 3 + np.diag([4.0, 4.0, 4.0]))
        n, naip = 4, 5
        cfg = PeriodicConfigs(ck.rng.normal(size=(n, 2, 3)) * 6, L)
        vec = ck.rng.normal(size=(n, naip, 3)) * 8
        mask = ck.rng.random((n, naip)) < 0.5 if it % 2 else None
        ok, new = ck.guarded(lambda: cfg.make_irreducible(1, vec.copy(), mask=mask), "trial_aux", S_CONF, {"L": L.tolist()})
        ck.case(("aux", it))
        if not ok:
            continue
        tu = new.configs + new.wrap @ L
        ex = vec + (cfg.wrap[:, 1] @ L)[:, np.newaxis, :]
        if not np.allclose(tu, ex, atol=1e-10, rtol=0):
            ck.violation("trial_unwrapped", S_CONF, {"L": L.tolist(), "aux": True, "masked": mask is not None}, expected=ex.tolist(), got=tu.tolist())


def main(argv):
    ck = Check("C18", argv)
    ck.rule = ("enforce_pbc / MinimalImageDistance / PeriodicConfigs driven directly. exact streams: lattices and points with few-bit dyadic entries on which every "
               "float operation is exact (verified at run time) are compared bit-for-bit with the Coq model evaluated by vm_compute in Q (wrap, orthogonal and general "
               "minimum image, random sequences of move/masked move/resample/split+join/mask/copy/hdf round trip); generic streams: random non-singular lattices for wrapping, "
               "random size-reduced lattices (diagonal, rotated orthogonal, fcc/bcc/hex, pairwise-Gauss-reduced triclinic) for minimum image with points inside, on faces/edges/corners "
               "and up to 25 cells apart, compared with a brute-force search of the shell proved sufficient by C18_oracle_shell_complete. Non-trivial walker sequences have >= 2 operations.")
    ck.trusted = ["Coq 8.16.1 kernel + vm_compute (no native_compute)", "harness/c18.py drivers and oracles (numpy float brute force for generic lattices)", "h5py for the save/load round trip"]
    ck.assumptions = ["floating-point rounding is outside the exact model; generic streams use tolerances 1e-9..1e-12",
                      "27-image sufficiency for every size-reduced lattice is not proved (theorem C18_general_min_over_27_partial); it is decided per input by the proved-complete brute-force oracle",
                      "np.round (half-to-even) and numpy argmin tie-breaking are modelled; ties between equally long images are accepted either way"]
    ck.coq_build("C18", THEOREMS)
    check_wrap(ck)
    check_minimage(ck)
    check_bookkeeping(ck)
    return ck.finish()
