"""Regenerates coq/gen/Sph_Gen.v from /repo's pyqmc/wf/numba/spherical_harmonics.py (C19): the hard-coded solid-harmonic
tables and their Cartesian derivative tables for l = 0..5, as polynomial expressions over exact decimal constants, following the
straight-line code of SPH5_GRAD statement by statement (temporaries and re-used entries included).
Also checks the calling convention of gto.py (x2 = x**2, ...) and returns float evaluators for translator validation.
Fail-closed: any construct it does not understand raises TranslationError."""
import ast
import os
import sys
from fractions import Fraction

sys.path.insert(0, os.path.dirname(os.path.abspath(__file__)))
from py2coq import TranslationError  # noqa

PATH = "pyqmc/wf/numba/spherical_harmonics.py"
LMAX = 5


class P:
    """exact polynomial {(a,b,c): Fraction} used for validation of the translation (the Coq side recomputes everything itself)"""

    def __init__(self, d=None):
        self.d = {k: v for k, v in (d or {}).items() if v != 0}

    @staticmethod
    def const(c):
        return P({(0, 0, 0): Fraction(c)})

    @staticmethod
    def var(i):
        return P({tuple(1 if j == i else 0 for j in range(3)): Fraction(1)})

    def __add__(self, o):
        d = dict(self.d)
        for k, v in o.d.items():
            d[k] = d.get(k, 0) + v
        return P(d)

    def __neg__(self):
        return P({k: -v for k, v in self.d.items()})

    def __sub__(self, o):
        return self + (-o)

    def __mul__(self, o):
        d = {}
        for k1, v1 in self.d.items():
            for k2, v2 in o.d.items():
                k = (k1[0] + k2[0], k1[1] + k2[1], k1[2] + k2[2])
                d[k] = d.get(k, 0) + v1 * v2
        return P(d)

    def eval(self, x, y, z):
        return sum(float(v) * x ** k[0] * y ** k[1] * z ** k[2] for k, v in self.d.items())


class Val:
    def __init__(self, coq, poly):
        self.coq, self.poly = coq, poly


class Gen:
    def __init__(self, tree):
        self.funcs = {n.name: n for n in tree.body if isinstance(n, ast.FunctionDef)}
        self.defs = []
        self.count = 0

    def fresh(self, hint, v):
        self.count += 1
        name = "%s_%d" % (hint, self.count)
        self.defs.append("Definition %s : poly := Eval vm_compute in pnorm (%s)." % (name, v.coq))
        return Val(name, v.poly)

    def const(self, node):
        if isinstance(node.value, bool) or not isinstance(node.value, (int, float)):
            raise TranslationError("constant %r" % (node.value,))
        if isinstance(node.value, int):
            fr = Fraction(node.value)
        else:
            fr = Fraction(repr(node.value))  # the shortest decimal that round-trips: what the source says, as an exact rational
        if fr.denominator == 1:
            q = "%d" % fr.numerator if fr >= 0 else "(%d)" % fr.numerator
            return Val("(pconst (inject_Z %s))" % q, P.const(fr))
        return Val("(pconst (%s # %d))" % (("%d" % fr.numerator) if fr >= 0 else "(%d)" % fr.numerator, fr.denominator), P.const(fr))

    def ev(self, node, env):
        if isinstance(node, ast.Constant):
            return self.const(node)
        if isinstance(node, ast.Name):
            if node.id not in env or not isinstance(env[node.id], Val):
                raise TranslationError("name %s" % node.id)
            return env[node.id]
        if isinstance(node, ast.Subscript):
            arr, k = self.target(node, env)
            if k not in arr:
                raise TranslationError("%s read before it is written" % ast.unparse(node))
            return arr[k]
        if isinstance(node, ast.UnaryOp) and isinstance(node.op, ast.USub):
            v = self.ev(node.operand, env)
            return Val("(pneg %s)" % v.coq, -v.poly)
        if isinstance(node, ast.BinOp):
            a, b = self.ev(node.left, env), self.ev(node.right, env)
            if isinstance(node.op, ast.Add):
                return Val("(padd %s %s)" % (a.coq, b.coq), a.poly + b.poly)
            if isinstance(node.op, ast.Sub):
                return Val("(psub %s %s)" % (a.coq, b.coq), a.poly - b.poly)
            if isinstance(node.op, ast.Mult):
                return Val("(pmul %s %s)" % (a.coq, b.coq), a.poly * b.poly)
        raise TranslationError("expression %s" % ast.unparse(node)[:60])

    def target(self, node, env):
        if not (isinstance(node.value, ast.Name) and isinstance(env.get(node.value.id), dict)):
            raise TranslationError("subscript of %s" % ast.unparse(node.value))
        sl = node.slice
        if not (isinstance(sl, ast.Constant) and isinstance(sl.value, int)):
            raise TranslationError("non-literal index %s" % ast.unparse(node))
        return env[node.value.id], sl.value

    def run(self, fname, args):
        fn = self.funcs.get(fname)
        if fn is None:
            raise TranslationError("function %s not found" % fname)
        params = [a.arg for a in fn.args.args]
        if len(params) != len(args):
            raise TranslationError("%s called with %d arguments" % (fname, len(args)))
        env = dict(zip(params, args))
        for st in fn.body:
            if isinstance(st, ast.Expr) and isinstance(st.value, ast.Constant):
                continue
            if isinstance(st, ast.Expr) and isinstance(st.value, ast.Call) and isinstance(st.value.func, ast.Name):
                if st.value.keywords:
                    raise TranslationError("keyword arguments in call to %s" % st.value.func.id)
                self.run(st.value.func.id, [self.arg(a, env) for a in st.value.args])
                continue
            if isinstance(st, ast.Assign):
                v = self.ev(st.value, env)
                hint = "t"
                for t in st.targets:
                    if isinstance(t, ast.Subscript):
                        hint = {"sph_i": "s", "dx_sph_i": "dx", "dy_sph_i": "dy", "dz_sph_i": "dz"}.get(t.value.id, "a") + str(t.slice.value if isinstance(t.slice, ast.Constant) else "")
                v = self.fresh(hint, v)
                for t in st.targets:
                    if isinstance(t, ast.Name):
                        env[t.id] = v
                    elif isinstance(t, ast.Subscript):
                        arr, k = self.target(t, env)
                        arr[k] = v
                    else:
                        raise TranslationError("assignment target %s" % ast.unparse(t))
                continue
            raise TranslationError("statement %s in %s" % (type(st).__name__, fname))

    def arg(self, node, env):
        if isinstance(node, ast.Name) and node.id in env:
            return env[node.id]
        raise TranslationError("argument %s" % ast.unparse(node))


def check_calling_convention(repo):
    """gto.py / pbcgto.py hand x, y, z, x**2, y**2, z**2 to SPH<l> / SPH<l>_GRAD"""
    for f in ("pyqmc/wf/numba/gto.py", "pyqmc/wf/numba/pbcgto.py"):
        tree = ast.parse(open(os.path.join(repo, f)).read())
        seen = 0
        for fn in tree.body:
            if isinstance(fn, ast.FunctionDef) and fn.name.startswith("sph") and fn.name[3].isdigit():
                calls = [c for c in ast.walk(fn) if isinstance(c, ast.Call) and ast.unparse(c.func).startswith("hsh.SPH")]
                if len(calls) != 1:
                    raise TranslationError("%s in %s does not call exactly one table" % (fn.name, f))
                a = [ast.unparse(x).replace(" ", "") for x in calls[0].args[:6]]
                if a != ["v[0]", "v[1]", "v[2]", "v[0]**2", "v[1]**2", "v[2]**2"]:
                    raise TranslationError("%s in %s passes %s" % (fn.name, f, a))
                want = "hsh.SPH%s%s" % (fn.name[3], "_GRAD" if fn.name.endswith("_grad") else "")
                if ast.unparse(calls[0].func) != want:
                    raise TranslationError("%s in %s calls %s" % (fn.name, f, ast.unparse(calls[0].func)))
                seen += 1
        if seen != 12:
            raise TranslationError("%s defines %d sph wrappers, expected 12" % (f, seen))


def gen(repo):
    tree = ast.parse(open(os.path.join(repo, PATH)).read())
    check_calling_convention(repo)
    g = Gen(tree)
    x, y, z = Val("pX", P.var(0)), Val("pY", P.var(1)), Val("pZ", P.var(2))
    x2 = g.fresh("x2", Val("(pmul pX pX)", x.poly * x.poly))
    y2 = g.fresh("y2", Val("(pmul pY pY)", y.poly * y.poly))
    z2 = g.fresh("z2", Val("(pmul pZ pZ)", z.poly * z.poly))
    s, dx, dy, dz = {}, {}, {}, {}
    g.run("SPH%d_GRAD" % LMAX, [x, y, z, x2, y2, z2, s, dx, dy, dz])
    n = (LMAX + 1) ** 2
    for name, arr in (("sph_i", s), ("dx", dx), ("dy", dy), ("dz", dz)):
        if sorted(arr) != list(range(n)):
            raise TranslationError("table %s: entries %s written, expected 0..%d" % (name, sorted(arr)[:5], n - 1))
    # the value-only route must write the same value table
    g2 = Gen(tree)
    s2 = {}
    g2.run("SPH%d" % LMAX, [x, y, z, Val("x2", x.poly * x.poly), Val("y2", y.poly * y.poly), Val("z2", z.poly * z.poly), s2])
    for k in range(n):
        if s2[k].poly.d != s[k].poly.d:
            raise TranslationError("SPH%d and SPH%d_GRAD disagree on entry %d" % (LMAX, LMAX, k))
    # lower tables are prefixes (SPH<l> calls the same COMPUTE_SPH_L routines): checked structurally
    for l in range(LMAX):
        g3 = Gen(tree)
        s3, a3, b3, c3 = {}, {}, {}, {}
        g3.run("SPH%d_GRAD" % l, [x, y, z, Val("x2", x.poly * x.poly), Val("y2", y.poly * y.poly), Val("z2", z.poly * z.poly), s3, a3, b3, c3])
        for k in range((l + 1) ** 2):
            if s3[k].poly.d != s[k].poly.d or a3[k].poly.d != dx[k].poly.d or b3[k].poly.d != dy[k].poly.d or c3[k].poly.d != dz[k].poly.d:
                raise TranslationError("SPH%d_GRAD is not a prefix of SPH%d_GRAD at entry %d" % (l, LMAX, k))
    lines = list(g.defs)
    for name, arr in (("sph_values", s), ("sph_dx", dx), ("sph_dy", dy), ("sph_dz", dz)):
        lines.append("Definition %s : list poly := [%s]." % (name, "; ".join(arr[k].coq for k in range(n))))
    header = ("(* GENERATED by /verif/translator/gen_sph.py from /repo/pyqmc/wf/numba/spherical_harmonics.py (SPH%d_GRAD and the routines it calls,\n"
              "   statement by statement; decimal constants as exact rationals) on every run — do not edit. *)\n"
              "From Coq Require Import QArith List.\nFrom PyQMC Require Import base.Poly3.\nImport ListNotations.\n\n") % LMAX
    return header + "\n".join(lines) + "\n", {"values": s, "dx": dx, "dy": dy, "dz": dz}


def main_for(repo, outdir):
    txt, tables = gen(repo)
    os.makedirs(outdir, exist_ok=True)
    path = os.path.join(outdir, "Sph_Gen.v")
    old = open(path).read() if os.path.exists(path) else None
    if old != txt:
        open(path, "w").write(txt)
    return {k: [v[i].poly for i in range(len(v))] for k, v in tables.items()}


if __name__ == "__main__":
    try:
        t = main_for(sys.argv[1] if len(sys.argv) > 1 else "/repo", os.path.join(os.path.dirname(os.path.dirname(os.path.abspath(__file__))), "coq", "gen"))
        print({k: len(v) for k, v in t.items()})
    except TranslationError as e:
        print("TRANSLATION-ERROR:", e)
        sys.exit(2)
