"""Fail-closed symbolic executor over the Python `ast` of straight-line numpy kernels (DESIGN.md section 2.2).

Per-walker semantics: an array of shape (nconf,) is a scalar, (nconf, 3) a 3-vector. The executor walks a
statement list with an environment  name -> expression DAG, so renaming temporaries, splitting expressions or
reordering independent statements leaves the result unchanged. Anything it does not understand raises
TranslationError (treated by the checks exactly like a failed proof obligation).

Expression nodes (tuples):
  scalars: ('c', Fraction) ('s', name) ('add'|'sub'|'mul'|'div', a, b) ('neg', a) ('pow', a, n) ('exp'|'sqrt'|'abs'|'sign'|'ln', a)
           ('vsum', v) ('ite', cond, a, b)        cond: ('lt'|'le', a, b) | ('not', c)
  vectors: ('v', name) ('vadd'|'vsub', a, b) ('vscal', s, v) ('vdiv', v, s) ('vpow', v, n) ('vite', cond, a, b)
"""
import ast
import fractions
import math

F = fractions.Fraction


class TranslationError(Exception):
    pass


def is_vec(x):
    return isinstance(x, tuple) and x and x[0] in ("v", "vadd", "vsub", "vscal", "vdiv", "vpow", "vite", "vneg", "vmul")


def is_cond(x):
    return isinstance(x, tuple) and x and x[0] in ("lt", "le", "not", "and", "or")


def const(x):
    if isinstance(x, bool):
        raise TranslationError("boolean constant")
    if isinstance(x, int):
        return ("c", F(x))
    if isinstance(x, float):
        return ("c", F(*x.as_integer_ratio()))
    raise TranslationError("constant %r" % (x,))


class Opaque:
    """a value the kernel only passes around (saved values, electron objects)"""

    def __init__(self, tag):
        self.tag = tag

    def __repr__(self):
        return "Opaque(%s)" % (self.tag,)


class SymExec:
    def __init__(self, handlers=None, inline=None, resolver=None):
        self.handlers = handlers or {}
        self.inline = inline or {}
        self.resolver = resolver      # name -> ast.FunctionDef of a helper (same class / same module) whose body is executed in place of the call
        self.depth = 0
        self.effects = []
        self.notes = {}

    # ---------------------------------------------------------------- expressions
    def dotted(self, node):
        if isinstance(node, ast.Name):
            return node.id
        if isinstance(node, ast.Attribute):
            return self.dotted(node.value) + "." + node.attr
        raise TranslationError("callee %s" % ast.dump(node)[:80])

    def ev(self, node, env):
        if isinstance(node, ast.Constant):
            return const(node.value)
        if isinstance(node, ast.Name):
            if node.id in env:
                return env[node.id]
            raise TranslationError("unknown name %s" % node.id)
        if isinstance(node, ast.Tuple):
            return tuple(self.ev(e, env) for e in node.elts)
        if isinstance(node, ast.Dict):
            if not all(isinstance(k, ast.Constant) and isinstance(k.value, str) for k in node.keys):
                raise TranslationError("dictionary with non-literal keys")
            return Opaque({k.value: self.ev(v, env) for k, v in zip(node.keys, node.values)})
        if isinstance(node, ast.UnaryOp):
            v = self.ev(node.operand, env)
            if isinstance(node.op, ast.USub):
                return ("vneg", v) if is_vec(v) else ("neg", v)
            if isinstance(node.op, (ast.Invert, ast.Not)) and is_cond(v):
                return ("not", v)
            raise TranslationError("unary %s" % ast.dump(node.op))
        if isinstance(node, ast.BinOp):
            a, b = self.ev(node.left, env), self.ev(node.right, env)
            return self.binop(node.op, a, b)
        if isinstance(node, ast.Compare):
            if len(node.ops) != 1:
                raise TranslationError("chained comparison")
            a, b = self.ev(node.left, env), self.ev(node.comparators[0], env)
            if is_vec(a) or is_vec(b):
                raise TranslationError("vector comparison")
            op = node.ops[0]
            if isinstance(op, ast.Gt):
                return ("lt", b, a)
            if isinstance(op, ast.Lt):
                return ("lt", a, b)
            if isinstance(op, ast.GtE):
                return ("le", b, a)
            if isinstance(op, ast.LtE):
                return ("le", a, b)
            raise TranslationError("comparison %s" % ast.dump(op))
        if isinstance(node, ast.Attribute):
            try:
                base = self.dotted(node)
            except TranslationError:
                base = None
            if base in self.handlers:
                return self.handlers[base](self, [], {}, env)
            if base is not None and base in env:
                return env[base]
            if node.attr == "shape":
                return Opaque("shape")
            v = self.ev(node.value, env)
            if node.attr == "T":
                return v
            if node.attr == "real":
                return v
            raise TranslationError("attribute %s" % ast.unparse(node))
        if isinstance(node, ast.Subscript):
            key = ast.unparse(node)
            if key in self.handlers:
                return self.handlers[key](self, [], {}, env)
            v = self.ev(node.value, env)
            sl = node.slice
            # x[mask] (restriction to the masked walkers) and x[:, np.newaxis] (broadcast) keep the per-walker value
            if isinstance(sl, ast.Name) and is_cond(env.get(sl.id)):
                return v
            txt = ast.unparse(node).replace(" ", "")
            if txt.endswith("[:,np.newaxis]") or txt.endswith("[:,None]") or txt.endswith("[...,np.newaxis]") or txt.endswith("[...,None]"):
                return v
            raise TranslationError("subscript %s" % ast.unparse(node))
        if isinstance(node, ast.Call):
            name = self.dotted(node.func)
            args = node.args
            kw = {k.arg: k.value for k in node.keywords}
            if name not in self.handlers and isinstance(node.func, ast.Attribute) and isinstance(node.func.value, ast.Name):
                recv = env.get(node.func.value.id)
                if isinstance(recv, Opaque) and isinstance(recv.tag, str) and (recv.tag + "." + node.func.attr) in self.handlers:
                    name = recv.tag + "." + node.func.attr      # the same object under another local name (helper parameter)
            if name in self.handlers:
                return self.handlers[name](self, args, kw, env)
            if name in ("tuple", "list") and len(args) == 1 and isinstance(args[0], (ast.GeneratorExp, ast.ListComp)) and len(args[0].generators) == 1:
                g = args[0].generators[0]
                if isinstance(g.target, ast.Name) and isinstance(g.iter, (ast.Tuple, ast.List)) and not g.ifs:
                    # tuple(f(x) for x in (a, b, c)): unrolled
                    out = []
                    for item in g.iter.elts:
                        sub = dict(env)
                        sub[g.target.id] = self.ev(item, env)
                        out.append(self.ev(args[0].elt, sub))
                    return tuple(out)
            return self.numpy_call(name, args, kw, env)
        raise TranslationError("expression %s" % ast.dump(node)[:100])

    def binop(self, op, a, b):
        va, vb = is_vec(a), is_vec(b)
        if isinstance(op, ast.Add):
            if va and vb:
                return ("vadd", a, b)
            if not va and not vb:
                return ("add", a, b)
        if isinstance(op, ast.Sub):
            if va and vb:
                return ("vsub", a, b)
            if not va and not vb:
                return ("sub", a, b)
        if isinstance(op, ast.Mult):
            if va and vb:
                return ("vmul", a, b)
            if va and not vb:
                return ("vscal", b, a)
            if vb and not va:
                return ("vscal", a, b)
            if not va and not vb:
                if is_cond(a) or is_cond(b):
                    raise TranslationError("boolean product")
                return ("mul", a, b)
        if isinstance(op, ast.Div):
            if va and not vb:
                return ("vdiv", a, b)
            if not va and not vb:
                return ("div", a, b)
        if isinstance(op, ast.Pow):
            if b[0] == "c" and b[1].denominator == 1 and b[1] >= 0:
                return ("vpow", a, int(b[1])) if va else ("pow", a, int(b[1]))
        if isinstance(op, ast.BitAnd) and is_cond(a) and is_cond(b):
            return ("and", a, b)
        raise TranslationError("binary operation %s on %s/%s" % (type(op).__name__, "vec" if va else "scalar", "vec" if vb else "scalar"))

    def call_args(self, args, env):
        """positional arguments; `*expr` is spliced when expr evaluates to a tuple of values"""
        out = []
        for x in args:
            if isinstance(x, ast.Starred):
                v = self.ev(x.value, env)
                if not isinstance(v, tuple) or is_vec(v) or is_cond(v) or (v and isinstance(v[0], str)):
                    raise TranslationError("starred argument that is not a tuple: %s" % ast.unparse(x))
                out.extend(v)
            else:
                out.append(self.ev(x, env))
        return out

    def numpy_call(self, name, args, kw, env):
        if name == "np.einsum":
            a = []          # the subscripts string is not a value; operands are evaluated by the einsum case below
        else:
            a = self.call_args(args, env)
        if name == "np.sum":
            axis = kw.get("axis")
            if len(a) == 1 and is_vec(a[0]) and axis is not None and ast.literal_eval(axis) in (1, -1):
                return ("vsum", a[0])
            raise TranslationError("np.sum needs a vector and axis=1")
        if name == "np.linalg.norm":
            if len(a) == 1 and is_vec(a[0]) and "axis" in kw and ast.literal_eval(kw["axis"]) in (1, -1):
                return ("sqrt", ("vsum", ("vpow", a[0], 2)))
            raise TranslationError("np.linalg.norm")
        if name in ("np.exp", "np.sqrt", "np.abs", "np.sign", "np.log") and len(a) == 1 and not is_vec(a[0]):
            return ({"np.exp": "exp", "np.sqrt": "sqrt", "np.abs": "abs", "np.sign": "sign", "np.log": "ln"}[name], a[0])
        if name == "np.real" and len(a) == 1:
            return a[0]
        if name == "np.where" and len(a) == 3 and is_cond(a[0]):
            if is_vec(a[1]) and is_vec(a[2]):
                return ("vite", a[0], a[1], a[2])
            if not is_vec(a[1]) and not is_vec(a[2]):
                return ("ite", a[0], a[1], a[2])
        if name == "np.einsum" and len(args) == 3 and isinstance(args[0], ast.Constant) and isinstance(args[0].value, str):
            spec = args[0].value.replace(" ", "")
            ins, _, outl = spec.partition("->")
            parts = ins.split(",")
            if len(parts) == 2 and parts[0] == parts[1] and len(parts[0]) == 2 and outl == parts[0][0]:
                x, y = self.ev(args[1], env), self.ev(args[2], env)
                if is_vec(x) and is_vec(y):
                    return ("vsum", ("vpow", x, 2)) if x == y else ("vsum", ("vmul", x, y))
            raise TranslationError("np.einsum(%s)" % spec)
        if name == "np.full" and len(a) == 2 and isinstance(a[0], Opaque) and not is_vec(a[1]) and not is_cond(a[1]):
            return a[1]
        if name in ("np.ones_like", "np.zeros_like") and len(a) == 1 and not is_vec(a[0]):
            return ("c", F(1 if name == "np.ones_like" else 0))
        if name == "np.ones" and len(args) == 1:
            return ("c", F(1))
        if name == "np.zeros" and len(args) == 1:
            return ("c", F(0))
        if name == "np.logical_not" and len(a) == 1 and is_cond(a[0]):
            return ("not", a[0])
        if name in self.inline:
            return self.inline[name](self, a, kw, env)
        fn = self.resolver(name) if self.resolver else None
        if fn is not None:
            return self.call_helper(name, fn, a, {k: self.ev(v, env) for k, v in kw.items()}, env)
        raise TranslationError("call %s" % name)

    def call_helper(self, name, fn, args, kwargs, env):
        """a call of a straight-line helper (private method or module function) is executed symbolically in place: extracting common code into a
        helper, or inlining one, leaves the translation unchanged"""
        if self.depth >= 4:
            raise TranslationError("helper calls nested deeper than 4 (%s)" % name)
        if fn.args.vararg or fn.args.kwarg or fn.args.kwonlyargs:
            raise TranslationError("helper %s with *args/**kwargs" % name)
        params = [a.arg for a in fn.args.args]
        new = {}
        if name.startswith("self."):
            if not params or params[0] != "self":
                raise TranslationError("method %s without self" % name)
            params = params[1:]
            for k, v in env.items():
                if k == "self" or k.startswith("self."):
                    new[k] = v
        if len(args) > len(params):
            raise TranslationError("too many arguments for %s" % name)
        defaults = fn.args.defaults
        for i, pname in enumerate(params):
            if i < len(args):
                new[pname] = args[i]
            elif pname in kwargs:
                new[pname] = kwargs[pname]
            else:
                j = i - (len(params) - len(defaults))
                if j < 0:
                    raise TranslationError("missing argument %s of %s" % (pname, name))
                new[pname] = self.ev(defaults[j], {})
        if any(isinstance(n, (ast.If, ast.For, ast.While, ast.Try, ast.With)) for n in ast.walk(fn)) and not any(("if:" + ast.unparse(n.test)) in self.handlers for n in ast.walk(fn) if isinstance(n, ast.If)):
            raise TranslationError("helper %s is not straight-line code" % name)
        self.depth += 1
        try:
            sub = self.run(fn.body, new)
        finally:
            self.depth -= 1
        for k, v in sub.items():
            if k.startswith("self."):
                env[k] = v
        if "__return__" not in sub:
            raise TranslationError("helper %s returns nothing" % name)
        return sub["__return__"]

    # ---------------------------------------------------------------- statements
    def run(self, stmts, env):
        for st in stmts:
            self.stmt(st, env)
        return env

    def assign(self, target, value, env):
        if isinstance(target, ast.Name):
            env[target.id] = value
        elif isinstance(target, ast.Attribute) and isinstance(target.value, ast.Name) and target.value.id == "self":
            env["self." + target.attr] = value  # object state written by a method: visible to later reads of self.<attr>
        elif isinstance(target, ast.Tuple):
            if not isinstance(value, tuple) or is_vec(value) or is_cond(value) or (value and isinstance(value[0], str)) or len(value) != len(target.elts):
                raise TranslationError("tuple assignment of a non-tuple")
            for t, v in zip(target.elts, value):
                self.assign(t, v, env)
        elif isinstance(target, ast.Subscript) and isinstance(target.value, ast.Name) and isinstance(target.slice, ast.Name) and is_cond(env.get(target.slice.id)):
            # x[mask] = value  ->  x := if mask then value else x
            old = env[target.value.id]
            c = env[target.slice.id]
            env[target.value.id] = ("vite", c, value, old) if is_vec(old) else ("ite", c, value, old)
        else:
            raise TranslationError("assignment target %s" % ast.unparse(target))

    def stmt(self, st, env):
        if isinstance(st, ast.Assign):
            if len(st.targets) != 1:
                raise TranslationError("multiple targets")
            self.assign(st.targets[0], self.ev(st.value, env), env)
        elif isinstance(st, ast.AugAssign):
            cur = self.ev(st.target, env) if not isinstance(st.target, ast.Subscript) else None
            if cur is None:
                raise TranslationError("augmented assignment to subscript")
            self.assign(st.target, self.binop(st.op, cur, self.ev(st.value, env)), env)
        elif isinstance(st, ast.Expr):
            if isinstance(st.value, ast.Constant):
                return  # docstring
            if isinstance(st.value, ast.Call):
                name = self.dotted(st.value.func)
                if name in self.handlers:
                    self.handlers[name](self, st.value.args, {k.arg: k.value for k in st.value.keywords}, env)
                    return
                if name in ("np.place", "np.putmask") and len(st.value.args) == 3 and isinstance(st.value.args[0], ast.Name) and st.value.args[0].id in env:
                    # np.place(x, mask, values)  ==  x[mask] = values   (per walker: x := if mask then value else x)
                    tgt = st.value.args[0].id
                    c = self.ev(st.value.args[1], env)
                    v = self.ev(st.value.args[2], env)
                    old = env[tgt]
                    if is_cond(c) and is_vec(v) == is_vec(old):
                        env[tgt] = ("vite", c, v, old) if is_vec(old) else ("ite", c, v, old)
                        return
            raise TranslationError("expression statement %s" % ast.unparse(st)[:60])
        elif isinstance(st, ast.Return):
            env["__return__"] = self.ev(st.value, env)
        elif isinstance(st, ast.If):
            # `if wf.dtype == float:` style static branches are resolved by a handler named 'if:<test source>'
            key = "if:" + ast.unparse(st.test)
            if key in self.handlers:
                taken = self.handlers[key](self, [], {}, env)
                self.run(st.body if taken else st.orelse, env)
            else:
                raise TranslationError("if statement %s" % ast.unparse(st.test))
        else:
            raise TranslationError("statement %s" % type(st).__name__)


# ---------------------------------------------------------------- locating code
def load_function(path, name):
    tree = ast.parse(open(path).read())
    for node in ast.walk(tree):
        if isinstance(node, ast.FunctionDef) and node.name == name:
            return node
    raise TranslationError("function %s not found in %s" % (name, path))


def innermost_for(fn, var):
    """body of the innermost `for <var> in ...` loop of a function"""
    found = None
    for node in ast.walk(fn):
        if isinstance(node, ast.For) and isinstance(node.target, ast.Name) and node.target.id == var:
            found = node
    if found is None:
        raise TranslationError("no loop over %s" % var)
    return found.body


def module_resolver(path):
    """helpers a kernel may call: module-level functions of the same file (straight-line ones are executed in place)"""
    tree = ast.parse(open(path).read())
    table = {n.name: n for n in tree.body if isinstance(n, ast.FunctionDef)}
    return lambda name: table.get(name)


def hoisted_prelude(se, fn, var, env):
    """loop-invariant assignments made before the innermost `for <var>` loop (at function level or in an enclosing loop body) are executed first,
    so that hoisting a subexpression out of the loop leaves the translation unchanged; statements the executor cannot read are skipped
    (an unknown name met later in the loop body is still a TranslationError)"""
    def walk(stmts):
        for st in stmts:
            if isinstance(st, ast.For):
                if isinstance(st.target, ast.Name) and st.target.id == var:
                    return True
                if any(isinstance(n, ast.For) and isinstance(n.target, ast.Name) and n.target.id == var for n in ast.walk(st)):
                    return walk(st.body)
                continue
            if isinstance(st, ast.Assign) and len(st.targets) == 1 and isinstance(st.targets[0], ast.Name) and st.targets[0].id not in env:
                try:
                    trial = dict(env)
                    keep = list(se.effects), dict(se.notes)
                    se.stmt(st, trial)
                    if se.effects != keep[0] or se.notes != keep[1]:     # a statement with effects is not a loop-invariant definition
                        se.effects[:] = keep[0]
                        se.notes.clear()
                        se.notes.update(keep[1])
                        continue
                    env[st.targets[0].id] = trial[st.targets[0].id]
                except (TranslationError, KeyError, AttributeError, TypeError):
                    pass
        return False
    walk(fn.body)
    return env


def find_nodes(e, kind, acc=None):
    """distinct sub-expressions of a given kind, in order of first appearance"""
    acc = acc if acc is not None else []
    if isinstance(e, tuple) and e and isinstance(e[0], str):
        if e[0] == kind and e not in acc:
            acc.append(e)
        for x in e[1:]:
            find_nodes(x, kind, acc)
    return acc


# ---------------------------------------------------------------- free symbols, printing
def free_syms(e, acc=None):
    acc = acc if acc is not None else {}
    if isinstance(e, tuple) and e:
        if e[0] == "s":
            acc.setdefault(e[1], "R")
        elif e[0] == "v":
            acc.setdefault(e[1], "vec3")
        elif e[0] == "fn":  # uninterpreted real function applied to an argument
            acc.setdefault(e[1], "R -> R")
            free_syms(e[2], acc)
        else:
            for x in e[1:]:
                free_syms(x, acc)
    return acc


def coq_q(f):
    if f.denominator == 1:
        return str(f.numerator) if f.numerator >= 0 else "(%d)" % f.numerator
    return "(%d / %d)" % (f.numerator, f.denominator) if f.numerator >= 0 else "(- (%d / %d))" % (-f.numerator, f.denominator)


def to_coq(e):
    k = e[0]
    if k == "c":
        return coq_q(e[1])
    if k in ("s", "v"):
        return e[1]
    b = {"add": "+", "sub": "-", "mul": "*", "div": "/"}
    if k in b:
        return "(%s %s %s)" % (to_coq(e[1]), b[k], to_coq(e[2]))
    if k == "neg":
        return "(- %s)" % to_coq(e[1])
    if k == "pow":
        return "(%s ^ %d)" % (to_coq(e[1]), e[2])
    if k in ("exp", "sqrt", "ln"):
        return "(%s %s)" % (k, to_coq(e[1]))
    if k == "fn":
        return "(%s %s)" % (e[1], to_coq(e[2]))
    if k == "abs":
        return "(Rabs %s)" % to_coq(e[1])
    if k == "sign":
        return "(sgn %s)" % to_coq(e[1])
    if k == "vsum":
        return "(vsum %s)" % to_coq(e[1])
    if k == "ite":
        return "(if %s then %s else %s)" % (cond_coq(e[1]), to_coq(e[2]), to_coq(e[3]))
    if k == "vite":
        return "(if %s then %s else %s)" % (cond_coq(e[1]), to_coq(e[2]), to_coq(e[3]))
    if k in ("vadd", "vsub"):
        return "(%s %s %s)" % (k, to_coq(e[1]), to_coq(e[2]))
    if k == "vscal":
        return "(vscal %s %s)" % (to_coq(e[1]), to_coq(e[2]))
    if k == "vdiv":
        return "(vscal (/ %s) %s)" % (to_coq(e[2]), to_coq(e[1]))
    if k == "vneg":
        return "(vscal (-1) %s)" % to_coq(e[1])
    if k == "vpow":
        return "(vpow %s %d)" % (to_coq(e[1]), e[2])
    if k == "vmul":
        return "(vmul %s %s)" % (to_coq(e[1]), to_coq(e[2]))
    raise TranslationError("print %s" % k)


def cond_coq(c):
    if c[0] == "lt":
        return "(Rlt_dec %s %s)" % (to_coq(c[1]), to_coq(c[2]))
    if c[0] == "le":
        return "(Rle_dec %s %s)" % (to_coq(c[1]), to_coq(c[2]))
    raise TranslationError("condition %s in expression position" % c[0])


def prop_coq(c):
    if c[0] == "lt":
        return "(%s < %s)" % (to_coq(c[1]), to_coq(c[2]))
    if c[0] == "le":
        return "(%s <= %s)" % (to_coq(c[1]), to_coq(c[2]))
    if c[0] == "not":
        return "(~ %s)" % prop_coq(c[1])
    if c[0] == "and":
        return "(%s /\\ %s)" % (prop_coq(c[1]), prop_coq(c[2]))
    raise TranslationError("condition %s" % c[0])


def definition(name, e, order=None):
    syms = free_syms(e)
    names = sorted(syms) if order is None else [n for n in order if n in syms] + sorted(n for n in syms if n not in order)
    binders = " ".join("(%s : %s)" % (n, syms[n]) for n in names)
    if is_cond(e):
        return "Definition %s %s : Prop := %s." % (name, binders, prop_coq(e)), names
    ty = "vec3" if is_vec(e) else "R"
    return "Definition %s %s : %s := %s." % (name, binders, ty, to_coq(e)), names


# ---------------------------------------------------------------- float evaluation (translator validation)
def sgn(x):
    return (x > 0) - (x < 0)


def evalf(e, val):
    """evaluate with Python floats; vectors are 3-tuples"""
    k = e[0]
    if k == "c":
        return float(e[1])
    if k in ("s", "v"):
        return val[e[1]]
    if k in ("add", "sub", "mul", "div"):
        a, b = evalf(e[1], val), evalf(e[2], val)
        return a + b if k == "add" else a - b if k == "sub" else a * b if k == "mul" else a / b
    if k == "neg":
        return -evalf(e[1], val)
    if k == "pow":
        return evalf(e[1], val) ** e[2]
    if k == "fn":
        return val[e[1]](evalf(e[2], val))
    if k == "exp":
        return math.exp(evalf(e[1], val))
    if k == "sqrt":
        return math.sqrt(evalf(e[1], val))
    if k == "ln":
        return math.log(evalf(e[1], val))
    if k == "abs":
        return abs(evalf(e[1], val))
    if k == "sign":
        return float(sgn(evalf(e[1], val)))
    if k == "vsum":
        return sum(evalf(e[1], val))
    if k in ("ite", "vite"):
        return evalf(e[2], val) if evalc(e[1], val) else evalf(e[3], val)
    if k == "vadd":
        return tuple(x + y for x, y in zip(evalf(e[1], val), evalf(e[2], val)))
    if k == "vsub":
        return tuple(x - y for x, y in zip(evalf(e[1], val), evalf(e[2], val)))
    if k == "vscal":
        s = evalf(e[1], val)
        return tuple(s * x for x in evalf(e[2], val))
    if k == "vdiv":
        s = evalf(e[2], val)
        return tuple(x / s for x in evalf(e[1], val))
    if k == "vneg":
        return tuple(-x for x in evalf(e[1], val))
    if k == "vpow":
        return tuple(x ** e[2] for x in evalf(e[1], val))
    if k == "vmul":
        return tuple(x * y for x, y in zip(evalf(e[1], val), evalf(e[2], val)))
    raise TranslationError("evalf %s" % k)


def evalc(c, val):
    if c[0] == "lt":
        return evalf(c[1], val) < evalf(c[2], val)
    if c[0] == "le":
        return evalf(c[1], val) <= evalf(c[2], val)
    if c[0] == "not":
        return not evalc(c[1], val)
    if c[0] == "and":
        return evalc(c[1], val) and evalc(c[2], val)
    raise TranslationError("evalc %s" % c[0])
