"""Regenerates coq/gen/Ewald2d_Gen.v from /repo's pyqmc/observables/ewald2d.py (C11):
 (1) the z-dependent reciprocal weight, the k = 0 weight and the self term as real expressions (erfc / erf uninterpreted);
 (2) every einsum contraction of the three energy routines with the MEANING of each operand axis (walker, ion, electron, pair, k-point),
     inferred from the calls that produced the operands.
Fail-closed: any construct it does not understand raises TranslationError."""
import ast
import os
import sys

sys.path.insert(0, os.path.dirname(os.path.abspath(__file__)))
from py2coq import SymExec, TranslationError, definition, F  # noqa
from gen_energy import method, sym  # noqa

PATH = "pyqmc/observables/ewald2d.py"


def fn(name):
    return lambda se, args, kw, env: ("fn", name, se.ev(args[0], env))


def un(kind):
    return lambda se, args, kw, env: (kind, se.ev(args[0], env))


def weights(repo):
    path = os.path.join(repo, PATH)
    common = {"self.gnorm": sym("g"), "self.alpha": sym("alpha"), "self.cell_area": sym("A"), "gpu.cp.pi": sym("PI"), "self.sum_gweight": sym("sumW"),
              "gpu.cp.exp": un("exp"), "gpu.cp.sqrt": un("sqrt"), "gpu.erfc": fn("erfc"), "gpu.erf": fn("erf"),
              "dist[..., 2][..., np.newaxis]": sym("z"), "dist[..., 2]": sym("z"), "dist[..., 2, np.newaxis]": sym("z"), "dist[..., 2, None]": sym("z"),
              "dist[..., 2][..., None]": sym("z"), "dist[..., 2:3]": sym("z"), "dist[..., 2:]": sym("z")}
    out = {}
    for nm, env0 in (("ewald_recip_weight", {}), ("ewald_recip_weight_charge", {}), ("ewald_self", {"sum_charge_squared": ("s", "q2")})):
        se = SymExec(common)
        env = dict(env0)
        se.run(method(path, "Ewald", nm).body, env)
        if "__return__" not in env:
            raise TranslationError("%s returns nothing" % nm)
        out[nm] = env["__return__"]
    return out


# ---------------------------------------------------------------- axis meanings
def labels_of(node, env):
    """axis meanings of the value of an expression (None when not an array we track)"""
    src = ast.unparse(node).replace(" ", "")
    if src in ("self.atom_charges", "-self.atom_charges"):
        return ["ion"]
    if src == "self.gpoints":
        return ["kpoint", "xyz"]
    if isinstance(node, ast.Name):
        if node.id in env:
            return env[node.id]
        raise TranslationError("operand %s has unknown axes" % node.id)
    if isinstance(node, ast.UnaryOp):
        return labels_of(node.operand, env)
    if isinstance(node, ast.BinOp) and isinstance(node.op, ast.Mult):
        # scalar * array
        for side, other in ((node.left, node.right), (node.right, node.left)):
            if isinstance(side, ast.Constant):
                return labels_of(other, env)
        raise TranslationError("product %s" % src)
    if isinstance(node, ast.Attribute) and node.attr == "real":
        return labels_of(node.value, env)
    if isinstance(node, ast.Call):
        f = ast.unparse(node.func).replace(" ", "")
        a = node.args
        if f in ("gpu.cp.cos", "gpu.cp.sin", "gpu.cp.exp"):
            return labels_of(a[0], env)
        if f == "ewald.real_cij":
            return labels_of(a[0], env)[:-1]
        if f == "self.ewald_recip_weight":
            return labels_of(a[0], env)[:-1] + ["kpoint"]
        if f == "self.ewald_recip_weight_charge":
            return labels_of(a[0], env)[:-1]
        if f == "configs.dist.pairwise":
            if [ast.unparse(x).replace(" ", "") for x in a] != ["self.atom_coords", "configs.configs"]:
                raise TranslationError("pairwise(%s)" % ast.unparse(node))
            return ["walker", "ion", "electron", "xyz"]
        if f == "gpu.cp.prod":
            l = labels_of(a[0], env)
            ax = [k.value for k in node.keywords if k.arg == "axis"]
            if len(ax) != 1 or ast.literal_eval(ax[0]) != 1 or len(l) != 2:
                raise TranslationError("prod %s" % src)
            return l[:1]
        if f in ("gpu.cp.einsum",):
            spec, ops = einsum_site(node, env)
            return type_einsum(spec, ops)
    if isinstance(node, ast.Subscript):
        s = ast.unparse(node).replace(" ", "")
        if s.startswith("self.atom_charges[gpu.cp.asarray(") and s.endswith(")]"):
            inner = s[len("self.atom_charges[gpu.cp.asarray("):-2]
            if env.get(inner) == ["__ionpair_index__"]:
                return ["ionpair", "two"]
    raise TranslationError("axes of %s" % src)


def einsum_site(node, env):
    if not (node.args and isinstance(node.args[0], ast.Constant) and isinstance(node.args[0].value, str)):
        raise TranslationError("einsum without literal subscripts")
    return node.args[0].value.replace(" ", ""), [labels_of(x, env) for x in node.args[1:]]


def type_einsum(spec, ops):
    ins, out = spec.split("->")
    ins = ins.split(",")
    if len(ins) != len(ops):
        raise TranslationError("einsum %s with %d operands" % (spec, len(ops)))
    m = {}
    for letters, labs in zip(ins, ops):
        if len(letters) != len(labs):
            return None
        for c, l in zip(letters, labs):
            if m.setdefault(c, l) != l:
                return None
    if any(c not in m for c in out):
        return None
    return [m[c] for c in out]


UNTYPED = []


def contractions(repo):
    del UNTYPED[:]
    path = os.path.join(repo, PATH)
    sites = []
    for mname in ("set_ewald_ion_ion", "ewald_elec_ion", "ewald_elec_elec"):
        fn_ = method(path, "Ewald", mname)
        env = {}
        for st in ast.walk(fn_):
            if not isinstance(st, ast.Assign) or len(st.targets) != 1:
                continue
            t, v = st.targets[0], st.value
            vs = ast.unparse(v).replace(" ", "")
            if isinstance(t, ast.Tuple) and len(t.elts) == 2 and all(isinstance(e, ast.Name) for e in t.elts):
                if vs == "self.dist.dist_matrix(self.atom_coords)":
                    env[t.elts[0].id], env[t.elts[1].id] = ["one", "ionpair", "xyz"], ["__ionpair_index__"]
                elif vs == "configs.dist.dist_matrix(configs.configs)":
                    env[t.elts[0].id], env[t.elts[1].id] = ["walker", "pair", "xyz"], ["__pair_index__"]
                continue
            if not isinstance(t, ast.Name):
                continue
            # collect einsum calls anywhere inside the right-hand side
            for sub in ast.walk(v):
                if isinstance(sub, ast.Call) and ast.unparse(sub.func).replace(" ", "") in ("gpu.cp.einsum", "np.einsum"):
                    try:
                        spec, ops = einsum_site(sub, env)
                    except TranslationError as ex:
                        # operand with axes unknown to the typer: listed as untyped in the evidence, left to the numerical oracle, not an alarm
                        UNTYPED.append({"method": mname, "line": sub.lineno, "reason": str(ex)})
                        continue
                    sites.append({"method": mname, "line": sub.lineno, "target": t.id, "spec": spec, "operands": ops, "typed": type_einsum(spec, ops)})
            try:
                env[t.id] = labels_of(v, env)
            except TranslationError:
                pass  # scalars and intermediate values that are not operands of a later contraction
    # the number of typed sites is reported in the evidence (a source that contracts without einsum has fewer sites to type)
    return sites


LABELS = ["walker", "ion", "electron", "pair", "ionpair", "kpoint", "xyz", "one", "two"]


def coq_str_list(s):
    return "[" + "; ".join('"%s"%%char' % c for c in s) + "]"


def gen(repo):
    w = weights(repo)
    sites = contractions(repo)
    lines = []
    for nm, key in (("w2d_recip", "ewald_recip_weight"), ("w2d_charge", "ewald_recip_weight_charge"), ("w2d_self", "ewald_self")):
        txt, names = definition(nm, w[key], ["g", "z", "alpha", "A", "PI", "sumW", "q2", "erfc", "erf"])
        lines.append(txt)
    lines.append("")
    lines.append("(* (subscripts of the operands, subscripts of the result, meaning of every operand axis) for each einsum of set_ewald_ion_ion, ewald_elec_ion, ewald_elec_elec *)")
    rows = []
    for s in sites:
        ins, out = s["spec"].split("->")
        rows.append("  (%s, %s, %s) (* %s line %d: %s = einsum(\"%s\") *)" % (
            "[" + "; ".join(coq_str_list(x) for x in ins.split(",")) + "]", coq_str_list(out),
            "[" + "; ".join("[" + "; ".join("Ax_" + l for l in op) + "]" for op in s["operands"]) + "]", s["method"], s["line"], s["target"], s["spec"]))
    body = ""
    for i, r in enumerate(rows):
        head, comment = r.split(" (* ", 1)
        body += head + (";" if i + 1 < len(rows) else "") + " (* " + comment + "\n"
    lines.append("Definition contraction_sites : list site := [\n" + body + "].")
    header = ("(* GENERATED by /verif/translator/gen_ewald2d.py from /repo/pyqmc/observables/ewald2d.py on every run — do not edit. *)\n"
              "From Coq Require Import Reals List Ascii.\nFrom PyQMC Require Import base.Einsum.\nImport ListNotations.\nOpen Scope R_scope.\n\n")
    return header + "\n".join(lines) + "\n", sites


def main_for(repo, outdir):
    txt, sites = gen(repo)
    os.makedirs(outdir, exist_ok=True)
    path = os.path.join(outdir, "Ewald2d_Gen.v")
    old = open(path).read() if os.path.exists(path) else None
    if old != txt:
        open(path, "w").write(txt)
    return {"contractions": [{k: s[k] for k in ("method", "line", "spec", "operands", "typed")} for s in sites]}


if __name__ == "__main__":
    try:
        r = main_for(sys.argv[1] if len(sys.argv) > 1 else "/repo", os.path.join(os.path.dirname(os.path.dirname(os.path.abspath(__file__))), "coq", "gen"))
        for s in r["contractions"]:
            print(s)
    except TranslationError as e:
        print("TRANSLATION-ERROR:", e)
        sys.exit(2)
