"""Regenerates coq/gen/Func3d_Gen.v from /repo's pyqmc/wf/func3d.py (radial Jastrow basis functions, C04)
and the local-energy assembly lines of pyqmc/observables/energy.py. Fail-closed."""
import ast
import json
import os
import sys

sys.path.insert(0, os.path.dirname(os.path.abspath(__file__)))
from py2coq import SymExec, Opaque, TranslationError, load_function, definition, F  # noqa


def load_method(path, cls, name):
    tree = ast.parse(open(path).read())
    for node in ast.walk(tree):
        if isinstance(node, ast.ClassDef) and node.name == cls:
            for m in node.body:
                if isinstance(m, ast.FunctionDef) and m.name == name:
                    return m
    raise TranslationError("method %s.%s not found" % (cls, name))


def class_resolver(path, cls):
    """helpers a method may call: other methods of its class (self.<name>) and module-level functions of the same file"""
    tree = ast.parse(open(path).read())
    table = {}
    for node in tree.body:
        if isinstance(node, ast.FunctionDef):
            table[node.name] = node
        if isinstance(node, ast.ClassDef) and node.name == cls:
            for m in node.body:
                if isinstance(m, ast.FunctionDef):
                    table["self." + m.name] = m
    return lambda name: table.get(name)


def param_handlers(names):
    h = {}
    for n in names:
        h["self.parameters['%s']" % n] = (lambda nn: (lambda se, a, k, e: ("s", nn)))(n)
    # r[..., np.newaxis] and np.squeeze(x, axis=-1) only change array shapes
    h["r[..., np.newaxis]"] = lambda se, a, k, e: e["r"]
    h["np.squeeze"] = lambda se, a, k, e: se.ev(a[0], e)
    return h


ORDER = ["r", "beta", "gamma", "rcut"]


def gen(repo):
    path = os.path.join(repo, "pyqmc/wf/func3d.py")
    out, dag = [], {}

    def emit(name, e):
        txt, names = definition(name, e, ORDER)
        out.append(txt)
        dag[name] = {"expr": e, "args": names}

    # PolyPadeFunction: the methods the wave functions call are executed symbolically (the module-level kernels polypade* and any private helper
    # are executed in place); rvec is replaced by the scalar 1, so that the 'gradient' is the radial factor G(r) with grad = rvec * G(r)
    hp = param_handlers(["beta", "rcut"])
    for meth in ("value", "gradient_value", "gradient_laplacian"):
        m = load_method(path, "PolyPadeFunction", meth)
        se = SymExec(hp, resolver=class_resolver(path, "PolyPadeFunction"))
        env = {"r": ("s", "r"), "rvec": ("c", F(1)), "self": Opaque("self")}
        ret = se.run(m.body, env).get("__return__")
        if meth == "value":
            emit("pp_value", ret)
        else:
            if not (isinstance(ret, tuple) and len(ret) == 2 and not isinstance(ret[0], str)):
                raise TranslationError("PolyPadeFunction.%s does not return a pair" % meth)
            emit("pp_gv_gradr" if meth == "gradient_value" else "pp_gl_gradr", ret[0])
            emit("pp_gv_value" if meth == "gradient_value" else "pp_gl_lap", ret[1])
    # CutoffCuspFunction: rvec is replaced by the scalar 1, so that the 'gradient' is the radial factor G(r) with grad = rvec * G(r)
    h = param_handlers(["gamma", "rcut"])
    for meth in ("value", "gradient", "gradient_value", "gradient_laplacian"):
        m = load_method(path, "CutoffCuspFunction", meth)
        se = SymExec(h, resolver=class_resolver(path, "CutoffCuspFunction"))
        env = {"r": ("s", "r"), "rvec": ("c", F(1)), "self": Opaque("self")}
        ret = se.run(m.body, env)["__return__"]
        if meth == "value":
            emit("cusp_value", ret)
        elif meth == "gradient":
            emit("cusp_g_gradr", ret)
        elif meth == "gradient_value":
            emit("cusp_gv_gradr", ret[0])
            emit("cusp_gv_value", ret[1])
        else:
            emit("cusp_gl_gradr", ret[0])
            emit("cusp_gl_lap", ret[1])
    # CutoffFunc3dEvaluator: values are only taken for r < rcut, zero elsewhere
    m = load_method(path, "CutoffFunc3dEvaluator", "value")
    sel = [ast.unparse(s.value) for s in m.body if isinstance(s, ast.Assign) and isinstance(s.targets[0], ast.Name) and s.targets[0].id == "select"]
    m2 = load_method(path, "CutoffFunc3dEvaluator", "_grad_x")
    sel2 = [ast.unparse(s.value) for s in m2.body if isinstance(s, ast.Assign) and isinstance(s.targets[0], ast.Name) and s.targets[0].id == "select"]
    if sel != ["r < self.rcut"] or sel2 != ["r < self.rcut"]:
        raise TranslationError("CutoffFunc3dEvaluator: the cutoff mask is not `r < self.rcut`: %s %s" % (sel, sel2))
    # energy.kinetic: the statements before the electron loop, TWO iterations of its body (Laplacians lap1, lap2) and the statements after it are
    # executed symbolically; the kinetic energy returned must be -(lap1 + lap2)/2 (theorem in C04): accumulation and factor, however it is spelled
    kpath = os.path.join(repo, "pyqmc/observables/energy.py")
    fn = load_function(kpath, "kinetic")
    loops = [(k, st) for k, st in enumerate(fn.body) if isinstance(st, ast.For) and isinstance(st.target, ast.Name)]
    if len(loops) != 1:
        raise TranslationError("energy.kinetic: expected one loop over the electrons")
    k, loop = loops[0]
    count = [0]

    def h_gl(se_, a, kw_, e_):
        count[0] += 1
        return (("v", "grad%d" % count[0]), ("s", "lap%d" % count[0]))
    hk = {"wf.gradient_laplacian": h_gl, "configs.electron": lambda se_, a, kw_, e_: Opaque("cur"),
          "np.abs": lambda se_, a, kw_, e_: se_.ev(a[0], e_), "np.sum": lambda se_, a, kw_, e_: ("vsum", se_.ev(a[0], e_))}
    se = SymExec(hk, resolver=class_resolver(kpath, None))
    env = {"configs": Opaque("configs"), "wf": Opaque("wf"), "nconf": Opaque("nconf"), "nelec": Opaque("nelec"), loop.target.id: Opaque("e")}
    for st in fn.body[:k]:
        try:
            trial = dict(env)
            se.stmt(st, trial)
            env = trial
        except (TranslationError, KeyError, AttributeError, TypeError):
            pass
    se.run(loop.body, env)
    se.run(loop.body, env)
    se.run(fn.body[k + 1:], env)
    ret = env.get("__return__")
    if not (isinstance(ret, tuple) and len(ret) == 2 and not isinstance(ret[0], str)) or count[0] != 2:
        raise TranslationError("energy.kinetic: unexpected structure (return value / Laplacian calls)")
    emit("kinetic_two_electrons", ret[0])
    header = ("(* GENERATED by /verif/translator/gen_func3d.py from /repo's pyqmc/wf/func3d.py on every run — do not edit.\n"
              "   Radial parts: value(r), and the factor G(r) with gradient = rvec * G(r). *)\n"
              "From Coq Require Import Reals.\nOpen Scope R_scope.\n\n")
    return header + "\n".join(out) + "\n", dag


def main_for(repo, outdir):
    txt, dag = gen(repo)
    os.makedirs(outdir, exist_ok=True)
    path = os.path.join(outdir, "Func3d_Gen.v")
    old = open(path).read() if os.path.exists(path) else None
    if old != txt:
        open(path, "w").write(txt)
    return dag


if __name__ == "__main__":
    try:
        main_for(sys.argv[1] if len(sys.argv) > 1 else "/repo", os.path.join(os.path.dirname(os.path.dirname(os.path.abspath(__file__))), "coq", "gen"))
        print(open(os.path.join(os.path.dirname(os.path.dirname(os.path.abspath(__file__))), "coq", "gen", "Func3d_Gen.v")).read())
    except TranslationError as e:
        print("TRANSLATION-ERROR:", e)
        sys.exit(2)
