"""Regenerates coq/gen/Legendre_Gen.v from /repo: the Legendre functions P_l hard-coded in every copy of `P_l`
(pyqmc/observables/eval_ecp.py, ecp_accumulator.py) as rational expressions in x (C12). Fail-closed."""
import ast
import os
import sys
from fractions import Fraction

sys.path.insert(0, os.path.dirname(os.path.abspath(__file__)))
from py2coq import TranslationError  # noqa

FILES = ["pyqmc/observables/eval_ecp.py", "pyqmc/observables/ecp_accumulator.py"]


def qlit(fr):
    return "(%d # %d)" % (fr.numerator, fr.denominator) if fr.numerator >= 0 else "(- (%d # %d))" % (-fr.numerator, fr.denominator)


def expr(node, env):
    """(coq text over Q, python evaluator) of an arithmetic expression in x and the local names bound so far"""
    if isinstance(node, ast.Constant) and isinstance(node.value, (int, float)) and not isinstance(node.value, bool):
        fr = Fraction(repr(node.value)) if isinstance(node.value, float) else Fraction(node.value)
        return qlit(fr), (lambda x, fr=fr: fr)
    if isinstance(node, ast.Name) and node.id == "x":
        return "x", (lambda x: x)
    if isinstance(node, ast.Name) and node.id in env:
        return env[node.id]
    if isinstance(node, ast.UnaryOp) and isinstance(node.op, ast.USub):
        c, f = expr(node.operand, env)
        return "(- %s)" % c, (lambda x: -f(x))
    if isinstance(node, ast.BinOp):
        (ca, fa), (cb, fb) = expr(node.left, env), expr(node.right, env)
        if isinstance(node.op, ast.Add):
            return "(%s + %s)" % (ca, cb), (lambda x: fa(x) + fb(x))
        if isinstance(node.op, ast.Sub):
            return "(%s - %s)" % (ca, cb), (lambda x: fa(x) - fb(x))
        if isinstance(node.op, ast.Mult):
            return "(%s * %s)" % (ca, cb), (lambda x: fa(x) * fb(x))
        if isinstance(node.op, ast.Div) and isinstance(node.right, ast.Constant) and node.right.value != 0:
            return "(%s / %s)" % (ca, cb), (lambda x: fa(x) / fb(x))
        if isinstance(node.op, ast.Pow) and isinstance(node.right, ast.Constant) and isinstance(node.right.value, int) and 0 <= node.right.value <= 8:
            n = node.right.value
            return "(%s ^ %d)" % (ca, n), (lambda x: fa(x) ** n)
    if isinstance(node, ast.Call):
        fn = ast.unparse(node.func)
        arg = ast.unparse(node.args[0]) if node.args else ""
        if (fn in ("np.ones", "np.zeros") and arg == "x.shape") or (fn in ("np.ones_like", "np.zeros_like") and arg == "x"):
            v = 1 if "ones" in fn else 0
            return qlit(Fraction(v)), (lambda x, v=v: Fraction(v))
    raise TranslationError("P_l expression %s" % ast.unparse(node)[:60])


def branches(fn):
    """{l: (coq, evaluator)} from the if/elif chain on `l == k` (simple local assignments are substituted)"""
    out = {}

    def walk(stmts, env):
        env = dict(env)
        for st in stmts:
            if isinstance(st, ast.Expr) and isinstance(st.value, ast.Constant):
                continue
            if isinstance(st, ast.Assign) and len(st.targets) == 1 and isinstance(st.targets[0], ast.Name) and st.targets[0].id not in ("x", "l"):
                env[st.targets[0].id] = expr(st.value, env)
            elif isinstance(st, ast.If):
                t = st.test
                if not (isinstance(t, ast.Compare) and isinstance(t.left, ast.Name) and t.left.id == "l" and len(t.ops) == 1 and isinstance(t.ops[0], ast.Eq)):
                    raise TranslationError("P_l branch test %s" % ast.unparse(t))
                k = int(ast.literal_eval(t.comparators[0]))
                benv = dict(env)
                for b in st.body[:-1]:
                    if isinstance(b, ast.Assign) and len(b.targets) == 1 and isinstance(b.targets[0], ast.Name) and b.targets[0].id not in ("x", "l"):
                        benv[b.targets[0].id] = expr(b.value, benv)
                    else:
                        raise TranslationError("P_l branch l == %s: statement %s" % (k, type(b).__name__))
                if not st.body or not isinstance(st.body[-1], ast.Return) or st.body[-1].value is None:
                    raise TranslationError("P_l branch l == %s does not end in a return" % k)
                if k not in out:          # an earlier branch with the same test wins
                    out[k] = expr(st.body[-1].value, benv)
                walk(st.orelse, env)
            elif isinstance(st, ast.Raise):
                return
            else:
                raise TranslationError("P_l statement %s" % type(st).__name__)
    walk(fn.body, {})
    return out


def gen(repo):
    lines, evals = [], {}
    for f in FILES:
        tree = ast.parse(open(os.path.join(repo, f)).read())
        fns = [n for n in ast.walk(tree) if isinstance(n, ast.FunctionDef) and n.name == "P_l"]
        if len(fns) != 1:
            raise TranslationError("%s: %d definitions of P_l" % (f, len(fns)))
        br = branches(fns[0])
        if sorted(br) != [-1, 0, 1, 2, 3, 4]:
            raise TranslationError("%s: P_l has branches %s, expected -1..4" % (f, sorted(br)))
        tag = os.path.basename(f)[:-3]
        for l in sorted(br):
            c, ev = br[l]
            name = "P_src_%s_%s" % (tag, ("m1" if l < 0 else str(l)))
            lines.append("Definition %s (x : Q) : Q := %s." % (name, c))
            evals[(tag, l)] = ev
        lines.append("Definition P_src_%s (l : nat) (x : Q) : Q := match l with O => P_src_%s_0 x | 1%%nat => P_src_%s_1 x | 2%%nat => P_src_%s_2 x | 3%%nat => P_src_%s_3 x | 4%%nat => P_src_%s_4 x | _ => 0 end." % ((tag,) * 6))
    header = ("(* GENERATED by /verif/translator/gen_legendre.py from every copy of P_l in /repo (eval_ecp.py, ecp_accumulator.py) on every run — do not edit. *)\n"
              "From Coq Require Import QArith.\nOpen Scope Q_scope.\n\n")
    return header + "\n".join(lines) + "\n", evals


def main_for(repo, outdir):
    txt, evals = gen(repo)
    os.makedirs(outdir, exist_ok=True)
    path = os.path.join(outdir, "Legendre_Gen.v")
    old = open(path).read() if os.path.exists(path) else None
    if old != txt:
        open(path, "w").write(txt)
    return evals


if __name__ == "__main__":
    try:
        ev = main_for(sys.argv[1] if len(sys.argv) > 1 else "/repo", os.path.join(os.path.dirname(os.path.dirname(os.path.abspath(__file__))), "coq", "gen"))
        print(sorted(ev))
    except TranslationError as e:
        print("TRANSLATION-ERROR:", e)
        sys.exit(2)
