"""Regenerates coq/gen/Energy_Gen.v from /repo's current source (C10): the Ewald self/background constants
(ewald.Ewald.set_ewald_constants, ee_const, ei_const) and the assembly of the local energy (EnergyAccumulator.__call__).
Fail-closed: any construct the symbolic executor does not understand raises TranslationError."""
import ast
import os
import sys

sys.path.insert(0, os.path.dirname(os.path.abspath(__file__)))
from py2coq import SymExec, Opaque, TranslationError, definition, to_coq, free_syms, F  # noqa


def method(path, cls, name):
    tree = ast.parse(open(path).read())
    for c in ast.walk(tree):
        if isinstance(c, ast.ClassDef) and c.name == cls:
            for m in c.body:
                if isinstance(m, ast.FunctionDef) and m.name == name:
                    return m
    raise TranslationError("%s.%s not found in %s" % (cls, name, path))


def sym(n):
    return lambda se, args, kw, env: ("s", n)


def ewald_constants(repo):
    path = os.path.join(repo, "pyqmc/observables/ewald.py")

    def h_sum(se, args, kw, env):
        # np.sum over the ion charges Z (a per-ion quantity): sum Z = S1, sum Z^2 = S2 — recognised by value, not by spelling
        v = se.ev(args[0], env)
        Z = ("s", "Z")
        if v == Z:
            return ("s", "S1")
        if v in (("pow", Z, 2), ("mul", Z, Z)):
            return ("s", "S2")
        raise TranslationError("np.sum(%s)" % ast.unparse(args[0]))

    handlers = {"np.sum": h_sum, "np.pi": sym("PI"), "self.alpha": sym("alpha"), "self.ewald_ion": sym("ion_ion_sum"), "self.atom_charges": sym("Z")}
    se = SymExec(handlers)
    env = {"cellvolume": ("s", "V")}
    fn = method(path, "Ewald", "set_ewald_constants")
    se.run([st for st in fn.body], env)
    need = ["self.ijconst", "self.squareconst", "self.ii_const", "self.i_sum"]
    for k in need:
        if k not in env:
            raise TranslationError("set_ewald_constants no longer assigns %s" % k)
    out = {"ijconst": env["self.ijconst"], "squareconst": env["self.squareconst"], "ii_const": env["self.ii_const"], "i_sum": env["self.i_sum"]}
    # the per-electron-number constants, in terms of the object's stored constants
    h2 = {"self.ijconst": lambda se, a, k, e: env["self.ijconst"], "self.squareconst": lambda se, a, k, e: env["self.squareconst"], "self.i_sum": lambda se, a, k, e: env["self.i_sum"]}
    for nm in ("ee_const", "ei_const"):
        se2 = SymExec(h2)
        e2 = {"ne": ("s", "ne")}
        se2.run(method(path, "Ewald", nm).body, e2)
        if "__return__" not in e2:
            raise TranslationError("%s returns nothing" % nm)
        out[nm] = e2["__return__"]
    # energy(): which constants are added to which part
    fe = method(path, "Ewald", "energy")
    h3 = {"self.ewald_electron": lambda se, a, k, e: (("s", "ee_sum"), ("s", "ei_sum")), "configs.configs.shape[1]": sym("ne"),
          "self.ee_const": lambda se, a, k, e: out["ee_const"], "self.ei_const": lambda se, a, k, e: out["ei_const"],
          "self.ion_ion": sym("ion_ion_sum"), "self.ii_const": lambda se, a, k, e: out["ii_const"], "gpu.asnumpy": lambda se, a, k, e: se.ev(a[0], e)}
    se3 = SymExec(h3)
    e3 = {}
    se3.run(fe.body, e3)
    ret = e3.get("__return__")
    if not (isinstance(ret, tuple) and len(ret) == 3):
        raise TranslationError("Ewald.energy does not return three parts")
    out["energy_ee"], out["energy_ei"], out["energy_ii"] = ret
    return out


def accumulator_total(repo):
    path = os.path.join(repo, "pyqmc/observables/accumulators.py")
    fn = method(path, "EnergyAccumulator", "__call__")
    results = []
    for old in (True, False):
        h = {"self.coulomb.energy": lambda se, a, k, e: (("s", "ee"), ("s", "ei"), ("s", "ii")),
             "eval_ecp.ecp": sym("ecp"), "self.ecp": sym("ecp"), "energy.kinetic": lambda se, a, k, e: (("s", "ke"), ("s", "grad2")),
             "np.asarray": lambda se, a, k, e: se.ev(a[0], e), "if:self.use_old_ecp": (lambda o: (lambda se, a, k, e: o))(old)}
        se = SymExec(h)
        env = {}
        se.run(fn.body, env)
        r = env.get("__return__")
        if not isinstance(r, Opaque) or not isinstance(r.tag, dict):
            raise TranslationError("EnergyAccumulator.__call__ does not return a literal dictionary")
        results.append(r.tag)
    if sorted(results[0]) != sorted(results[1]) or any(results[0][k] != results[1][k] for k in results[0]):
        raise TranslationError("the two pseudopotential branches assemble different dictionaries")
    return results[0]


# ---------------------------------------------------------------- einsum contractions of ewald.py with the meaning of each axis
def labels3d(node, env):
    src = ast.unparse(node).replace(" ", "")
    if src in ("self.atom_charges", "-self.atom_charges"):
        return ["ion"]
    if src == "self.gpoints" or src == "gpoints":
        return env.get("gpoints", ["kpoint", "xyz"])
    if src == "self.lattice_displacements":
        return ["image", "xyz"]
    if isinstance(node, ast.Name):
        if node.id in env:
            return env[node.id]
        raise TranslationError("operand %s has unknown axes" % node.id)
    if isinstance(node, ast.UnaryOp):
        return labels3d(node.operand, env)
    if isinstance(node, ast.BinOp):
        if src.endswith("[:,:,np.newaxis,:]+self.lattice_displacements") and isinstance(node.left, ast.Subscript):
            base = labels3d(node.left.value, env)
            return base[:-1] + ["image", "xyz"]
        sides = []
        for side in (node.left, node.right):
            try:
                sides.append(labels3d(side, env))
            except TranslationError:
                sides.append(None)  # a scalar (self.alpha, 2 * np.pi, ...)
        known = [x for x in sides if x is not None]
        if len(known) == 1 or (len(known) == 2 and known[0] == known[1]):
            return known[0]
        raise TranslationError("axes of %s" % src)
    if isinstance(node, ast.Call):
        f = ast.unparse(node.func).replace(" ", "")
        a = node.args
        if f in ("gpu.erfc", "gpu.cp.cos", "gpu.cp.sin", "gpu.cp.exp", "gpu.cp.asarray", "np.asarray", "gpu.cp.abs"):
            return labels3d(a[0], env)
        if f in ("gpu.cp.linalg.norm", "np.linalg.norm"):
            ax = [k.value for k in node.keywords if k.arg == "axis"]
            if len(ax) == 1 and ast.literal_eval(ax[0]) == -1:
                return labels3d(a[0], env)[:-1]
        if f == "real_cij":
            return labels3d(a[0], env)[:-1]
        if f == "configs.dist.pairwise" and [ast.unparse(x).replace(" ", "") for x in a] == ["self.atom_coords[np.newaxis]", "configs.configs"]:
            return ["walker", "ion", "electron", "xyz"]
        if f == "gpu.cp.prod":
            inner = ast.unparse(a[0]).replace(" ", "")
            if inner == "self.atom_charges[np.asarray(ion_inds)]" and env.get("ion_inds") == ["__ionpair_index__"]:
                return ["ionpair"]
    raise TranslationError("axes of %s" % src)


UNTYPED = []


def contractions3d(repo):
    del UNTYPED[:]
    from gen_ewald2d import type_einsum
    path = os.path.join(repo, "pyqmc/observables/ewald.py")
    tree = ast.parse(open(path).read())
    funcs = {}
    for n in ast.walk(tree):
        if isinstance(n, ast.FunctionDef):
            funcs[n.name] = n
    plan = {"ewald_ion": {}, "ewald_electron": {}, "reciprocal_space_electron": {"configs": ["walker", "electron", "xyz"]},
            "select_big": {"gpoints": ["kpoint", "xyz"]}, "generate_positive_gpoints": {"gpts": ["coef", "kpoint"], "recvec": ["coef", "xyz"]}}
    sites = []
    for fname, env0 in plan.items():
        fn = funcs.get(fname)
        if fn is None:
            raise TranslationError("ewald.py: function %s not found" % fname)
        env = dict(env0)
        for st in ast.walk(fn):
            if not isinstance(st, ast.Assign) or len(st.targets) != 1:
                continue
            t, v = st.targets[0], st.value
            vs = ast.unparse(v).replace(" ", "")
            if isinstance(t, ast.Tuple) and len(t.elts) == 2 and all(isinstance(e, ast.Name) for e in t.elts):
                if vs == "dist.dist_matrix(self.atom_coords[np.newaxis])":
                    env[t.elts[0].id], env[t.elts[1].id] = ["one", "ionpair", "xyz"], ["__ionpair_index__"]
                elif vs == "configs.dist.dist_matrix(configs.configs)":
                    env[t.elts[0].id], env[t.elts[1].id] = ["walker", "pair", "xyz"], ["__pair_index__"]
                continue
            if not isinstance(t, ast.Name):
                continue
            for sub in ast.walk(v):
                if isinstance(sub, ast.Call) and ast.unparse(sub.func).replace(" ", "") in ("gpu.cp.einsum", "np.einsum"):
                    spec = sub.args[0].value.replace(" ", "")
                    try:
                        ops = [labels3d(x, env) for x in sub.args[1:] if not (isinstance(x, ast.keyword))]
                    except TranslationError as ex:
                        # an operand whose axes the typer does not know (new local name, new helper): the site is listed as untyped in the
                        # evidence and left to the numerical oracle; it is not an alarm
                        UNTYPED.append({"function": fname, "line": sub.lineno, "spec": spec, "reason": str(ex)})
                        continue
                    sites.append({"function": fname, "line": sub.lineno, "target": t.id, "spec": spec, "operands": ops, "typed": type_einsum(spec, ops)})
            try:
                env[t.id] = labels3d(v, env)
            except TranslationError:
                pass
    # the number of typed sites is reported in the evidence; a source that spells its contractions without einsum (tensordot, matmul, sums)
    # simply has fewer sites to type — the Ewald oracle decides those lines
    return sites


ORDER = ["ne", "S1", "S2", "V", "alpha", "ee_sum", "ei_sum", "ion_ion_sum", "ke", "ee", "ei", "ecp", "ii", "grad2"]


def gen(repo):
    c = ewald_constants(repo)
    d = accumulator_total(repo)
    lines = []
    sigs = {}
    for nm in ("ijconst", "squareconst", "ii_const", "i_sum", "ee_const", "ei_const", "energy_ee", "energy_ei", "energy_ii"):
        txt, names = definition("ewald_" + nm, c[nm], ORDER)
        lines.append(txt)
        sigs["ewald_" + nm] = names
    for k in sorted(d):
        txt, names = definition("acc_" + k, d[k], ORDER)
        lines.append(txt)
        sigs["acc_" + k] = names
    from gen_ewald2d import coq_str_list
    sites = contractions3d(repo)
    rows = []
    for i, st in enumerate(sites):
        ins, out = st["spec"].split("->")
        rows.append("  (%s, %s, %s)%s (* %s line %d: %s = einsum(\"%s\") *)" % (
            "[" + "; ".join(coq_str_list(x) for x in ins.split(",")) + "]", coq_str_list(out),
            "[" + "; ".join("[" + "; ".join("Ax_" + l for l in op) + "]" for op in st["operands"]) + "]", ";" if i + 1 < len(sites) else "", st["function"], st["line"], st["target"], st["spec"]))
    lines.append("(* every einsum of ewald.py with the meaning of each operand axis *)")
    lines.append("Definition ewald3d_sites : list site := [\n" + "\n".join(rows) + "\n].")
    header = ("(* GENERATED by /verif/translator/gen_energy.py from /repo (pyqmc/observables/ewald.py: set_ewald_constants, ee_const, ei_const, energy;\n"
              "   pyqmc/observables/accumulators.py: EnergyAccumulator.__call__) on every run — do not edit.\n"
              "   S1 = sum of ion charges, S2 = sum of squared ion charges, V = cell volume, ne = number of electrons;\n"
              "   ee_sum / ei_sum / ion_ion_sum = the real+reciprocal sums computed elsewhere. *)\n"
              "From Coq Require Import Reals List Ascii.\nFrom PyQMC Require Import base.Einsum.\nImport ListNotations.\nOpen Scope R_scope.\n\n")
    return header + "\n".join(lines) + "\n", sigs, sorted(d), sites


def main_for(repo, outdir):
    txt, sigs, keys, sites = gen(repo)
    os.makedirs(outdir, exist_ok=True)
    path = os.path.join(outdir, "Energy_Gen.v")
    old = open(path).read() if os.path.exists(path) else None
    if old != txt:
        open(path, "w").write(txt)
    return {"signatures": sigs, "accumulator_keys": keys, "contractions": [{k: st[k] for k in ("function", "line", "spec", "operands", "typed")} for st in sites]}


if __name__ == "__main__":
    try:
        r = main_for(sys.argv[1] if len(sys.argv) > 1 else "/repo", os.path.join(os.path.dirname(os.path.dirname(os.path.abspath(__file__))), "coq", "gen"))
        print(r)
    except TranslationError as e:
        print("TRANSLATION-ERROR:", e)
        sys.exit(2)
