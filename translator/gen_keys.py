"""Regenerates coq/gen/Keys_Gen.v: for every built-in observable class, the literal set of keys its keys()/shapes()
advertise and the literal set of keys of the dictionary its __call__ returns, extracted from /repo's AST (C20). Fail-closed."""
import ast
import os
import sys

sys.path.insert(0, os.path.dirname(os.path.abspath(__file__)))
from py2coq import TranslationError  # noqa

OBSERVABLES = [
    ("pyqmc/observables/accumulators.py", "EnergyAccumulator"),
    ("pyqmc/observables/accumulators.py", "SqAccumulator"),
    ("pyqmc/observables/obdm.py", "OBDMAccumulator"),
    ("pyqmc/observables/tbdm.py", "TBDMAccumulator"),
    ("pyqmc/observables/s2_accumulator.py", "S2Accumulator"),
    ("pyqmc/observables/stochastic_reconfiguration.py", "StochasticReconfiguration"),
    ("pyqmc/observables/jax_ecp.py", "ECPAccumulator"),
]
ENACC = "<keys of the wrapped energy accumulator>"


def get_class(tree, name):
    for n in ast.walk(tree):
        if isinstance(n, ast.ClassDef) and n.name == name:
            return n
    raise TranslationError("class %s not found" % name)


def method(cls, name):
    for m in cls.body:
        if isinstance(m, ast.FunctionDef) and m.name == name:
            return m
    return None


def strs(node):
    if isinstance(node, (ast.List, ast.Tuple, ast.Set)) and all(isinstance(e, ast.Constant) and isinstance(e.value, str) for e in node.elts):
        return [e.value for e in node.elts]
    raise TranslationError("not a literal list of strings: %s" % ast.unparse(node)[:60])


def dict_keys_of_name(fn, name):
    """keys of a dict built as  name = {..literal..} / {} / self.enacc(...)  followed by  name["k"] = ...  and name.update(<enacc shapes>)"""
    keys, found = [], False
    for st in ast.walk(fn):
        if isinstance(st, ast.Assign) and len(st.targets) == 1:
            t = st.targets[0]
            if isinstance(t, ast.Name) and t.id == name:
                found = True
                if isinstance(st.value, ast.Dict):
                    keys += literal_dict_keys(st.value)
                elif isinstance(st.value, ast.DictComp):
                    gen = ast.unparse(st.value.generators[0].iter)
                    g0 = st.value.generators[0]
                    if gen in ("den.items()", "d.items()") or "enacc" in gen:
                        keys.append(ENACC)
                    elif isinstance(g0.iter, (ast.Tuple, ast.List)) and isinstance(g0.target, ast.Name) and isinstance(st.value.key, ast.Name) and st.value.key.id == g0.target.id and not g0.ifs:
                        keys += strs(g0.iter)
                    else:
                        raise TranslationError("dict comprehension over %s" % gen)
                elif isinstance(st.value, ast.Call) and "enacc" in ast.unparse(st.value.func):
                    keys.append(ENACC)
                else:
                    raise TranslationError("dictionary %s initialised by %s" % (name, ast.unparse(st.value)[:50]))
            elif isinstance(t, ast.Subscript) and isinstance(t.value, ast.Name) and t.value.id == name:
                if isinstance(t.slice, ast.Constant) and isinstance(t.slice.value, str):
                    keys.append(t.slice.value)
                else:
                    keys += formatted_keys(fn, t.slice, name)
        if isinstance(st, ast.Expr) and isinstance(st.value, ast.Call) and ast.unparse(st.value.func) == name + ".update":
            arg = ast.unparse(st.value.args[0])
            if "enacc" in arg:
                keys.append(ENACC)
            else:
                raise TranslationError("%s.update(%s)" % (name, arg))
    if not found:
        raise TranslationError("dictionary %s not found" % name)
    return keys


def formatted_keys(fn, sl, name):
    """ "prefix%s" % e  inside  for e[, ...] in [literal strings] / zip([literal strings], ...)  ->  the expanded keys"""
    if not (isinstance(sl, ast.BinOp) and isinstance(sl.op, ast.Mod) and isinstance(sl.left, ast.Constant) and isinstance(sl.left.value, str)
            and isinstance(sl.right, ast.Name) and sl.left.value.count("%s") == 1):
        raise TranslationError("non-literal key assigned into %s: %s" % (name, ast.unparse(sl)))
    var = sl.right.id
    for loop in ast.walk(fn):
        if not isinstance(loop, ast.For) or not any(n is sl for n in ast.walk(loop)):
            continue
        tg, it = loop.target, loop.iter
        if isinstance(tg, ast.Name) and tg.id == var:
            return [sl.left.value % v for v in strs(it)]
        if isinstance(tg, ast.Tuple) and isinstance(it, ast.Call) and ast.unparse(it.func) == "zip":
            for pos, el in enumerate(tg.elts):
                if isinstance(el, ast.Name) and el.id == var:
                    return [sl.left.value % v for v in strs(it.args[pos])]
    raise TranslationError("key %s: loop variable %s does not range over a literal list" % (ast.unparse(sl), var))


def literal_dict_keys(d):
    out = []
    for k in d.keys:
        if isinstance(k, ast.Constant) and isinstance(k.value, str):
            out.append(k.value)
        else:
            raise TranslationError("non-literal dictionary key %s" % (ast.unparse(k) if k is not None else "**"))
    return out


def returned_keys(fn):
    rets = [n for n in ast.walk(fn) if isinstance(n, ast.Return) and n.value is not None]
    if not rets:
        raise TranslationError("%s returns nothing" % fn.name)
    sets = []
    for r in rets:
        v = r.value
        if isinstance(v, ast.Dict):
            sets.append(literal_dict_keys(v))
        elif isinstance(v, ast.Name):
            sets.append(dict_keys_of_name(fn, v.id))
        elif isinstance(v, ast.Call) and ast.unparse(v.func) in ("set",) and ast.unparse(v.args[0]).replace(" ", "") in ("self.shapes()", "self.shapes().keys()"):
            return None  # defer to shapes()
        elif isinstance(v, ast.Call) and ast.unparse(v.func) in ("set",):
            sets.append(strs(v.args[0]))
        elif isinstance(v, ast.Call) and ast.unparse(v.func).endswith(".union"):
            base = ast.unparse(v.func.value)
            if "enacc.keys()" not in base:
                raise TranslationError("union over %s" % base)
            sets.append([ENACC] + strs(v.args[0]))
        elif isinstance(v, ast.Call) and ast.unparse(v).replace(" ", "") in ("self.shapes().keys()", "set(self.shapes())", "set(self.shapes().keys())", "set(self.shapes().keys())"):
            return None  # defer to shapes()
        elif isinstance(v, ast.DictComp) and len(v.generators) == 1 and isinstance(v.generators[0].target, ast.Name) and isinstance(v.key, ast.Name) \
                and v.key.id == v.generators[0].target.id and not v.generators[0].ifs:
            sets.append(strs(v.generators[0].iter))      # {k: ... for k in ("a", "b", ...)}
        else:
            raise TranslationError("%s returns %s, not a dictionary with literal keys" % (fn.name, ast.unparse(v)[:60]))
    first = sorted(set(sets[0]))
    for s in sets[1:]:
        if sorted(set(s)) != first:
            raise TranslationError("%s returns dictionaries with different key sets" % fn.name)
    return first


def gen(repo):
    lines, table = [], {}
    for path, cname in OBSERVABLES:
        tree = ast.parse(open(os.path.join(repo, path)).read())
        cls = get_class(tree, cname)
        k, sh, call = method(cls, "keys"), method(cls, "shapes"), method(cls, "__call__")
        if k is None or sh is None or call is None:
            raise TranslationError("%s lacks keys/shapes/__call__" % cname)
        shapes = returned_keys(sh)
        adv = returned_keys(k)
        if adv is None:
            adv = shapes
        try:
            ret = returned_keys(call)
        except TranslationError as e:
            ret = ["<not a dictionary: %s>" % str(e).replace('"', "'")[:80]]
        table[cname] = {"advertised": adv, "shapes": shapes, "returned": ret, "file": path}
        q = lambda l: "[" + "; ".join('"%s"' % s for s in l) + "]"
        lines.append("Definition adv_%s : list string := %s." % (cname, q(adv)))
        lines.append("Definition shp_%s : list string := %s." % (cname, q(shapes)))
        lines.append("Definition ret_%s : list string := %s." % (cname, q(ret)))
    lines.append("Definition all_observables : list (string * (list string * list string * list string)) :=\n  [" +
                 ";\n   ".join('("%s", (adv_%s, shp_%s, ret_%s))' % (c, c, c, c) for _, c in OBSERVABLES) + "].")
    header = ("(* GENERATED by /verif/translator/gen_keys.py from /repo's observables on every run — do not edit.\n"
              "   advertised = literal keys of keys(); shp = literal keys of shapes(); ret = literal keys of the dictionary returned by __call__. *)\n"
              "From Coq Require Import String List.\nImport ListNotations.\nOpen Scope string_scope.\n\n")
    return header + "\n".join(lines) + "\n", table


def main_for(repo, outdir):
    txt, table = gen(repo)
    os.makedirs(outdir, exist_ok=True)
    path = os.path.join(outdir, "Keys_Gen.v")
    old = open(path).read() if os.path.exists(path) else None
    if old != txt:
        open(path, "w").write(txt)
    return table


if __name__ == "__main__":
    try:
        t = main_for(sys.argv[1] if len(sys.argv) > 1 else "/repo", os.path.join(os.path.dirname(os.path.dirname(os.path.abspath(__file__))), "coq", "gen"))
        for k, v in t.items():
            print(k, v)
    except TranslationError as e:
        print("TRANSLATION-ERROR:", e)
        sys.exit(2)
