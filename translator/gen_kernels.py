"""Regenerates coq/gen/Kernels_Gen.v from /repo's current source (sampling kernels of C01 and C07).
Fail-closed: any construct the symbolic executor does not understand raises TranslationError."""
import ast
import json
import os
import sys

sys.path.insert(0, os.path.dirname(os.path.abspath(__file__)))
from py2coq import SymExec, Opaque, TranslationError, load_function, innermost_for, definition, is_vec, F  # noqa


def sampler_handlers(prefix, drift_name, drift_extra_args):
    """handlers for the per-electron body of mc.vmc_worker / dmc.propose_drift_diffusion"""
    notes = {}

    def h_electron(se, args, kw, env):
        return Opaque("cur")

    def h_gv(se, args, kw, env):
        pos = se.ev(args[1], env)
        if isinstance(pos, Opaque) and pos.tag == "cur":
            tag = "cur"
        else:
            tag = "new"
            se.notes["second_gradient_position"] = pos
        return (("v", "g_" + tag), ("s", "val_" + tag), Opaque("saved_" + tag))

    def h_grad(se, args, kw, env):
        pos = se.ev(args[1], env)
        if not (isinstance(pos, Opaque) and pos.tag == "cur"):
            raise TranslationError("wf.gradient at an unexpected position")
        return ("v", "g_cur")

    def h_drift(se, args, kw, env):
        g = se.ev(args[0], env)
        extra = [ast.unparse(a) for a in args[1:]] + ["%s=%s" % (k, ast.unparse(v)) for k, v in sorted(kw.items())]
        if not (isinstance(g, tuple) and g[0] == "v" and g[1] in ("g_cur", "g_new")):
            raise TranslationError("drift function applied to something that is not a wave-function gradient")
        se.notes.setdefault("drift_extra_args", []).append(extra)
        return ("v", "D_" + g[1][2:])

    def h_normal(se, args, kw, env):
        if "scale" not in kw:
            raise TranslationError("np.random.normal without scale")
        se.notes["proposal_scale"] = se.ev(kw["scale"], env)
        return ("v", "gauss")

    def h_rand(se, args, kw, env):
        return ("s", "u")

    def h_x(se, args, kw, env):
        return ("v", "x")

    def h_irr(se, args, kw, env):
        return se.ev(args[1], env)

    def h_move(se, args, kw, env):
        se.effects.append(("move", se.ev(args[1], env), se.ev(args[2], env)))

    def h_update(se, args, kw, env):
        se.effects.append(("update", se.ev(args[1], env), se.ev(kw["mask"], env) if "mask" in kw else None,
                           se.ev(kw["saved_values"], env) if "saved_values" in kw else None))

    def h_shape(se, args, kw, env):
        return ("c", F(0))

    h = {"configs.electron": h_electron, "wf.gradient_value": h_gv, "wf.gradient": h_grad, drift_name: h_drift,
         "np.random.normal": h_normal, "np.random.rand": h_rand, "configs.configs[:, e, :]": h_x,
         "configs.make_irreducible": h_irr, "configs.move": h_move, "wf.updateinternals": h_update,
         "configs.configs.shape[0]": h_shape}
    return h


def body_without(stmts, skip_targets):
    out = []
    for st in stmts:
        names = set()
        if isinstance(st, ast.Assign):
            for t in st.targets:
                names |= {n.id for n in ast.walk(t) if isinstance(n, ast.Name)}
        if isinstance(st, ast.AugAssign):
            names |= {n.id for n in ast.walk(st.target) if isinstance(n, ast.Name)}
        if names and names <= skip_targets:
            continue
        out.append(st)
    return out


ORDER = ["tstep", "tau", "acyrus", "cutoff", "u", "val_new", "val_cur", "x", "gauss", "D_cur", "D_new", "g"]


def gen(repo):
    out = []
    dag = {}

    def emit(name, e):
        txt, names = definition(name, e, ORDER)
        out.append(txt)
        dag[name] = {"expr": e, "args": names}

    # ---- C01: mc.vmc_worker
    fn = load_function(os.path.join(repo, "pyqmc/method/mc.py"), "vmc_worker")
    body = body_without(innermost_for(fn, "e"), {"acc"})
    se = SymExec(sampler_handlers("vmc", "limdrift", []))
    env = se.run(body, {"tstep": ("s", "tstep"), "e": Opaque("e"), "nconf": Opaque("nconf"), "configs": Opaque("configs")})
    for k in ("newcoorde", "forward", "backward", "t_prob", "ratio", "accept"):
        if k not in env:
            raise TranslationError("vmc_worker: variable %s not found" % k)
        emit("vmc_" + k, env[k])
    emit("vmc_proposal_scale", se.notes["proposal_scale"])
    emit("vmc_second_gradient_position", se.notes["second_gradient_position"])
    eff = {e[0]: e for e in se.effects}
    if set(eff) != {"move", "update"} or len(se.effects) != 2:
        raise TranslationError("vmc_worker: expected exactly one configs.move and one wf.updateinternals per electron, saw %s" % [e[0] for e in se.effects])
    emit("vmc_moved_to", eff["move"][1])
    emit("vmc_move_mask", eff["move"][2])
    emit("vmc_update_position", eff["update"][1])
    if eff["update"][2] is None:
        raise TranslationError("vmc_worker: updateinternals without mask")
    emit("vmc_update_mask", eff["update"][2])
    sv = eff["update"][3]
    if not (isinstance(sv, Opaque) and sv.tag == "saved_new"):
        raise TranslationError("vmc_worker: saved values handed to updateinternals are not those of the proposed position")
    ex = se.notes.get("drift_extra_args", [])
    if len(ex) != 2 or ex[0] != ex[1]:
        raise TranslationError("vmc_worker: the two drift evaluations use different arguments: %s" % ex)
    # ---- mc.limdrift
    fn = load_function(os.path.join(repo, "pyqmc/method/mc.py"), "limdrift")
    defaults = {a.arg: d for a, d in zip(fn.args.args[-len(fn.args.defaults):], fn.args.defaults)} if fn.args.defaults else {}
    se = SymExec({})
    env = se.run(fn.body, {"g": ("v", "g"), "cutoff": ("s", "cutoff")})
    emit("mc_limdrift", env["__return__"])
    if "cutoff" in defaults:
        emit("mc_limdrift_default_cutoff", se.ev(defaults["cutoff"], {}))

    # ---- C07: dmc.limdrift, propose_drift_diffusion, compute_S, weight update
    fn = load_function(os.path.join(repo, "pyqmc/method/dmc.py"), "limdrift")
    defaults = {a.arg: d for a, d in zip(fn.args.args[-len(fn.args.defaults):], fn.args.defaults)}
    se = SymExec({"v2.shape": lambda se_, a, k, e: Opaque("shape")})
    env = se.run(fn.body, {"g": ("v", "g"), "tau": ("s", "tau"), "acyrus": ("s", "acyrus")})
    emit("dmc_limdrift", env["__return__"])
    emit("dmc_limdrift_default_acyrus", se.ev(defaults["acyrus"], {}))

    fn = load_function(os.path.join(repo, "pyqmc/method/dmc.py"), "propose_drift_diffusion")
    for real_wf in (True, False):
        h = sampler_handlers("dd", "limdrift", [])
        h["if:wf.dtype == float"] = (lambda rw: (lambda se_, a, k, e: rw))(real_wf)
        se = SymExec(h)
        env = se.run(fn.body, {"tstep": ("s", "tstep"), "e": Opaque("e"), "configs": Opaque("configs"), "wf": Opaque("wf")})
        sfx = "_real" if real_wf else "_complex"
        for k in ("eposnew", "forward", "backward", "t_prob", "ratio", "accept", "r2"):
            if k not in env:
                raise TranslationError("propose_drift_diffusion: variable %s not found" % k)
            emit("dd_" + k + sfx, env[k])
        emit("dd_proposal_scale" + sfx, se.notes["proposal_scale"])
        ret = env["__return__"]
        if not (isinstance(ret, tuple) and len(ret) == 4):
            raise TranslationError("propose_drift_diffusion: unexpected return value")
        emit("dd_returned_position" + sfx, ret[0])
        emit("dd_returned_accept" + sfx, ret[1])
        emit("dd_returned_r2" + sfx, ret[2])
        if not (isinstance(ret[3], Opaque) and ret[3].tag == "saved_new"):
            raise TranslationError("propose_drift_diffusion: returned saved values are not those of the proposed position")
        ex = se.notes.get("drift_extra_args", [])
        if len(ex) != 2 or ex[0] != ex[1]:
            raise TranslationError("propose_drift_diffusion: the two drift evaluations use different arguments: %s" % ex)
        if sfx == "_real":
            dag["dd_drift_extra_args"] = {"expr": ("c", F(0)), "args": [], "note": ex[0]}

    fn = load_function(os.path.join(repo, "pyqmc/method/dmc.py"), "compute_S")
    se = SymExec({})
    env = se.run(fn.body, {k: ("s", k) for k in ("e_trial", "e_est", "branchcut", "v2", "tau", "eloc", "nelec")})
    emit("dmc_compute_S", env["__return__"])

    fn = load_function(os.path.join(repo, "pyqmc/method/dmc.py"), "dmc_propagate")
    wanted = {}
    for node in ast.walk(fn):
        if isinstance(node, ast.Assign) and len(node.targets) == 1 and isinstance(node.targets[0], ast.Name) and node.targets[0].id in ("tdamp", "wmult"):
            wanted[node.targets[0].id] = node
    if set(wanted) != {"tdamp", "wmult"}:
        raise TranslationError("dmc_propagate: tdamp / wmult assignments not found")
    se = SymExec({})
    env = {k: ("s", k) for k in ("r2_accepted", "r2_proposed", "Snew", "Sold", "tstep")}
    se.stmt(wanted["tdamp"], env)
    se.stmt(wanted["wmult"], env)
    emit("dmc_tdamp", env["tdamp"])
    emit("dmc_wmult", env["wmult"])
    # which arguments compute_S is called with (new and old)
    calls = [n for n in ast.walk(fn) if isinstance(n, ast.Call) and isinstance(n.func, ast.Name) and n.func.id == "compute_S"]
    dag["dmc_compute_S_calls"] = {"expr": ("c", F(0)), "args": [], "note": sorted(ast.unparse(c) for c in calls)}

    header = ("(* GENERATED by /verif/translator/gen_kernels.py from /repo's current source on every run — do not edit.\n"
              "   Per-walker semantics of the sampling kernels: scalars are R, (nconf,3) arrays are vec3. *)\n"
              "From Coq Require Import Reals.\nFrom PyQMC Require Import base.Vec3R.\nOpen Scope R_scope.\n\n")
    return header + "\n".join(out) + "\n", dag


def main():
    repo = sys.argv[1] if len(sys.argv) > 1 else "/repo"
    outdir = sys.argv[2] if len(sys.argv) > 2 else os.path.join(os.path.dirname(os.path.dirname(os.path.abspath(__file__))), "coq", "gen")
    return main_for(repo, outdir)


def main_for(repo, outdir):
    txt, dag = gen(repo)
    os.makedirs(outdir, exist_ok=True)
    path = os.path.join(outdir, "Kernels_Gen.v")
    old = open(path).read() if os.path.exists(path) else None
    if old != txt:
        open(path, "w").write(txt)
    json.dump({k: {"args": v["args"], "note": v.get("note")} for k, v in dag.items()}, open(os.path.join(outdir, "Kernels_Gen.json"), "w"), indent=1)
    return dag


if __name__ == "__main__":
    try:
        main()
        print(open(os.path.join(os.path.dirname(os.path.dirname(os.path.abspath(__file__))), "coq", "gen", "Kernels_Gen.v")).read())
    except TranslationError as e:
        print("TRANSLATION-ERROR:", e)
        sys.exit(2)
