"""Regenerates coq/gen/Kernels_Gen.v from /repo's current source (sampling kernels of C01 and C07).
Fail-closed: any construct the symbolic executor does not understand raises TranslationError."""
import ast
import json
import os
import sys

sys.path.insert(0, os.path.dirname(os.path.abspath(__file__)))
from py2coq import SymExec, Opaque, TranslationError, load_function, innermost_for, definition, is_vec, is_cond, F, module_resolver, hoisted_prelude, find_nodes  # noqa


def sampler_handlers(prefix, drift_name, drift_extra_args):
    """handlers for the per-electron body of mc.vmc_worker / dmc.propose_drift_diffusion"""
    notes = {}

    def h_electron(se, args, kw, env):
        return Opaque("cur")

    def h_gv(se, args, kw, env):
        pos = se.ev(args[1], env)
        if isinstance(pos, Opaque) and pos.tag == "cur":
            tag = "cur"
        else:
            tag = "new"
            se.notes["second_gradient_position"] = pos
        return (("v", "g_" + tag), ("s", "val_" + tag), Opaque("saved_" + tag))

    def h_grad(se, args, kw, env):
        pos = se.ev(args[1], env)
        if not (isinstance(pos, Opaque) and pos.tag == "cur"):
            raise TranslationError("wf.gradient at an unexpected position")
        return ("v", "g_cur")

    def h_drift(se, args, kw, env):
        g = se.ev(args[0], env)
        extra = [ast.unparse(a) for a in args[1:]] + ["%s=%s" % (k, ast.unparse(v)) for k, v in sorted(kw.items())]
        if not (isinstance(g, tuple) and g[0] == "v" and g[1] in ("g_cur", "g_new")):
            raise TranslationError("drift function applied to something that is not a wave-function gradient")
        se.notes.setdefault("drift_extra_args", []).append(extra)
        return ("v", "D_" + g[1][2:])

    def h_normal(se, args, kw, env):
        if "scale" not in kw:
            raise TranslationError("np.random.normal without scale")
        se.notes["proposal_scale"] = se.ev(kw["scale"], env)
        return ("v", "gauss")

    def h_rand(se, args, kw, env):
        return ("s", "u")

    def h_x(se, args, kw, env):
        return ("v", "x")

    def h_irr(se, args, kw, env):
        return se.ev(args[1], env)

    def h_move(se, args, kw, env):
        se.effects.append(("move", se.ev(args[1], env), se.ev(args[2], env)))

    def h_update(se, args, kw, env):
        se.effects.append(("update", se.ev(args[1], env), se.ev(kw["mask"], env) if "mask" in kw else None,
                           se.ev(kw["saved_values"], env) if "saved_values" in kw else None))

    def h_shape(se, args, kw, env):
        return ("c", F(0))

    h = {"configs.electron": h_electron, "wf.gradient_value": h_gv, "wf.gradient": h_grad, drift_name: h_drift,
         "np.random.normal": h_normal, "np.random.rand": h_rand, "configs.configs[:, e, :]": h_x,
         "configs.make_irreducible": h_irr, "configs.move": h_move, "wf.updateinternals": h_update,
         "configs.configs.shape[0]": h_shape}
    return h


def body_without(stmts, skip_targets):
    out = []
    for st in stmts:
        names = set()
        if isinstance(st, ast.Assign):
            for t in st.targets:
                names |= {n.id for n in ast.walk(t) if isinstance(n, ast.Name)}
        if isinstance(st, ast.AugAssign):
            names |= {n.id for n in ast.walk(st.target) if isinstance(n, ast.Name)}
        if names and names <= skip_targets:
            continue
        out.append(st)
    return out


def split_accept(where, accept, need_ratio=True):
    """acceptance mask -> (ratio or None, the exponential inside the mask). The mask is `u < ratio`, possibly conjoined with further conditions
    (e.g. the fixed-node test written as `accept &= wfratio > 0`); the ratio is reported only for the plain form"""
    if not is_cond(accept):
        raise TranslationError("%s: the acceptance mask is not a comparison" % where)
    exps = find_nodes(accept, "exp")
    if len(exps) != 1:
        raise TranslationError("%s: the acceptance test contains %d exponentials, expected the one of the proposal densities" % (where, len(exps)))
    ratio = accept[2] if (accept[0] == "lt" and accept[1] == ("s", "u")) else None
    if ratio is None and need_ratio:
        raise TranslationError("%s: the acceptance mask is not `ratio > uniform random number`" % where)
    return ratio, exps[0]


ORDER = ["tstep", "tau", "acyrus", "cutoff", "u", "val_new", "val_cur", "x", "gauss", "D_cur", "D_new", "g"]


def gen(repo):
    out = []
    dag = {}

    def emit(name, e):
        txt, names = definition(name, e, ORDER)
        out.append(txt)
        dag[name] = {"expr": e, "args": names}

    # ---- C01: mc.vmc_worker. The quantities are identified by their ROLE, not by the names of local variables: the acceptance mask is what is
    # handed to configs.move, the acceptance ratio is what the uniform number is compared with, t_prob is the exponential inside it.
    path_mc = os.path.join(repo, "pyqmc/method/mc.py")
    fn = load_function(path_mc, "vmc_worker")
    body = body_without(innermost_for(fn, "e"), {"acc"})
    se = SymExec(sampler_handlers("vmc", "limdrift", []), resolver=module_resolver(path_mc))
    env0 = {"tstep": ("s", "tstep"), "e": Opaque("e"), "nconf": Opaque("nconf"), "configs": Opaque("configs"), "wf": Opaque("wf")}
    hoisted_prelude(se, fn, "e", env0)
    env = se.run(body, env0)
    eff = {e[0]: e for e in se.effects}
    if set(eff) != {"move", "update"} or len(se.effects) != 2:
        raise TranslationError("vmc_worker: expected exactly one configs.move and one wf.updateinternals per electron, saw %s" % [e[0] for e in se.effects])
    accept = eff["move"][2]
    ratio, t_prob = split_accept("vmc_worker", accept)
    emit("vmc_newcoorde", eff["move"][1])
    emit("vmc_lnT_arg", t_prob[1])
    emit("vmc_t_prob", t_prob)
    emit("vmc_ratio", ratio)
    emit("vmc_accept", accept)
    emit("vmc_proposal_scale", se.notes["proposal_scale"])
    emit("vmc_second_gradient_position", se.notes["second_gradient_position"])
    emit("vmc_moved_to", eff["move"][1])
    emit("vmc_move_mask", eff["move"][2])
    emit("vmc_update_position", eff["update"][1])
    if eff["update"][2] is None:
        raise TranslationError("vmc_worker: updateinternals without mask")
    emit("vmc_update_mask", eff["update"][2])
    sv = eff["update"][3]
    if not (isinstance(sv, Opaque) and sv.tag == "saved_new"):
        raise TranslationError("vmc_worker: saved values handed to updateinternals are not those of the proposed position")
    ex = se.notes.get("drift_extra_args", [])
    if len(ex) != 2 or ex[0] != ex[1]:
        raise TranslationError("vmc_worker: the two drift evaluations use different arguments: %s" % ex)
    # ---- mc.limdrift
    fn = load_function(os.path.join(repo, "pyqmc/method/mc.py"), "limdrift")
    defaults = {a.arg: d for a, d in zip(fn.args.args[-len(fn.args.defaults):], fn.args.defaults)} if fn.args.defaults else {}
    se = SymExec({})
    env = se.run(fn.body, {"g": ("v", "g"), "cutoff": ("s", "cutoff")})
    emit("mc_limdrift", env["__return__"])
    if "cutoff" in defaults:
        emit("mc_limdrift_default_cutoff", se.ev(defaults["cutoff"], {}))

    # ---- C07: dmc.limdrift, propose_drift_diffusion, compute_S, weight update
    fn = load_function(os.path.join(repo, "pyqmc/method/dmc.py"), "limdrift")
    defaults = {a.arg: d for a, d in zip(fn.args.args[-len(fn.args.defaults):], fn.args.defaults)}
    se = SymExec({"v2.shape": lambda se_, a, k, e: Opaque("shape")})
    env = se.run(fn.body, {"g": ("v", "g"), "tau": ("s", "tau"), "acyrus": ("s", "acyrus")})
    emit("dmc_limdrift", env["__return__"])
    emit("dmc_limdrift_default_acyrus", se.ev(defaults["acyrus"], {}))

    path_dmc = os.path.join(repo, "pyqmc/method/dmc.py")
    fn = load_function(path_dmc, "propose_drift_diffusion")
    for real_wf in (True, False):
        h = sampler_handlers("dd", "limdrift", [])
        h["if:wf.dtype == float"] = (lambda rw: (lambda se_, a, k, e: rw))(real_wf)
        se = SymExec(h, resolver=module_resolver(path_dmc))
        env = se.run(fn.body, {"tstep": ("s", "tstep"), "e": Opaque("e"), "configs": Opaque("configs"), "wf": Opaque("wf")})
        sfx = "_real" if real_wf else "_complex"
        ret = env.get("__return__")
        if not (isinstance(ret, tuple) and len(ret) == 4 and not (ret and isinstance(ret[0], str))):
            raise TranslationError("propose_drift_diffusion: unexpected return value")
        # roles: (proposed position, acceptance mask, squared displacement, saved values)
        ratio, t_prob = split_accept("propose_drift_diffusion", ret[1], need_ratio=False)
        emit("dd_eposnew" + sfx, ret[0])
        emit("dd_lnT_arg" + sfx, t_prob[1])
        emit("dd_t_prob" + sfx, t_prob)
        emit("dd_accept" + sfx, ret[1])
        emit("dd_r2" + sfx, ret[2])
        emit("dd_proposal_scale" + sfx, se.notes["proposal_scale"])
        emit("dd_second_gradient_position" + sfx, se.notes["second_gradient_position"])
        emit("dd_returned_position" + sfx, ret[0])
        emit("dd_returned_accept" + sfx, ret[1])
        emit("dd_returned_r2" + sfx, ret[2])
        if not (isinstance(ret[3], Opaque) and ret[3].tag == "saved_new"):
            raise TranslationError("propose_drift_diffusion: returned saved values are not those of the proposed position")
        ex = se.notes.get("drift_extra_args", [])
        if len(ex) != 2 or ex[0] != ex[1]:
            raise TranslationError("propose_drift_diffusion: the two drift evaluations use different arguments: %s" % ex)
        if sfx == "_real":
            dag["dd_drift_extra_args"] = {"expr": ("c", F(0)), "args": [], "note": ex[0]}

    fn = load_function(os.path.join(repo, "pyqmc/method/dmc.py"), "compute_S")
    se = SymExec({})
    env = se.run(fn.body, {k: ("s", k) for k in ("e_trial", "e_est", "branchcut", "v2", "tau", "eloc", "nelec")})
    emit("dmc_compute_S", env["__return__"])

    fn = load_function(os.path.join(repo, "pyqmc/method/dmc.py"), "dmc_propagate")
    # the factor multiplying the weights: the right-hand side of the (single) `weights *= ...` statement, with the simple assignments that precede it
    # in the same block (tdamp, wmult, ...) executed first; Snew/Sold are the results of the two compute_S calls in order of appearance
    block, upd = None, None
    for node in ast.walk(fn):
        for fld in ("body", "orelse"):
            stmts = getattr(node, fld, None)
            if not isinstance(stmts, list):
                continue
            for k, st in enumerate(stmts):
                if isinstance(st, ast.AugAssign) and isinstance(st.op, ast.Mult) and isinstance(st.target, ast.Name) and st.target.id == "weights":
                    if upd is not None:
                        raise TranslationError("dmc_propagate: more than one `weights *= ...`")
                    block, upd = stmts[:k], st
    if upd is None:
        raise TranslationError("dmc_propagate: no `weights *= ...` statement")
    ncall = [0]

    def h_S(se_, a, k, e):
        ncall[0] += 1
        return ("s", "Snew" if ncall[0] == 1 else "Sold" if ncall[0] == 2 else "S%d" % ncall[0])
    se = SymExec({"compute_S": h_S})
    env = {k: ("s", k) for k in ("r2_accepted", "r2_proposed", "tstep")}
    for st in block:
        if isinstance(st, ast.Assign) and len(st.targets) == 1 and isinstance(st.targets[0], ast.Name):
            try:
                trial = dict(env)
                se.stmt(st, trial)
                env = trial
            except (TranslationError, KeyError, AttributeError, TypeError):
                pass
    wm = se.ev(upd.value, env)
    if ncall[0] != 2:
        raise TranslationError("dmc_propagate: %d compute_S calls before the weight update, expected 2" % ncall[0])
    if "tdamp" in env and isinstance(env["tdamp"], tuple):
        emit("dmc_tdamp", env["tdamp"])
    emit("dmc_wmult", wm)
    # which arguments compute_S is called with (new and old)
    calls = [n for n in ast.walk(fn) if isinstance(n, ast.Call) and isinstance(n.func, ast.Name) and n.func.id == "compute_S"]
    dag["dmc_compute_S_calls"] = {"expr": ("c", F(0)), "args": [], "note": sorted(ast.unparse(c) for c in calls)}

    header = ("(* GENERATED by /verif/translator/gen_kernels.py from /repo's current source on every run — do not edit.\n"
              "   Per-walker semantics of the sampling kernels: scalars are R, (nconf,3) arrays are vec3. *)\n"
              "From Coq Require Import Reals.\nFrom PyQMC Require Import base.Vec3R.\nOpen Scope R_scope.\n\n")
    return header + "\n".join(out) + "\n", dag


def main():
    repo = sys.argv[1] if len(sys.argv) > 1 else "/repo"
    outdir = sys.argv[2] if len(sys.argv) > 2 else os.path.join(os.path.dirname(os.path.dirname(os.path.abspath(__file__))), "coq", "gen")
    return main_for(repo, outdir)


def main_for(repo, outdir):
    txt, dag = gen(repo)
    os.makedirs(outdir, exist_ok=True)
    path = os.path.join(outdir, "Kernels_Gen.v")
    old = open(path).read() if os.path.exists(path) else None
    if old != txt:
        open(path, "w").write(txt)
    json.dump({k: {"args": v["args"], "note": v.get("note")} for k, v in dag.items()}, open(os.path.join(outdir, "Kernels_Gen.json"), "w"), indent=1)
    return dag


if __name__ == "__main__":
    try:
        main()
        print(open(os.path.join(os.path.dirname(os.path.dirname(os.path.abspath(__file__))), "coq", "gen", "Kernels_Gen.v")).read())
    except TranslationError as e:
        print("TRANSLATION-ERROR:", e)
        sys.exit(2)
