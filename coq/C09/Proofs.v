From Coq Require Import ZArith QArith List Bool Lia Lqa.
From PyQMC Require Import base.Split C09.Model.
Import ListNotations. Open Scope Q_scope.

(* ---------- sums ---------- *)
Lemma sumQ_cons x l : sumQ (x :: l) = x + sumQ l.
Proof. reflexivity. Qed.
Lemma sumQ_nil : sumQ [] = 0.
Proof. reflexivity. Qed.

Lemma sumQ_app a b : sumQ (a ++ b) == sumQ a + sumQ b.
Proof. induction a as [|x a IH]; cbn [app]; rewrite ?sumQ_cons, ?sumQ_nil; [ring|]. rewrite IH. ring. Qed.

Lemma sumQ_map_ext {A} (f g : A -> Q) l : (forall x, In x l -> f x == g x) -> sumQ (map f l) == sumQ (map g l).
Proof.
  induction l as [|a l IH]; intros H; cbn [map]; rewrite ?sumQ_cons, ?sumQ_nil; [reflexivity|].
  rewrite IH by (intros; apply H; right; assumption).
  rewrite (H a) by (left; reflexivity). reflexivity.
Qed.

Lemma sumQ_map_scale {A} (f : A -> Q) c l : sumQ (map (fun x => f x * c) l) == sumQ (map f l) * c.
Proof.
  induction l as [|a l IH]; cbn [map]; rewrite ?sumQ_cons, ?sumQ_nil; [ring|]. rewrite IH. ring.
Qed.

Lemma sumQ_concat ll : sumQ (concat ll) == sumQ (map sumQ ll).
Proof.
  induction ll as [|l ll IH]; cbn [concat map]; rewrite ?sumQ_cons, ?sumQ_nil; [reflexivity|].
  rewrite sumQ_app, IH. reflexivity.
Qed.

Lemma lenQ_pos {A} (l : list A) : l <> [] -> 0 < lenQ l.
Proof. intros H. unfold lenQ. destruct l; [contradiction|]. cbn [length]. change 0 with (inject_Z 0). rewrite <- Zlt_Qlt. lia. Qed.
Lemma lenQ_n {A} (l : list A) n : length l = n -> lenQ l = inject_Z (Z.of_nat n).
Proof. intros <-. reflexivity. Qed.
Lemma injn_pos n : (0 < n)%nat -> 0 < inject_Z (Z.of_nat n).
Proof. intros H. change 0 with (inject_Z 0). rewrite <- Zlt_Qlt. lia. Qed.

Definition total (part : list (list Q)) : Q := sumQ (map sumQ part).

(* ---------- VMC ---------- *)
Theorem vmc_block_plain_mean steps n : steps <> [] -> (0 < n)%nat -> (forall o, In o steps -> length o = n) ->
  vmc_block steps == total steps / (lenQ steps * inject_Z (Z.of_nat n)).
Proof.
  intros Hs Hn Hl. unfold vmc_block, total.
  pose proof (lenQ_pos steps Hs) as HT. pose proof (injn_pos n Hn) as HN.
  rewrite (sumQ_map_ext _ (fun o => sumQ o * (/ (inject_Z (Z.of_nat n) * lenQ steps)))).
  - rewrite sumQ_map_scale. field. split; lra.
  - intros o Ho. unfold meanQ. rewrite (lenQ_n o n (Hl o Ho)). field. split; lra.
Qed.

Definition good_part (T : nat) (part : list (list Q)) : Prop :=
  length part = T /\ exists n, (0 < n)%nat /\ forall o, In o part -> length o = n.

Lemma good_part_block T part : (0 < T)%nat -> good_part T part ->
  0 < nwalkers part /\ vmc_block part * nwalkers part == total part / inject_Z (Z.of_nat T).
Proof.
  intros HT [HL [n [Hn Hl]]].
  assert (Hne : part <> []) by (destruct part; [cbn in HL; lia|discriminate]).
  assert (Hnw : nwalkers part = inject_Z (Z.of_nat n)).
  { destruct part as [|o r]; [contradiction|]. cbn [nwalkers]. apply lenQ_n. apply Hl. left. reflexivity. }
  rewrite Hnw. pose proof (injn_pos n Hn) as HN. split; [assumption|].
  rewrite (vmc_block_plain_mean part n Hne Hn Hl). rewrite (lenQ_n part T HL).
  pose proof (injn_pos T HT). field. split; lra.
Qed.

Theorem vmc_parallel_plain_mean parts T : parts <> [] -> (0 < T)%nat -> (forall p, In p parts -> good_part T p) ->
  0 < sumQ (map nwalkers parts) /\
  vmc_parallel parts == sumQ (map total parts) / (inject_Z (Z.of_nat T) * sumQ (map nwalkers parts)).
Proof.
  intros Hne HT Hg. pose proof (lenQ_pos parts Hne) as HP. pose proof (injn_pos T HT) as HTq.
  assert (HN : 0 < sumQ (map nwalkers parts)).
  { clear HP. induction parts as [|p r IH]; [contradiction|]. cbn [map]. rewrite sumQ_cons.
    destruct (good_part_block T p HT (Hg p (or_introl eq_refl))) as [Hp _].
    destruct r as [|q r']; [cbn [map]; rewrite sumQ_nil; lra|].
    assert (0 < sumQ (map nwalkers (q :: r'))) by (apply IH; [discriminate|intros; apply Hg; right; assumption]). lra. }
  split; [assumption|]. unfold vmc_parallel.
  set (N := sumQ (map nwalkers parts)) in *.
  assert (Hden : meanQ (map nwalkers parts) * lenQ parts == N).
  { unfold meanQ. unfold lenQ at 1. rewrite map_length. fold (lenQ parts). subst N. field. lra. }
  rewrite (sumQ_map_ext _ (fun part => total part * (/ (inject_Z (Z.of_nat T) * N)))).
  - rewrite sumQ_map_scale. field. split; lra.
  - intros p Hp. destruct (good_part_block T p HT (Hg p Hp)) as [Hnw E]. rewrite Hden.
    transitivity ((vmc_block p * nwalkers p) / N); [field; lra|]. rewrite E. field. split; lra.
Qed.

(* ---------- DMC ---------- *)
Definition wtotal (part : list (list (Q*Q))) : Q := sumQ (map wsum part).
Definition wototal (part : list (list (Q*Q))) : Q := sumQ (map wosum part).

Lemma sumQ_pos_map {A} (f : A -> Q) l : l <> [] -> (forall x, In x l -> 0 < f x) -> 0 < sumQ (map f l).
Proof.
  induction l as [|a l IH]; intros Hne H; [contradiction|]. cbn [map]. rewrite sumQ_cons.
  pose proof (H a (or_introl eq_refl)). destruct l as [|b l']; [cbn [map]; rewrite sumQ_nil; lra|].
  assert (0 < sumQ (map f (b :: l'))) by (apply IH; [discriminate|intros; apply H; right; assumption]). lra.
Qed.

Definition good_step (n : nat) (wo : list (Q*Q)) : Prop := length wo = n /\ forall p, In p wo -> 0 < fst p.
Definition good_dpart (T : nat) (part : list (list (Q*Q))) : Prop :=
  length part = T /\ exists n, (0 < n)%nat /\ forall s, In s part -> good_step n s.

Lemma good_step_wsum n wo : (0 < n)%nat -> good_step n wo -> 0 < wsum wo.
Proof.
  intros Hn [HL Hp]. unfold wsum. apply sumQ_pos_map; [destruct wo; [cbn in HL; lia|discriminate]|assumption].
Qed.

Lemma dmc_step_spec n wo : (0 < n)%nat -> good_step n wo ->
  fst (dmc_step wo) == wosum wo / wsum wo /\ snd (dmc_step wo) == wsum wo / inject_Z (Z.of_nat n).
Proof.
  intros Hn Hg. pose proof (good_step_wsum n wo Hn Hg) as HW. destruct Hg as [HL _].
  unfold dmc_step. cbn [fst snd]. rewrite (lenQ_n wo n HL). pose proof (injn_pos n Hn). split; field; try split; lra.
Qed.

(* block value = sum_t sum_i w o / sum_t sum_i w ; block weight = sum_t sum_i w / (T n) *)
Theorem dmc_block_spec T part : (0 < T)%nat -> good_dpart T part ->
  0 < wtotal part /\ 0 < nwalkers2 part /\
  fst (dmc_block part) == wototal part / wtotal part /\
  snd (dmc_block part) == wtotal part / (inject_Z (Z.of_nat T) * nwalkers2 part).
Proof.
  intros HT [HL [n [Hn Hs]]].
  assert (Hne : part <> []) by (destruct part; [cbn in HL; lia|discriminate]).
  assert (Hnw : nwalkers2 part = inject_Z (Z.of_nat n)).
  { destruct part as [|o r]; [contradiction|]. cbn [nwalkers2]. apply lenQ_n. apply (Hs o). left. reflexivity. }
  pose proof (injn_pos n Hn) as HN. pose proof (injn_pos T HT) as HTq.
  assert (HWt : 0 < wtotal part).
  { unfold wtotal. apply sumQ_pos_map; [assumption|]. intros s Hin. apply (good_step_wsum n); [assumption|apply Hs; assumption]. }
  rewrite Hnw. split; [assumption|]. split; [assumption|].
  unfold dmc_block. cbn [fst snd].
  assert (Ewm : meanQ (map snd (map dmc_step part)) == wtotal part / (inject_Z (Z.of_nat T) * inject_Z (Z.of_nat n))).
  { unfold meanQ. unfold lenQ. rewrite !map_length. rewrite HL. rewrite map_map.
    rewrite (sumQ_map_ext _ (fun s => wsum s * (/ inject_Z (Z.of_nat n)))).
    - rewrite sumQ_map_scale. unfold wtotal. field. split; lra.
    - intros s Hin. destruct (dmc_step_spec n s Hn (Hs s Hin)) as [_ E]. rewrite E. field. lra. }
  split; [|exact Ewm].
  set (wm := meanQ (map snd (map dmc_step part))) in *.
  assert (Hwm : 0 < wm).
  { rewrite Ewm. apply Qlt_shift_div_l; [nra|lra]. }
  unfold meanQ at 1. unfold lenQ. rewrite !map_length. rewrite HL. rewrite map_map.
  rewrite (sumQ_map_ext _ (fun s => wosum s * (/ (inject_Z (Z.of_nat n) * wm)))).
  - rewrite sumQ_map_scale. fold (wototal part). rewrite Ewm. field. repeat split; lra.
  - intros s Hin. destruct (dmc_step_spec n s Hn (Hs s Hin)) as [E1 E2]. rewrite E1, E2.
    pose proof (good_step_wsum n s Hn (Hs s Hin)). field. repeat split; lra.
Qed.

Theorem dmc_parallel_spec T parts : parts <> [] -> (0 < T)%nat -> (forall p, In p parts -> good_dpart T p) ->
  0 < sumQ (map wtotal parts) /\ 0 < sumQ (map nwalkers2 parts) /\
  fst (dmc_parallel parts) == sumQ (map wototal parts) / sumQ (map wtotal parts) /\
  snd (dmc_parallel parts) == sumQ (map wtotal parts) / (inject_Z (Z.of_nat T) * sumQ (map nwalkers2 parts)).
Proof.
  intros Hne HT Hg. pose proof (lenQ_pos parts Hne) as HP. pose proof (injn_pos T HT) as HTq.
  assert (HW : 0 < sumQ (map wtotal parts)).
  { apply sumQ_pos_map; [assumption|]. intros p Hp. apply (dmc_block_spec T p HT (Hg p Hp)). }
  assert (HN : 0 < sumQ (map nwalkers2 parts)).
  { apply sumQ_pos_map; [assumption|]. intros p Hp. apply (dmc_block_spec T p HT (Hg p Hp)). }
  split; [assumption|]. split; [assumption|].
  set (N := sumQ (map nwalkers2 parts)) in *. set (W := sumQ (map wtotal parts)) in *.
  assert (Etw : forall p, In p parts -> task_weight parts p == wtotal p * (lenQ parts / (inject_Z (Z.of_nat T) * N))).
  { intros p Hp. destruct (dmc_block_spec T p HT (Hg p Hp)) as [Hw [Hn [_ E2]]].
    unfold task_weight. fold N. rewrite E2. field. repeat split; lra. }
  assert (Ewt : sumQ (map (task_weight parts) parts) == W * (lenQ parts / (inject_Z (Z.of_nat T) * N))).
  { rewrite (sumQ_map_ext _ _ _ Etw). rewrite sumQ_map_scale. reflexivity. }
  unfold dmc_parallel. cbn [fst snd]. split.
  - rewrite (sumQ_map_ext _ (fun p => wototal p * (/ W))).
    + rewrite sumQ_map_scale. field. lra.
    + intros p Hp. destruct (dmc_block_spec T p HT (Hg p Hp)) as [Hw [Hn [E1 _]]].
      rewrite E1, Ewt, (Etw p Hp). field. repeat split; lra.
  - unfold meanQ. unfold lenQ at 1. rewrite map_length. fold (lenQ parts). rewrite Ewt. field. repeat split; lra.
Qed.

(* ---------- re-blocking ---------- *)
Lemma reblock_block_weighted b : b <> [] -> 0 < sumQ (map snd b) ->
  sumQ (map snd b) * reblock_block b == sumQ (map (fun p => fst p * snd p) b).
Proof.
  intros Hne HW. unfold reblock_block, meanQ. unfold lenQ. rewrite !map_length. fold (lenQ b).
  pose proof (lenQ_pos b Hne). field. split; lra.
Qed.

Lemma sumQ_pairs_concat (f : Q*Q -> Q) bs : sumQ (map f (concat bs)) == sumQ (map (fun b => sumQ (map f b)) bs).
Proof.
  induction bs as [|b bs IH]; cbn [concat map]; rewrite ?sumQ_cons, ?sumQ_nil; [reflexivity|].
  rewrite map_app, sumQ_app. rewrite IH. reflexivity.
Qed.

(* what re-blocking preserves: sum_b W_b v_b = sum_i w_i x_i, for every series and every number of blocks,
   provided every block is non-empty and has positive weight *)
Theorem reblock_weighted_mean nblocks vw : (0 < nblocks)%nat ->
  (forall b, In b (array_split nblocks vw) -> b <> [] /\ 0 < sumQ (map snd b)) ->
  sumQ (map (fun b => sumQ (map snd b) * reblock_block b) (array_split nblocks vw)) == sumQ (map (fun p => fst p * snd p) vw)
  /\ sumQ (block_weights nblocks vw) == sumQ (map snd vw).
Proof.
  intros Hk Hb. split.
  - rewrite (sumQ_map_ext _ (fun b => sumQ (map (fun p => fst p * snd p) b))).
    + rewrite <- sumQ_pairs_concat. rewrite join_split by assumption. reflexivity.
    + intros b Hin. destruct (Hb b Hin). apply reblock_block_weighted; assumption.
  - unfold block_weights. rewrite <- (sumQ_pairs_concat snd). rewrite join_split by assumption. reflexivity.
Qed.
