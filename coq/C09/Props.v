(* C09 — property theorems only.  One observable component at a time: array-valued observables are
   averaged componentwise by the code (numpy broadcasting), so each component is an instance. *)
From Coq Require Import ZArith QArith List Bool Lia.
From PyQMC Require Import base.Split C09.Model C09.Proofs.
Import ListNotations. Open Scope Q_scope.

(* VMC: block value = plain mean over the block's steps and all walkers *)
Theorem C09_vmc_block_is_plain_mean : forall steps n, steps <> [] -> (0 < n)%nat -> (forall o, In o steps -> length o = n) ->
  vmc_block steps == total steps / (lenQ steps * inject_Z (Z.of_nat n)).
Proof. exact vmc_block_plain_mean. Qed.
Print Assumptions C09_vmc_block_is_plain_mean.

(* VMC split over ANY number of workers with ANY (positive) walker counts per worker: still the plain mean over
   all steps and all walkers (grand total / (T * N)), i.e. independent of the partitioning *)
Theorem C09_vmc_parallel_is_plain_mean : forall parts T, parts <> [] -> (0 < T)%nat -> (forall p, In p parts -> good_part T p) ->
  0 < sumQ (map nwalkers parts) /\
  vmc_parallel parts == sumQ (map total parts) / (inject_Z (Z.of_nat T) * sumQ (map nwalkers parts)).
Proof. exact vmc_parallel_plain_mean. Qed.
Print Assumptions C09_vmc_parallel_is_plain_mean.

(* np.array_split: k chunks, sizes floor/ceil(n/k), summing to n, concatenating back to the walker list *)
Theorem C09_array_split_is_a_partition : forall (A : Type) (k : nat) (l : list A), (0 < k)%nat ->
  concat (array_split k l) = l /\ length (array_split k l) = k /\
  forall s, In s (split_sizes (length l) k) -> (length l / k <= s <= length l / k + 1)%nat.
Proof.
  intros A k l Hk. split; [apply join_split; assumption|]. split; [apply array_split_count|].
  intros s Hs. apply split_sizes_bounds. assumption.
Qed.
Print Assumptions C09_array_split_is_a_partition.

(* DMC: block value = weight-weighted mean over steps and walkers; block weight = mean walker weight *)
Theorem C09_dmc_block_is_weighted_mean : forall T part, (0 < T)%nat -> good_dpart T part ->
  0 < wtotal part /\ 0 < nwalkers2 part /\
  fst (dmc_block part) == wototal part / wtotal part /\
  snd (dmc_block part) == wtotal part / (inject_Z (Z.of_nat T) * nwalkers2 part).
Proof. exact dmc_block_spec. Qed.
Print Assumptions C09_dmc_block_is_weighted_mean.

Theorem C09_dmc_parallel_is_weighted_mean : forall T parts, parts <> [] -> (0 < T)%nat -> (forall p, In p parts -> good_dpart T p) ->
  0 < sumQ (map wtotal parts) /\ 0 < sumQ (map nwalkers2 parts) /\
  fst (dmc_parallel parts) == sumQ (map wototal parts) / sumQ (map wtotal parts) /\
  snd (dmc_parallel parts) == sumQ (map wtotal parts) / (inject_Z (Z.of_nat T) * sumQ (map nwalkers2 parts)).
Proof. exact dmc_parallel_spec. Qed.
Print Assumptions C09_dmc_parallel_is_weighted_mean.

(* re-blocking: what is preserved for every series, weight vector and block count is the W_b-weighted mean *)
Theorem C09_reblock_preserves_weighted_mean : forall nblocks vw, (0 < nblocks)%nat ->
  (forall b, In b (array_split nblocks vw) -> b <> [] /\ 0 < sumQ (map snd b)) ->
  sumQ (map (fun b => sumQ (map snd b) * reblock_block b) (array_split nblocks vw)) == sumQ (map (fun p => fst p * snd p) vw)
  /\ sumQ (block_weights nblocks vw) == sumQ (map snd vw).
Proof. exact reblock_weighted_mean. Qed.
Print Assumptions C09_reblock_preserves_weighted_mean.

(* ... whereas the PLAIN mean of the re-blocked series is not the mean of the series when the blocks carry
   different weight: [1,2,3] with unit weights in 2 blocks gives [3/2, 3], plain mean 9/4, not 2 (finding F12) *)
Theorem C09_reblock_plain_mean_refuted :
  map qz (reblock 2 [(1,1);(2,1);(3,1)]) = [[3;2]%Z;[3;1]%Z] /\
  ~ meanQ (reblock 2 [(1,1);(2,1);(3,1)]) == meanQ [1;2;3].
Proof. split; [vm_compute; reflexivity|]. vm_compute. discriminate. Qed.
Print Assumptions C09_reblock_plain_mean_refuted.

Example C09_hypotheses_satisfiable :
  good_part 2 [[1;2;3];[4;5;6]] /\ good_part 2 [[7];[8]] /\
  qz (vmc_parallel [[[1;2;3];[4;5;6]]; [[7];[8]]]) = [9;2]%Z /\
  good_dpart 1 [[(1#2, 3);(3#2, 5)]] /\ map qz [fst (dmc_block [[(1#2, 3);(3#2, 5)]]); snd (dmc_block [[(1#2, 3);(3#2, 5)]])] = [[9;2];[1;1]]%Z.
Proof.
  repeat split; try (vm_compute; reflexivity).
  - exists 3%nat. split; [lia|]. intros o [<-|[<-|[]]]; reflexivity.
  - exists 1%nat. split; [lia|]. intros o [<-|[<-|[]]]; reflexivity.
  - exists 2%nat. split; [lia|]. intros s [<-|[]]. split; [reflexivity|]. intros p [<-|[<-|[]]]; cbn; reflexivity.
Qed.
Print Assumptions C09_hypotheses_satisfiable.
