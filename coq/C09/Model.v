(* C09 — exact rational model of the averaging formulas of
   mc.vmc_worker / mc.vmc_parallel (and sample_many.sample_overlap_client, same recombination),
   dmc.dmc_propagate / dmc.dmc_propagate_parallel, and reblock._reblock. *)
From Coq Require Import ZArith QArith List Bool.
From PyQMC Require Import base.Split.
Import ListNotations. Open Scope Q_scope.

Definition sumQ (l : list Q) : Q := fold_right Qplus 0 l.
Definition lenQ {A} (l : list A) : Q := inject_Z (Z.of_nat (length l)).
Definition meanQ (l : list Q) : Q := sumQ l / lenQ l.

(* ---- VMC: steps = list over steps of the per-walker values of one observable component ---- *)
(* accumulator.avg = mean over walkers; rolling average: block += avg / nsteps *)
Definition vmc_block (steps : list (list Q)) : Q :=
  sumQ (map (fun o => meanQ o / lenQ steps) steps).

Definition nwalkers (steps : list (list Q)) : Q := match steps with [] => 0 | o :: _ => lenQ o end.

(* vmc_parallel: confweight = n_p / (mean(n) * P);  block = sum_p block_p * confweight_p *)
Definition vmc_parallel (parts : list (list (list Q))) : Q :=
  let ns := map nwalkers parts in
  let denom := meanQ ns * lenQ parts in
  sumQ (map (fun part => vmc_block part * (nwalkers part / denom)) parts).

(* ---- DMC: per step a list of (weight, value) ---- *)
Definition wsum (wo : list (Q*Q)) : Q := sumQ (map fst wo).
Definition wosum (wo : list (Q*Q)) : Q := sumQ (map (fun p => fst p * snd p) wo).
(* avg[k] = einsum(weights, res) / (nconfig * wavg), wavg = mean(weights) *)
Definition dmc_step (wo : list (Q*Q)) : Q * Q :=
  let wavg := wsum wo / lenQ wo in (wosum wo / (lenQ wo * wavg), wavg).
(* df_ret[k] = mean_t (avg_t * weight_t / mean(weight)); df_ret["weight"] = mean(weight) *)
Definition dmc_block (steps : list (list (Q*Q))) : Q * Q :=
  let res := map dmc_step steps in
  let wm := meanQ (map snd res) in
  (meanQ (map (fun r => fst r * (snd r / wm)) res), wm).
Definition nwalkers2 (steps : list (list (Q*Q))) : Q := match steps with [] => 0 | o :: _ => lenQ o end.
(* dmc_propagate_parallel *)
Definition task_weight (parts : list (list (list (Q*Q)))) (part : list (list (Q*Q))) : Q :=
  (* w["weight"] * confweight * npartitions / sum(confweight) *)
  snd (dmc_block part) * nwalkers2 part * lenQ parts / sumQ (map nwalkers2 parts).
Definition dmc_parallel (parts : list (list (list (Q*Q)))) : Q * Q :=
  let weight := map (task_weight parts) parts in
  let wtot := sumQ weight in
  (sumQ (map (fun part => fst (dmc_block part) * (task_weight parts part / wtot)) parts), meanQ weight).

(* ---- reblock._reblock: per block  mean(v*w) / mean(w) ---- *)
Definition reblock_block (vw : list (Q*Q)) : Q :=  (* pairs (value, weight) *)
  meanQ (map (fun p => fst p * snd p) vw) / meanQ (map snd vw).
Definition reblock (nblocks : nat) (vw : list (Q*Q)) : list Q := map reblock_block (array_split nblocks vw).
Definition block_weights (nblocks : nat) (vw : list (Q*Q)) : list Q := map (fun b => sumQ (map snd b)) (array_split nblocks vw).

(* printing *)
Definition qz (q : Q) : list Z := let r := Qred q in [Qnum r; Zpos (Qden r)].
