(* C04 — property theorems only.  pp_* / cusp_* are regenerated from /repo's func3d.py on every run
   (value(r), and the radial factor G(r) with gradient = rvec * G(r); Laplacian as reported). *)
From Coq Require Import Reals Lra.
From Coquelicot Require Import Coquelicot.
From PyQMC Require Import gen.Func3d_Gen C04.Proofs.
Open Scope R_scope.

(* PolyPade: the two spellings of the value and of the gradient factor agree *)
Theorem C04_polypade_routes_agree : forall r beta rcut, rcut <> 0 ->
  pp_value r beta rcut = pp_gv_value r beta rcut /\ pp_gv_gradr r beta rcut = pp_gl_gradr r beta rcut.
Proof. intros. split; [apply gen_pp_values_agree; assumption|apply gen_pp_gradr_agree]. Qed.
Print Assumptions C04_polypade_routes_agree.

(* the gradient is the derivative of the value: d value/dr = r G(r), for all parameters and all radii where the function is defined *)
Theorem C04_polypade_gradient_is_derivative : forall r beta rcut, rcut <> 0 -> 1 + beta * pp_p r rcut <> 0 ->
  is_derive (fun x => pp_gv_value x beta rcut) r (r * pp_gv_gradr r beta rcut).
Proof. exact gen_pp_value_derivative. Qed.
Print Assumptions C04_polypade_gradient_is_derivative.

(* the Laplacian is f'' + 2 f'/r *)
Theorem C04_polypade_laplacian_is_second_derivative : forall r beta rcut, r <> rcut -> rcut <> 0 -> 1 + beta * pp_p r rcut <> 0 ->
  is_derive (fun x => x * pp_gl_gradr x beta rcut) r (pp_gl_lap r beta rcut - 2 * pp_gl_gradr r beta rcut).
Proof. exact gen_pp_laplacian_is_second_derivative. Qed.
Print Assumptions C04_polypade_laplacian_is_second_derivative.

(* at the cutoff: value, slope and Laplacian (its regular form, equal to the reported one for r <> rcut) vanish,
   so the function masked to r < rcut is continuous with continuous first and second derivatives *)
Theorem C04_polypade_smooth_at_cutoff : forall beta rcut, rcut <> 0 ->
  (pp_gv_value rcut beta rcut = 0 /\ pp_value rcut beta rcut = 0) /\ (pp_gv_gradr rcut beta rcut = 0 /\ pp_gl_gradr rcut beta rcut = 0) /\
  pp_lap_regular rcut beta rcut = 0 /\ (forall r, r <> rcut -> pp_gl_lap r beta rcut = pp_lap_regular r beta rcut).
Proof.
  intros beta rcut Hc. split; [apply gen_pp_value_zero_at_cutoff; assumption|]. split; [apply gen_pp_slope_zero_at_cutoff; assumption|].
  split; [apply pp_lap_zero_at_cutoff; assumption|]. intros r Hr. apply gen_pp_lap_regular_form; assumption.
Qed.
Print Assumptions C04_polypade_smooth_at_cutoff.

(* energy.kinetic (two symbolic passes through its electron loop): the reported kinetic energy is -1/2 times the sum of the Laplacians *)
Theorem C04_kinetic_energy_is_minus_half_the_laplacians : forall lap1 lap2, kinetic_two_electrons lap1 lap2 = - (lap1 + lap2) / 2.
Proof. exact kinetic_is_minus_half_sum. Qed.
Print Assumptions C04_kinetic_energy_is_minus_half_the_laplacians.

(* cusp function *)
Theorem C04_cusp_routes_agree : forall r gamma rcut, rcut <> 0 -> r <> 0 -> 1 + gamma * cusp_b r rcut <> 0 ->
  cusp_value r gamma rcut = cusp_gv_value r gamma rcut /\ cusp_g_gradr r gamma rcut = cusp_gv_gradr r gamma rcut /\ cusp_g_gradr r gamma rcut = cusp_gl_gradr r gamma rcut.
Proof. intros. split; [apply cusp_values_agree|apply cusp_gradr_agree; assumption]. Qed.
Print Assumptions C04_cusp_routes_agree.

Theorem C04_cusp_gradient_is_derivative : forall r gamma rcut, rcut <> 0 -> r <> 0 -> 1 + gamma * cusp_b r rcut <> 0 ->
  is_derive (fun x => cusp_value x gamma rcut) r (r * cusp_g_gradr r gamma rcut).
Proof. exact cusp_value_derivative. Qed.
Print Assumptions C04_cusp_gradient_is_derivative.

Theorem C04_cusp_laplacian_is_second_derivative : forall r gamma rcut, rcut <> 0 -> r <> 0 -> 1 + gamma * cusp_b r rcut <> 0 ->
  is_derive (fun x => x * cusp_gl_gradr x gamma rcut) r (cusp_gl_lap r gamma rcut - 2 * cusp_gl_gradr r gamma rcut).
Proof. exact cusp_laplacian_is_second_derivative. Qed.
Print Assumptions C04_cusp_laplacian_is_second_derivative.

Theorem C04_cusp_smooth_at_cutoff : forall gamma rcut, rcut <> 0 -> 3 + gamma <> 0 ->
  cusp_value rcut gamma rcut = 0 /\ cusp_g_gradr rcut gamma rcut = 0 /\ cusp_gl_gradr rcut gamma rcut = 0 /\ cusp_gl_lap rcut gamma rcut = 0.
Proof. exact cusp_zero_at_cutoff. Qed.
Print Assumptions C04_cusp_smooth_at_cutoff.

(* combination rules used by the wave-function classes *)
Theorem C04_exponential_rule : forall (U U1 : R -> R) x u2, (forall y, is_derive U y (U1 y)) -> is_derive U1 x u2 ->
  (forall y, is_derive (fun t => exp (U t)) y (U1 y * exp (U y))) /\
  is_derive (fun y => U1 y * exp (U y)) x ((u2 + U1 x * U1 x) * exp (U x)).
Proof. exact exp_second_derivative. Qed.
Print Assumptions C04_exponential_rule.

Theorem C04_product_rule : forall f0 f1 f2 g0 g1 g2, f0 <> 0 -> g0 <> 0 ->
  (f2 * g0 + 2 * f1 * g1 + f0 * g2) / (f0 * g0) = f2 / f0 + g2 / g0 + 2 * (f1 / f0) * (g1 / g0).
Proof. exact product_rule_second_derivative. Qed.
Print Assumptions C04_product_rule.

Theorem C04_sum_rule : forall c1 c2 f0 f1 g0 g1, f0 <> 0 -> g0 <> 0 -> c1 * f0 + c2 * g0 <> 0 ->
  (c1 * f1 + c2 * g1) / (c1 * f0 + c2 * g0) = (c1 * f0 / (c1 * f0 + c2 * g0)) * (f1 / f0) + (c2 * g0 / (c1 * f0 + c2 * g0)) * (g1 / g0).
Proof. exact sum_rule_derivative. Qed.
Print Assumptions C04_sum_rule.

(* the hypotheses are satisfiable by the default basis: beta = 0.2, rcut = 7.5, r = 3 *)
Example C04_hypotheses_satisfiable : 7.5 <> 0 /\ 1 + 0.2 * pp_p 3 7.5 <> 0 /\ (3:R) <> 7.5.
Proof. unfold pp_p. repeat split; lra. Qed.
Print Assumptions C04_hypotheses_satisfiable.
