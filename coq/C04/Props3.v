(* C04 — property theorems (mathcomp part): derivatives of a Slater determinant with respect to one electron. *)
From mathcomp Require Import all_ssreflect all_fingroup all_algebra.
From PyQMC Require Import C03.DetRatio C04.Slater.
Set Implicit Arguments. Unset Strict Implicit. Unset Printing Implicit Defensive.
Import GRing.Theory. Local Open Scope ring_scope.

(* the determinant is linear in the row of electron e: difference quotients (hence directional derivatives and the Laplacian) of the
   determinant are determinants with the difference quotient of the orbital row *)
Theorem C04_determinant_is_linear_in_the_moved_row : forall (F : fieldType) (n : nat) (A : 'M[F]_n) (e : 'I_n) (a b : F) (v w : 'rV[F]_n),
  \det (setrow A e (a *: v + b *: w)) = a * \det (setrow A e v) + b * \det (setrow A e w).
Proof. exact: det_setrow_linear. Qed.
Print Assumptions C04_determinant_is_linear_in_the_moved_row.

(* so  (D det)/det = ((D phi) A^-1)_e  for every linear D: the expression Slater.gradient / gradient_laplacian evaluate *)
Theorem C04_slater_derivative_is_the_ratio_formula_on_derivative_orbitals : forall (F : fieldType) (n : nat) (A : 'M[F]_n) (e : 'I_n) (dphi : 'rV[F]_n),
  A \in unitmx -> \det (setrow A e dphi) = \det A * (dphi *m invmx A) 0 e.
Proof. exact: slater_derivative_ratio. Qed.
Print Assumptions C04_slater_derivative_is_the_ratio_formula_on_derivative_orbitals.
