(* C04 — the radial Jastrow basis functions of pyqmc/wf/func3d.py (definitions regenerated in gen/Func3d_Gen.v):
   the reported gradient factor and Laplacian are the derivatives of the value, the different routes agree,
   and value, slope and Laplacian vanish at the cutoff radius (so that the masked function is smooth there). *)
From Coq Require Import Reals Lra.
From Coquelicot Require Import Coquelicot.
From PyQMC Require Import gen.Func3d_Gen.
Open Scope R_scope.

Ltac nz Hc Hd := repeat match goal with
  | |- _ /\ _ => split
  | |- True => exact I
  | |- 1 <> 0 => exact R1_neq_R0
  | |- ?a * ?b <> 0 => apply Rmult_integral_contrapositive_currified
  | |- _ <> 0 => first [assumption | (let Hx := fresh in intro Hx; apply Hd; rewrite <- Hx; field; exact Hc)]
  end.

(* ---------------- PolyPade ---------------- *)
(* Canonical spellings of the five radial expressions (hand-written; they are the expressions func3d.py had when these proofs were written).
   The theorems below are proved for them once; gen/Func3d_Gen.v, regenerated from the current source, is tied to them by the bridging lemmas
   br_* which hold for ALL arguments with no side condition: both sides are brought to a normal form in which every denominator is an atom
   (Rinv distributed over products and powers, each Rinv argument ring-normalised) and compared by ring. A source that spells the same rational
   functions differently (hoisted factors, x*x for x**2, helper functions) therefore re-proves without change. *)
Definition ppc_value (r : R) (beta : R) (rcut : R) : R := ((1 - (((((3 * (r / rcut)) - 8) * (r / rcut)) + 6) * ((r / rcut) ^ 2))) / (1 + (beta * (((((3 * (r / rcut)) - 8) * (r / rcut)) + 6) * ((r / rcut) ^ 2))))).
Definition ppc_gv_gradr (r : R) (beta : R) (rcut : R) : R := (1 * (((((r / rcut) - 1) * (1 / (1 + (beta * (((((3 * ((r / rcut) - 1)) + 4) * (((r / rcut) - 1) ^ 2)) * ((r / rcut) - 1)) + 1))))) ^ 2) * (((- (1 + beta)) * 12) / (rcut ^ 2)))).
Definition ppc_gv_value (r : R) (beta : R) (rcut : R) : R := ((1 - (((((3 * ((r / rcut) - 1)) + 4) * (((r / rcut) - 1) ^ 2)) * ((r / rcut) - 1)) + 1)) * (1 / (1 + (beta * (((((3 * ((r / rcut) - 1)) + 4) * (((r / rcut) - 1) ^ 2)) * ((r / rcut) - 1)) + 1))))).
Definition ppc_gl_gradr (r : R) (beta : R) (rcut : R) : R := (1 * (((((- (1 + beta)) * 12) / (rcut ^ 2)) * ((1 / (1 + (beta * ((((3 * (((r / rcut) - 1) * ((r / rcut) - 1))) + (4 * ((r / rcut) - 1))) * (((r / rcut) - 1) * ((r / rcut) - 1))) + 1)))) ^ 2)) * (((r / rcut) - 1) * ((r / rcut) - 1)))).
Definition ppc_gl_lap (r : R) (beta : R) (rcut : R) : R := ((((((- (1 + beta)) * 12) / (rcut ^ 2)) * ((1 / (1 + (beta * ((((3 * (((r / rcut) - 1) * ((r / rcut) - 1))) + (4 * ((r / rcut) - 1))) * (((r / rcut) - 1) * ((r / rcut) - 1))) + 1)))) ^ 2)) * (((r / rcut) - 1) * ((r / rcut) - 1))) * ((5 + (2 / ((r / rcut) - 1))) - ((((24 * beta) * ((((r / rcut) - 1) + 1) ^ 2)) * (((r / rcut) - 1) * ((r / rcut) - 1))) * (1 / (1 + (beta * ((((3 * (((r / rcut) - 1) * ((r / rcut) - 1))) + (4 * ((r / rcut) - 1))) * (((r / rcut) - 1) * ((r / rcut) - 1))) + 1))))))).

Ltac canon_step F :=
  match goal with
  | |- context [F ?a] =>
      let x := fresh "arg" in let Hx := fresh "Harg" in
      pose (x := a); assert (Hx : x = a) by reflexivity; ring_simplify in Hx;
      match type of Hx with _ = ?a' => tryif constr_eq a a' then fail else (replace a with a' by ring) end; clear Hx; clear x
  end.
Ltac canon_arg F := do 20 (try canon_step F).
Ltac inv_norm := unfold Rdiv; rewrite ?Rinv_mult; rewrite <- ?pow_inv; canon_arg Rinv; ring.

Lemma br_value r beta rcut : pp_value r beta rcut = ppc_value r beta rcut.
Proof. unfold pp_value, ppc_value. first [reflexivity | inv_norm]. Qed.
Lemma br_gv_value r beta rcut : pp_gv_value r beta rcut = ppc_gv_value r beta rcut.
Proof. unfold pp_gv_value, ppc_gv_value. first [reflexivity | inv_norm]. Qed.
Lemma br_gv_gradr r beta rcut : pp_gv_gradr r beta rcut = ppc_gv_gradr r beta rcut.
Proof. unfold pp_gv_gradr, ppc_gv_gradr. first [reflexivity | inv_norm]. Qed.
Lemma br_gl_gradr r beta rcut : pp_gl_gradr r beta rcut = ppc_gl_gradr r beta rcut.
Proof. unfold pp_gl_gradr, ppc_gl_gradr. first [reflexivity | inv_norm]. Qed.
Lemma br_gl_lap r beta rcut : pp_gl_lap r beta rcut = ppc_gl_lap r beta rcut.
Proof. unfold pp_gl_lap, ppc_gl_lap. first [reflexivity | inv_norm]. Qed.

Definition pp_p (r rcut : R) : R := (3 * (r / rcut - 1) + 4) * (r / rcut - 1) ^ 2 * (r / rcut - 1) + 1.

Lemma pp_values_agree r beta rcut : rcut <> 0 -> ppc_value r beta rcut = ppc_gv_value r beta rcut.
Proof. intros Hc. unfold ppc_value, ppc_gv_value. unfold Rdiv at 1. f_equal; [field; exact Hc|]. unfold Rdiv. rewrite Rmult_1_l. f_equal. f_equal. f_equal. field. exact Hc. Qed.

Lemma pp_gradr_agree r beta rcut : ppc_gv_gradr r beta rcut = ppc_gl_gradr r beta rcut.
Proof.
  unfold ppc_gv_gradr, ppc_gl_gradr.
  replace ((3 * ((r / rcut - 1) * (r / rcut - 1)) + 4 * (r / rcut - 1)) * ((r / rcut - 1) * (r / rcut - 1)) + 1)
    with ((3 * (r / rcut - 1) + 4) * (r / rcut - 1) ^ 2 * (r / rcut - 1) + 1) by ring.
  ring.
Qed.

Lemma pp_den_norm r beta rcut : rcut <> 0 -> 1 + beta * pp_p r rcut <> 0 ->
  rcut * rcut ^ 2 * rcut + beta * ((3 * (r - rcut) + 4 * rcut) * (r - rcut) ^ 2 * (r - rcut) + rcut * rcut ^ 2 * rcut) <> 0.
Proof.
  intros Hc Hd H. apply Hd. unfold pp_p.
  assert (H2 : rcut ^ 2 <> 0) by (apply pow_nonzero; exact Hc).
  apply (Rmult_eq_reg_l (rcut * rcut ^ 2 * rcut)); [|apply Rmult_integral_contrapositive_currified; [apply Rmult_integral_contrapositive_currified; [exact Hc|exact H2]|exact Hc]].
  rewrite Rmult_0_r, <- H. field. exact Hc.
Qed.

(* d value / d r = r * G(r): the gradient vector rvec * G is the gradient of the value *)
Theorem pp_value_derivative r beta rcut : rcut <> 0 -> 1 + beta * pp_p r rcut <> 0 ->
  is_derive (fun x => ppc_gv_value x beta rcut) r (r * ppc_gv_gradr r beta rcut).
Proof.
  intros Hc Hd. pose proof (pp_den_norm r beta rcut Hc Hd) as Hn. unfold ppc_gv_value, ppc_gv_gradr, pp_p in *.
  auto_derive.
  - nz Hc Hd.
  - field. split; [exact Hc | exact Hn].
Qed.

Theorem pp_value_zero_at_cutoff beta rcut : rcut <> 0 -> ppc_gv_value rcut beta rcut = 0 /\ ppc_value rcut beta rcut = 0.
Proof.
  intros Hc. rewrite pp_values_agree by exact Hc. split; unfold ppc_gv_value; replace (rcut / rcut - 1) with 0 by (field; exact Hc); ring.
Qed.
Theorem pp_slope_zero_at_cutoff beta rcut : rcut <> 0 -> ppc_gv_gradr rcut beta rcut = 0 /\ ppc_gl_gradr rcut beta rcut = 0.
Proof. intros Hc. rewrite <- pp_gradr_agree. split; unfold ppc_gv_gradr; replace (rcut / rcut - 1) with 0 by (field; exact Hc); ring. Qed.

(* the Laplacian without the removable 2/z1 singularity *)
Definition pp_lap_regular (r beta rcut : R) : R :=
  let z1 := r / rcut - 1 in let obp := 1 / (1 + beta * pp_p r rcut) in
  - (1 + beta) * 12 / rcut ^ 2 * obp ^ 2 * (5 * z1 * z1 + 2 * z1 - 24 * beta * (z1 + 1) ^ 2 * (z1 * z1) * (z1 * z1) * obp).
Theorem pp_lap_regular_form r beta rcut : r <> rcut -> rcut <> 0 -> ppc_gl_lap r beta rcut = pp_lap_regular r beta rcut.
Proof.
  intros Hr Hc. unfold ppc_gl_lap, pp_lap_regular, pp_p. cbv zeta.
  assert (Hz : r / rcut - 1 <> 0). { intro H. apply Hr. apply (Rmult_eq_reg_r (/ rcut)); [|apply Rinv_neq_0_compat; exact Hc]. rewrite Rinv_r by exact Hc. unfold Rdiv in H. lra. }
  set (z1 := r / rcut - 1) in *.
  replace ((3 * (z1 * z1) + 4 * z1) * (z1 * z1) + 1) with ((3 * z1 + 4) * z1 ^ 2 * z1 + 1) by ring.
  set (obp := 1 / (1 + beta * ((3 * z1 + 4) * z1 ^ 2 * z1 + 1))).
  replace (2 / z1) with (2 * / z1) by reflexivity.
  transitivity (- (1 + beta) * 12 / rcut ^ 2 * obp ^ 2 * (5 * (z1 * z1) + 2 * (z1 * z1 * / z1) - 24 * beta * (z1 + 1) ^ 2 * (z1 * z1) * (z1 * z1) * obp)); [ring|].
  replace (z1 * z1 * / z1) with z1 by (field; exact Hz). ring.
Qed.
Theorem pp_lap_zero_at_cutoff beta rcut : rcut <> 0 -> pp_lap_regular rcut beta rcut = 0.
Proof. intros Hc. unfold pp_lap_regular. cbv zeta. replace (rcut / rcut - 1) with 0 by (field; exact Hc). ring. Qed.

(* lap = f'' + 2 f'/r with f' = r G:  d(r G)/dr = lap - 2 G *)
Theorem pp_laplacian_is_second_derivative r beta rcut : r <> rcut -> rcut <> 0 -> 1 + beta * pp_p r rcut <> 0 ->
  is_derive (fun x => x * ppc_gl_gradr x beta rcut) r (ppc_gl_lap r beta rcut - 2 * ppc_gl_gradr r beta rcut).
Proof.
  intros Hr Hc Hd. pose proof (pp_den_norm r beta rcut Hc Hd) as Hn. unfold ppc_gl_lap, ppc_gl_gradr, pp_p in *.
  assert (Hz : r - rcut <> 0) by lra.
  auto_derive.
  - nz Hc Hd; lra.
  - field. repeat split; try exact Hc; try exact Hz.
    intro H. apply Hn. rewrite <- H. ring.
Qed.


(* ---- the same statements about the definitions generated from the current source ---- *)
Theorem gen_pp_values_agree r beta rcut : rcut <> 0 -> pp_value r beta rcut = pp_gv_value r beta rcut.
Proof. rewrite br_value, br_gv_value. apply pp_values_agree. Qed.
Theorem gen_pp_gradr_agree r beta rcut : pp_gv_gradr r beta rcut = pp_gl_gradr r beta rcut.
Proof. rewrite br_gv_gradr, br_gl_gradr. apply pp_gradr_agree. Qed.
Theorem gen_pp_value_derivative r beta rcut : rcut <> 0 -> 1 + beta * pp_p r rcut <> 0 ->
  is_derive (fun x => pp_gv_value x beta rcut) r (r * pp_gv_gradr r beta rcut).
Proof.
  intros Hc Hd. rewrite br_gv_gradr. apply (is_derive_ext (fun x => ppc_gv_value x beta rcut)); [intros t; symmetry; apply br_gv_value|].
  apply pp_value_derivative; assumption.
Qed.
Theorem gen_pp_laplacian_is_second_derivative r beta rcut : r <> rcut -> rcut <> 0 -> 1 + beta * pp_p r rcut <> 0 ->
  is_derive (fun x => x * pp_gl_gradr x beta rcut) r (pp_gl_lap r beta rcut - 2 * pp_gl_gradr r beta rcut).
Proof.
  intros Hr Hc Hd. rewrite br_gl_lap, br_gl_gradr. apply (is_derive_ext (fun x => x * ppc_gl_gradr x beta rcut)); [intros t; apply f_equal; symmetry; apply br_gl_gradr|].
  apply pp_laplacian_is_second_derivative; assumption.
Qed.
Theorem gen_pp_value_zero_at_cutoff beta rcut : rcut <> 0 -> pp_gv_value rcut beta rcut = 0 /\ pp_value rcut beta rcut = 0.
Proof. rewrite br_value, br_gv_value. apply pp_value_zero_at_cutoff. Qed.
Theorem gen_pp_slope_zero_at_cutoff beta rcut : rcut <> 0 -> pp_gv_gradr rcut beta rcut = 0 /\ pp_gl_gradr rcut beta rcut = 0.
Proof. rewrite br_gv_gradr, br_gl_gradr. apply pp_slope_zero_at_cutoff. Qed.
Theorem gen_pp_lap_regular_form r beta rcut : r <> rcut -> rcut <> 0 -> pp_gl_lap r beta rcut = pp_lap_regular r beta rcut.
Proof. rewrite br_gl_lap. apply pp_lap_regular_form. Qed.

(* energy.kinetic: after the statements before the loop, two passes through the loop body and the statements after it, the kinetic energy is
   -(lap1 + lap2)/2: each electron's Laplacian is accumulated once with the factor -1/2, wherever the factor is applied *)
Theorem kinetic_is_minus_half_sum lap1 lap2 : kinetic_two_electrons lap1 lap2 = - (lap1 + lap2) / 2.
Proof. unfold kinetic_two_electrons. field. Qed.

(* ---------------- CutoffCusp ---------------- *)
Definition cusp_b (r rcut : R) : R := ((r / rcut - 1) * (r / rcut - 1) * (r / rcut - 1) + 1) / 3.

Lemma cusp_values_agree r gamma rcut : cusp_value r gamma rcut = cusp_gv_value r gamma rcut.
Proof. unfold cusp_value, cusp_gv_value. unfold Rdiv. ring. Qed.
Lemma cusp_den_norm r gamma rcut : rcut <> 0 -> 1 + gamma * cusp_b r rcut <> 0 ->
  3 * (rcut * rcut * rcut) + gamma * ((r - rcut) * (r - rcut) * (r - rcut) + rcut * rcut * rcut) <> 0.
Proof.
  intros Hc Hd H. apply Hd. unfold cusp_b.
  apply (Rmult_eq_reg_l (3 * (rcut * rcut * rcut))).
  2:{ apply Rmult_integral_contrapositive_currified; [lra|]. repeat apply Rmult_integral_contrapositive_currified; exact Hc. }
  rewrite Rmult_0_r, <- H. field. exact Hc.
Qed.

Lemma cusp_gradr_agree r gamma rcut : rcut <> 0 -> r <> 0 -> 1 + gamma * cusp_b r rcut <> 0 ->
  cusp_g_gradr r gamma rcut = cusp_gv_gradr r gamma rcut /\ cusp_g_gradr r gamma rcut = cusp_gl_gradr r gamma rcut.
Proof.
  intros Hc Hr Hd. pose proof (cusp_den_norm r gamma rcut Hc Hd) as Hn. unfold cusp_b in Hd. unfold cusp_g_gradr, cusp_gv_gradr, cusp_gl_gradr.
  split; field; repeat split; try assumption; try (intro H; apply Hn; rewrite <- H; ring).
Qed.

Theorem cusp_value_derivative r gamma rcut : rcut <> 0 -> r <> 0 -> 1 + gamma * cusp_b r rcut <> 0 ->
  is_derive (fun x => cusp_value x gamma rcut) r (r * cusp_g_gradr r gamma rcut).
Proof.
  intros Hc Hr Hd. pose proof (cusp_den_norm r gamma rcut Hc Hd) as Hn. unfold cusp_value, cusp_g_gradr, cusp_b in *.
  auto_derive.
  - nz Hc Hd.
  - field. repeat split; try exact Hc; try exact Hr. intro H. apply Hn. rewrite <- H. ring.
Qed.

Theorem cusp_laplacian_is_second_derivative r gamma rcut : rcut <> 0 -> r <> 0 -> 1 + gamma * cusp_b r rcut <> 0 ->
  is_derive (fun x => x * cusp_gl_gradr x gamma rcut) r (cusp_gl_lap r gamma rcut - 2 * cusp_gl_gradr r gamma rcut).
Proof.
  intros Hc Hr Hd. pose proof (cusp_den_norm r gamma rcut Hc Hd) as Hn. unfold cusp_gl_lap, cusp_gl_gradr, cusp_b in *.
  auto_derive.
  - nz Hc Hd.
  - field. repeat split; try exact Hc; try exact Hr. intro H. apply Hn. rewrite <- H. ring.
Qed.

Theorem cusp_zero_at_cutoff gamma rcut : rcut <> 0 -> 3 + gamma <> 0 ->
  cusp_value rcut gamma rcut = 0 /\ cusp_g_gradr rcut gamma rcut = 0 /\ cusp_gl_gradr rcut gamma rcut = 0 /\ cusp_gl_lap rcut gamma rcut = 0.
Proof.
  intros Hc Hg. unfold cusp_value, cusp_g_gradr, cusp_gl_gradr, cusp_gl_lap.
  replace (rcut / rcut - 1) with 0 by (field; exact Hc). replace (rcut / rcut) with 1 by (field; exact Hc).
  repeat split; try ring; try (field; repeat split; try exact Hg; try exact Hc; lra).
Qed.

(* electron-electron cusp: slope -1 ... value(r) ~ const - r  => d value/dr at r -> 0 equals -1 (times the coefficient) *)
Theorem cusp_slope_at_origin gamma rcut : rcut <> 0 -> 3 <> 0 ->
  forall r, r <> 0 -> 1 + gamma * cusp_b r rcut <> 0 ->
  r * cusp_g_gradr r gamma rcut = - ((r / rcut - 1) * (r / rcut - 1)) / (1 + gamma * cusp_b r rcut) ^ 2.
Proof. intros Hc _ r Hr Hd. pose proof (cusp_den_norm r gamma rcut Hc Hd) as Hn. unfold cusp_g_gradr, cusp_b in *. field. repeat split; try assumption; try (intro H; apply Hn; rewrite <- H; ring). Qed.

(* ---------------- combination rules (1-D statements of the identities the wave-function classes use) ---------------- *)
(* Jastrow: Psi = exp U  =>  Psi''/Psi = U'' + U'^2  (lap + sum(grad**2)) *)
Theorem exp_second_derivative (U U1 : R -> R) x u2 : (forall y, is_derive U y (U1 y)) -> is_derive U1 x u2 ->
  (forall y, is_derive (fun t => exp (U t)) y (U1 y * exp (U y))) /\
  is_derive (fun y => U1 y * exp (U y)) x ((u2 + U1 x * U1 x) * exp (U x)).
Proof.
  intros H1 H2. split.
  - intros y. auto_derive; [eexists; apply H1|].
    replace (Derive (fun x0 : R => U x0) y) with (U1 y) by (symmetry; apply is_derive_unique; apply H1). ring.
  - auto_derive; [split; [eexists; exact H2|split; [eexists; apply H1|exact I]]|].
    replace (Derive (fun x0 : R => U1 x0) x) with u2 by (symmetry; apply is_derive_unique; exact H2).
    replace (Derive (fun x0 : R => U x0) x) with (U1 x) by (symmetry; apply is_derive_unique; apply H1). ring.
Qed.

(* product wave function: (f g)''/(f g) = f''/f + g''/g + 2 (f'/f)(g'/g): sum of Laplacians plus twice the cross term *)
Theorem product_rule_second_derivative f0 f1 f2 g0 g1 g2 : f0 <> 0 -> g0 <> 0 ->
  (f2 * g0 + 2 * f1 * g1 + f0 * g2) / (f0 * g0) = f2 / f0 + g2 / g0 + 2 * (f1 / f0) * (g1 / g0).
Proof. intros. field. split; assumption. Qed.
(* sum wave function: derivatives of c1 f + c2 g relative to the total are the weighted sums with weights c_i f_i / total *)
Theorem sum_rule_derivative c1 c2 f0 f1 g0 g1 : f0 <> 0 -> g0 <> 0 -> c1 * f0 + c2 * g0 <> 0 ->
  (c1 * f1 + c2 * g1) / (c1 * f0 + c2 * g0) = (c1 * f0 / (c1 * f0 + c2 * g0)) * (f1 / f0) + (c2 * g0 / (c1 * f0 + c2 * g0)) * (g1 / g0).
Proof. intros. field. repeat split; assumption. Qed.
