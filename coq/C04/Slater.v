(* C04 — why the gradient and the Laplacian of a Slater determinant are the ratio formula applied to the orbital derivatives:
   the determinant is linear in row e, so any linear operator D acting on the orbitals of electron e (a directional derivative, the
   Laplacian) gives  D det(A) = det(A with row e := D phi) = det(A) * ((D phi) A^-1)_e  (mathcomp; every field and size). *)
From mathcomp Require Import all_ssreflect all_fingroup all_algebra.
From PyQMC Require Import C03.DetRatio.
Set Implicit Arguments. Unset Strict Implicit. Unset Printing Implicit Defensive.
Import GRing.Theory. Local Open Scope ring_scope.

Section SlaterDerivative.
Variable (F : fieldType) (n : nat).
Implicit Types (A : 'M[F]_n) (v w : 'rV[F]_n).

(* linearity of the determinant in row e *)
Lemma det_setrow_linear A (e : 'I_n) (a b : F) v w :
  \det (setrow A e (a *: v + b *: w)) = a * \det (setrow A e v) + b * \det (setrow A e w).
Proof.
rewrite !det_setrow !mulr_sumr -big_split /=; apply: eq_bigr => j _.
by rewrite !mxE mulrDl !mulrA.
Qed.

(* a finite-difference quotient of the determinant in row e is the determinant with the quotient of the rows: in the limit, D det = det(row e := D phi) *)
Lemma det_setrow_difference A (e : 'I_n) (h : F) v w : 
  \det (setrow A e v) - \det (setrow A e w) = \det (setrow A e (v - w)).
Proof.
have := det_setrow_linear A e 1 (-1) v w. rewrite !scale1r scaleN1r mul1r mulN1r => ->. by [].
Qed.

(* ... and that determinant is the ratio formula applied to the derivative row *)
Theorem slater_derivative_ratio A (e : 'I_n) (dphi : 'rV[F]_n) : A \in unitmx ->
  \det (setrow A e dphi) = \det A * (dphi *m invmx A) 0 e.
Proof. exact: det_ratio. Qed.
End SlaterDerivative.
