(* C06 — property theorems only (exact symmetries: exchange, relabelling, lattice translation). *)
From mathcomp Require Import all_ssreflect all_fingroup all_algebra.
From PyQMC Require Import C06.Sym.
Set Implicit Arguments. Unset Strict Implicit. Unset Printing Implicit Defensive.
Import GRing.Theory. Local Open Scope ring_scope.

(* exchanging the positions of two different electrons of one spin block flips the sign of that block's determinant:
   every commutative ring (real or complex orbitals), every number of electrons, every orbital set *)
Theorem C06_exchange_flips_determinant :
  forall (R : comRingType) (n : nat) (pos : Type) (phi : 'I_n -> pos -> R) (a b : 'I_n) (r : 'I_n -> pos),
  a != b -> \det (slater_mx phi (r \o tperm a b)) = - \det (slater_mx phi r).
Proof. exact: det_exchange. Qed.
Print Assumptions C06_exchange_flips_determinant.

Theorem C06_relabelling_gives_signature :
  forall (R : comRingType) (n : nat) (pos : Type) (phi : 'I_n -> pos -> R) (s : 'S_n) (r : 'I_n -> pos),
  \det (slater_mx phi (r \o s)) = (-1) ^+ s * \det (slater_mx phi r).
Proof. exact: det_relabel. Qed.
Print Assumptions C06_relabelling_gives_signature.

(* multi-determinant expansions inherit the sign / the phase *)
Theorem C06_multideterminant_flips :
  forall (R : comRingType) (K : finType) (c dup ddn dup' : K -> R), (forall k, dup' k = - dup k) ->
  \sum_k c k * dup' k * ddn k = - \sum_k c k * dup k * ddn k.
Proof. exact: multidet_flip. Qed.
Print Assumptions C06_multideterminant_flips.

(* Jastrow exponent and electron-electron energy: a sum over pairs i<j of a function that is symmetric and sees the labels only
   through the spins is unchanged by ANY relabelling that keeps the spins — in particular by exchanging two same-spin electrons *)
Theorem C06_pair_sums_ignore_same_spin_relabelling :
  forall (R : numDomainType) (n : nat) (pos sp : Type) (spin : 'I_n -> sp) (f : sp -> sp -> pos -> pos -> R),
  (forall s t x y, f s t x y = f t s y x) ->
  forall (s : 'S_n) (r : 'I_n -> pos), (forall i, spin (s i) = spin i) -> pair_lt spin f (r \o s) = pair_lt spin f r.
Proof. move=> R n pos sp spin f fs s r; exact: pair_sum_relabel. Qed.
Print Assumptions C06_pair_sums_ignore_same_spin_relabelling.

Theorem C06_exchange_of_same_spin_electrons_keeps_spins :
  forall (n : nat) (sp : Type) (spin : 'I_n -> sp) (a b : 'I_n), spin a = spin b -> forall i, spin (tperm a b i) = spin i.
Proof. exact: tperm_keeps_spin. Qed.
Print Assumptions C06_exchange_of_same_spin_electrons_keeps_spins.

Theorem C06_one_body_sums_ignore_same_spin_relabelling :
  forall (R : numDomainType) (n : nat) (pos sp : Type) (spin : 'I_n -> sp) (h : sp -> pos -> R) (s : 'S_n) (r : 'I_n -> pos),
  (forall i, spin (s i) = spin i) -> one_body spin h (r \o s) = one_body spin h r.
Proof. move=> R n pos sp spin h s r; exact: one_body_relabel. Qed.
Print Assumptions C06_one_body_sums_ignore_same_spin_relabelling.

(* rigid translation: every term of Psi and of the energy sees positions through differences *)
Theorem C06_differences_ignore_translation : forall (V : zmodType) (x y t : V), (x + t) - (y + t) = x - y.
Proof. exact: difference_translation. Qed.
Print Assumptions C06_differences_ignore_translation.

(* periodic: moving electron e by a lattice vector (wrap counters + d, same in-cell position) multiplies the determinant by ph(d),
   for every multiplicative phase function ph *)
Theorem C06_lattice_translation_multiplies_by_twist_phase :
  forall (R : comRingType) (n : nat) (cellpos : Type) (W : zmodType) (u : 'I_n -> cellpos -> R) (ph : W -> R),
  (forall a b, ph (a + b) = ph a * ph b) ->
  forall (r : 'I_n -> cellpos * W) (e : 'I_n) (d : W),
  \det (slater_mx (bloch_orb u ph) (shift r e d)) = ph d * \det (slater_mx (bloch_orb u ph) r).
Proof. move=> R n cellpos W u ph H r e d; exact: det_lattice_shift. Qed.
Print Assumptions C06_lattice_translation_multiplies_by_twist_phase.
