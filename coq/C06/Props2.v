(* C06 — property theorems over the reals (the twist phase is a character of the lattice). *)
From Coq Require Import Reals.
From PyQMC Require Import C06.Phase.
Open Scope R_scope.

Theorem C06_twist_phase_is_multiplicative : forall kl w1 w2,
  cph (kdot kl (let '(x, y, z) := w1 in let '(x', y', z') := w2 in (x + x', y + y', z + z'))) = cmul (cph (kdot kl w1)) (cph (kdot kl w2)).
Proof. exact twist_phase_multiplicative. Qed.
Print Assumptions C06_twist_phase_is_multiplicative.

Theorem C06_kpoints_of_one_twist_share_the_phase : forall t (m : nat),
  cph (t + 2 * INR m * PI) = cph t /\ cph (t - 2 * INR m * PI) = cph t.
Proof. exact cph_period. Qed.
Print Assumptions C06_kpoints_of_one_twist_share_the_phase.

Theorem C06_twist_phase_has_modulus_one : forall t, fst (cph t) * fst (cph t) + snd (cph t) * snd (cph t) = 1.
Proof. exact modulus_one. Qed.
Print Assumptions C06_twist_phase_has_modulus_one.

From PyQMC Require Import C06.Parity.
From Coq Require Import List.
(* the executable signature used by the correspondence: the identity is even and exchanging two neighbouring entries flips it *)
Theorem C06_signature_flips_on_adjacent_exchange : forall p x y q, x <> y -> parity (p ++ y :: x :: q) = negb (parity (p ++ x :: y :: q)).
Proof. exact parity_adjacent_swap. Qed.
Print Assumptions C06_signature_flips_on_adjacent_exchange.
Theorem C06_signature_of_identity_is_even : forall n, parity (seq 0 n) = false.
Proof. exact parity_identity. Qed.
Print Assumptions C06_signature_of_identity_is_even.
(* exchanging ANY two entries of a duplicate-free labelling (any two same-spin electrons, not only neighbours) flips it *)
Theorem C06_signature_flips_on_any_exchange : forall p x m y q, NoDup (p ++ x :: m ++ y :: q) ->
  parity (p ++ y :: m ++ x :: q) = negb (parity (p ++ x :: m ++ y :: q)).
Proof. exact parity_any_swap_nodup. Qed.
Print Assumptions C06_signature_flips_on_any_exchange.
From PyQMC Require Import C06.Exchanges.
From Coq Require Import Permutation.
(* however a relabelling is produced from a duplicate-free labelling by exchanging pairs of positions, its signature is the starting
   signature times (-1)^(number of exchanges) — the sign C06_exchange_flips_determinant gives the determinant; the result is again
   duplicate-free and a permutation of the start *)
Theorem C06_signature_is_parity_of_number_of_exchanges : forall sw l, NoDup l -> Forall (valid_swap (length l)) sw ->
  parity (apply_swaps sw l) = xorb (Nat.odd (length sw)) (parity l) /\ NoDup (apply_swaps sw l) /\ Permutation l (apply_swaps sw l).
Proof. exact parity_of_exchanges. Qed.
Print Assumptions C06_signature_is_parity_of_number_of_exchanges.
Theorem C06_signature_from_identity_is_parity_of_number_of_exchanges : forall n sw, Forall (valid_swap n) sw ->
  parity (apply_swaps sw (seq 0 n)) = Nat.odd (length sw).
Proof. exact parity_of_exchanges_from_identity. Qed.
Print Assumptions C06_signature_from_identity_is_parity_of_number_of_exchanges.
