(* C06 — executable signature of a relabelling given as the list p (new position i holds old electron p_i): parity of the number
   of inversions.  Evaluated by vm_compute on the permutations the harness applies to the real wave functions. *)
From Coq Require Import List Arith Bool Lia.
Import ListNotations.

Fixpoint count_lt (x : nat) (l : list nat) : nat :=
  match l with [] => 0 | y :: t => (if y <? x then 1 else 0) + count_lt x t end.
Fixpoint inversions (l : list nat) : nat :=
  match l with [] => 0 | x :: t => count_lt x t + inversions t end.
Definition parity (l : list nat) : bool := Nat.odd (inversions l).

Lemma count_lt_swap z x y q : count_lt z (x :: y :: q) = count_lt z (y :: x :: q).
Proof. cbn [count_lt]. lia. Qed.
Lemma count_lt_app z p q : count_lt z (p ++ q) = count_lt z p + count_lt z q.
Proof. induction p as [|a p IH]; cbn [app count_lt]; [reflexivity|rewrite IH; lia]. Qed.

Lemma inversions_adjacent_swap p x y q : x <> y ->
  (x < y -> inversions (p ++ y :: x :: q) = S (inversions (p ++ x :: y :: q))) /\
  (y < x -> S (inversions (p ++ y :: x :: q)) = inversions (p ++ x :: y :: q)).
Proof.
  intros Hxy. induction p as [|a p [IH1 IH2]].
  - cbn [app inversions count_lt]. destruct (Nat.ltb_spec x y), (Nat.ltb_spec y x); split; intros; lia.
  - cbn [app inversions]. rewrite !count_lt_app, count_lt_swap. split; intros H; [rewrite (IH1 H)|rewrite <- (IH2 H)]; lia.
Qed.

(* exchanging two neighbours in the list flips the signature *)
Theorem parity_adjacent_swap p x y q : x <> y -> parity (p ++ y :: x :: q) = negb (parity (p ++ x :: y :: q)).
Proof.
  intros Hxy. unfold parity. destruct (inversions_adjacent_swap p x y q Hxy) as [H1 H2].
  destruct (Nat.lt_total x y) as [H|[H|H]]; [rewrite (H1 H), Nat.odd_succ, <- Nat.negb_odd; reflexivity|contradiction|].
  rewrite <- (H2 H), Nat.odd_succ, <- Nat.negb_odd, negb_involutive. reflexivity.
Qed.
Theorem parity_identity n : parity (seq 0 n) = false.
Proof.
  unfold parity. assert (H : forall k m, inversions (seq k m) = 0).
  { intros k m; revert k; induction m as [|m IH]; intros k; cbn [seq inversions]; [reflexivity|]. rewrite IH.
    assert (C : forall j l, k < j -> count_lt k (seq j l) = 0).
    { intros j l; revert j; induction l as [|l IHl]; intros j Hj; cbn [seq count_lt]; [reflexivity|].
      destruct (Nat.ltb_spec j k); [lia|]. rewrite IHl; lia. }
    rewrite C; lia. }
  rewrite H. reflexivity.
Qed.

(* exchanging ANY two positions (not only neighbours) flips the signature: the exchange is 2|m|+1 neighbour exchanges *)
Lemma parity_move_right m : forall p x q, ~ In x m ->
  parity (p ++ m ++ x :: q) = xorb (Nat.odd (length m)) (parity (p ++ x :: m ++ q)).
Proof.
  induction m as [|a m IH]; intros p x q Hx.
  - cbn [app length]. rewrite xorb_false_l. reflexivity.
  - assert (Ha : a <> x) by (intros E; apply Hx; left; exact E).
    assert (Hm : ~ In x m) by (intros E; apply Hx; right; exact E).
    change (p ++ (a :: m) ++ x :: q) with (p ++ a :: (m ++ x :: q)).
    replace (p ++ a :: (m ++ x :: q)) with ((p ++ [a]) ++ m ++ x :: q) by (rewrite <- app_assoc; reflexivity).
    rewrite (IH (p ++ [a]) x q Hm).
    replace ((p ++ [a]) ++ x :: m ++ q) with (p ++ a :: x :: (m ++ q)) by (rewrite <- app_assoc; reflexivity).
    change (p ++ x :: (a :: m) ++ q) with (p ++ x :: a :: (m ++ q)).
    rewrite (parity_adjacent_swap p x a (m ++ q)) by (intros E; apply Ha; symmetry; exact E).
    cbn [length]. rewrite Nat.odd_succ, <- Nat.negb_odd.
    destruct (Nat.odd (length m)), (parity (p ++ x :: a :: m ++ q)); reflexivity.
Qed.

Theorem parity_any_swap p x m y q : x <> y -> ~ In x m -> ~ In y m ->
  parity (p ++ y :: m ++ x :: q) = negb (parity (p ++ x :: m ++ y :: q)).
Proof.
  intros Hxy Hx Hy.
  pose proof (parity_move_right m p x (y :: q) Hx) as E1.
  pose proof (parity_move_right m p y (x :: q) Hy) as E2.
  pose proof (parity_adjacent_swap (p ++ m) x y q Hxy) as E3.
  rewrite <- !app_assoc in E3. rewrite E3, E1 in E2. revert E2.
  destruct (Nat.odd (length m)), (parity (p ++ x :: m ++ y :: q)), (parity (p ++ y :: m ++ x :: q));
    cbn; congruence.
Qed.

(* the hypotheses hold for every duplicate-free labelling, in particular for every permutation of 0..n-1 *)
Corollary parity_any_swap_nodup p x m y q : NoDup (p ++ x :: m ++ y :: q) ->
  parity (p ++ y :: m ++ x :: q) = negb (parity (p ++ x :: m ++ y :: q)).
Proof.
  intros H. pose proof (NoDup_remove_2 _ _ _ H) as Hx.
  assert (H1 : NoDup ((p ++ x :: m) ++ y :: q)) by (rewrite <- app_assoc; exact H).
  pose proof (NoDup_remove_2 _ _ _ H1) as Hy.
  apply parity_any_swap.
  - intros E; apply Hx; apply in_or_app; right; apply in_or_app; right; left; symmetry; exact E.
  - intros E; apply Hx; apply in_or_app; right; apply in_or_app; left; exact E.
  - intros E; apply Hy; apply in_or_app; left; apply in_or_app; right; right; exact E.
Qed.
Example parity_any_swap_nonvacuous :
  NoDup ([3] ++ 0 :: [4; 1] ++ 2 :: [5]) /\ parity ([3] ++ 2 :: [4; 1] ++ 0 :: [5]) = negb (parity ([3] ++ 0 :: [4; 1] ++ 2 :: [5])).
Proof. split; [repeat constructor; cbn; intuition lia | vm_compute; reflexivity]. Qed.
