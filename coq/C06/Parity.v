(* C06 — executable signature of a relabelling given as the list p (new position i holds old electron p_i): parity of the number
   of inversions.  Evaluated by vm_compute on the permutations the harness applies to the real wave functions. *)
From Coq Require Import List Arith Bool Lia.
Import ListNotations.

Fixpoint count_lt (x : nat) (l : list nat) : nat :=
  match l with [] => 0 | y :: t => (if y <? x then 1 else 0) + count_lt x t end.
Fixpoint inversions (l : list nat) : nat :=
  match l with [] => 0 | x :: t => count_lt x t + inversions t end.
Definition parity (l : list nat) : bool := Nat.odd (inversions l).

Lemma count_lt_swap z x y q : count_lt z (x :: y :: q) = count_lt z (y :: x :: q).
Proof. cbn [count_lt]. lia. Qed.
Lemma count_lt_app z p q : count_lt z (p ++ q) = count_lt z p + count_lt z q.
Proof. induction p as [|a p IH]; cbn [app count_lt]; [reflexivity|rewrite IH; lia]. Qed.

Lemma inversions_adjacent_swap p x y q : x <> y ->
  (x < y -> inversions (p ++ y :: x :: q) = S (inversions (p ++ x :: y :: q))) /\
  (y < x -> S (inversions (p ++ y :: x :: q)) = inversions (p ++ x :: y :: q)).
Proof.
  intros Hxy. induction p as [|a p [IH1 IH2]].
  - cbn [app inversions count_lt]. destruct (Nat.ltb_spec x y), (Nat.ltb_spec y x); split; intros; lia.
  - cbn [app inversions]. rewrite !count_lt_app, count_lt_swap. split; intros H; [rewrite (IH1 H)|rewrite <- (IH2 H)]; lia.
Qed.

(* exchanging two neighbours in the list flips the signature *)
Theorem parity_adjacent_swap p x y q : x <> y -> parity (p ++ y :: x :: q) = negb (parity (p ++ x :: y :: q)).
Proof.
  intros Hxy. unfold parity. destruct (inversions_adjacent_swap p x y q Hxy) as [H1 H2].
  destruct (Nat.lt_total x y) as [H|[H|H]]; [rewrite (H1 H), Nat.odd_succ, <- Nat.negb_odd; reflexivity|contradiction|].
  rewrite <- (H2 H), Nat.odd_succ, <- Nat.negb_odd, negb_involutive. reflexivity.
Qed.
Theorem parity_identity n : parity (seq 0 n) = false.
Proof.
  unfold parity. assert (H : forall k m, inversions (seq k m) = 0).
  { intros k m; revert k; induction m as [|m IH]; intros k; cbn [seq inversions]; [reflexivity|]. rewrite IH.
    assert (C : forall j l, k < j -> count_lt k (seq j l) = 0).
    { intros j l; revert j; induction l as [|l IHl]; intros j Hj; cbn [seq count_lt]; [reflexivity|].
      destruct (Nat.ltb_spec j k); [lia|]. rewrite IHl; lia. }
    rewrite C; lia. }
  rewrite H. reflexivity.
Qed.
