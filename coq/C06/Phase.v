(* C06 — the twist phase exp(i k.L) as a pair (cos, sin): it is multiplicative in the lattice vector, and k-points that differ by a
   reciprocal vector of the supercell (k.L differs by a multiple of 2 pi) give the same phase. *)
From Coq Require Import Reals Lra.
Open Scope R_scope.

Definition cph (t : R) : R * R := (cos t, sin t).
Definition cmul (a b : R * R) : R * R := (fst a * fst b - snd a * snd b, fst a * snd b + snd a * fst b).

Lemma cph_add a b : cph (a + b) = cmul (cph a) (cph b).
Proof. unfold cph, cmul; cbn [fst snd]. rewrite cos_plus, sin_plus. f_equal; lra. Qed.

Lemma cph_period t (m : nat) : cph (t + 2 * INR m * PI) = cph t /\ cph (t - 2 * INR m * PI) = cph t.
Proof.
  unfold cph. split.
  - rewrite cos_period, sin_period. reflexivity.
  - f_equal.
    + rewrite <- (cos_period (t - 2 * INR m * PI) m). f_equal. lra.
    + rewrite <- (sin_period (t - 2 * INR m * PI) m). f_equal. lra.
Qed.

(* k . (w L) is additive in the integer wrap vector w (here: any real-linear functional of w given by three numbers k.L_1, k.L_2, k.L_3) *)
Definition kdot (kl : R * R * R) (w : R * R * R) : R :=
  let '(a, b, c) := kl in let '(x, y, z) := w in a * x + b * y + c * z.
Lemma kdot_add kl w1 w2 :
  kdot kl (let '(x, y, z) := w1 in let '(x', y', z') := w2 in (x + x', y + y', z + z')) = kdot kl w1 + kdot kl w2.
Proof. destruct kl as [[a b] c], w1 as [[x y] z], w2 as [[x' y'] z']. cbn. lra. Qed.
Lemma twist_phase_multiplicative kl w1 w2 :
  cph (kdot kl (let '(x, y, z) := w1 in let '(x', y', z') := w2 in (x + x', y + y', z + z'))) = cmul (cph (kdot kl w1)) (cph (kdot kl w2)).
Proof. rewrite kdot_add. apply cph_add. Qed.
Lemma modulus_one t : fst (cph t) * fst (cph t) + snd (cph t) * snd (cph t) = 1.
Proof. unfold cph; cbn [fst snd]. pose proof (sin2_cos2 t) as H. unfold Rsqr in H. lra. Qed.
