(* C06 — the executable signature of a relabelling is (-1)^(number of exchanges), however the relabelling is produced from any
   duplicate-free labelling by exchanging pairs of positions.  Together with C06_exchange_flips_determinant (each exchange of two
   rows flips the determinant) this ties the inversion-parity signature used by the correspondence to the sign the determinant
   acquires, without going through mathcomp's odd_perm. *)
From Coq Require Import List Arith Bool Lia Permutation.
Import ListNotations.
From PyQMC Require Import C06.Parity.

Definition swap_pos (i j : nat) (l : list nat) : list nat :=
  firstn i l ++ nth j l 0 :: firstn (j - i - 1) (skipn (i + 1) l) ++ nth i l 0 :: skipn (j + 1) l.

Lemma split_at (l : list nat) : forall i, i < length l -> l = firstn i l ++ nth i l 0 :: skipn (i + 1) l.
Proof.
  induction l as [|a l IH]; intros i Hi; cbn [length] in Hi; [lia|].
  destruct i as [|i]; cbn [firstn nth skipn app Nat.add]; [reflexivity|].
  f_equal. apply IH. lia.
Qed.

Lemma nth_skip (l : list nat) : forall n k, nth k (skipn n l) 0 = nth (n + k) l 0.
Proof.
  induction l as [|a l IH]; intros n k; [rewrite skipn_nil; destruct k, n; reflexivity|].
  destruct n as [|n]; [reflexivity|]. cbn [skipn Nat.add nth]. apply IH.
Qed.

Lemma skip_skip (l : list nat) : forall n k, skipn k (skipn n l) = skipn (n + k) l.
Proof.
  induction l as [|a l IH]; intros n k; [rewrite !skipn_nil; reflexivity|].
  destruct n as [|n]; [reflexivity|]. cbn [skipn Nat.add]. apply IH.
Qed.

Lemma split_two (l : list nat) i j : i < j -> j < length l ->
  l = firstn i l ++ nth i l 0 :: firstn (j - i - 1) (skipn (i + 1) l) ++ nth j l 0 :: skipn (j + 1) l.
Proof.
  intros Hij Hj. rewrite (split_at l i) at 1 by lia. f_equal. f_equal.
  set (t := skipn (i + 1) l). assert (Ht : length t = length l - (i + 1)) by (unfold t; apply skipn_length).
  rewrite (split_at t (j - i - 1)) at 1 by lia. f_equal.
  assert (E1 : nth (j - i - 1) t 0 = nth j l 0).
  { unfold t. rewrite nth_skip. f_equal. lia. }
  assert (E2 : skipn (j - i - 1 + 1) t = skipn (j + 1) l).
  { unfold t. rewrite skip_skip. f_equal. lia. }
  rewrite E1, E2. reflexivity.
Qed.

Lemma perm_exchange (p m q : list nat) x y : Permutation (p ++ x :: m ++ y :: q) (p ++ y :: m ++ x :: q).
Proof.
  apply Permutation_app_head.
  transitivity (x :: y :: m ++ q); [apply perm_skip; symmetry; apply Permutation_middle|].
  transitivity (y :: x :: m ++ q); [apply perm_swap|]. apply perm_skip. apply Permutation_middle.
Qed.

Lemma swap_pos_perm l i j : i < j -> j < length l -> Permutation l (swap_pos i j l).
Proof. intros Hij Hj. rewrite (split_two l i j Hij Hj) at 1. unfold swap_pos. apply perm_exchange. Qed.

(* one exchange of two positions of a duplicate-free labelling flips the signature *)
Lemma parity_swap_pos l i j : NoDup l -> i < j -> j < length l -> parity (swap_pos i j l) = negb (parity l).
Proof.
  intros Hl Hij Hj. rewrite (split_two l i j Hij Hj) at 2. unfold swap_pos.
  apply parity_any_swap_nodup. rewrite <- (split_two l i j Hij Hj). exact Hl.
Qed.

Definition valid_swap (n : nat) (s : nat * nat) : Prop := fst s < snd s /\ snd s < n.
Definition apply_swaps (sw : list (nat * nat)) (l : list nat) : list nat :=
  fold_left (fun l s => swap_pos (fst s) (snd s) l) sw l.

Theorem parity_of_exchanges sw : forall l, NoDup l -> Forall (valid_swap (length l)) sw ->
  parity (apply_swaps sw l) = xorb (Nat.odd (length sw)) (parity l)
  /\ NoDup (apply_swaps sw l) /\ Permutation l (apply_swaps sw l).
Proof.
  induction sw as [|[i j] sw IH]; intros l Hl Hv.
  - unfold apply_swaps; cbn [fold_left length]. repeat split; [destruct (parity l); reflexivity|exact Hl|reflexivity].
  - inversion Hv as [|s sw' [Hij Hj] Hv' E]; subst. cbn [fst snd] in Hij, Hj.
    pose proof (swap_pos_perm l i j Hij Hj) as Hp.
    assert (Hl' : NoDup (swap_pos i j l)) by (eapply Permutation_NoDup; eassumption).
    assert (Hlen : length (swap_pos i j l) = length l) by (symmetry; apply Permutation_length; exact Hp).
    destruct (IH (swap_pos i j l) Hl') as [P [N Q]]; [rewrite Hlen; exact Hv'|].
    cbn [apply_swaps fold_left fst snd length]. fold (apply_swaps sw (swap_pos i j l)).
    repeat split; [|exact N|etransitivity; eassumption].
    rewrite P, (parity_swap_pos l i j Hl Hij Hj), Nat.odd_succ, <- Nat.negb_odd.
    destruct (Nat.odd (length sw)), (parity l); reflexivity.
Qed.

(* from the identity labelling: signature = parity of the number of exchanges *)
Corollary parity_of_exchanges_from_identity n sw : Forall (valid_swap n) sw ->
  parity (apply_swaps sw (seq 0 n)) = Nat.odd (length sw).
Proof.
  intros Hv. destruct (parity_of_exchanges sw (seq 0 n) (seq_NoDup n 0)) as [P _]; [rewrite seq_length; exact Hv|].
  rewrite P, parity_identity, xorb_false_r. reflexivity.
Qed.

Example exchanges_nonvacuous :
  Forall (valid_swap 5) [(0, 3); (1, 4); (0, 1)] /\ apply_swaps [(0, 3); (1, 4); (0, 1)] (seq 0 5) = [4; 3; 2; 0; 1]
  /\ parity [4; 3; 2; 0; 1] = true.
Proof. split; [repeat constructor; cbn; lia|split; vm_compute; reflexivity]. Qed.

(* used by the correspondence: the exchanges the harness decomposes a relabelling into do produce that relabelling, and their number has
   the parity the model assigns to it *)
Definition same_list (a b : list nat) : bool := if list_eq_dec Nat.eq_dec a b then true else false.
Definition exchanges_give (n : nat) (sw : list (nat * nat)) (p : list nat) : bool :=
  same_list (apply_swaps sw (seq 0 n)) p && Bool.eqb (Nat.odd (length sw)) (parity p)
  && forallb (fun s => (fst s <? snd s) && (snd s <? n)) sw.
