(* C06 — exact symmetries of a Slater-Jastrow wave function and of the pairwise energy sums (mathcomp).
   Rows of the Slater matrix are electrons: M i j = phi_j (r_i).  A permutation of the electrons of one spin block is a row
   permutation of that block's matrix; the Jastrow exponent and the Coulomb sums are sums over pairs of a symmetric function
   that depends on the labels only through the spins. *)
From mathcomp Require Import all_ssreflect all_fingroup all_algebra.
Set Implicit Arguments. Unset Strict Implicit. Unset Printing Implicit Defensive.
Import GRing.Theory. Local Open Scope ring_scope.

Section Slater.
Variables (R : comRingType) (n : nat) (pos : Type).
Variable phi : 'I_n -> pos -> R.                 (* orbital j at a position *)
Definition slater_mx (r : 'I_n -> pos) : 'M[R]_n := \matrix_(i, j) phi j (r i).

Lemma slater_mx_perm (s : 'S_n) r : slater_mx (r \o s) = row_perm s (slater_mx r).
Proof. by apply/matrixP => i j; rewrite !mxE. Qed.

(* any relabelling of the electrons of the block: the determinant picks up the signature *)
Theorem det_relabel (s : 'S_n) r : \det (slater_mx (r \o s)) = (-1) ^+ s * \det (slater_mx r).
Proof. by rewrite slater_mx_perm row_permE det_mulmx det_perm. Qed.

(* exchanging two different electrons flips the sign *)
Theorem det_exchange (a b : 'I_n) r : a != b -> \det (slater_mx (r \o tperm a b)) = - \det (slater_mx r).
Proof. by move=> ab; rewrite det_relabel odd_tperm ab expr1 mulN1r. Qed.

(* a lattice translation multiplies every orbital of electron e by the same phase c: the determinant is multiplied by c *)
Definition scale_row (e : 'I_n) (c : R) (A : 'M[R]_n) : 'M[R]_n := \matrix_(i, j) ((if i == e then c else 1) * A i j).
Theorem det_scale_row e c A : \det (scale_row e c A) = c * \det A.
Proof.
have -> : scale_row e c A = diag_mx (\row_i (if i == e then c else 1)) *m A.
  by apply/matrixP => i j; rewrite mul_diag_mx !mxE.
rewrite det_mulmx det_diag; congr (_ * _).
rewrite (bigD1 e) //= mxE eqxx big1 ?mulr1 // => i ie; by rewrite mxE (negPf ie).
Qed.
End Slater.

(* multi-determinant expansion: sum_k c_k Dup_k Ddn_k; exchanging two up electrons flips every up determinant *)
Section MultiDet.
Variables (R : comRingType) (K : finType).
Theorem multidet_flip (c dup ddn dup' : K -> R) : (forall k, dup' k = - dup k) ->
  \sum_k c k * dup' k * ddn k = - \sum_k c k * dup k * ddn k.
Proof. move=> H; rewrite -sumrN; apply: eq_bigr => k _; by rewrite H mulrN mulNr. Qed.
Theorem multidet_phase (c dup ddn dup' : K -> R) z : (forall k, dup' k = z * dup k) ->
  \sum_k c k * dup' k * ddn k = z * \sum_k c k * dup k * ddn k.
Proof. move=> H; rewrite mulr_sumr; apply: eq_bigr => k _; by rewrite H !mulrA [c k * z]mulrC. Qed.
End MultiDet.

(* pair sums: U(r) = sum_{i<j} f (spin i) (spin j) (r i) (r j), f symmetric under exchanging both arguments *)
Section Pairs.
Variables (R : numDomainType) (n : nat) (pos sp : Type).
Variable spin : 'I_n -> sp.
Variable f : sp -> sp -> pos -> pos -> R.
Hypothesis f_sym : forall s t x y, f s t x y = f t s y x.

Definition g (r : 'I_n -> pos) (i j : 'I_n) : R := f (spin i) (spin j) (r i) (r j).
Definition pair_lt (r : 'I_n -> pos) : R := \sum_(i < n) \sum_(j < n | (i < j)%N) g r i j.
Definition pair_ne (r : 'I_n -> pos) : R := \sum_(i < n) \sum_(j < n | j != i) g r i j.

Lemma pair_ne_double r : pair_ne r = pair_lt r + pair_lt r.
Proof.
rewrite /pair_ne /pair_lt.
have split_ne i : \sum_(j < n | j != i) g r i j = \sum_(j < n | (i < j)%N) g r i j + \sum_(j < n | (j < i)%N) g r i j.
  rewrite (bigID (fun j : 'I_n => (i < j)%N)) /=; congr (_ + _); apply: eq_bigl => j.
  - by rewrite andb_idl // => ij; rewrite neq_ltn ij orbT.
  - by rewrite -leqNgt -val_eqE /= ltn_neqAle.
rewrite (eq_bigr _ (fun i _ => split_ne i)) big_split /=; congr (_ + _).
rewrite (eq_bigr _ (fun i _ => big_mkcond _ _)) exchange_big /=.
apply: eq_bigr => j _; rewrite -big_mkcond /=; apply: eq_bigr => i _.
by rewrite /g f_sym.
Qed.

(* a permutation that keeps every electron's spin *)
Lemma pair_ne_perm (s : 'S_n) r : (forall i, spin (s i) = spin i) -> pair_ne (r \o s) = pair_ne r.
Proof.
move=> Hs; rewrite /pair_ne [RHS](reindex_inj (@perm_inj _ s)) /=.
apply: eq_bigr => i _. rewrite [RHS](reindex_inj (@perm_inj _ s)) /=.
apply: eq_big => [j|j _]; first by rewrite (inj_eq perm_inj).
by rewrite /g /= !Hs.
Qed.

Theorem pair_sum_relabel (s : 'S_n) r : (forall i, spin (s i) = spin i) -> pair_lt (r \o s) = pair_lt r.
Proof.
move=> Hs. have := pair_ne_perm r Hs. rewrite !pair_ne_double -!mulr2n => H.
exact: (@Num.Theory.pmulrnI R 2 isT _ _ H).
Qed.

(* one-body sums (electron-ion): sum_i h (spin i) (r i) *)
Variable h : sp -> pos -> R.
Definition one_body (r : 'I_n -> pos) : R := \sum_(i < n) h (spin i) (r i).
Theorem one_body_relabel (s : 'S_n) r : (forall i, spin (s i) = spin i) -> one_body (r \o s) = one_body r.
Proof. move=> Hs; rewrite /one_body [RHS](reindex_inj (@perm_inj _ s)) /=; apply: eq_bigr => i _; by rewrite Hs. Qed.

(* exchanging two same-spin electrons is such a permutation *)
Lemma tperm_keeps_spin (a b : 'I_n) : spin a = spin b -> forall i, spin (tperm a b i) = spin i.
Proof. move=> ab i; case: tpermP => // ->; by rewrite ab. Qed.
End Pairs.

(* translation: every term depends on positions through differences *)
Section Translation.
Variables (V : zmodType).
Theorem difference_translation (x y t : V) : (x + t) - (y + t) = x - y.
Proof. by rewrite opprD addrACA subrr addr0. Qed.
End Translation.

(* Bloch phase: the code evaluates orbital j of an electron stored as (in-cell position x, wrap counters w) as ph(w) * u_j(x), where
   ph(w) = exp(i k . (w L)) is multiplicative in w (the same k for all orbitals of a twist: C17).  Moving electron e by the lattice
   vector with integer coordinates d leaves x and turns w into w + d (C18), so the determinant is multiplied by ph(d). *)
Section Bloch.
Variables (R : comRingType) (n : nat) (cellpos : Type) (W : zmodType).
Variable u : 'I_n -> cellpos -> R.
Variable ph : W -> R.
Hypothesis ph_add : forall a b, ph (a + b) = ph a * ph b.
Definition bloch_orb (j : 'I_n) (p : cellpos * W) : R := ph p.2 * u j p.1.
Definition shift (r : 'I_n -> cellpos * W) (e : 'I_n) (d : W) : 'I_n -> cellpos * W :=
  fun i => if i == e then ((r i).1, (r i).2 + d) else r i.

Theorem det_lattice_shift r e d :
  \det (slater_mx bloch_orb (shift r e d)) = ph d * \det (slater_mx bloch_orb r).
Proof.
rewrite -(det_scale_row e); congr (\det _); apply/matrixP => i j; rewrite !mxE /shift /bloch_orb.
case: ifP => _ /=; last by rewrite mul1r.
by rewrite ph_add mulrA [ph d * _]mulrC.
Qed.

(* several electrons moved by several lattice vectors: the phases multiply *)
Theorem det_lattice_shift2 r e1 d1 e2 d2 :
  \det (slater_mx bloch_orb (shift (shift r e1 d1) e2 d2)) = ph d2 * (ph d1 * \det (slater_mx bloch_orb r)).
Proof. by rewrite !det_lattice_shift. Qed.
End Bloch.
