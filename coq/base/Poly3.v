(* Polynomials in three variables with rational coefficients as lists of terms (executable), their evaluation over the reals,
   symbolic partial derivatives proved to be the derivatives (Coquelicot), merging of like monomials, and the l1 bound on the unit cube. *)
From Coq Require Import QArith Qabs Reals List Lia Lra Qreals Bool Psatz.
From Coquelicot Require Import Coquelicot.
Import ListNotations.
Open Scope R_scope.

Definition mono := (nat * nat * nat)%type.
Definition term := (Q * mono)%type.
Definition poly := list term.

Definition mono_eval (m : mono) (x y z : R) : R := let '(a, b, c) := m in x ^ a * y ^ b * z ^ c.
Fixpoint peval (p : poly) (x y z : R) : R :=
  match p with [] => 0 | (q, m) :: t => Q2R q * mono_eval m x y z + peval t x y z end.

Definition pconst (q : Q) : poly := [(q, (0, 0, 0))%nat].
Definition pX : poly := [(1%Q, (1, 0, 0))%nat].
Definition pY : poly := [(1%Q, (0, 1, 0))%nat].
Definition pZ : poly := [(1%Q, (0, 0, 1))%nat].
Definition padd (p q : poly) : poly := p ++ q.
Definition pscale (c : Q) (p : poly) : poly := map (fun t => (Qred (c * fst t), snd t)) p.
Definition pneg (p : poly) : poly := pscale (-1) p.
Definition psub (p q : poly) : poly := padd p (pneg q).
Definition tmul (t1 t2 : term) : term :=
  let '(q1, (a1, b1, c1)) := t1 in let '(q2, (a2, b2, c2)) := t2 in (Qred (q1 * q2), (a1 + a2, b1 + b2, c1 + c2)%nat).
Definition pmul (p q : poly) : poly := flat_map (fun t1 => map (tmul t1) q) p.

Definition mono_eqb (m n : mono) : bool :=
  let '(a, b, c) := m in let '(a', b', c') := n in Nat.eqb a a' && Nat.eqb b b' && Nat.eqb c c'.
Fixpoint pins (q : Q) (m : mono) (p : poly) : poly :=
  match p with
  | [] => [(q, m)]
  | (q', m') :: t => if mono_eqb m m' then (Qred (q + q'), m') :: t else (q', m') :: pins q m t
  end.
Definition pnorm (p : poly) : poly := fold_right (fun t acc => pins (fst t) (snd t) acc) [] p.

(* partial derivatives: v = 0, 1, 2 for x, y, z *)
Definition dterm (v : nat) (t : term) : poly :=
  let '(q, (a, b, c)) := t in
  match v with
  | O => match a with O => [] | S k => [(Qred (q * inject_Z (Z.of_nat (S k))), (k, b, c))] end
  | S O => match b with O => [] | S k => [(Qred (q * inject_Z (Z.of_nat (S k))), (a, k, c))] end
  | _ => match c with O => [] | S k => [(Qred (q * inject_Z (Z.of_nat (S k))), (a, b, k))] end
  end.
Definition pdiff (v : nat) (p : poly) : poly := flat_map (dterm v) p.
Definition plap (p : poly) : poly := pdiff 0 (pdiff 0 p) ++ pdiff 1 (pdiff 1 p) ++ pdiff 2 (pdiff 2 p).

Definition l1 (p : poly) : Q := fold_right (fun t acc => Qabs (fst t) + acc)%Q 0%Q p.
Definition degree (m : mono) : nat := let '(a, b, c) := m in (a + b + c)%nat.
Definition homogeneous (l : nat) (p : poly) : bool := forallb (fun t => Qeq_bool (fst t) 0 || Nat.eqb (degree (snd t)) l) p.

(* ---------------- evaluation is a homomorphism ---------------- *)
Lemma Q2R_Qred q : Q2R (Qred q) = Q2R q.
Proof. apply Qeq_eqR, Qred_correct. Qed.
Lemma peval_app p q x y z : peval (p ++ q) x y z = peval p x y z + peval q x y z.
Proof. induction p as [|[c m] t IH]; cbn [app peval]; [lra|rewrite IH; lra]. Qed.
Lemma peval_padd p q x y z : peval (padd p q) x y z = peval p x y z + peval q x y z.
Proof. apply peval_app. Qed.
Lemma peval_pscale c p x y z : peval (pscale c p) x y z = Q2R c * peval p x y z.
Proof.
  induction p as [|[q m] t IH]; cbn [pscale map peval fst snd]; [lra|].
  fold (pscale c t). rewrite IH, Q2R_Qred, Q2R_mult. lra.
Qed.
Lemma peval_pneg p x y z : peval (pneg p) x y z = - peval p x y z.
Proof. unfold pneg. rewrite peval_pscale. replace (Q2R (-1)) with (-1) by (unfold Q2R; cbn; lra). lra. Qed.
Lemma peval_psub p q x y z : peval (psub p q) x y z = peval p x y z - peval q x y z.
Proof. unfold psub. rewrite peval_padd, peval_pneg. lra. Qed.
Lemma mono_eval_mul a1 b1 c1 a2 b2 c2 x y z :
  mono_eval (a1 + a2, b1 + b2, c1 + c2)%nat x y z = mono_eval (a1, b1, c1) x y z * mono_eval (a2, b2, c2) x y z.
Proof. unfold mono_eval. rewrite !pow_add. ring. Qed.
Lemma peval_tmul_map t1 q x y z :
  peval (map (tmul t1) q) x y z = (Q2R (fst t1) * mono_eval (snd t1) x y z) * peval q x y z.
Proof.
  destruct t1 as [q1 [[a1 b1] c1]]. induction q as [|[q2 [[a2 b2] c2]] t IH]; cbn [map peval tmul fst snd]; [lra|].
  rewrite IH, Q2R_Qred, Q2R_mult, mono_eval_mul. cbn [fst snd]. ring.
Qed.
Lemma peval_pmul p q x y z : peval (pmul p q) x y z = peval p x y z * peval q x y z.
Proof.
  unfold pmul. induction p as [|t1 t IH]; cbn [flat_map peval]; [lra|].
  rewrite peval_app, IH, peval_tmul_map. destruct t1 as [q1 m1]. cbn [fst snd peval]. ring.
Qed.
Lemma peval_pconst q x y z : peval (pconst q) x y z = Q2R q.
Proof. cbn. lra. Qed.
Lemma peval_pX x y z : peval pX x y z = x. Proof. cbn. unfold Q2R; cbn. lra. Qed.
Lemma peval_pY x y z : peval pY x y z = y. Proof. cbn. unfold Q2R; cbn. lra. Qed.
Lemma peval_pZ x y z : peval pZ x y z = z. Proof. cbn. unfold Q2R; cbn. lra. Qed.

Lemma mono_eqb_eq m n : mono_eqb m n = true -> m = n.
Proof.
  destruct m as [[a b] c], n as [[a' b'] c']. unfold mono_eqb. rewrite !andb_true_iff, !Nat.eqb_eq. intros [[-> ->] ->]. reflexivity.
Qed.
Lemma peval_pins q m p x y z : peval (pins q m p) x y z = Q2R q * mono_eval m x y z + peval p x y z.
Proof.
  induction p as [|[q' m'] t IH]; cbn [pins peval]; [lra|].
  destruct (mono_eqb m m') eqn:E.
  - apply mono_eqb_eq in E. subst m'. cbn [peval]. rewrite Q2R_Qred, Q2R_plus. lra.
  - cbn [peval]. rewrite IH. lra.
Qed.
Lemma peval_pnorm p x y z : peval (pnorm p) x y z = peval p x y z.
Proof. induction p as [|[q m] t IH]; cbn [pnorm fold_right peval fst snd]; [reflexivity|]. fold (pnorm t). rewrite peval_pins, IH. reflexivity. Qed.

(* ---------------- derivatives ---------------- *)
Lemma Q2R_inject_nat k : Q2R (inject_Z (Z.of_nat k)) = INR k.
Proof. unfold Q2R, inject_Z; cbn. rewrite Rinv_1, Rmult_1_r. symmetry. apply INR_IZR_INZ. Qed.

Lemma dterm_x q a b c x y z :
  is_derive (fun u => Q2R q * mono_eval (a, b, c) u y z) x (peval (dterm 0 (q, (a, b, c))) x y z).
Proof.
  unfold mono_eval. destruct a as [|k]; cbn [dterm peval].
  - auto_derive; [exact I|]. cbn. ring.
  - auto_derive; [exact I|]. rewrite Q2R_Qred, Q2R_mult, Q2R_inject_nat. unfold mono_eval. cbn [Nat.pred].
    change (match k with O => 1 | S _ => INR k + 1 end) with (INR (S k)). ring.
Qed.
Lemma dterm_y q a b c x y z :
  is_derive (fun u => Q2R q * mono_eval (a, b, c) x u z) y (peval (dterm 1 (q, (a, b, c))) x y z).
Proof.
  unfold mono_eval. destruct b as [|k]; cbn [dterm peval].
  - auto_derive; [exact I|]. cbn. ring.
  - auto_derive; [exact I|]. rewrite Q2R_Qred, Q2R_mult, Q2R_inject_nat. unfold mono_eval. cbn [Nat.pred].
    change (match k with O => 1 | S _ => INR k + 1 end) with (INR (S k)). ring.
Qed.
Lemma dterm_z q a b c x y z :
  is_derive (fun u => Q2R q * mono_eval (a, b, c) x y u) z (peval (dterm 2 (q, (a, b, c))) x y z).
Proof.
  unfold mono_eval. destruct c as [|k]; cbn [dterm peval].
  - auto_derive; [exact I|]. cbn. ring.
  - auto_derive; [exact I|]. rewrite Q2R_Qred, Q2R_mult, Q2R_inject_nat. unfold mono_eval. cbn [Nat.pred].
    change (match k with O => 1 | S _ => INR k + 1 end) with (INR (S k)). ring.
Qed.

Theorem pdiff_x_correct p x y z : is_derive (fun u => peval p u y z) x (peval (pdiff 0 p) x y z).
Proof.
  induction p as [|[q [[a b] c]] t IH]; cbn [peval pdiff flat_map].
  - exact (@is_derive_const R_AbsRing R_NormedModule 0 _).
  - fold (pdiff 0 t). rewrite peval_app. apply (is_derive_plus (fun u => Q2R q * mono_eval (a, b, c) u y z) (fun u => peval t u y z)); [apply dterm_x|exact IH].
Qed.
Theorem pdiff_y_correct p x y z : is_derive (fun u => peval p x u z) y (peval (pdiff 1 p) x y z).
Proof.
  induction p as [|[q [[a b] c]] t IH]; cbn [peval pdiff flat_map].
  - exact (@is_derive_const R_AbsRing R_NormedModule 0 _).
  - fold (pdiff 1 t). rewrite peval_app. apply (is_derive_plus (fun u => Q2R q * mono_eval (a, b, c) x u z) (fun u => peval t x u z)); [apply dterm_y|exact IH].
Qed.
Theorem pdiff_z_correct p x y z : is_derive (fun u => peval p x y u) z (peval (pdiff 2 p) x y z).
Proof.
  induction p as [|[q [[a b] c]] t IH]; cbn [peval pdiff flat_map].
  - exact (@is_derive_const R_AbsRing R_NormedModule 0 _).
  - fold (pdiff 2 t). rewrite peval_app. apply (is_derive_plus (fun u => Q2R q * mono_eval (a, b, c) x y u) (fun u => peval t x y u)); [apply dterm_z|exact IH].
Qed.

(* ---------------- bounds ---------------- *)
Lemma pow_abs_le_1 u n : Rabs u <= 1 -> Rabs (u ^ n) <= 1.
Proof.
  intros H. induction n as [|n IH]; cbn [pow]; [rewrite Rabs_R1; lra|].
  rewrite Rabs_mult. pose proof (Rabs_pos u). pose proof (Rabs_pos (u ^ n)). nra.
Qed.
Lemma mono_abs_le_1 m x y z : Rabs x <= 1 -> Rabs y <= 1 -> Rabs z <= 1 -> Rabs (mono_eval m x y z) <= 1.
Proof.
  intros Hx Hy Hz. destruct m as [[a b] c]. unfold mono_eval. rewrite !Rabs_mult.
  pose proof (pow_abs_le_1 x a Hx). pose proof (pow_abs_le_1 y b Hy). pose proof (pow_abs_le_1 z c Hz).
  pose proof (Rabs_pos (x ^ a)). pose proof (Rabs_pos (y ^ b)). pose proof (Rabs_pos (z ^ c)).
  assert (0 <= Rabs (x ^ a) * Rabs (y ^ b) <= 1) by nra. nra.
Qed.
Lemma Q2R_Qabs q : Q2R (Qabs q) = Rabs (Q2R q).
Proof.
  destruct (Qlt_le_dec q 0) as [H|H].
  - rewrite Qabs_neg by (apply Qlt_le_weak; exact H). rewrite Q2R_opp. apply Qlt_Rlt in H. replace (Q2R 0) with 0 in H by (unfold Q2R; cbn; lra).
    rewrite Rabs_left; lra.
  - rewrite Qabs_pos by exact H. apply Qle_Rle in H. replace (Q2R 0) with 0 in H by (unfold Q2R; cbn; lra). rewrite Rabs_right; lra.
Qed.
Theorem l1_bound p x y z : Rabs x <= 1 -> Rabs y <= 1 -> Rabs z <= 1 -> Rabs (peval p x y z) <= Q2R (l1 p).
Proof.
  intros Hx Hy Hz. induction p as [|[q m] t IH]; cbn [peval l1 fold_right fst].
  - rewrite Rabs_R0. unfold Q2R; cbn; lra.
  - fold (l1 t). rewrite Q2R_plus, Q2R_Qabs. eapply Rle_trans; [apply Rabs_triang|]. rewrite Rabs_mult.
    pose proof (mono_abs_le_1 m x y z Hx Hy Hz). pose proof (Rabs_pos (Q2R q)). pose proof (Rabs_pos (mono_eval m x y z)). nra.
Qed.

(* ---------------- homogeneity ---------------- *)
Theorem homogeneous_scaling l p : homogeneous l p = true -> forall s x y z, peval p (s * x) (s * y) (s * z) = s ^ l * peval p x y z.
Proof.
  intros H s x y z. induction p as [|[q [[a b] c]] t IH]; cbn [peval]; [ring|].
  cbn [homogeneous forallb fst snd] in H. apply andb_true_iff in H. destruct H as [H1 H2]. rewrite (IH H2).
  apply orb_true_iff in H1. destruct H1 as [H1|H1].
  - apply Qeq_bool_eq, Qeq_eqR in H1. rewrite H1. replace (Q2R 0) with 0 by (unfold Q2R; cbn; lra). ring.
  - apply Nat.eqb_eq in H1. cbn [degree] in H1. subst l. unfold mono_eval. rewrite !Rpow_mult_distr, !pow_add. ring.
Qed.
