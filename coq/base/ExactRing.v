(* Computable commutative rings as records, and towers of quadratic extensions K(sqrt alpha).
   Used to build the spherical quadrature points of eval_ecp.generate_quadrature_grids exactly. *)
From Coq Require Import QArith List Bool.
Import ListNotations.

Record ring := { T : Type; r0 : T; r1 : T; radd : T -> T -> T; rmul : T -> T -> T; ropp : T -> T; reqb : T -> T -> bool }.
Definition Qring : ring := {| T := Q; r0 := 0; r1 := 1; radd := fun a b => Qred (a + b); rmul := fun a b => Qred (a * b); ropp := Qopp; reqb := Qeq_bool |}.
Definition quad (K : ring) (alpha : T K) : ring :=
  {| T := T K * T K;
     r0 := (r0 K, r0 K); r1 := (r1 K, r0 K);
     radd := fun a b => (radd K (fst a) (fst b), radd K (snd a) (snd b));
     rmul := fun a b => (radd K (rmul K (fst a) (fst b)) (rmul K alpha (rmul K (snd a) (snd b))),
                         radd K (rmul K (fst a) (snd b)) (rmul K (snd a) (fst b)));
     ropp := fun a => (ropp K (fst a), ropp K (snd a));
     reqb := fun a b => reqb K (fst a) (fst b) && reqb K (snd a) (snd b) |}.
Definition inj (K : ring) (alpha : T K) (x : T K) : T (quad K alpha) := (x, r0 K).
Definition gen (K : ring) (alpha : T K) : T (quad K alpha) := (r0 K, r1 K).

Fixpoint rpow (K : ring) (x : T K) (n : nat) : T K := match n with O => r1 K | S k => rmul K x (rpow K x k) end.
Definition rsumK (K : ring) (l : list (T K)) : T K := fold_left (radd K) l (r0 K).
