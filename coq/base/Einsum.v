(* Typing of einsum contractions by the MEANING of each operand axis (executable), and its soundness for all sizes:
   if a contraction types, one assignment of meanings to the subscript letters explains every axis of every operand. *)
From Coq Require Import List Ascii Bool Lia.
Import ListNotations.

Inductive axis := Ax_walker | Ax_ion | Ax_electron | Ax_pair | Ax_ionpair | Ax_kpoint | Ax_xyz | Ax_one | Ax_two | Ax_image | Ax_coef.
Definition axis_eqb (a b : axis) : bool :=
  match a, b with
  | Ax_walker, Ax_walker | Ax_ion, Ax_ion | Ax_electron, Ax_electron | Ax_pair, Ax_pair | Ax_ionpair, Ax_ionpair
  | Ax_kpoint, Ax_kpoint | Ax_xyz, Ax_xyz | Ax_one, Ax_one | Ax_two, Ax_two | Ax_image, Ax_image | Ax_coef, Ax_coef => true
  | _, _ => false
  end.

Definition binding := list (ascii * axis).
Fixpoint lookup (c : ascii) (m : binding) : option axis :=
  match m with [] => None | (c', a) :: t => if Ascii.eqb c c' then Some a else lookup c t end.
(* bind the letters of one operand to the meanings of its axes; fail on a length mismatch or on a letter already bound to another meaning *)
Fixpoint bind_operand (letters : list ascii) (axes : list axis) (m : binding) : option binding :=
  match letters, axes with
  | [], [] => Some m
  | c :: ls, a :: axs =>
      match lookup c m with
      | None => bind_operand ls axs ((c, a) :: m)
      | Some a' => if axis_eqb a a' then bind_operand ls axs m else None
      end
  | _, _ => None
  end.
Fixpoint bind_all (ins : list (list ascii)) (ops : list (list axis)) (m : binding) : option binding :=
  match ins, ops with
  | [], [] => Some m
  | l :: ins', o :: ops' => match bind_operand l o m with Some m' => bind_all ins' ops' m' | None => None end
  | _, _ => None
  end.
Fixpoint out_axes (out : list ascii) (m : binding) : option (list axis) :=
  match out with
  | [] => Some []
  | c :: t => match lookup c m, out_axes t m with Some a, Some r => Some (a :: r) | _, _ => None end
  end.
Definition type_einsum (ins : list (list ascii)) (out : list ascii) (ops : list (list axis)) : option (list axis) :=
  match bind_all ins ops [] with Some m => out_axes out m | None => None end.
Definition site := (list (list ascii) * list ascii * list (list axis))%type.
Definition site_typed (s : site) : bool :=
  let '(ins, out, ops) := s in match type_einsum ins out ops with Some _ => true | None => false end.

Lemma axis_eqb_eq a b : axis_eqb a b = true -> a = b.
Proof. destruct a, b; cbn; intros H; try reflexivity; discriminate H. Qed.

Definition extends (m' m : binding) : Prop := forall c a, lookup c m = Some a -> lookup c m' = Some a.
Lemma extends_refl m : extends m m. Proof. intros c a H; exact H. Qed.
Lemma extends_trans m1 m2 m3 : extends m1 m2 -> extends m2 m3 -> extends m1 m3.
Proof. intros H1 H2 c a H. apply H1, H2, H. Qed.
Lemma extends_cons c a m : lookup c m = None -> extends ((c, a) :: m) m.
Proof.
  intros Hn c' a' H. cbn. destruct (Ascii.eqb_spec c' c) as [->|]; [rewrite Hn in H; discriminate H|exact H].
Qed.

Lemma bind_operand_sound letters : forall axes m m', bind_operand letters axes m = Some m' ->
  extends m' m /\ length letters = length axes /\
  (forall i c a, nth_error letters i = Some c -> nth_error axes i = Some a -> lookup c m' = Some a).
Proof.
  induction letters as [|c ls IH]; intros [|a axs] m m' H; cbn in H; try discriminate H.
  - inversion H; subst. split; [apply extends_refl|]. split; [reflexivity|]. intros [|i] c a Hc; discriminate Hc.
  - destruct (lookup c m) as [a'|] eqn:L.
    + destruct (axis_eqb a a') eqn:E; [|discriminate H]. apply axis_eqb_eq in E. subst a'.
      destruct (IH _ _ _ H) as [He [Hl Hn]]. split; [exact He|]. split; [cbn; f_equal; exact Hl|].
      intros [|i] c0 a0 Hc Ha; cbn in Hc, Ha; [inversion Hc; inversion Ha; subst; apply He; exact L|eapply Hn; eassumption].
    + destruct (IH _ _ _ H) as [He [Hl Hn]]. split; [eapply extends_trans; [exact He|apply extends_cons; exact L]|]. split; [cbn; f_equal; exact Hl|].
      intros [|i] c0 a0 Hc Ha; cbn in Hc, Ha; [inversion Hc; inversion Ha; subst; apply He; cbn; rewrite Ascii.eqb_refl; reflexivity|eapply Hn; eassumption].
Qed.

Lemma bind_all_sound ins : forall ops m m', bind_all ins ops m = Some m' ->
  extends m' m /\
  (forall k letters axes, nth_error ins k = Some letters -> nth_error ops k = Some axes ->
     length letters = length axes /\ forall i c a, nth_error letters i = Some c -> nth_error axes i = Some a -> lookup c m' = Some a).
Proof.
  induction ins as [|l ins IH]; intros [|o ops] m m' H; cbn in H; try discriminate H.
  - inversion H; subst. split; [apply extends_refl|]. intros [|k] ? ? Hk; discriminate Hk.
  - destruct (bind_operand l o m) as [m1|] eqn:B; [|discriminate H].
    destruct (bind_operand_sound _ _ _ _ B) as [E1 [L1 N1]]. destruct (IH _ _ _ H) as [E2 N2].
    split; [eapply extends_trans; eassumption|].
    intros [|k] letters axes Hl Ha; cbn in Hl, Ha.
    + inversion Hl; inversion Ha; subst. split; [exact L1|]. intros i c a Hc Hx. apply E2. eapply N1; eassumption.
    + eapply N2; eassumption.
Qed.

Theorem typed_contraction_sound ins out ops res : type_einsum ins out ops = Some res ->
  exists m : binding,
    (forall k letters axes, nth_error ins k = Some letters -> nth_error ops k = Some axes ->
       length letters = length axes /\ forall i c a, nth_error letters i = Some c -> nth_error axes i = Some a -> lookup c m = Some a) /\
    out_axes out m = Some res.
Proof.
  unfold type_einsum. destruct (bind_all ins ops []) as [m|] eqn:B; [|discriminate]. intros H.
  exists m. split; [apply (bind_all_sound _ _ _ _ B)|exact H].
Qed.
