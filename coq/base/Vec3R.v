(* 3-vectors over R and the numpy idioms the translator emits. *)
From Coq Require Import Reals Lra.
Open Scope R_scope.

Record vec3 := V3 { vx : R; vy : R; vz : R }.
Definition vadd a b := V3 (vx a + vx b) (vy a + vy b) (vz a + vz b).
Definition vsub a b := V3 (vx a - vx b) (vy a - vy b) (vz a - vz b).
Definition vscal c a := V3 (c * vx a) (c * vy a) (c * vz a).
Definition vpow a (n : nat) := V3 (vx a ^ n) (vy a ^ n) (vz a ^ n).   (* a ** n, elementwise *)
Definition vmul a b := V3 (vx a * vx b) (vy a * vy b) (vz a * vz b).   (* a * b, elementwise *)
Definition vsum a := vx a + vy a + vz a.                            (* np.sum(a, axis=1) *)
Definition norm2 a := vsum (vpow a 2).
(* np.sign *)
Definition sgn (x : R) : R := if Rlt_dec 0 x then 1 else if Rlt_dec x 0 then -1 else 0.

Lemma vec3_eq a b : vx a = vx b -> vy a = vy b -> vz a = vz b -> a = b.
Proof. destruct a, b; cbn; intros -> -> ->; reflexivity. Qed.
Lemma vsum_vmul_self a : vsum (vmul a a) = vsum (vpow a 2).
Proof. unfold vsum, vmul, vpow; cbn. ring. Qed.
Lemma norm2_nonneg a : 0 <= norm2 a.
Proof. unfold norm2, vsum, vpow; cbn. nra. Qed.
Lemma norm2_expand a : norm2 a = vx a * vx a + vy a * vy a + vz a * vz a.
Proof. unfold norm2, vsum, vpow; cbn. ring. Qed.
Lemma norm2_vscal c a : norm2 (vscal c a) = c * c * norm2 a.
Proof. rewrite !norm2_expand. cbn. ring. Qed.
Lemma norm2_neg a b : norm2 (vsub a b) = norm2 (vsub b a).
Proof. rewrite !norm2_expand. cbn. ring. Qed.
Lemma sgn_pos x : 0 < x -> sgn x = 1.
Proof. intros H. unfold sgn. destruct (Rlt_dec 0 x); [reflexivity|lra]. Qed.
Lemma sgn_neg x : x < 0 -> sgn x = -1.
Proof. intros H. unfold sgn. destruct (Rlt_dec 0 x); [lra|]. destruct (Rlt_dec x 0); [reflexivity|lra]. Qed.
Lemma sgn_zero : sgn 0 = 0.
Proof. unfold sgn. destruct (Rlt_dec 0 0); [lra|]. destruct (Rlt_dec 0 0); [lra|reflexivity]. Qed.
Lemma sgn_abs x : Rabs (sgn x) <= 1.
Proof. unfold sgn. destruct (Rlt_dec 0 x); [rewrite Rabs_R1; lra|]. destruct (Rlt_dec x 0); [replace (-1) with (- (1)) by ring; rewrite Rabs_Ropp, Rabs_R1; lra|rewrite Rabs_R0; lra]. Qed.
