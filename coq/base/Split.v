(* np.array_split sizes and chunking; join (split k l) = l.  Shared by C09, C14, C18. *)
From Coq Require Import List Arith Lia.
Import ListNotations.

(* sizes of np.array_split(range(n), k): the first n mod k chunks have n/k+1 items, the others n/k *)
Definition split_sizes (n k : nat) : list nat :=
  map (fun i => n / k + (if i <? n mod k then 1 else 0)) (seq 0 k).

Fixpoint chunks {A} (sizes : list nat) (l : list A) : list (list A) :=
  match sizes with
  | [] => []
  | s :: r => firstn s l :: chunks r (skipn s l)
  end.

Definition array_split {A} (k : nat) (l : list A) : list (list A) := chunks (split_sizes (length l) k) l.

Definition lsum (l : list nat) := fold_right Nat.add 0 l.

Lemma lsum_map_const_ind (q r : nat) : forall s k, 
  lsum (map (fun i => q + (if i <? r then 1 else 0)) (seq s k)) = q * k + (min (s + k) r - min s r).
Proof.
  intros s k. revert s. induction k as [|k IH]; intros s; cbn [seq map lsum fold_right].
  - rewrite Nat.add_0_r. lia.
  - fold (lsum (map (fun i => q + (if i <? r then 1 else 0)) (seq (S s) k))). rewrite IH.
    destruct (Nat.ltb_spec s r); lia.
Qed.

Lemma split_sizes_sum n k : 0 < k -> lsum (split_sizes n k) = n.
Proof.
  intros Hk. unfold split_sizes. rewrite lsum_map_const_ind.
  pose proof (Nat.div_mod n k ltac:(lia)). pose proof (Nat.mod_upper_bound n k ltac:(lia)).
  rewrite Nat.min_0_l. rewrite Nat.min_r by lia. lia.
Qed.

Lemma split_sizes_length n k : length (split_sizes n k) = k.
Proof. unfold split_sizes. rewrite map_length, seq_length. reflexivity. Qed.

Lemma concat_chunks {A} sizes : forall (l : list A), lsum sizes = length l -> concat (chunks sizes l) = l.
Proof.
  induction sizes as [|s r IH]; intros l H; cbn [chunks concat].
  - cbn in H. destruct l; [reflexivity|discriminate].
  - cbn [lsum fold_right] in H. fold (lsum r) in H. rewrite IH.
    + apply firstn_skipn.
    + rewrite skipn_length. lia.
Qed.

Theorem join_split {A} (k : nat) (l : list A) : 0 < k -> concat (array_split k l) = l.
Proof. intros Hk. unfold array_split. apply concat_chunks. apply split_sizes_sum. assumption. Qed.

Lemma chunks_length {A} sizes (l : list A) : length (chunks sizes l) = length sizes.
Proof. revert l. induction sizes as [|s r IH]; intros l; cbn; [reflexivity|]. rewrite IH. reflexivity. Qed.

Lemma array_split_count {A} k (l : list A) : length (array_split k l) = k.
Proof. unfold array_split. rewrite chunks_length. apply split_sizes_length. Qed.

(* every chunk has floor(n/k) or ceil(n/k) items *)
Lemma split_sizes_bounds n k s : In s (split_sizes n k) -> n / k <= s <= n / k + 1.
Proof.
  unfold split_sizes. rewrite in_map_iff. intros [i [E _]]. destruct (i <? n mod k); lia.
Qed.
