(* Counting over 0..n-1, ceiling division, and the stochastic-comb counting theorem.
   Shared by C08 (branching), C07 (T-move selection) and C13 (point selection). *)
From Coq Require Import ZArith List Lia Bool.
Import ListNotations. Open Scope Z_scope.

Definition cdiv (a d : Z) : Z := - ((- a) / d).
Lemma cdiv_spec a d : 0 < d -> d * (cdiv a d - 1) < a <= d * cdiv a d.
Proof.
  intros Hd. unfold cdiv.
  pose proof (Z.div_mod (-a) d ltac:(lia)) as E.
  pose proof (Z.mod_pos_bound (-a) d Hd) as B. nia.
Qed.

Fixpoint cnt (P : Z -> bool) (n : nat) : Z :=
  match n with O => 0 | S k => cnt P k + (if P (Z.of_nat k) then 1 else 0) end.

Lemma cnt_ext P Q n : (forall m, 0 <= m < Z.of_nat n -> P m = Q m) -> cnt P n = cnt Q n.
Proof.
  induction n as [|k IH]; intros H; [reflexivity|]. cbn [cnt].
  rewrite IH by (intros m Hm; apply H; lia). rewrite (H (Z.of_nat k)) by lia. reflexivity.
Qed.

Lemma cnt_bounds P n : 0 <= cnt P n <= Z.of_nat n.
Proof. induction n as [|k IH]; cbn [cnt]; [lia|]. destruct (P (Z.of_nat k)); lia. Qed.

Lemma cnt_interval lo hi n :
  cnt (fun m => (lo <=? m) && (m <? hi)) n = Z.max 0 (Z.min hi (Z.of_nat n) - Z.max lo 0).
Proof.
  induction n as [|k IH]; [cbn; lia|]. cbn [cnt]. rewrite IH.
  destruct (Z.leb_spec lo (Z.of_nat k)), (Z.ltb_spec (Z.of_nat k) hi); cbn [andb]; lia.
Qed.

Lemma cnt_add P Q n :
  cnt (fun m => P m || Q m) n + cnt (fun m => P m && Q m) n = cnt P n + cnt Q n.
Proof.
  induction n as [|k IH]; cbn [cnt]; [lia|].
  destruct (P (Z.of_nat k)), (Q (Z.of_nat k)); cbn [orb andb]; lia.
Qed.

Lemma cnt_false P n : (forall m, 0 <= m < Z.of_nat n -> P m = false) -> cnt P n = 0.
Proof.
  intros H. rewrite (cnt_ext P (fun _ => false) n H). clear H.
  induction n as [|k IH]; cbn [cnt]; lia.
Qed.

Theorem comb_count N r d A B :
  0 < d -> 0 <= r < d -> 0 <= A <= B -> B <= Z.of_nat N * d ->
  cnt (fun m => (A <=? r + m * d) && (r + m * d <? B)) N = cdiv (B - r) d - cdiv (A - r) d.
Proof.
  intros Hd Hr HA HB.
  pose proof (cdiv_spec (A - r) d Hd) as SA. pose proof (cdiv_spec (B - r) d Hd) as SB.
  set (lo := cdiv (A - r) d) in *. set (hi := cdiv (B - r) d) in *.
  rewrite (cnt_ext _ (fun m => (lo <=? m) && (m <? hi))).
  - rewrite cnt_interval.
    assert (0 <= lo) by nia. assert (lo <= hi) by nia. assert (hi <= Z.of_nat N) by nia. lia.
  - intros m Hm.
    destruct (Z.leb_spec A (r + m * d)), (Z.leb_spec lo m); try nia;
    destruct (Z.ltb_spec (r + m * d) B), (Z.ltb_spec m hi); try reflexivity; try nia.
Qed.

Lemma cnt_app P a b : cnt P (a + b) = cnt P a + cnt (fun m => P (Z.of_nat a + m)) b.
Proof.
  induction b as [|b IH]; cbn [cnt].
  - rewrite Nat.add_0_r. lia.
  - rewrite Nat.add_succ_r. cbn [cnt]. rewrite IH. rewrite Nat2Z.inj_add. lia.
Qed.

Lemma cnt_rot_ab (R : Z -> bool) (a b : nat) :
  cnt (fun k => R ((Z.of_nat b + k) mod Z.of_nat (a + b))) (a + b) = cnt R (a + b).
Proof.
  rewrite (cnt_app (fun k => R ((Z.of_nat b + k) mod Z.of_nat (a + b))) a b).
  rewrite (cnt_ext (fun k => R ((Z.of_nat b + k) mod Z.of_nat (a + b))) (fun k => R (Z.of_nat b + k)) a).
  2:{ intros m Hm. f_equal. apply Z.mod_small. lia. }
  rewrite (cnt_ext (fun m => R ((Z.of_nat b + (Z.of_nat a + m)) mod Z.of_nat (a + b))) R b).
  2:{ intros m Hm. f_equal.
      replace (Z.of_nat b + (Z.of_nat a + m)) with (m + 1 * Z.of_nat (a + b)) by lia.
      rewrite Z.mod_add by lia. apply Z.mod_small. lia. }
  rewrite (Nat.add_comm a b). rewrite (cnt_app R b a). lia.
Qed.

Lemma cnt_rot (R : Z -> bool) (N : nat) (q : Z) : 0 <= q < Z.of_nat N ->
  cnt (fun k => R ((q + k) mod Z.of_nat N)) N = cnt R N.
Proof.
  intros Hq.
  assert (Hb : q = Z.of_nat (Z.to_nat q)) by lia.
  assert (HN : N = ((N - Z.to_nat q) + Z.to_nat q)%nat) by lia.
  revert Hb HN. generalize (N - Z.to_nat q)%nat as a. generalize (Z.to_nat q) as b.
  intros b a Hb HN. subst q N. apply cnt_rot_ab.
Qed.

Lemma comb_point c d N k : 0 < d -> 0 < N -> 0 <= c ->
  (c + k * d) mod (N * d) = c mod d + (((c / d) mod N + k) mod N) * d.
Proof.
  intros Hd HN Hc.
  pose proof (Z.div_mod c d ltac:(lia)) as E. pose proof (Z.mod_pos_bound c d Hd) as B.
  set (q := c / d) in *. set (r := c mod d) in *.
  replace (c + k * d) with (r + (q + k) * d) by lia.
  pose proof (Z.div_mod (q + k) N ltac:(lia)) as E2. pose proof (Z.mod_pos_bound (q + k) N HN) as B2.
  set (t := (q + k) mod N) in *. set (s := (q + k) / N) in *.
  replace (r + (q + k) * d) with ((r + t * d) + s * (N * d)) by nia.
  rewrite Z.mod_add by nia.
  rewrite Z.mod_small by nia.
  f_equal. f_equal. subst t. rewrite Zplus_mod_idemp_l. reflexivity.
Qed.

(* the comb points as the code computes them (unsorted, reduced mod the total) *)
Theorem branch_count (N : nat) c d A B :
  0 < d -> (0 < N)%nat -> 0 <= c -> 0 <= A <= B -> B <= Z.of_nat N * d ->
  cnt (fun k => let x := (c + k * d) mod (Z.of_nat N * d) in (A <=? x) && (x <? B)) N
  = cdiv (B - c mod d) d - cdiv (A - c mod d) d.
Proof.
  intros Hd HN Hc HA HB. cbv zeta.
  set (r := c mod d). set (q := (c / d) mod Z.of_nat N).
  rewrite (cnt_ext _ (fun k => (fun m => (A <=? r + m * d) && (r + m * d <? B)) ((q + k) mod Z.of_nat N))).
  2:{ intros m Hm. cbv beta. rewrite comb_point by lia. reflexivity. }
  rewrite (cnt_rot (fun m => (A <=? r + m * d) && (r + m * d <? B)) N q).
  2:{ subst q. apply Z.mod_pos_bound. lia. }
  apply comb_count; try lia. subst r. apply Z.mod_pos_bound. lia.
Qed.

Theorem branch_count_bounds (N : nat) c d A B :
  0 < d -> (0 < N)%nat -> 0 <= c -> 0 <= A <= B -> B <= Z.of_nat N * d ->
  (B - A) / d
  <= cnt (fun k => let x := (c + k * d) mod (Z.of_nat N * d) in (A <=? x) && (x <? B)) N
  <= cdiv (B - A) d.
Proof.
  intros Hd HN Hc HA HB. rewrite branch_count by assumption.
  pose proof (Z.mod_pos_bound c d Hd) as Hr. set (r := c mod d) in *.
  pose proof (cdiv_spec (A - r) d Hd). pose proof (cdiv_spec (B - r) d Hd).
  pose proof (cdiv_spec (B - A) d Hd).
  pose proof (Z.div_mod (B - A) d ltac:(lia)). pose proof (Z.mod_pos_bound (B - A) d Hd).
  split; nia.
Qed.

(* ---------- prefix sums and searchsorted on a cumulative-sum table ---------- *)
Fixpoint pre (w : list Z) (i : nat) : Z :=
  match i, w with
  | O, _ => 0
  | S i', x :: w' => x + pre w' i'
  | S _, [] => 0
  end.
Definition total (w : list Z) : Z := pre w (length w).
Definition nonneg (w : list Z) : Prop := Forall (fun x => 0 <= x) w.

Lemma pre_nil i : pre [] i = 0. Proof. destruct i; reflexivity. Qed.

Lemma pre_step w : nonneg w -> forall i, pre w i <= pre w (S i).
Proof.
  induction w as [|x w IH]; intros Hw i.
  - rewrite !pre_nil. lia.
  - inversion Hw as [|? ? Hx Hw']; subst. destruct i as [|i]; cbn [pre].
    + destruct w; cbn [pre]; lia.
    + specialize (IH Hw' i). cbn [pre] in IH. lia.
Qed.

Lemma pre_mono w : nonneg w -> forall i j, (i <= j)%nat -> pre w i <= pre w j.
Proof.
  intros Hw i j Hij. induction Hij as [|j Hij IH]; [lia|].
  pose proof (pre_step w Hw j). lia.
Qed.

Lemma pre_nonneg w : nonneg w -> forall i, 0 <= pre w i.
Proof. intros Hw i. pose proof (pre_mono w Hw 0 i ltac:(lia)). cbn [pre] in *. destruct w; cbn in *; lia. Qed.

Lemma pre_S_nth w : forall i, (i < length w)%nat -> pre w (S i) = pre w i + nth i w 0.
Proof.
  induction w as [|x w IH]; intros i Hi; [cbn in Hi; lia|].
  destruct i as [|i]; cbn [pre nth].
  - destruct w; cbn [pre]; lia.
  - cbn [length] in Hi. rewrite (IH i) by lia. cbn [pre]. lia.
Qed.

(* numpy.searchsorted on the table  s * cumsum w : number of entries <= x (side="right")
   or < x (side="left"); for a sorted table this is exactly numpy's answer. *)
Definition ss (right : bool) (w : list Z) (s x : Z) : Z :=
  cnt (fun m => let p := s * pre w (S (Z.to_nat m)) in if right then p <=? x else p <? x) (length w).

Lemma ss_right_in w s x (i : nat) :
  nonneg w -> 0 < s -> (i < length w)%nat ->
  s * pre w i <= x < s * pre w (S i) -> ss true w s x = Z.of_nat i.
Proof.
  intros Hw Hs Hi Hx. unfold ss.
  rewrite (cnt_ext _ (fun m => (0 <=? m) && (m <? Z.of_nat i))).
  - rewrite cnt_interval. lia.
  - intros m Hm. cbv zeta.
    destruct (Z.ltb_spec m (Z.of_nat i)) as [Hlt|Hge].
    + replace (0 <=? m) with true by (symmetry; apply Z.leb_le; lia). cbn [andb].
      apply Z.leb_le.
      pose proof (pre_mono w Hw (S (Z.to_nat m)) i ltac:(lia)). nia.
    + rewrite andb_false_r. apply Z.leb_gt.
      pose proof (pre_mono w Hw (S i) (S (Z.to_nat m)) ltac:(lia)). nia.
Qed.

Lemma interval_exists w s x :
  nonneg w -> 0 < s -> 0 <= x < s * total w ->
  exists i, (i < length w)%nat /\ s * pre w i <= x < s * pre w (S i).
Proof.
  intros Hw Hs. unfold total.
  induction (length w) as [|n IH]; intros Hx.
  - cbn [pre] in Hx. destruct w; cbn in Hx; lia.
  - destruct (Z.ltb_spec x (s * pre w n)) as [Hlt|Hge].
    + destruct IH as [i [Hi Hi2]]; [lia|]. exists i. split; [lia|assumption].
    + exists n. split; [lia|]. lia.
Qed.

Lemma ss_right_iff w s x (i : nat) :
  nonneg w -> 0 < s -> (i < length w)%nat -> 0 <= x < s * total w ->
  (ss true w s x = Z.of_nat i <-> s * pre w i <= x < s * pre w (S i)).
Proof.
  intros Hw Hs Hi Hx. split.
  - intros E. destruct (interval_exists w s x Hw Hs Hx) as [j [Hj Hj2]].
    rewrite (ss_right_in w s x j Hw Hs Hj Hj2) in E.
    apply Nat2Z.inj in E. subst j. assumption.
  - apply ss_right_in; assumption.
Qed.

Lemma ss_right_lt w s x :
  nonneg w -> 0 < s -> 0 <= x < s * total w -> 0 <= ss true w s x < Z.of_nat (length w).
Proof.
  intros Hw Hs Hx. destruct (interval_exists w s x Hw Hs Hx) as [j [Hj Hj2]].
  rewrite (ss_right_in w s x j Hw Hs Hj Hj2). lia.
Qed.

(* side="left" counterpart: number of table entries < x *)
Lemma ss_left_in w s x (i : nat) :
  nonneg w -> 0 < s -> (i < length w)%nat ->
  s * pre w i < x <= s * pre w (S i) -> ss false w s x = Z.of_nat i.
Proof.
  intros Hw Hs Hi Hx. unfold ss.
  rewrite (cnt_ext _ (fun m => (0 <=? m) && (m <? Z.of_nat i))).
  - rewrite cnt_interval. lia.
  - intros m Hm. cbv zeta.
    destruct (Z.ltb_spec m (Z.of_nat i)) as [Hlt|Hge].
    + replace (0 <=? m) with true by (symmetry; apply Z.leb_le; lia). cbn [andb].
      apply Z.ltb_lt.
      pose proof (pre_mono w Hw (S (Z.to_nat m)) i ltac:(lia)). nia.
    + rewrite andb_false_r. apply Z.ltb_ge.
      pose proof (pre_mono w Hw (S i) (S (Z.to_nat m)) ltac:(lia)). nia.
Qed.

Lemma interval_exists_left w s x :
  nonneg w -> 0 < s -> 0 < x <= s * total w ->
  exists i, (i < length w)%nat /\ s * pre w i < x <= s * pre w (S i).
Proof.
  intros Hw Hs. unfold total.
  induction (length w) as [|n IH]; intros Hx.
  - cbn [pre] in Hx. destruct w; cbn in Hx; lia.
  - destruct (Z_le_gt_dec x (s * pre w n)) as [Hle|Hgt].
    + destruct IH as [i [Hi Hi2]]; [lia|]. exists i. split; [lia|assumption].
    + exists n. split; [lia|]. lia.
Qed.

Lemma ss_left_iff w s x (i : nat) :
  nonneg w -> 0 < s -> (i < length w)%nat -> 0 < x <= s * total w ->
  (ss false w s x = Z.of_nat i <-> s * pre w i < x <= s * pre w (S i)).
Proof.
  intros Hw Hs Hi Hx. split.
  - intros E. destruct (interval_exists_left w s x Hw Hs Hx) as [j [Hj Hj2]].
    rewrite (ss_left_in w s x j Hw Hs Hj Hj2) in E.
    apply Nat2Z.inj in E. subst j. assumption.
  - apply ss_left_in; assumption.
Qed.
