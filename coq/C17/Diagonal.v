(* C17 — every diagonal supercell matrix diag(a, e, i) with non-zero entries (of ANY size and sign) has exactly |a e i| images:
   the unbounded complement, for the most common supercells, of the exhaustive proof for entries in {-2..2}. *)
From Coq Require Import ZArith List Bool Lia.
From PyQMC Require Import C17.Model.
Import ListNotations. Open Scope Z_scope.

Definition cnt {A} (P : A -> bool) (l : list A) : nat := length (filter P l).

Lemma flat_map_if_length {A B} (P : A -> bool) (f : A -> B) (l : list A) :
  length (flat_map (fun x => if P x then [f x] else []) l) = cnt P l.
Proof. unfold cnt. induction l as [|x l IH]; cbn; [reflexivity|]. destruct (P x); cbn; rewrite IH; reflexivity. Qed.

Lemma flat_map_length_const {A B} (g : A -> list B) (l : list A) n : (forall x, In x l -> length (g x) = n) -> length (flat_map g l) = (length l * n)%nat.
Proof.
  induction l as [|x l IH]; intros H; cbn; [reflexivity|]. rewrite app_length, H by (left; reflexivity). rewrite IH; [lia|]. intros; apply H; right; assumption.
Qed.

(* nested flat_maps with a product predicate: the count is the product of the counts *)
Lemma triple_count {A} (P Q R : A -> bool) (lx ly lz : list A) (f : A -> A -> A -> (A * A * A)) :
  length (flat_map (fun x => flat_map (fun y => flat_map (fun z => if P x && Q y && R z then [f x y z] else []) lz) ly) lx)
  = (cnt P lx * cnt Q ly * cnt R lz)%nat.
Proof.
  assert (HZ : forall x y, length (flat_map (fun z => if P x && Q y && R z then [f x y z] else []) lz) = if P x && Q y then cnt R lz else 0%nat).
  { intros x y. destruct (P x && Q y) eqn:E.
    - rewrite (flat_map_if_length R (f x y)). reflexivity.
    - induction lz as [|z lz IH]; cbn; [reflexivity|]. exact IH. }
  assert (HY : forall x, length (flat_map (fun y => flat_map (fun z => if P x && Q y && R z then [f x y z] else []) lz) ly) = if P x then (cnt Q ly * cnt R lz)%nat else 0%nat).
  { intros x. unfold cnt at 1. induction ly as [|y ly IH]; cbn [flat_map filter length]; [destruct (P x); reflexivity|].
    rewrite app_length, HZ, IH. destruct (P x), (Q y); cbn [andb length]; lia. }
  unfold cnt at 1. induction lx as [|x lx IH]; cbn [flat_map filter length]; [reflexivity|].
  rewrite app_length, HY, IH. destruct (P x); cbn [length]; lia.
Qed.

(* counting the members of an arithmetic range on which a predicate holds exactly on an index interval [s, s+m) *)
Lemma cnt_interval (lo : Z) (P : Z -> bool) : forall n s m, (s + m <= n)%nat ->
  (forall k, (k < n)%nat -> (P (lo + Z.of_nat k) = true <-> (s <= k < s + m)%nat)) ->
  cnt P (map (fun k => lo + Z.of_nat k) (seq 0 n)) = m.
Proof.
  induction n as [|n IH]; intros s m Hle H.
  - assert (m = 0)%nat by lia. subst. reflexivity.
  - rewrite seq_S, map_app. unfold cnt. rewrite filter_app, app_length. cbn [map filter Nat.add].
    fold (cnt P (map (fun k => lo + Z.of_nat k) (seq 0 n))).
    destruct (P (lo + Z.of_nat n)) eqn:E.
    + apply (H n) in E; [|lia]. destruct m as [|m]; [lia|].
      rewrite (IH s m); [cbn [length]; lia|lia|]. intros k Hk. rewrite (H k) by lia. lia.
    + assert (Hn : ~ (s <= n < s + m)%nat) by (intros C; apply (H n) in C; [congruence|lia]).
      destruct m as [|m].
      * rewrite (IH 0%nat 0%nat); [reflexivity|lia|]. intros k Hk. rewrite (H k) by lia. lia.
      * rewrite (IH s (S m)); [cbn [length]; lia|lia|]. intros k Hk. rewrite (H k) by lia. lia.
Qed.

Definition axis_ok (a x : Z) : bool := (0 <=? Z.sgn a * x) && (Z.sgn a * x <? Z.abs a).
Lemma axis_count a : a <> 0 -> cnt (axis_ok a) (colrange true a 0 0) = Z.to_nat (Z.abs a).
Proof.
  intros Ha. unfold colrange. rewrite !Z.min_id, !Z.max_id, !Z.add_0_r.
  destruct (Z.lt_trichotomy a 0) as [Hn|[H0|Hp]]; [|contradiction|].
  - (* a < 0: candidates a..0, inside: a+1..0, i.e. indices 1..-a *)
    rewrite Z.min_r, Z.max_l by lia.
    apply (cnt_interval a (axis_ok a) _ 1%nat (Z.to_nat (Z.abs a))); [lia|].
    intros k Hk. unfold axis_ok. rewrite Z.sgn_neg by lia. rewrite andb_true_iff, Z.leb_le, Z.ltb_lt. lia.
  - rewrite Z.min_l, Z.max_r by lia.
    apply (cnt_interval 0 (axis_ok a) _ 0%nat (Z.to_nat (Z.abs a))); [lia|].
    intros k Hk. unfold axis_ok. rewrite Z.sgn_pos by lia. rewrite andb_true_iff, Z.leb_le, Z.ltb_lt. lia.
Qed.
Lemma colrange_perm a : colrange true 0 a 0 = colrange true a 0 0 /\ colrange true 0 0 a = colrange true a 0 0.
Proof.
  unfold colrange. rewrite !Z.min_id, !Z.max_id.
  replace (0 + Z.min 0 a + 0) with (Z.min 0 a + 0 + 0) by lia. replace (0 + Z.max 0 a + 0) with (Z.max 0 a + 0 + 0) by lia.
  replace (0 + 0 + Z.min 0 a) with (Z.min 0 a + 0 + 0) by lia. replace (0 + 0 + Z.max 0 a) with (Z.max 0 a + 0 + 0) by lia.
  split; reflexivity.
Qed.

(* one coordinate of the cell test for a diagonal matrix depends on that coordinate only *)
Lemma inbox_axis (a m x : Z) : a <> 0 -> m <> 0 ->
  ((0 <=? Z.sgn (a * m) * (x * m)) && (Z.sgn (a * m) * (x * m) <? Z.abs (a * m))) = axis_ok a x.
Proof.
  intros Ha Hm. unfold axis_ok.
  assert (E : Z.sgn (a * m) * (x * m) = (Z.sgn a * x) * Z.abs m).
  { rewrite Z.sgn_mul. rewrite <- (Z.abs_sgn m) at 2. ring_simplify. rewrite <- (Z.sgn_abs m) at 1. ring_simplify.
    assert (Z.sgn m * Z.sgn m = 1) by (destruct m; cbn; try reflexivity; contradiction). nia. }
  rewrite E, Z.abs_mul. assert (0 < Z.abs m) by lia.
  apply eq_true_iff_eq. rewrite !andb_true_iff, !Z.leb_le, !Z.ltb_lt. split; intros [H1 H2]; split; nia.
Qed.

Theorem diagonal_supercell_count a e i : a <> 0 -> e <> 0 -> i <> 0 ->
  Z.of_nat (length (copies true (a, 0, 0, 0, e, 0, 0, 0, i))) = Z.abs (det3 (a, 0, 0, 0, e, 0, 0, 0, i)).
Proof.
  intros Ha He Hi. unfold copies.
  assert (Hd : det3 (a, 0, 0, 0, e, 0, 0, 0, i) = a * (e * i)) by (unfold det3; ring).
  destruct (colrange_perm e) as [Ce _]. destruct (colrange_perm i) as [_ Ci]. rewrite Ce, Ci.
  erewrite flat_map_ext.
  2:{ intros x. erewrite flat_map_ext. 2:{ intros y. erewrite flat_map_ext. 2:{ intros z.
        assert (T : inbox (det3 (a, 0, 0, 0, e, 0, 0, 0, i)) (vm (x, y, z) (adj3 (a, 0, 0, 0, e, 0, 0, 0, i))) = axis_ok a x && axis_ok e y && axis_ok i z).
        { rewrite Hd. unfold adj3, vm, inbox.
          replace (x * (e * i - 0 * 0) + y * (0 * 0 - 0 * i) + z * (0 * 0 - e * 0)) with (x * (e * i)) by ring.
          replace (x * (0 * 0 - 0 * i) + y * (a * i - 0 * 0) + z * (0 * 0 - a * 0)) with (y * (a * i)) by ring.
          replace (x * (0 * 0 - 0 * e) + y * (0 * 0 - a * 0) + z * (a * e - 0 * 0)) with (z * (a * e)) by ring.
          rewrite <- (inbox_axis a (e * i) x Ha) by (apply Z.neq_mul_0; split; assumption).
          replace (a * (e * i)) with (e * (a * i)) at 3 4 by ring. rewrite <- (inbox_axis e (a * i) y He) by (apply Z.neq_mul_0; split; assumption).
          replace (e * (a * i)) with (i * (a * e)) at 3 4 by ring. rewrite <- (inbox_axis i (a * e) z Hi) by (apply Z.neq_mul_0; split; assumption).
          replace (i * (a * e)) with (a * (e * i)) by ring. replace (e * (a * i)) with (a * (e * i)) by ring.
          rewrite !andb_assoc. reflexivity. }
        rewrite T. reflexivity. } reflexivity. } reflexivity. }
  rewrite (triple_count (axis_ok a) (axis_ok e) (axis_ok i) _ _ _ (fun x y z => (x, y, z))).
  rewrite !axis_count by assumption. rewrite Hd, !Z.abs_mul, !Nat2Z.inj_mul, !Z2Nat.id by lia. ring.
Qed.
