From Coq Require Import ZArith List Bool Lia FinFun.
From PyQMC Require Import C17.Model.
Import ListNotations. Open Scope Z_scope.

(* ---------- algebra of the adjugate ---------- *)
Lemma adj_mul_r n S : vm (vm n (adj3 S)) S = (let '(x,y,z) := n in (det3 S * x, det3 S * y, det3 S * z)).
Proof. destruct n as [[x y] z]. destruct S as [[[[[[[[a b] c] d] e] f] g] h] i]. cbn. f_equal; [f_equal|]; ring. Qed.
Lemma adj_mul_l n S : vm (vm n S) (adj3 S) = (let '(x,y,z) := n in (det3 S * x, det3 S * y, det3 S * z)).
Proof. destruct n as [[x y] z]. destruct S as [[[[[[[[a b] c] d] e] f] g] h] i]. cbn. f_equal; [f_equal|]; ring. Qed.
Lemma vm_sub n n' S : (let '(x,y,z) := vm n S in let '(x',y',z') := vm n' S in (x-x', y-y', z-z'))
  = vm (let '(x,y,z) := n in let '(x',y',z') := n' in (x-x',y-y',z-z')) S.
Proof. destruct n as [[x y] z], n' as [[x' y'] z']. destruct S as [[[[[[[[a b] c] d] e] f] g] h] i]. cbn. f_equal; [f_equal|]; ring. Qed.

(* ---------- the search box ---------- *)
Lemma colrange_in incl p q r x :
  In x (colrange incl p q r) <->
  Z.min 0 p + Z.min 0 q + Z.min 0 r <= x /\
  x < Z.max 0 p + Z.max 0 q + Z.max 0 r + (if incl then 1 else 0).
Proof.
  unfold colrange. rewrite in_map_iff. split.
  - intros [k [E Hk]]. apply in_seq in Hk. destruct incl; lia.
  - intros [H1 H2]. exists (Z.to_nat (x - (Z.min 0 p + Z.min 0 q + Z.min 0 r))). split; [lia|].
    apply in_seq. destruct incl; lia.
Qed.

Lemma colrange_NoDup incl p q r : NoDup (colrange incl p q r).
Proof.
  unfold colrange. apply FinFun.Injective_map_NoDup; [|apply seq_NoDup].
  intros x y E. lia.
Qed.

Lemma term_bounds g ad s : 0 <= g < ad -> ad * Z.min 0 s <= g * s <= ad * Z.max 0 s.
Proof. intros H. destruct (Z_le_gt_dec 0 s); [rewrite Z.min_l, Z.max_r by lia|rewrite Z.min_r, Z.max_l by lia]; nia. Qed.

Lemma box_complete g1 g2 g3 ad s1 s2 s3 nj :
  0 < ad -> 0 <= g1 < ad -> 0 <= g2 < ad -> 0 <= g3 < ad ->
  nj * ad = g1 * s1 + g2 * s2 + g3 * s3 ->
  Z.min 0 s1 + Z.min 0 s2 + Z.min 0 s3 <= nj <= Z.max 0 s1 + Z.max 0 s2 + Z.max 0 s3.
Proof.
  intros Had H1 H2 H3 E.
  pose proof (term_bounds g1 ad s1 H1). pose proof (term_bounds g2 ad s2 H2). pose proof (term_bounds g3 ad s3 H3).
  split; nia.
Qed.

Lemma inbox_spec dt x y z : inbox dt (x,y,z) = true <->
  (0 <= Z.sgn dt * x < Z.abs dt) /\ (0 <= Z.sgn dt * y < Z.abs dt) /\ (0 <= Z.sgn dt * z < Z.abs dt).
Proof.
  unfold inbox. rewrite !andb_true_iff, !Z.leb_le, !Z.ltb_lt. tauto.
Qed.

Lemma sgn_abs dt : Z.sgn dt * dt = Z.abs dt.
Proof. destruct dt; cbn; lia. Qed.

(* every integer point of the half-open parallelepiped lies in the closed box that is searched *)
Lemma inbox_in_box S n :
  det3 S <> 0 -> inbox (det3 S) (vm n (adj3 S)) = true ->
  let '(a,b,c,d,e,f,g,h,i) := S in let '(x,y,z) := n in
  In x (colrange true a d g) /\ In y (colrange true b e h) /\ In z (colrange true c f i).
Proof.
  intros Hd Hb. pose proof (adj_mul_r n S) as E.
  destruct S as [[[[[[[[a b] c] d] e] f] g] h] i]. destruct n as [[x y] z].
  remember (vm (x,y,z) (adj3 (a,b,c,d,e,f,g,h,i))) as v eqn:Ev. destruct v as [[v1 v2] v3].
  apply inbox_spec in Hb. destruct Hb as [B1 [B2 B3]].
  set (dt := det3 (a,b,c,d,e,f,g,h,i)) in *.
  cbn [vm] in E. injection E as E1 E2 E3.
  assert (Had : 0 < Z.abs dt) by lia.
  pose proof (sgn_abs dt) as SA.
  rewrite !colrange_in.
  assert (X : x * Z.abs dt = (Z.sgn dt * v1) * a + (Z.sgn dt * v2) * d + (Z.sgn dt * v3) * g).
  { rewrite <- SA. replace (x * (Z.sgn dt * dt)) with (Z.sgn dt * (dt * x)) by ring. rewrite <- E1. ring. }
  assert (Y : y * Z.abs dt = (Z.sgn dt * v1) * b + (Z.sgn dt * v2) * e + (Z.sgn dt * v3) * h).
  { rewrite <- SA. replace (y * (Z.sgn dt * dt)) with (Z.sgn dt * (dt * y)) by ring. rewrite <- E2. ring. }
  assert (Zz : z * Z.abs dt = (Z.sgn dt * v1) * c + (Z.sgn dt * v2) * f + (Z.sgn dt * v3) * i).
  { rewrite <- SA. replace (z * (Z.sgn dt * dt)) with (Z.sgn dt * (dt * z)) by ring. rewrite <- E3. ring. }
  pose proof (box_complete _ _ _ _ _ _ _ _ Had B1 B2 B3 X).
  pose proof (box_complete _ _ _ _ _ _ _ _ Had B1 B2 B3 Y).
  pose proof (box_complete _ _ _ _ _ _ _ _ Had B1 B2 B3 Zz).
  lia.
Qed.

Lemma copies_in incl S n :
  In n (copies incl S) <->
  (let '(a,b,c,d,e,f,g,h,i) := S in let '(x,y,z) := n in
   In x (colrange incl a d g) /\ In y (colrange incl b e h) /\ In z (colrange incl c f i))
  /\ inbox (det3 S) (vm n (adj3 S)) = true.
Proof.
  destruct S as [[[[[[[[a b] c] d] e] f] g] h] i]. destruct n as [[x y] z].
  unfold copies. rewrite in_flat_map. split.
  - intros [x' [Hx H]]. apply in_flat_map in H. destruct H as [y' [Hy H]].
    apply in_flat_map in H. destruct H as [z' [Hz H]].
    destruct (inbox _ _) eqn:Eb in H; [|destruct H].
    destruct H as [H|[]]. injection H as -> -> ->. tauto.
  - intros [[Hx [Hy Hz]] Hb]. exists x. split; [assumption|].
    apply in_flat_map. exists y. split; [assumption|].
    apply in_flat_map. exists z. split; [assumption|].
    rewrite Hb. left. reflexivity.
Qed.

(* the set returned by the repaired code is exactly the integer points of the half-open cell *)
Theorem copies_complete S n : det3 S <> 0 ->
  (In n (copies true S) <-> inbox (det3 S) (vm n (adj3 S)) = true).
Proof.
  intros Hd. rewrite copies_in. split; [tauto|]. intros Hb. split; [|assumption].
  pose proof (inbox_in_box S n Hd Hb) as H.
  destruct S as [[[[[[[[a b] c] d] e] f] g] h] i]. destruct n as [[x y] z]. exact H.
Qed.

(* whatever the box: returned points are pairwise distinct modulo the supercell lattice Z^3 S *)
Lemma distinct_coord v v' m dt : dt <> 0 ->
  0 <= Z.sgn dt * v < Z.abs dt -> 0 <= Z.sgn dt * v' < Z.abs dt -> v - v' = dt * m -> m = 0.
Proof.
  intros Hd H1 H2 E. destruct (Z.sgn_spec dt) as [[? Hs]|[[? Hs]|[? Hs]]]; rewrite Hs in *; try lia;
  [rewrite Z.abs_eq in * by lia|rewrite Z.abs_neq in * by lia]; nia.
Qed.

Theorem copies_distinct_mod_lattice incl S n n' m : det3 S <> 0 ->
  In n (copies incl S) -> In n' (copies incl S) ->
  (let '(x,y,z) := n in let '(x',y',z') := n' in (x-x',y-y',z-z')) = vm m S ->
  n = n'.
Proof.
  intros Hd Hn Hn' E.
  apply copies_in in Hn. apply copies_in in Hn'. destruct Hn as [_ Hb], Hn' as [_ Hb'].
  destruct n as [[x y] z], n' as [[x' y'] z'], m as [[m1 m2] m3].
  pose proof (vm_sub (x,y,z) (x',y',z') (adj3 S)) as D.
  cbv beta iota in D. rewrite E in D. rewrite adj_mul_l in D.
  destruct (vm (x,y,z) (adj3 S)) as [[v1 v2] v3]. destruct (vm (x',y',z') (adj3 S)) as [[w1 w2] w3].
  apply inbox_spec in Hb. apply inbox_spec in Hb'.
  destruct Hb as [B1 [B2 B3]], Hb' as [C1 [C2 C3]]. injection D as D1 D2 D3.
  pose proof (distinct_coord _ _ _ _ Hd B1 C1 D1). pose proof (distinct_coord _ _ _ _ Hd B2 C2 D2).
  pose proof (distinct_coord _ _ _ _ Hd B3 C3 D3). subst m1 m2 m3.
  destruct S as [[[[[[[[a b] c] d] e] f] g] h] i]. cbn [vm] in E. injection E as E1 E2 E3.
  f_equal; [f_equal|]; lia.
Qed.

(* no point is listed twice *)
Lemma NoDup_flat_map {A B} (f : A -> list B) (l : list A) :
  NoDup l -> (forall x, In x l -> NoDup (f x)) ->
  (forall x y b, In x l -> In y l -> In b (f x) -> In b (f y) -> x = y) ->
  NoDup (flat_map f l).
Proof.
  induction l as [|a l IH]; intros Hl Hf Hinj; cbn [flat_map]; [constructor|].
  inversion Hl as [|? ? Hna Hl']; subst.
  assert (forall l1 l2 : list B, NoDup l1 -> NoDup l2 -> (forall b, In b l1 -> In b l2 -> False) -> NoDup (l1 ++ l2)) as App.
  { induction l1 as [|c l1 IH1]; intros l2 H1 H2 Hd; cbn; [assumption|].
    inversion H1; subst. constructor.
    - rewrite in_app_iff. intros [?|?]; [tauto|]. apply (Hd c); [left; reflexivity|assumption].
    - apply IH1; try assumption. intros b Hb1 Hb2. apply (Hd b); [right; assumption|assumption]. }
  apply App.
  - apply Hf. left. reflexivity.
  - apply IH; [assumption| intros; apply Hf; right; assumption | intros x y b Hx Hy; apply Hinj; right; assumption].
  - intros b Hb1 Hb2. apply in_flat_map in Hb2. destruct Hb2 as [y [Hy Hby]].
    assert (a = y) by (apply (Hinj a y b); [left; reflexivity|right; assumption|assumption|assumption]).
    subst y. contradiction.
Qed.

Theorem copies_NoDup incl S : NoDup (copies incl S).
Proof.
  destruct S as [[[[[[[[a b] c] d] e] f] g] h] i]. unfold copies.
  apply NoDup_flat_map; [apply colrange_NoDup| |].
  - intros x _. apply NoDup_flat_map; [apply colrange_NoDup| |].
    + intros y _. apply NoDup_flat_map; [apply colrange_NoDup| |].
      * intros z _. destruct (inbox _ _); repeat constructor. intros [].
      * intros z z' p _ _ H1 H2. destruct (inbox _ _) in H1; [|destruct H1]. destruct (inbox _ _) in H2; [|destruct H2].
        destruct H1 as [<-|[]], H2 as [H2|[]]. injection H2. congruence.
    + intros y y' p _ _ H1 H2. apply in_flat_map in H1, H2. destruct H1 as [z [_ H1]], H2 as [z' [_ H2]].
      destruct (inbox _ _) in H1; [|destruct H1]. destruct (inbox _ _) in H2; [|destruct H2].
      destruct H1 as [<-|[]], H2 as [H2|[]]. injection H2. congruence.
  - intros x x' p _ _ H1 H2. apply in_flat_map in H1, H2. destruct H1 as [y [_ H1]], H2 as [y' [_ H2]].
    apply in_flat_map in H1, H2. destruct H1 as [z [_ H1]], H2 as [z' [_ H2]].
    destruct (inbox _ _) in H1; [|destruct H1]. destruct (inbox _ _) in H2; [|destruct H2].
    destruct H1 as [<-|[]], H2 as [H2|[]]. injection H2. congruence.
Qed.

(* atoms of the supercell: |copies| images of each primitive atom *)
Lemma super_atoms_length {A} (atoms : list A) cp : length (super_atoms atoms cp) = (length atoms * length cp)%nat.
Proof.
  unfold super_atoms. induction atoms as [|a l IH]; cbn [flat_map length]; [reflexivity|].
  rewrite app_length, map_length, IH. lia.
Qed.

(* ---------- twists ---------- *)
Lemma mod_eq_iff a b n : 0 < n -> (a mod n = b mod n <-> exists m, a - b = n * m).
Proof.
  intros Hn. split.
  - intros E. exists (a / n - b / n).
    pose proof (Z.div_mod a n ltac:(lia)). pose proof (Z.div_mod b n ltac:(lia)). lia.
  - intros [m E]. replace a with (b + m * n) by lia. apply Z.mod_add. lia.
Qed.

(* two k-points p/n, p'/n carry the same twist iff (p - p') S^T is n times an integer vector, i.e. iff
   the k-points differ by an integer combination of supercell reciprocal-lattice vectors *)
Theorem same_twist_iff S n p p' : 0 < n ->
  (twist_key S n p = twist_key S n p' <->
   exists m1 m2 m3, (let '(x,y,z) := vm p (tr3 S) in let '(x',y',z') := vm p' (tr3 S) in (x-x',y-y',z-z')) = (n*m1, n*m2, n*m3)).
Proof.
  intros Hn. unfold twist_key.
  destruct (vm p (tr3 S)) as [[x y] z]. destruct (vm p' (tr3 S)) as [[x' y'] z']. split.
  - intros E. injection E as E1 E2 E3.
    apply (mod_eq_iff _ _ _ Hn) in E1, E2, E3. destruct E1 as [m1 E1], E2 as [m2 E2], E3 as [m3 E3].
    exists m1, m2, m3. congruence.
  - intros [m1 [m2 [m3 E]]]. injection E as E1 E2 E3.
    f_equal; [f_equal|]; apply (mod_eq_iff _ _ _ Hn); eexists; eassumption.
Qed.

Lemma v3_eqb_eq a b : v3_eqb a b = true <-> a = b.
Proof.
  destruct a as [[x y] z], b as [[u v] w]. unfold v3_eqb. rewrite !andb_true_iff, !Z.eqb_eq.
  split; [intros [[-> ->] ->]; reflexivity| intros E; injection E; tauto].
Qed.

Lemma members_from_iff S n ks key : forall i k,
  In k (members_from S n i ks key) <->
  (i <= k < i + length ks)%nat /\ twist_key S n (nth (k - i) ks (0,0,0)) = key.
Proof.
  induction ks as [|p r IH]; intros i k; cbn [members_from length].
  - split; [intros []| lia].
  - rewrite in_app_iff, IH. split.
    + intros [H|[H1 H2]].
      * destruct (v3_eqb _ _) eqn:Eb in H; [|destruct H]. destruct H as [<-|[]].
        replace (i - i)%nat with 0%nat by lia. cbn [nth]. apply v3_eqb_eq in Eb. split; [lia|assumption].
      * split; [lia|]. replace (k - i)%nat with (Datatypes.S (k - Datatypes.S i)) by lia. exact H2.
    + intros [H1 H2]. destruct (Nat.eq_dec k i) as [->|Hne].
      * left. replace (i - i)%nat with 0%nat in H2 by lia. cbn [nth] in H2.
        apply v3_eqb_eq in H2. rewrite H2. left. reflexivity.
      * right. split; [lia|]. replace (k - i)%nat with (Datatypes.S (k - Datatypes.S i)) in H2 by lia. exact H2.
Qed.

(* partition: index k is a member of the twist with key K iff K is k's own key; hence every k-point
   belongs to exactly one twist *)
Theorem members_iff S n ks key (k : nat) : (k < length ks)%nat ->
  (In k (members S n ks key) <-> twist_key S n (nth k ks (0,0,0)) = key).
Proof.
  intros Hk. unfold members. rewrite members_from_iff. rewrite Nat.sub_0_r. split; [tauto|]. intros; split; [lia|assumption].
Qed.

Lemma dedup_in l x : In x (dedup l) <-> In x l.
Proof.
  induction l as [|a l IH]; cbn [dedup]; [tauto|]. cbn [In]. rewrite filter_In, IH. split.
  - tauto.
  - intros [->|H]; [tauto|]. destruct (v3_eqb a x) eqn:E; [apply v3_eqb_eq in E; tauto|]. right. split; [assumption|reflexivity].
Qed.

Lemma dedup_NoDup l : NoDup (dedup l).
Proof.
  induction l as [|a l IH]; cbn [dedup]; constructor.
  - rewrite filter_In. intros [_ H]. assert (v3_eqb a a = true) by (apply v3_eqb_eq; reflexivity). rewrite H0 in H. discriminate.
  - apply NoDup_filter. assumption.
Qed.

(* the offered twists are exactly the keys that occur, each once *)
Theorem twist_keys_spec S n ks : NoDup (twist_keys S n ks) /\
  forall k, (k < length ks)%nat -> In (twist_key S n (nth k ks (0,0,0))) (twist_keys S n ks).
Proof.
  split; [apply dedup_NoDup|]. intros k Hk. unfold twist_keys. apply dedup_in. apply in_map. apply nth_In. assumption.
Qed.
