(* C17 — property theorems only. *)
From Coq Require Import ZArith List Bool Lia.
From PyQMC Require Import C17.Model C17.Proofs C17.Exhaustive C17.Diagonal.
Import ListNotations. Open Scope Z_scope.

(* the returned images are exactly the integer points n (primitive translates) whose supercell-fractional
   coordinates n S^-1 lie in [0,1)^3 — for EVERY non-singular integer S (any signs, any handedness) *)
Theorem C17_copies_are_the_cell_points : forall S n, det3 S <> 0 ->
  (In n (copies true S) <-> inbox (det3 S) (vm n (adj3 S)) = true).
Proof. exact copies_complete. Qed.
Print Assumptions C17_copies_are_the_cell_points.

(* all distinct modulo the supercell lattice, and no point listed twice *)
Theorem C17_copies_distinct_mod_supercell : forall incl S n n' m, det3 S <> 0 ->
  In n (copies incl S) -> In n' (copies incl S) ->
  (let '(x,y,z) := n in let '(x',y',z') := n' in (x-x',y-y',z-z')) = vm m S -> n = n'.
Proof. exact copies_distinct_mod_lattice. Qed.
Print Assumptions C17_copies_distinct_mod_supercell.

Theorem C17_copies_NoDup : forall incl S, NoDup (copies incl S).
Proof. exact copies_NoDup. Qed.
Print Assumptions C17_copies_NoDup.

(* exactly |det S| images: exhaustively for all 1 953 125 matrices with entries in {-2..2} (the domain the
   property names).  For arbitrary entries the cardinality statement is NOT proved here (it needs the
   index-of-a-sublattice theorem); what is proved for all S is completeness + distinctness above. *)
Theorem C17_card_is_abs_det_entries_le_2_partial : forall a b c d e f g h i,
  -2 <= a <= 2 -> -2 <= b <= 2 -> -2 <= c <= 2 -> -2 <= d <= 2 -> -2 <= e <= 2 ->
  -2 <= f <= 2 -> -2 <= g <= 2 -> -2 <= h <= 2 -> -2 <= i <= 2 ->
  det3 (a,b,c,d,e,f,g,h,i) <> 0 ->
  Z.of_nat (length (copies true (a,b,c,d,e,f,g,h,i))) = Z.abs (det3 (a,b,c,d,e,f,g,h,i)).
Proof. exact copies_card_exhaustive. Qed.
Print Assumptions C17_card_is_abs_det_entries_le_2_partial.

(* supercell atom list: (number of primitive atoms) * (number of images) entries *)
Theorem C17_atom_count : forall (A : Type) (atoms : list A) cp,
  length (super_atoms atoms cp) = (length atoms * length cp)%nat.
Proof. exact @super_atoms_length. Qed.
Print Assumptions C17_atom_count.

(* twists: same twist <-> the k-points differ by a supercell reciprocal-lattice vector *)
Theorem C17_same_twist_iff_reciprocal_vector : forall S n p p', 0 < n ->
  (twist_key S n p = twist_key S n p' <->
   exists m1 m2 m3, (let '(x,y,z) := vm p (tr3 S) in let '(x',y',z') := vm p' (tr3 S) in (x-x',y-y',z-z')) = (n*m1, n*m2, n*m3)).
Proof. exact same_twist_iff. Qed.
Print Assumptions C17_same_twist_iff_reciprocal_vector.

(* twists partition the mesh: k is listed under key K iff K is k's own key; keys offered = keys occurring, each once *)
Theorem C17_twists_partition : forall S n ks key (k : nat), (k < length ks)%nat ->
  (In k (members S n ks key) <-> twist_key S n (nth k ks (0,0,0)) = key).
Proof. exact members_iff. Qed.
Print Assumptions C17_twists_partition.

Theorem C17_twist_keys : forall S n ks, NoDup (twist_keys S n ks) /\
  forall k, (k < length ks)%nat -> In (twist_key S n (nth k ks (0,0,0))) (twist_keys S n ks).
Proof. exact twist_keys_spec. Qed.
Print Assumptions C17_twist_keys.

(* the box of the code before the fix (np.arange(min,max)) loses points: S = -I returns no image at all *)
Theorem C17_exclusive_box_refuted :
  copies false (-1,0,0,0,-1,0,0,0,-1) = [] /\ copies true (-1,0,0,0,-1,0,0,0,-1) = [(0,0,0)]
  /\ det3 (-1,0,0,0,-1,0,0,0,-1) = -1.
Proof. repeat split; vm_compute; reflexivity. Qed.
Print Assumptions C17_exclusive_box_refuted.

Example C17_nontrivial_instance :
  det3 (1,-2,0,2,1,1,0,-1,2) = 11 /\ length (copies true (1,-2,0,2,1,1,0,-1,2)) = 11%nat.
Proof. split; vm_compute; reflexivity. Qed.
Print Assumptions C17_nontrivial_instance.

(* every DIAGONAL supercell matrix with non-zero entries of any size and sign has exactly |det S| images (the closed search box of the
   current code): the unbounded complement, for the most common supercells, of the exhaustive theorem above *)
Theorem C17_card_is_abs_det_for_diagonal_S : forall a e i : Z, a <> 0 -> e <> 0 -> i <> 0 ->
  Z.of_nat (length (copies true (a, 0, 0, 0, e, 0, 0, 0, i))) = Z.abs (det3 (a, 0, 0, 0, e, 0, 0, 0, i)).
Proof. exact diagonal_supercell_count. Qed.
Print Assumptions C17_card_is_abs_det_for_diagonal_S.
