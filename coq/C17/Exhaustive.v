(* |copies S| = |det S| for all 1 953 125 integer matrices with entries in {-2..2}:
   25 shards proved by vm_compute, lifted with forallb_forall. *)
From Coq Require Import ZArith List Bool Lia.
From PyQMC Require Import C17.Model C17.Exh_0_0 C17.Exh_0_1 C17.Exh_0_2 C17.Exh_0_3 C17.Exh_0_4 C17.Exh_1_0 C17.Exh_1_1 C17.Exh_1_2 C17.Exh_1_3 C17.Exh_1_4 C17.Exh_2_0 C17.Exh_2_1 C17.Exh_2_2 C17.Exh_2_3 C17.Exh_2_4 C17.Exh_3_0 C17.Exh_3_1 C17.Exh_3_2 C17.Exh_3_3 C17.Exh_3_4 C17.Exh_4_0 C17.Exh_4_1 C17.Exh_4_2 C17.Exh_4_3 C17.Exh_4_4.
Import ListNotations. Open Scope Z_scope.

Lemma rng2_in x : -2 <= x <= 2 -> In x (rng 2).
Proof. intros H. assert (x = -2 \/ x = -1 \/ x = 0 \/ x = 1 \/ x = 2) as [ -> | [ -> | [ -> | [ -> | -> ] ] ] ] by lia; vm_compute; tauto. Qed.

Lemma mats7_in a b c d e f g h i :
  -2 <= c <= 2 -> -2 <= d <= 2 -> -2 <= e <= 2 -> -2 <= f <= 2 -> -2 <= g <= 2 -> -2 <= h <= 2 -> -2 <= i <= 2 ->
  In (a,b,c,d,e,f,g,h,i) (mats7 2 a b).
Proof.
  intros. unfold mats7.
  apply in_flat_map; exists c; split; [apply rng2_in; assumption|].
  apply in_flat_map; exists d; split; [apply rng2_in; assumption|].
  apply in_flat_map; exists e; split; [apply rng2_in; assumption|].
  apply in_flat_map; exists f; split; [apply rng2_in; assumption|].
  apply in_flat_map; exists g; split; [apply rng2_in; assumption|].
  apply in_flat_map; exists h; split; [apply rng2_in; assumption|].
  apply in_map. apply rng2_in; assumption.
Qed.

Lemma all_shards a b : -2 <= a <= 2 -> -2 <= b <= 2 -> forallb (ok true) (mats7 2 a b) = true.
Proof.
  intros Ha Hb.
  assert (a = -2 \/ a = -1 \/ a = 0 \/ a = 1 \/ a = 2) as [ -> | [ -> | [ -> | [ -> | -> ] ] ] ] by lia;
  assert (b = -2 \/ b = -1 \/ b = 0 \/ b = 1 \/ b = 2) as [ -> | [ -> | [ -> | [ -> | -> ] ] ] ] by lia.
  - exact Exh_0_0.shard.
  - exact Exh_0_1.shard.
  - exact Exh_0_2.shard.
  - exact Exh_0_3.shard.
  - exact Exh_0_4.shard.
  - exact Exh_1_0.shard.
  - exact Exh_1_1.shard.
  - exact Exh_1_2.shard.
  - exact Exh_1_3.shard.
  - exact Exh_1_4.shard.
  - exact Exh_2_0.shard.
  - exact Exh_2_1.shard.
  - exact Exh_2_2.shard.
  - exact Exh_2_3.shard.
  - exact Exh_2_4.shard.
  - exact Exh_3_0.shard.
  - exact Exh_3_1.shard.
  - exact Exh_3_2.shard.
  - exact Exh_3_3.shard.
  - exact Exh_3_4.shard.
  - exact Exh_4_0.shard.
  - exact Exh_4_1.shard.
  - exact Exh_4_2.shard.
  - exact Exh_4_3.shard.
  - exact Exh_4_4.shard.
Qed.

Theorem copies_card_exhaustive a b c d e f g h i :
  -2 <= a <= 2 -> -2 <= b <= 2 -> -2 <= c <= 2 -> -2 <= d <= 2 -> -2 <= e <= 2 ->
  -2 <= f <= 2 -> -2 <= g <= 2 -> -2 <= h <= 2 -> -2 <= i <= 2 ->
  det3 (a,b,c,d,e,f,g,h,i) <> 0 ->
  Z.of_nat (length (copies true (a,b,c,d,e,f,g,h,i))) = Z.abs (det3 (a,b,c,d,e,f,g,h,i)).
Proof.
  intros Ha Hb Hc Hd He Hf Hg Hh Hi Hdet.
  pose proof (all_shards a b Ha Hb) as F. rewrite forallb_forall in F.
  specialize (F _ (mats7_in a b c d e f g h i Hc Hd He Hf Hg Hh Hi)).
  unfold ok in F. apply orb_true_iff in F. destruct F as [F|F].
  - apply Z.eqb_eq in F. contradiction.
  - apply Z.eqb_eq in F. exact F.
Qed.
