(* C17 — model of pyqmc.pbc.supercell.get_supercell_copies and of the twist grouping of
   pyqmc.pbc.twists.create_supercell_twists, in exact integer arithmetic.
   Row-vector convention of the code: a candidate n (integer combination of primitive vectors) has
   supercell-fractional coordinates f = n * S^-1 = n * adj(S) / det(S); it is returned iff f in [0,1)^3. *)
From Coq Require Import ZArith List Bool.
Import ListNotations. Open Scope Z_scope.

Definition M3 := (Z*Z*Z*Z*Z*Z*Z*Z*Z)%type.
Definition V3 := (Z*Z*Z)%type.
Definition det3 (m:M3) := let '(a,b,c,d,e,f,g,h,i) := m in a*(e*i-f*h) - b*(d*i-f*g) + c*(d*h-e*g).
Definition adj3 (m:M3) : M3 := let '(a,b,c,d,e,f,g,h,i) := m in
  (e*i-f*h, c*h-b*i, b*f-c*e,
   f*g-d*i, a*i-c*g, c*d-a*f,
   d*h-e*g, b*g-a*h, a*e-b*d).
(* row vector times matrix *)
Definition vm (n:V3) (m:M3) : V3 := let '(x,y,z):=n in let '(a,b,c,d,e,f,g,h,i) := m in
  (x*a+y*d+z*g, x*b+y*e+z*h, x*c+y*f+z*i).

(* np.arange(amin, amax[+1]) over the images of the unit-cube corners: column sums of negative / positive parts *)
Definition colrange (incl:bool) (p q r:Z) : list Z :=
  let lo := Z.min 0 p + Z.min 0 q + Z.min 0 r in
  let hi := Z.max 0 p + Z.max 0 q + Z.max 0 r in
  let hi' := if incl then hi+1 else hi in
  map (fun k => lo + Z.of_nat k) (seq 0 (Z.to_nat (hi' - lo))).

Definition inbox (dt:Z) (v:V3) : bool := let '(x,y,z) := v in
  let s := Z.sgn dt in let ad := Z.abs dt in
  (0 <=? s*x) && (s*x <? ad) && (0 <=? s*y) && (s*y <? ad) && (0 <=? s*z) && (s*z <? ad).

(* incl = true: the code after "fix: get_supercell_copies searches the closed bounding box";
   incl = false: np.arange(min, max) as before the fix *)
Definition copies (incl:bool) (m:M3) : list V3 :=
  let '(a,b,c,d,e,f,g,h,i) := m in
  let dt := det3 m in let ad := adj3 m in
  flat_map (fun x => flat_map (fun y => flat_map (fun z =>
     if inbox dt (vm (x,y,z) ad) then [(x,y,z)] else []) (colrange incl c f i)) (colrange incl b e h)) (colrange incl a d g).

(* supercell atom list: every primitive atom shifted by every copy (get_supercell) *)
Definition super_atoms {A} (atoms : list A) (cp : list V3) : list (A * V3) :=
  flat_map (fun a => map (fun R => (a, R)) cp) atoms.

(* ---- twists: k-point kappa = p / n (fractional, primitive reciprocal units); its supercell-fractional
   coordinates are kappa * S^T; the twist key is their fractional part, i.e. (p * S^T) mod n *)
Definition tr3 (m:M3) : M3 := let '(a,b,c,d,e,f,g,h,i) := m in (a,d,g,b,e,h,c,f,i).
Definition twist_key (S:M3) (n:Z) (p:V3) : V3 :=
  let '(x,y,z) := vm p (tr3 S) in (x mod n, y mod n, z mod n).
Definition v3_eqb (a b:V3) : bool := let '(x,y,z) := a in let '(u,v,w) := b in (x =? u) && (y =? v) && (z =? w).
(* indices of the k-points carrying a given key *)
Fixpoint members_from (S:M3) (n:Z) (i:nat) (ks : list V3) (key:V3) : list nat :=
  match ks with
  | [] => []
  | p :: r => (if v3_eqb (twist_key S n p) key then [i] else []) ++ members_from S n (Datatypes.S i) r key
  end.
Definition members (S:M3) (n:Z) (ks : list V3) (key:V3) : list nat := members_from S n 0 ks key.
(* distinct keys in order of first appearance *)
Fixpoint dedup (l : list V3) : list V3 :=
  match l with [] => [] | x :: r => x :: filter (fun y => negb (v3_eqb x y)) (dedup r) end.
Definition twist_keys (S:M3) (n:Z) (ks : list V3) : list V3 := dedup (map (twist_key S n) ks).

(* ---- exhaustive enumeration support *)
Definition rng (k:Z) := map (fun i => Z.of_nat i - k) (seq 0 (Z.to_nat (2*k+1))).
Definition ok (incl:bool) (m:M3) : bool := let dt := det3 m in (dt =? 0) || (Z.of_nat (length (copies incl m)) =? Z.abs dt).
Definition mats7 (k a b:Z) : list M3 :=
  let r := rng k in
  flat_map (fun c => flat_map (fun d => flat_map (fun e => flat_map (fun f =>
  flat_map (fun g => flat_map (fun h => map (fun i => (a,b,c,d,e,f,g,h,i)) r) r) r) r) r) r) r.
Definition count_bad (incl:bool) (k:Z) : nat :=
  length (filter (fun m => negb (ok incl m)) (flat_map (fun a => flat_map (fun b => mats7 k a b) (rng k)) (rng k))).
