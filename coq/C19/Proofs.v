(* C19 — proofs about the hard-coded solid-harmonic tables regenerated from spherical_harmonics.py, the radial Gaussian,
   the product-rule assembly of gradients and Laplacians, and the completeness of the lattice-image filter. *)
From Coq Require Import QArith Qabs Reals List Lia Lra Qreals Bool Psatz.
From Coquelicot Require Import Coquelicot.
From PyQMC Require Import base.Poly3 gen.Sph_Gen.
Import ListNotations.
Open Scope R_scope.

(* ------------ tables: checked coefficient by coefficient in exact rational arithmetic ------------ *)
Definition eps_tab : Q := 1 # 1000000000000.        (* 1e-12 *)
Definition close (p q : poly) : bool := Qle_bool (l1 (pnorm (psub p q))) eps_tab.
Fixpoint forallb2 {A B} (f : A -> B -> bool) (la : list A) (lb : list B) : bool :=
  match la, lb with [] , [] => true | a :: ta, b :: tb => f a b && forallb2 f ta tb | _, _ => false end.
Definition grad_tables_ok : bool :=
  forallb2 (fun Y G => close (pdiff 0 Y) G) sph_values sph_dx && forallb2 (fun Y G => close (pdiff 1 Y) G) sph_values sph_dy
  && forallb2 (fun Y G => close (pdiff 2 Y) G) sph_values sph_dz.
Definition harmonic_ok : bool := forallb (fun Y => Qle_bool (l1 (pnorm (plap Y))) eps_tab) sph_values.
Definition ell (i : nat) : nat := Nat.sqrt i.
Definition homogeneous_ok : bool := forallb2 (fun l Y => homogeneous l (pnorm Y)) (map ell (seq 0 36)) sph_values.

Lemma grad_tables_computed : grad_tables_ok = true. Proof. Time vm_compute. reflexivity. Time Qed.
Lemma harmonic_computed : harmonic_ok = true. Proof. vm_compute. reflexivity. Qed.
Lemma homogeneous_computed : homogeneous_ok = true. Proof. vm_compute. reflexivity. Qed.
Lemma tables_length : (length sph_values = 36 /\ length sph_dx = 36 /\ length sph_dy = 36 /\ length sph_dz = 36)%nat.
Proof. repeat split; vm_compute; reflexivity. Qed.
Global Opaque sph_values sph_dx sph_dy sph_dz.

Lemma forallb2_nth {A B} (f : A -> B -> bool) la lb i (da : A) (db : B) :
  forallb2 f la lb = true -> (i < length la)%nat -> f (nth i la da) (nth i lb db) = true.
Proof.
  revert lb i. induction la as [|a ta IH]; intros [|b tb] i H Hi; cbn in *; try lia; try discriminate.
  apply andb_true_iff in H. destruct H as [H1 H2]. destruct i as [|i]; [exact H1|]. apply IH; [exact H2|lia].
Qed.
Lemma close_bound p q x y z : close p q = true -> Rabs x <= 1 -> Rabs y <= 1 -> Rabs z <= 1 ->
  Rabs (peval p x y z - peval q x y z) <= Q2R eps_tab.
Proof.
  unfold close. intros H Hx Hy Hz. apply Qle_bool_iff, Qle_Rle in H.
  rewrite <- peval_psub, <- peval_pnorm. eapply Rle_trans; [apply l1_bound; assumption|exact H].
Qed.

(* for every table entry and every point of the unit cube: the coded derivative tables differ from the TRUE partial derivatives of the
   coded value polynomial by at most 1e-12 *)
Time Theorem gradient_tables_are_derivatives i x y z : (i < 36)%nat -> Rabs x <= 1 -> Rabs y <= 1 -> Rabs z <= 1 ->
  let Y := nth i sph_values [] in
  exists gx gy gz : R,
    is_derive (fun u => peval Y u y z) x gx /\ is_derive (fun u => peval Y x u z) y gy /\ is_derive (fun u => peval Y x y u) z gz /\
    Rabs (gx - peval (nth i sph_dx []) x y z) <= Q2R eps_tab /\ Rabs (gy - peval (nth i sph_dy []) x y z) <= Q2R eps_tab /\
    Rabs (gz - peval (nth i sph_dz []) x y z) <= Q2R eps_tab.
Proof.
  intros Hi Hx Hy Hz Y. pose proof grad_tables_computed as G. unfold grad_tables_ok in G.
  apply andb_true_iff in G. destruct G as [G Gz]. apply andb_true_iff in G. destruct G as [Gx Gy].
  destruct tables_length as [L _]. assert (Hl : (i < length sph_values)%nat) by (rewrite L; exact Hi).
  exists (peval (pdiff 0 Y) x y z), (peval (pdiff 1 Y) x y z), (peval (pdiff 2 Y) x y z).
  split; [apply pdiff_x_correct|]. split; [apply pdiff_y_correct|]. split; [apply pdiff_z_correct|].
  assert (Cx : close (pdiff 0 Y) (nth i sph_dx []) = true) by (apply (forallb2_nth (fun Y G => close (pdiff 0 Y) G) sph_values sph_dx i [] [] Gx); exact Hl).
  assert (Cy : close (pdiff 1 Y) (nth i sph_dy []) = true) by (apply (forallb2_nth (fun Y G => close (pdiff 1 Y) G) sph_values sph_dy i [] [] Gy); exact Hl).
  assert (Cz : close (pdiff 2 Y) (nth i sph_dz []) = true) by (apply (forallb2_nth (fun Y G => close (pdiff 2 Y) G) sph_values sph_dz i [] [] Gz); exact Hl).
  split; [exact (close_bound _ _ x y z Cx Hx Hy Hz)|]. split; [exact (close_bound _ _ x y z Cy Hx Hy Hz)|exact (close_bound _ _ x y z Cz Hx Hy Hz)].
Qed.

(* the value polynomials are harmonic (the Laplacian polynomial, computed by the proved symbolic derivative, is below 1e-12 on the unit cube) ... *)
Theorem tables_harmonic i x y z : (i < 36)%nat -> Rabs x <= 1 -> Rabs y <= 1 -> Rabs z <= 1 ->
  let Y := nth i sph_values [] in
  exists dxx dyy dzz : R,
    is_derive (fun u => peval (pdiff 0 Y) u y z) x dxx /\ is_derive (fun u => peval (pdiff 1 Y) x u z) y dyy /\ is_derive (fun u => peval (pdiff 2 Y) x y u) z dzz /\
    Rabs (dxx + dyy + dzz) <= Q2R eps_tab.
Proof.
  intros Hi Hx Hy Hz Y. pose proof harmonic_computed as H. unfold harmonic_ok in H. rewrite forallb_forall in H.
  destruct tables_length as [L _]. assert (Hl : (i < length sph_values)%nat) by (rewrite L; exact Hi).
  assert (HY : Qle_bool (l1 (pnorm (plap Y))) eps_tab = true) by (apply H, nth_In; exact Hl).
  exists (peval (pdiff 0 (pdiff 0 Y)) x y z), (peval (pdiff 1 (pdiff 1 Y)) x y z), (peval (pdiff 2 (pdiff 2 Y)) x y z).
  split; [apply pdiff_x_correct|]. split; [apply pdiff_y_correct|]. split; [apply pdiff_z_correct|].
  apply Qle_bool_iff, Qle_Rle in HY.
  replace (peval (pdiff 0 (pdiff 0 Y)) x y z + peval (pdiff 1 (pdiff 1 Y)) x y z + peval (pdiff 2 (pdiff 2 Y)) x y z) with (peval (pnorm (plap Y)) x y z).
  - eapply Rle_trans; [apply l1_bound; assumption|exact HY].
  - rewrite peval_pnorm. unfold plap. rewrite !peval_app. ring.
Qed.
(* ... and homogeneous of degree l = floor(sqrt i) *)
Theorem tables_homogeneous i s x y z : (i < 36)%nat ->
  peval (nth i sph_values []) (s * x) (s * y) (s * z) = s ^ (ell i) * peval (nth i sph_values []) x y z.
Proof.
  intros Hi. pose proof homogeneous_computed as H. unfold homogeneous_ok in H.
  assert (Hlen : (i < length (map ell (seq 0 36)))%nat) by (rewrite map_length, seq_length; exact Hi).
  pose proof (forallb2_nth (fun l Y => homogeneous l (pnorm Y)) (map ell (seq 0 36)) sph_values i (ell 0) [] H Hlen) as Hn.
  cbv beta in Hn. rewrite (map_nth ell (seq 0 36) 0%nat i) in Hn. rewrite seq_nth in Hn; [|exact Hi]. rewrite Nat.add_0_l in Hn.
  rewrite <- !(peval_pnorm (nth i sph_values [])). apply homogeneous_scaling. exact Hn.
Qed.

(* ------------ the radial part: one primitive c1 exp(-c0 r^2) ------------ *)
Definition gauss (c0 c1 x y z : R) : R := c1 * exp (- c0 * (x * x + y * y + z * z)).
(* the code: value tmp = exp(-r2 c0) c1 ; gradient_i = -tmp 2 c0 x_i ; laplacian = tmp 2 c0 (2 c0 r2 - 3) *)
Theorem radial_gradient c0 c1 x y z :
  is_derive (fun u => gauss c0 c1 u y z) x (- gauss c0 c1 x y z * 2 * c0 * x) /\
  is_derive (fun u => gauss c0 c1 x u z) y (- gauss c0 c1 x y z * 2 * c0 * y) /\
  is_derive (fun u => gauss c0 c1 x y u) z (- gauss c0 c1 x y z * 2 * c0 * z).
Proof. unfold gauss. split; [|split]; (auto_derive; [exact I|ring]). Qed.
Theorem radial_second_derivatives c0 c1 x y z :
  exists dxx dyy dzz : R,
    is_derive (fun u => - gauss c0 c1 u y z * 2 * c0 * u) x dxx /\ is_derive (fun u => - gauss c0 c1 x u z * 2 * c0 * u) y dyy /\
    is_derive (fun u => - gauss c0 c1 x y u * 2 * c0 * u) z dzz /\
    dxx + dyy + dzz = gauss c0 c1 x y z * 2 * c0 * (2 * c0 * (x * x + y * y + z * z) - 3).
Proof.
  unfold gauss.
  exists (c1 * exp (- c0 * (x * x + y * y + z * z)) * 2 * c0 * (2 * c0 * (x * x) - 1)),
         (c1 * exp (- c0 * (x * x + y * y + z * z)) * 2 * c0 * (2 * c0 * (y * y) - 1)),
         (c1 * exp (- c0 * (x * x + y * y + z * z)) * 2 * c0 * (2 * c0 * (z * z) - 1)).
  split; [auto_derive; [exact I|ring]|]. split; [auto_derive; [exact I|ring]|]. split; [auto_derive; [exact I|ring]|]. ring.
Qed.

(* ------------ product rule: what mol_eval_gto_grad / _lap assemble, one coordinate at a time ------------ *)
Theorem product_first f g (f' g' : R -> R) x : is_derive f x (f' x) -> is_derive g x (g' x) ->
  is_derive (fun u => f u * g u) x (f' x * g x + f x * g' x).
Proof. intros Hf Hg. apply (is_derive_mult f g x (f' x) (g' x) Hf Hg). intros; apply Rmult_comm. Qed.
Theorem product_second f g (f' g' f'' g'' : R -> R) x :
  (forall u, is_derive f u (f' u)) -> (forall u, is_derive g u (g' u)) -> is_derive f' x (f'' x) -> is_derive g' x (g'' x) ->
  is_derive (fun u => f' u * g u + f u * g' u) x (f'' x * g x + 2 * (f' x * g' x) + f x * g'' x).
Proof.
  intros Hf Hg Hf2 Hg2.
  replace (f'' x * g x + 2 * (f' x * g' x) + f x * g'' x) with ((f'' x * g x + f' x * g' x) + (f' x * g' x + f x * g'' x)) by ring.
  apply (is_derive_plus (fun u => f' u * g u) (fun u => f u * g' u)).
  - apply (is_derive_mult f' g x (f'' x) (g' x) Hf2 (Hg x)). intros; apply Rmult_comm.
  - apply (is_derive_mult f g' x (f' x) (g'' x) (Hf x) Hg2). intros; apply Rmult_comm.
Qed.
(* summed over the three coordinates with Y harmonic: lap(Y g) = Y lap(g) + 2 grad Y . grad g — the expression the code adds up *)
Theorem laplacian_assembly Y g Yx Yy Yz gx gy gz Yxx Yyy Yzz gxx gyy gzz :
  Yxx + Yyy + Yzz = 0 ->
  (Yxx * g + 2 * (Yx * gx) + Y * gxx) + (Yyy * g + 2 * (Yy * gy) + Y * gyy) + (Yzz * g + 2 * (Yz * gz) + Y * gzz)
  = Y * (gxx + gyy + gzz) + 2 * Yx * gx + 2 * Yy * gy + 2 * Yz * gz.
Proof. intros H. replace Yzz with (- Yxx - Yyy) by lra. ring. Qed.

(* ------------ lattice images: the slab test never drops an image that reaches into the cell ------------ *)
(* b = a row of the inverse lattice matrix: b . v is one fractional coordinate of v; 1/|b| is the distance between the two faces.
   If the translated atom p has that fractional coordinate above 1 (or below 0), every point r of the cell (fraction in [0,1]) is at least
   (excess) x (face distance) away: the images the filter drops are farther than rcut from the whole cell. *)
Definition dot3 (a b : R * R * R) : R := let '(a1, a2, a3) := a in let '(b1, b2, b3) := b in a1 * b1 + a2 * b2 + a3 * b3.
Definition sub3 (a b : R * R * R) : R * R * R := let '(a1, a2, a3) := a in let '(b1, b2, b3) := b in (a1 - b1, a2 - b2, a3 - b3).
Lemma cauchy_schwarz3 a b : (dot3 a b) ^ 2 <= dot3 a a * dot3 b b.
Proof.
  destruct a as [[a1 a2] a3], b as [[b1 b2] b3]. cbn [dot3].
  assert (E : (a1 * a1 + a2 * a2 + a3 * a3) * (b1 * b1 + b2 * b2 + b3 * b3) - (a1 * b1 + a2 * b2 + a3 * b3) ^ 2
              = (a1 * b2 - a2 * b1) ^ 2 + (a1 * b3 - a3 * b1) ^ 2 + (a2 * b3 - a3 * b2) ^ 2) by ring.
  pose proof (pow2_ge_0 (a1 * b2 - a2 * b1)). pose proof (pow2_ge_0 (a1 * b3 - a3 * b1)). pose proof (pow2_ge_0 (a2 * b3 - a3 * b2)). lra.
Qed.
Theorem slab_test_is_a_lower_bound (b p r : R * R * R) (excess : R) :
  0 < dot3 b b -> 0 <= excess -> dot3 b r <= 1 -> 1 + excess <= dot3 b p ->
  excess ^ 2 / dot3 b b <= dot3 (sub3 p r) (sub3 p r).
Proof.
  intros Hb He Hr Hp.
  assert (Hd : excess <= dot3 b (sub3 p r)).
  { destruct b as [[b1 b2] b3], p as [[p1 p2] p3], r as [[r1 r2] r3]. cbn [dot3 sub3] in *. lra. }
  pose proof (cauchy_schwarz3 b (sub3 p r)) as CS.
  assert (excess ^ 2 <= (dot3 b (sub3 p r)) ^ 2) by nra.
  apply Rmult_le_reg_r with (r := dot3 b b); [exact Hb|]. unfold Rdiv. rewrite Rmult_assoc, Rinv_l by lra. nra.
Qed.
Theorem slab_test_lower_side (b p r : R * R * R) (excess : R) :
  0 < dot3 b b -> 0 <= excess -> 0 <= dot3 b r -> dot3 b p <= - excess ->
  excess ^ 2 / dot3 b b <= dot3 (sub3 p r) (sub3 p r).
Proof.
  intros Hb He Hr Hp.
  assert (Hd : excess <= - dot3 b (sub3 p r)).
  { destruct b as [[b1 b2] b3], p as [[p1 p2] p3], r as [[r1 r2] r3]. cbn [dot3 sub3] in *. lra. }
  pose proof (cauchy_schwarz3 b (sub3 p r)) as CS.
  assert (excess ^ 2 <= (dot3 b (sub3 p r)) ^ 2) by nra.
  apply Rmult_le_reg_r with (r := dot3 b b); [exact Hb|]. unfold Rdiv. rewrite Rmult_assoc, Rinv_l by lra. nra.
Qed.
