(* C19 — property theorems only (numba orbital evaluator: tables regenerated from spherical_harmonics.py). *)
From Coq Require Import QArith Reals List.
From Coquelicot Require Import Coquelicot.
From PyQMC Require Import base.Poly3 gen.Sph_Gen C19.Proofs.
Import ListNotations.
Open Scope R_scope.

(* for every entry i < 36 (l = 0..5) of the CURRENT tables and every point of the unit cube: the coded derivative tables are the true
   partial derivatives of the coded value polynomials up to 1e-12 (the source gives the constants to 15 digits) *)
Theorem C19_gradient_tables_are_the_derivatives : forall (i : nat) (x y z : R), (i < 36)%nat -> Rabs x <= 1 -> Rabs y <= 1 -> Rabs z <= 1 ->
  let Y := nth i sph_values [] in
  exists gx gy gz : R,
    is_derive (fun u => peval Y u y z) x gx /\ is_derive (fun u => peval Y x u z) y gy /\ is_derive (fun u => peval Y x y u) z gz /\
    Rabs (gx - peval (nth i sph_dx []) x y z) <= Q2R eps_tab /\ Rabs (gy - peval (nth i sph_dy []) x y z) <= Q2R eps_tab /\
    Rabs (gz - peval (nth i sph_dz []) x y z) <= Q2R eps_tab.
Proof. exact gradient_tables_are_derivatives. Qed.
Print Assumptions C19_gradient_tables_are_the_derivatives.

(* the coded value polynomials are harmonic up to 1e-12 on the unit cube: this is what lets the Laplacian routines leave out the term (radial part) x lap(Y) *)
Theorem C19_solid_harmonics_are_harmonic : forall (i : nat) (x y z : R), (i < 36)%nat -> Rabs x <= 1 -> Rabs y <= 1 -> Rabs z <= 1 ->
  let Y := nth i sph_values [] in
  exists dxx dyy dzz : R,
    is_derive (fun u => peval (pdiff 0 Y) u y z) x dxx /\ is_derive (fun u => peval (pdiff 1 Y) x u z) y dyy /\ is_derive (fun u => peval (pdiff 2 Y) x y u) z dzz /\
    Rabs (dxx + dyy + dzz) <= Q2R eps_tab.
Proof. exact tables_harmonic. Qed.
Print Assumptions C19_solid_harmonics_are_harmonic.

(* entry i is homogeneous of degree floor(sqrt i): the tables hold r^l Y_lm, so the radial part is the bare contraction of Gaussians *)
Theorem C19_solid_harmonics_are_homogeneous : forall (i : nat) (s x y z : R), (i < 36)%nat ->
  peval (nth i sph_values []) (s * x) (s * y) (s * z) = s ^ (ell i) * peval (nth i sph_values []) x y z.
Proof. exact tables_homogeneous. Qed.
Print Assumptions C19_solid_harmonics_are_homogeneous.

Theorem C19_tables_cover_l0_to_l5 : (length sph_values = 36 /\ length sph_dx = 36 /\ length sph_dy = 36 /\ length sph_dz = 36)%nat.
Proof. exact tables_length. Qed.
Print Assumptions C19_tables_cover_l0_to_l5.

(* one primitive c1 exp(-c0 r^2): the gradient and Laplacian expressions of radial_gto_grad / radial_gto_lap *)
Theorem C19_radial_gradient_and_laplacian : forall c0 c1 x y z : R,
  (is_derive (fun u => gauss c0 c1 u y z) x (- gauss c0 c1 x y z * 2 * c0 * x) /\
   is_derive (fun u => gauss c0 c1 x u z) y (- gauss c0 c1 x y z * 2 * c0 * y) /\
   is_derive (fun u => gauss c0 c1 x y u) z (- gauss c0 c1 x y z * 2 * c0 * z)) /\
  exists dxx dyy dzz : R,
    is_derive (fun u => - gauss c0 c1 u y z * 2 * c0 * u) x dxx /\ is_derive (fun u => - gauss c0 c1 x u z * 2 * c0 * u) y dyy /\
    is_derive (fun u => - gauss c0 c1 x y u * 2 * c0 * u) z dzz /\
    dxx + dyy + dzz = gauss c0 c1 x y z * 2 * c0 * (2 * c0 * (x * x + y * y + z * z) - 3).
Proof. intros c0 c1 x y z. split; [exact (radial_gradient c0 c1 x y z)|exact (radial_second_derivatives c0 c1 x y z)]. Qed.
Print Assumptions C19_radial_gradient_and_laplacian.

(* assembling orbital = Y x radial: first and second derivatives of a product, and the sum over coordinates for harmonic Y *)
Theorem C19_product_rule_assembly :
  (forall f g (f' g' : R -> R) x, is_derive f x (f' x) -> is_derive g x (g' x) -> is_derive (fun u => f u * g u) x (f' x * g x + f x * g' x)) /\
  (forall f g (f' g' f'' g'' : R -> R) x, (forall u, is_derive f u (f' u)) -> (forall u, is_derive g u (g' u)) -> is_derive f' x (f'' x) -> is_derive g' x (g'' x) ->
     is_derive (fun u => f' u * g u + f u * g' u) x (f'' x * g x + 2 * (f' x * g' x) + f x * g'' x)) /\
  (forall Y g Yx Yy Yz gx gy gz Yxx Yyy Yzz gxx gyy gzz : R, Yxx + Yyy + Yzz = 0 ->
     (Yxx * g + 2 * (Yx * gx) + Y * gxx) + (Yyy * g + 2 * (Yy * gy) + Y * gyy) + (Yzz * g + 2 * (Yz * gz) + Y * gzz)
     = Y * (gxx + gyy + gzz) + 2 * Yx * gx + 2 * Yy * gy + 2 * Yz * gz).
Proof. split; [exact product_first|split; [exact product_second|exact laplacian_assembly]]. Qed.
Print Assumptions C19_product_rule_assembly.

(* periodic lattice sums: an image whose translated atom lies `excess` fractional-coordinate units outside a pair of opposite faces is at
   least excess x (face distance) away from every point of the cell — the test that selects the images never drops one that reaches the cell *)
Theorem C19_lattice_image_filter_is_complete : forall (b p r : R * R * R) (excess : R), 0 < dot3 b b -> 0 <= excess ->
  (dot3 b r <= 1 -> 1 + excess <= dot3 b p -> excess ^ 2 / dot3 b b <= dot3 (sub3 p r) (sub3 p r)) /\
  (0 <= dot3 b r -> dot3 b p <= - excess -> excess ^ 2 / dot3 b b <= dot3 (sub3 p r) (sub3 p r)).
Proof. intros b p r e Hb He. split; intros; [apply slab_test_is_a_lower_bound|apply slab_test_lower_side]; assumption. Qed.
Print Assumptions C19_lattice_image_filter_is_complete.
