(* C03 — property theorems (real-number identities). *)
From Coq Require Import Reals Lra List.
From PyQMC Require Import C03.Ratios.
Import ListNotations. Open Scope R_scope.

Theorem C03_exponential_ratio : forall U U', exp (U' - U) = exp U' / exp U.
Proof. exact exp_ratio. Qed.
Print Assumptions C03_exponential_ratio.

Theorem C03_multideterminant_reference_cancels : forall c r D ref, wsum c (map (fun _ => 1) c) D <> 0 ->
  wsum c r (map (fun d => d * exp (- ref)) D) / wsum c (map (fun _ => 1) c) (map (fun d => d * exp (- ref)) D)
  = wsum c r D / wsum c (map (fun _ => 1) c) D.
Proof. exact reference_cancels. Qed.
Print Assumptions C03_multideterminant_reference_cancels.

Theorem C03_product_ratio : forall a a' b b', a <> 0 -> b <> 0 -> (a' * b') / (a * b) = (a' / a) * (b' / b).
Proof. exact product_ratio. Qed.
Print Assumptions C03_product_ratio.

Theorem C03_sum_ratio : forall c1 c2 p1 p2 p1' p2', p1 <> 0 -> p2 <> 0 -> c1 * p1 + c2 * p2 <> 0 ->
  (c1 * p1' + c2 * p2') / (c1 * p1 + c2 * p2) = (p1' / p1) * (c1 * p1 / (c1 * p1 + c2 * p2)) + (p2' / p2) * (c2 * p2 / (c1 * p1 + c2 * p2)).
Proof. exact sum_ratio. Qed.
Print Assumptions C03_sum_ratio.

Theorem C03_batched_calls_are_maps : forall (A B : Type) (f : A -> B) (l : list A) i d d', (i < length l)%nat -> nth i (map f l) d' = f (nth i l d).
Proof. exact @batched_is_map. Qed.
Print Assumptions C03_batched_calls_are_maps.
