(* C03 — property theorems (multi-determinant Slater._testrow over any field). *)
From Coq Require Import List Field.
From PyQMC Require Import C02.SM C03.Multidet.

(* moving a spin-up electron: _testrow = Psi'/Psi where Psi = sum_d c_d Dup_{map_up d} Ddn_{map_dn d} and Psi' has every
   up-determinant multiplied by its own single-determinant ratio; any field, any number of determinants, any maps *)
Theorem C03_multideterminant_testrow_up_is_psi_moved_over_psi :
  forall (F : Type) (zero one : F) (add mul sub : F -> F -> F) (opp : F -> F) (div : F -> F -> F) (inv : F -> F),
  field_theory zero one add mul sub opp div inv (@eq F) ->
  forall n e invs vecs Dup Ddn map_up map_dn c, length map_up = length c ->
  testrow F zero add mul div n e true invs vecs Dup Ddn map_up map_dn c =
  div (psi F zero add mul c (zipmul F mul (zipmul F mul (gather F zero (single_ratios F zero add mul n e invs vecs) map_up) (gather F zero Dup map_up)) (gather F zero Ddn map_dn)))
      (psi F zero add mul c (zipmul F mul (gather F zero Dup map_up) (gather F zero Ddn map_dn))).
Proof. intros F zero one add mul sub opp div inv Fth. exact (testrow_up_spec F zero one add mul sub opp div inv Fth). Qed.
Print Assumptions C03_multideterminant_testrow_up_is_psi_moved_over_psi.

Theorem C03_multideterminant_testrow_down_is_psi_moved_over_psi :
  forall (F : Type) (zero one : F) (add mul sub : F -> F -> F) (opp : F -> F) (div : F -> F -> F) (inv : F -> F),
  field_theory zero one add mul sub opp div inv (@eq F) ->
  forall n e invs vecs Dup Ddn map_up map_dn c, length map_dn = length c ->
  testrow F zero add mul div n e false invs vecs Dup Ddn map_up map_dn c =
  div (psi F zero add mul c (zipmul F mul (gather F zero Dup map_up) (zipmul F mul (gather F zero (single_ratios F zero add mul n e invs vecs) map_dn) (gather F zero Ddn map_dn))))
      (psi F zero add mul c (zipmul F mul (gather F zero Dup map_up) (gather F zero Ddn map_dn))).
Proof. intros F zero one add mul sub opp div inv Fth. exact (testrow_dn_spec F zero one add mul sub opp div inv Fth). Qed.
Print Assumptions C03_multideterminant_testrow_down_is_psi_moved_over_psi.

(* r_{map d} D_{map d} = (r D)_{map d}: the moved value of a shared determinant is the same in every expansion term that uses it *)
Theorem C03_shared_determinants_move_together :
  forall (F : Type) (zero : F) (mul : F -> F -> F) r Ds idx, length r = length Ds -> (forall i, In i idx -> i < length r) ->
  zipmul F mul (gather F zero r idx) (gather F zero Ds idx) = gather F zero (zipmul F mul r Ds) idx.
Proof. exact gather_zipmul. Qed.
Print Assumptions C03_shared_determinants_move_together.

(* the premises are satisfiable and the model computes: two determinants sharing one down determinant, 2x2 up matrices *)
From Coq Require Import ZArith QArith Qcanon.
Import ListNotations.
Definition qi (z : Z) : Qc := Q2Qc (inject_Z z).
Example C03_testrow_computes :
  testrow_list 2 0 true [[[qi 1; qi 0]; [qi 0; qi 1]]; [[qi 1; qi 1]; [qi 0; qi 1]]] [[qi 2; qi 3]; [qi 2; qi 3]] [qi 1; qi 2] [qi 5]
               [0; 1]%nat [0; 0]%nat [qi 1; qi 1] = [2%Z; 1%Z].
Proof. vm_compute. reflexivity. Qed.
Print Assumptions C03_testrow_computes.
