(* C03 — bridge between the executable model and the determinant: the ratio computed by the list/function model of
   slater.sherman_morrison_ms / Slater._testrow (C02/SM.v: sm_ratio, the definition the correspondence check runs at F := Qc)
   is, for every mathcomp field and every size, det(A with row e := v) / det A when it is given the inverse of A. *)
From mathcomp Require Import all_ssreflect all_algebra.
From PyQMC Require Import C02.SM C03.DetRatio.
Set Implicit Arguments. Unset Strict Implicit. Unset Printing Implicit Defensive.
Import GRing.Theory. Local Open Scope ring_scope.

Section Bridge.
Variable (F : fieldType) (n : nat).

Lemma sum_big (f : nat -> F) m : sum F 0 +%R m f = \sum_(k < m) f k.
Proof. by elim: m => [|m IH] /=; [rewrite big_ord0|rewrite big_ord_recr /= IH]. Qed.

(* a mathcomp matrix / row vector read as the nat-indexed functions the model works on (0 outside the range) *)
Definition fun_of_mx (M : 'M[F]_n) (i j : nat) : F :=
  match insub i, insub j with Some i', Some j' => M i' j' | _, _ => 0 end.
Definition fun_of_rv (v : 'rV[F]_n) (k : nat) : F :=
  match insub k with Some k' => v 0 k' | None => 0 end.

Lemma fun_of_mx_ord M (i j : 'I_n) : fun_of_mx M i j = M i j.
Proof. by rewrite /fun_of_mx !insubT ?ltn_ord // => Hi Hj; congr (M _ _); apply: val_inj. Qed.
Lemma fun_of_rv_ord v (k : 'I_n) : fun_of_rv v k = v 0 k.
Proof. by rewrite /fun_of_rv insubT ?ltn_ord // => Hk; congr (v _ _); apply: val_inj. Qed.

Lemma sm_ratio_mulmx (B : 'M[F]_n) (e : 'I_n) (v : 'rV[F]_n) :
  sm_ratio F 0 +%R *%R n e (fun_of_mx B) (fun_of_rv v) = (v *m B) 0 e.
Proof.
rewrite /sm_ratio /tmpv sum_big mxE; apply: eq_bigr => k _.
by rewrite fun_of_rv_ord fun_of_mx_ord.
Qed.

Theorem sm_ratio_is_det_ratio (A : 'M[F]_n) (e : 'I_n) (v : 'rV[F]_n) : A \in unitmx ->
  sm_ratio F 0 +%R *%R n e (fun_of_mx (invmx A)) (fun_of_rv v) = \det (setrow A e v) / \det A.
Proof.
move=> uA. have dA : \det A != 0 by rewrite -unitfE -unitmxE.
by rewrite sm_ratio_mulmx (det_ratio e v uA) mulrC mulKf.
Qed.
End Bridge.
