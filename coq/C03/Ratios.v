(* C03 — the ratio formulas of the wave-function classes as identities over R (for every value of the ingredients). *)
From Coq Require Import Reals Lra List.
Import ListNotations. Open Scope R_scope.

(* Jastrow-type factors: Psi = exp U; the reported ratio exp(U' - U) is Psi'/Psi *)
Lemma exp_ratio U U' : exp (U' - U) = exp U' / exp U.
Proof. unfold Rminus, Rdiv. rewrite exp_plus, exp_Ropp. reflexivity. Qed.

(* multi-determinant Slater with the common reference factored out (determinant_tools.compute_value / Slater._testrow):
   sum_d c_d r_d D_d e^{-ref} / sum_d c_d D_d e^{-ref} = sum_d c_d r_d D_d / sum_d c_d D_d  for every reference *)
Definition wsum (c r D : list R) : R := fold_right Rplus 0 (map (fun x => fst (fst x) * snd (fst x) * snd x) (combine (combine c r) D)).
Lemma wsum_scale c r D k : wsum c r (map (fun d => d * k) D) = k * wsum c r D.
Proof.
  unfold wsum. revert r D. induction c as [|c0 c IH]; intros r D; [cbn; ring|].
  destruct r as [|r0 r]; [cbn; ring|]. destruct D as [|d0 D]; [cbn; ring|]. cbn [combine map fold_right fst snd].
  rewrite IH. ring.
Qed.
Theorem reference_cancels c r D ref : wsum c (map (fun _ => 1) c) D <> 0 ->
  wsum c r (map (fun d => d * exp (- ref)) D) / wsum c (map (fun _ => 1) c) (map (fun d => d * exp (- ref)) D)
  = wsum c r D / wsum c (map (fun _ => 1) c) D.
Proof. intros H. rewrite !wsum_scale. field. split; [assumption|apply Rgt_not_eq, exp_pos]. Qed.

(* product wave function: ratio of the product is the product of the ratios *)
Lemma product_ratio a a' b b' : a <> 0 -> b <> 0 -> (a' * b') / (a * b) = (a' / a) * (b' / b).
Proof. intros. field. split; assumption. Qed.

(* sum wave function: (sum_i c_i psi_i') / (sum_i c_i psi_i) = sum_i (psi_i'/psi_i) * (c_i psi_i / sum_j c_j psi_j) *)
Lemma sum_ratio c1 c2 p1 p2 p1' p2' : p1 <> 0 -> p2 <> 0 -> c1 * p1 + c2 * p2 <> 0 ->
  (c1 * p1' + c2 * p2') / (c1 * p1 + c2 * p2) = (p1' / p1) * (c1 * p1 / (c1 * p1 + c2 * p2)) + (p2' / p2) * (c2 * p2 / (c1 * p1 + c2 * p2)).
Proof. intros. field. repeat split; assumption. Qed.

(* many trial positions / several electrons / a walker mask: the batched calls are maps and filters of the single call *)
Lemma batched_is_map {A B} (f : A -> B) (l : list A) i d d' : (i < length l)%nat -> nth i (map f l) d' = f (nth i l d).
Proof. intros H. rewrite (nth_indep _ d' (f d)) by (rewrite map_length; assumption). apply map_nth. Qed.
