(* C03 — property theorems (bridge between the executable model and the determinant). *)
From mathcomp Require Import all_ssreflect all_algebra.
From PyQMC Require Import C02.SM C03.DetRatio C03.Bridge.
Import GRing.Theory. Local Open Scope ring_scope.

(* the single-determinant ratio computed by the executable model (C02/SM.v sm_ratio — the very definition the correspondence
   check runs at F := Qc against Slater._testrow and sherman_morrison_ms) is det(A with row e := v)/det A when it is given A^-1:
   every mathcomp field (real, complex, rational), every number of electrons *)
Theorem C03_model_ratio_is_the_determinant_ratio : forall (F : fieldType) (n : nat) (A : 'M[F]_n) (e : 'I_n) (v : 'rV[F]_n),
  A \in unitmx ->
  sm_ratio F 0 +%R *%R n e (fun_of_mx (invmx A)) (fun_of_rv v) = \det (setrow A e v) / \det A.
Proof. exact: sm_ratio_is_det_ratio. Qed.
Print Assumptions C03_model_ratio_is_the_determinant_ratio.
