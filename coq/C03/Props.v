(* C03 — property theorems only. *)
From mathcomp Require Import all_ssreflect all_algebra.
From PyQMC Require Import C03.DetRatio.
Import GRing.Theory. Local Open Scope ring_scope.

(* Slater: the single-determinant ratio (v . A^-1)_e reported by _testrow is det(A with row e := v) / det A,
   for every field (real or complex orbitals) and every number of electrons *)
Theorem C03_determinant_ratio : forall (F : fieldType) (n : nat) (A : 'M[F]_n) (e : 'I_n) (v : 'rV[F]_n),
  A \in unitmx -> \det (setrow A e v) = \det A * (v *m invmx A) 0 e.
Proof. exact det_ratio. Qed.
Print Assumptions C03_determinant_ratio.
