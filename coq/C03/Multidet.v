(* C03 — multi-determinant ratio of Slater._testrow over an arbitrary field (proved once, executed at F := Qc):
     ratio = sum_d c_d r_{map_s d} D_d / sum_d c_d D_d ,   D_d = Dup_{map_up d} * Ddn_{map_dn d},
   where r_k is the single-determinant ratio of the k-th distinct determinant of the moved electron's spin.
   The reference shift exp(-upref-dnref) of the code multiplies every D_d by one common non-zero factor and cancels
   (C03/Ratios.v, reference_cancels); here D_d are the determinant values themselves. *)
From Coq Require Import Arith List Lia Field Ring.
From PyQMC Require Import C02.SM.
Import ListNotations.

Section MD.
Variables (F : Type) (zero one : F) (add mul sub : F -> F -> F) (opp : F -> F)
          (div : F -> F -> F) (inv : F -> F).
Hypothesis Fth : field_theory zero one add mul sub opp div inv (@eq F).
Add Field FF2 : Fth.
Notation "0" := zero. Notation "1" := one.
Infix "+" := add. Infix "*" := mul. Infix "-" := sub. Infix "/" := div.

(* Psi = sum_d c_d D_d *)
Fixpoint psi (c D : list F) : F :=
  match c, D with c0 :: c', d0 :: D' => c0 * d0 + psi c' D' | _, _ => 0 end.
(* numerator of _testrow: sum_d r_d c_d D_d *)
Fixpoint numer (c r D : list F) : F :=
  match c, r, D with c0 :: c', r0 :: r', d0 :: D' => r0 * c0 * d0 + numer c' r' D' | _, _, _ => 0 end.
Fixpoint zipmul (a b : list F) : list F :=
  match a, b with a0 :: a', b0 :: b' => a0 * b0 :: zipmul a' b' | _, _ => [] end.
Definition gather (l : list F) (idx : list nat) : list F := map (fun i => nth i l 0) idx.

Definition md_ratio (c r D : list F) : F := numer c r D / psi c D.

(* the numerator is Psi with every determinant replaced by its moved value r_d D_d *)
Lemma numer_is_psi_moved c : forall r D, length r = length c -> numer c r D = psi c (zipmul r D).
Proof.
  induction c as [|c0 c IH]; intros r D Hl; destruct r as [|r0 r]; try discriminate; cbn; [reflexivity|].
  destruct D as [|d0 D]; cbn; [reflexivity|]. rewrite IH by (cbn in Hl; lia). ring.
Qed.
Theorem md_ratio_spec c r D : length r = length c -> md_ratio c r D = psi c (zipmul r D) / psi c D.
Proof. intros Hl. unfold md_ratio. rewrite numer_is_psi_moved by exact Hl. reflexivity. Qed.


(* the whole _testrow for one walker: invs/vecs = inverse matrix and replacement row of every distinct determinant of spin s *)
Definition single_ratios (n e : nat) (invs : list (nat -> nat -> F)) (vecs : list (nat -> F)) : list F :=
  map (fun bv => sm_ratio F zero add mul n e (fst bv) (snd bv)) (combine invs vecs).
Definition testrow (n e : nat) (spin_up : bool) (invs : list (nat -> nat -> F)) (vecs : list (nat -> F))
           (Dup Ddn : list F) (map_up map_dn : list nat) (c : list F) : F :=
  let r := single_ratios n e invs vecs in
  md_ratio c (gather r (if spin_up then map_up else map_dn)) (zipmul (gather Dup map_up) (gather Ddn map_dn)).

Lemma gather_length l idx : length (gather l idx) = length idx.
Proof. apply map_length. Qed.
Lemma zipmul_assoc_l a b d : zipmul a (zipmul b d) = zipmul (zipmul a b) d.
Proof.
  revert b d. induction a as [|a0 a IH]; intros [|b0 b] [|d0 d]; cbn; try reflexivity. rewrite IH. f_equal. ring.
Qed.
Lemma zipmul_comm a b : zipmul a b = zipmul b a.
Proof. revert b. induction a as [|a0 a IH]; intros [|b0 b]; cbn; try reflexivity. rewrite IH. f_equal. ring. Qed.

(* Psi'/Psi with Psi' built from the moved determinants: up move => Dup'_k = r_k Dup_k, down move => Ddn'_k = r_k Ddn_k *)
Theorem testrow_up_spec n e invs vecs Dup Ddn map_up map_dn c :
  length map_up = length c ->
  testrow n e true invs vecs Dup Ddn map_up map_dn c =
  psi c (zipmul (zipmul (gather (single_ratios n e invs vecs) map_up) (gather Dup map_up)) (gather Ddn map_dn))
  / psi c (zipmul (gather Dup map_up) (gather Ddn map_dn)).
Proof.
  intros Hl. unfold testrow. cbv zeta. rewrite md_ratio_spec by (rewrite gather_length; exact Hl).
  rewrite zipmul_assoc_l. reflexivity.
Qed.
Theorem testrow_dn_spec n e invs vecs Dup Ddn map_up map_dn c :
  length map_dn = length c ->
  testrow n e false invs vecs Dup Ddn map_up map_dn c =
  psi c (zipmul (gather Dup map_up) (zipmul (gather (single_ratios n e invs vecs) map_dn) (gather Ddn map_dn)))
  / psi c (zipmul (gather Dup map_up) (gather Ddn map_dn)).
Proof.
  intros Hl. unfold testrow. cbv zeta. rewrite md_ratio_spec by (rewrite gather_length; exact Hl).
  f_equal. f_equal. rewrite zipmul_assoc_l, (zipmul_comm (gather _ map_dn) (gather Dup map_up)), <- zipmul_assoc_l. reflexivity.
Qed.
(* gather of a pointwise product is the pointwise product of the gathers: r_{map d} D_{map d} = (r D)_{map d} *)
Lemma gather_zipmul r Ds idx : length r = length Ds -> (forall i, In i idx -> i < length r) ->
  zipmul (gather r idx) (gather Ds idx) = gather (zipmul r Ds) idx.
Proof.
  intros Hl Hi. unfold gather. induction idx as [|i idx IH]; cbn [map zipmul]; [reflexivity|].
  rewrite IH by (intros j Hj; apply Hi; right; exact Hj). f_equal.
  assert (Hlt : i < length r) by (apply Hi; left; reflexivity). clear IH Hi. revert i Ds Hl Hlt.
  induction r as [|r0 r IHr]; intros i [|d0 Ds] Hl Hlt; cbn in *; try lia. destruct i as [|i]; [reflexivity|]. apply IHr; lia.
Qed.
End MD.

(* ---- executable instance over canonical rationals ---- *)
From Coq Require Import ZArith QArith Qcanon.
Definition Qc_testrow := testrow Qc 0%Qc Qcplus Qcmult Qcdiv.
Definition testrow_list (n e : nat) (spin_up : bool) (invs : list (list (list Qc))) (vecs : list (list Qc))
           (Dup Ddn : list Qc) (map_up map_dn : list nat) (c : list Qc) : list Z :=
  qcz (Qc_testrow n e spin_up (map lookup2 invs) (map lookup1 vecs) Dup Ddn map_up map_dn c).
