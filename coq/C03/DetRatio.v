(* C03 — the determinant ratio used by Slater._testrow: replacing row e of an invertible matrix A by v multiplies the
   determinant by (v . A^-1)_e — for every field, every size (mathcomp). *)
From mathcomp Require Import all_ssreflect all_algebra.
From mathcomp Require Import ring.
Set Implicit Arguments. Unset Strict Implicit. Unset Printing Implicit Defensive.
Import GRing.Theory. Local Open Scope ring_scope.

Section DetRatio.
Variable (F : fieldType) (n : nat).
Implicit Types (A : 'M[F]_n) (v : 'rV[F]_n).

Definition setrow A (e : 'I_n) v : 'M[F]_n := \matrix_(i, j) (if i == e then v 0 j else A i j).

Lemma det_setrow A e v : \det (setrow A e v) = \sum_j v 0 j * cofactor A e j.
Proof.
rewrite (expand_det_row _ e); apply: eq_bigr => j _.
rewrite mxE eqxx; congr (_ * _).
rewrite /cofactor; congr (_ * \det _).
by apply/matrixP => i k; rewrite !mxE /= eq_sym (negPf (neq_lift _ _)).
Qed.

(* ratio = sum_j v_j (A^-1)_{j e} = (v *m invmx A) 0 e *)
Theorem det_ratio A e v : A \in unitmx ->
  \det (setrow A e v) = \det A * (v *m invmx A) 0 e.
Proof.
move=> uA. have dA : \det A != 0 by rewrite -unitfE -unitmxE.
rewrite det_setrow mxE big_distrr /=.
apply: eq_bigr => j _.
rewrite /invmx uA !mxE.
have -> : \det A * (v 0 j * ((\det A)^-1 * cofactor A e j)) = v 0 j * cofactor A e j * (\det A / \det A) by ring.
by rewrite mulfV // mulr1.
Qed.
End DetRatio.
