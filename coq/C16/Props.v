(* C16 — property theorems only (parameter map of the optimizer). *)
From Coq Require Import ZArith List Bool Lia.
From PyQMC Require Import C16.Model C16.Proofs C16.Duality.
Import ListNotations. Open Scope Z_scope.

(* flattening the selected parameters and restoring them is the identity *)
Theorem C16_flatten_restore_identity : forall ks, Forall wf_key ks -> deserialize ks (serialize ks) = ks.
Proof. exact serialize_roundtrip. Qed.
Print Assumptions C16_flatten_restore_identity.

(* restoring ANY vector never alters an entry that was not selected ... *)
Theorem C16_unselected_entries_untouched : forall ks xr xi i j d,
  nth j (mask (nth i ks (mkKey false [] []))) false = false ->
  nth j (vals (nth i (deser ks xr xi) (mkKey false [] []))) d = nth j (vals (nth i ks (mkKey false [] []))) d.
Proof. exact deser_frozen. Qed.
Print Assumptions C16_unselected_entries_untouched.

(* ... nor a key without any selected entry, nor masks, dtypes or shapes *)
Theorem C16_unselected_keys_untouched : forall ks xr xi i, anysel (nth i ks (mkKey false [] [])) = false ->
  nth i (deser ks xr xi) (mkKey false [] []) = nth i ks (mkKey false [] []).
Proof. exact deser_inactive_key. Qed.
Print Assumptions C16_unselected_keys_untouched.

Theorem C16_structure_preserved : forall ks xr xi,
  map mask (deser ks xr xi) = map mask ks /\ map cplx (deser ks xr xi) = map cplx ks
  /\ map (fun k => length (vals k)) (deser ks xr xi) = map (fun k => length (vals k)) ks.
Proof. exact deser_structure. Qed.
Print Assumptions C16_structure_preserved.

(* complex parameters contribute one real and one imaginary coordinate, real ones one coordinate *)
Theorem C16_vector_length : forall ks, Forall wf_key ks ->
  length (serialize ks) =
  (fold_right Nat.add 0 (map (fun k => nsel (mask k)) ks) + fold_right Nat.add 0 (map (fun k => if cplx k then nsel (mask k) else 0) ks))%nat.
Proof. exact serialize_length. Qed.
Print Assumptions C16_vector_length.

Theorem C16_empty_selection : forall ks x, (forall k, In k ks -> anysel k = false) -> serialize ks = [] /\ deserialize ks x = ks.
Proof. exact empty_selection. Qed.
Print Assumptions C16_empty_selection.

(* the flattened derivative vector is the derivative with respect to the flattened parameters (one key, PARTIAL:
   the concatenation order over several keys is covered by the exact correspondence, not by this theorem) *)
Theorem C16_gradient_duality_one_key_partial : forall (c : bool) (v g : list C) (m : list bool) (xr xi : list Z),
  length m = length v -> length g = length v -> existsb (fun b => b) m = true ->
  length xr = nsel m -> length xi = (if c then nsel m else 0%nat) ->
  let k := mkKey c v m in let kg := mkKey c g m in
  cdot g (vals (nth 0 (deserialize [k] (xr ++ xi)) k)) =
  cadd (cdot (selnot m g) (selnot m v)) (dotZ (serialize_gradients [k] [kg]) (xr ++ xi)).
Proof. exact gradient_duality_one_key. Qed.
Print Assumptions C16_gradient_duality_one_key_partial.

Example C16_hypotheses_satisfiable :
  let ks := [mkKey true [(1,2);(3,4);(5,6)] [true;false;true]; mkKey false [(7,0);(8,0)] [false;false]; mkKey false [(9,0);(10,0)] [false;true]] in
  Forall wf_key ks /\ serialize ks = [1;5;10;2;6] /\
  map vals (deserialize ks [11;12;13;14;15]) = [[(11,14);(3,4);(12,15)]; [(7,0);(8,0)]; [(9,0);(13,0)]].
Proof.
  cbv zeta. split; [|split; vm_compute; reflexivity].
  repeat constructor; cbn; try reflexivity; try discriminate; intros; repeat constructor.
Qed.
Print Assumptions C16_hypotheses_satisfiable.

(* the same for ANY number of keys, in the code's concatenation order (all real coordinates key by key, then the imaginary coordinates
   of the complex keys): the flattened derivative vector IS the derivative with respect to the flattened parameters.
   lindot g p = sum over keys and entries of g * p (the first-order model of ln Psi); frozen = the entries the vector does not touch *)
Theorem C16_gradient_duality_all_keys : forall (ks gs : list key) (x : list Z), Forall2 shape_ok ks gs ->
  length x = length (serialize_gradients ks gs) ->
  lindot gs (deserialize ks x) = cadd (frozen ks gs) (dotZ (serialize_gradients ks gs) x).
Proof. exact gradient_duality. Qed.
Print Assumptions C16_gradient_duality_all_keys.

Example C16_duality_hypotheses_satisfiable :
  let ks := [mkKey true [(1,2);(3,4);(5,6)] [true;false;true]; mkKey false [(7,0);(8,0)] [false;false]; mkKey false [(9,0);(10,0)] [false;true]] in
  let gs := [mkKey true [(2,1);(0,3);(1,1)] [true;false;true]; mkKey false [(4,0);(5,0)] [false;false]; mkKey false [(6,0);(7,0)] [false;true]] in
  Forall2 shape_ok ks gs /\ length (serialize_gradients ks gs) = 5%nat /\
  lindot gs (deserialize ks [11;12;13;14;15]) = cadd (frozen ks gs) (dotZ (serialize_gradients ks gs) [11;12;13;14;15]).
Proof. cbv zeta. split; [repeat constructor|]. split; vm_compute; reflexivity. Qed.
Print Assumptions C16_duality_hypotheses_satisfiable.
