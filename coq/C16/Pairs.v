(* C16 — packed same-spin pair indexing used by ThreeBodyJastrow.pgradient: the pair function values come in the row-major order of the
   pairs i<j of one spin channel (dist_matrix), and the loop over i takes the slice [t, t + n-i-1) with t advanced by n-i-1 each time.
   Theorem: for every n and every i<n that slice is exactly the list of pairs (i, i+1), ..., (i, n-1); the slices tile the whole list. *)
From Coq Require Import List Arith Bool Lia.
Import ListNotations.

Definition row (n i : nat) : list (nat * nat) := map (fun j => (i, j)) (seq (i + 1) (n - i - 1)).
Definition pairs (n : nat) : list (nat * nat) := flat_map (row n) (seq 0 n).
Fixpoint offset (n i : nat) : nat := match i with 0 => 0 | S k => offset n k + (n - k - 1) end.

Lemma row_length n i : length (row n i) = n - i - 1.
Proof. unfold row. rewrite map_length, seq_length. reflexivity. Qed.

Lemma prefix_length n i : length (flat_map (row n) (seq 0 i)) = offset n i.
Proof.
  induction i as [|i IH]; [reflexivity|].
  rewrite seq_S, flat_map_app, app_length, IH. cbn [flat_map Nat.add offset]. rewrite app_nil_r, row_length. reflexivity.
Qed.

Lemma skipn_length_app {A} (l1 l2 : list A) : skipn (length l1) (l1 ++ l2) = l2.
Proof. induction l1 as [|a l1 IH]; [reflexivity|exact IH]. Qed.
Lemma firstn_length_app {A} (l1 l2 : list A) : firstn (length l1) (l1 ++ l2) = l1.
Proof. induction l1 as [|a l1 IH]; [destruct l2; reflexivity|cbn [length app firstn]; rewrite IH; reflexivity]. Qed.

Lemma pairs_split n i : i < n ->
  pairs n = flat_map (row n) (seq 0 i) ++ row n i ++ flat_map (row n) (seq (S i) (n - i - 1)).
Proof.
  intros Hi. unfold pairs. replace n with (i + (1 + (n - i - 1))) at 2 by lia.
  rewrite seq_app, flat_map_app, seq_app, flat_map_app. cbn [seq flat_map Nat.add]. rewrite app_nil_r.
  replace (seq (i + 1) (n - i - 1)) with (seq (S i) (n - i - 1)) by (f_equal; lia). reflexivity.
Qed.

Theorem slice_is_row n i : i < n -> firstn (n - i - 1) (skipn (offset n i) (pairs n)) = row n i.
Proof.
  intros Hi. rewrite (pairs_split n i Hi), <- prefix_length, skipn_length_app, <- (row_length n i).
  apply firstn_length_app.
Qed.

Theorem offsets_tile n : offset n n = length (pairs n) /\ 2 * length (pairs n) = n * (n - 1).
Proof.
  split; [symmetry; apply prefix_length|].
  unfold pairs. rewrite prefix_length. induction n as [|n IH]; [reflexivity|].
  assert (E : forall m k, k <= m -> offset (S m) k = offset m k + k).
  { intros m k; induction k as [|k IHk]; intros Hk; [reflexivity|]. cbn [offset]. rewrite IHk by lia. lia. }
  cbn [offset]. rewrite (E n n) by lia. replace (S n - n - 1) with 0 by lia. nia.
Qed.

Theorem pairs_are_the_ordered_pairs n i j : In (i, j) (pairs n) <-> i < j /\ j < n.
Proof.
  unfold pairs. rewrite in_flat_map. split.
  - intros [k [Hk Hin]]. unfold row in Hin. apply in_map_iff in Hin. destruct Hin as [j' [E Hj]].
    inversion E; subst. apply in_seq in Hk. apply in_seq in Hj. lia.
  - intros [Hij Hj]. exists i. split; [apply in_seq; lia|]. unfold row. apply in_map_iff. exists j. split; [reflexivity|apply in_seq; lia].
Qed.

(* executable check used by the correspondence: what the loops of the source do for one spin channel of n electrons, one entry
   (i, (start, len), (jstart, jstop)) per iteration in local indices, against the model's offsets *)
Definition entry := (nat * (nat * nat) * (nat * nat))%type.
Definition entry_ok (n : nat) (e : entry) : bool :=
  let '(i, (s, len), (j0, j1)) := e in
  (i <? n) && (len =? n - i - 1) && ((len =? 0) || ((s =? offset n i) && (j0 =? i + 1) && (j1 =? n))).   (* an empty slice may start anywhere *)
Definition packing_ok (n : nat) (l : list entry) : bool :=
  forallb (entry_ok n) l
  && forallb (fun i => (n - i - 1 =? 0) || existsb (fun e : entry => fst (fst e) =? i) l) (seq 0 n).
Definition same_pairs (n : nat) (l : list (nat * nat)) : bool :=
  (length l =? length (pairs n))
  && forallb (fun ab : (nat * nat) * (nat * nat) => (fst (fst ab) =? fst (snd ab)) && (snd (fst ab) =? snd (snd ab))) (combine (pairs n) l).
