(* C16 — model of accumulators.LinearTransform: serialize_parameters / deserialize / serialize_gradients.
   A parameter set is a list of keys; each key has a flag "complex dtype", its flattened entries (re, im)
   and a boolean selection mask.  Integers stand for the (exactly copied) floating-point numbers: the
   transformation is pure data movement plus, for the gradient duality, ring arithmetic on pairs. *)
From Coq Require Import ZArith List Bool.
Import ListNotations. Open Scope Z_scope.

Definition C := (Z * Z)%type.
Definition re (c : C) := fst c.
Definition im (c : C) := snd c.
Definition cmul (a b : C) : C := (fst a * fst b - snd a * snd b, fst a * snd b + snd a * fst b).
Definition cadd (a b : C) : C := (fst a + fst b, snd a + snd b).
Definition csum (l : list C) : C := fold_right cadd (0,0) l.
Definition ci : C := (0, 1).
Definition ofZ (x : Z) : C := (x, 0).

Record key := mkKey { cplx : bool; vals : list C; mask : list bool }.

Fixpoint sel {A} (m : list bool) (l : list A) : list A :=
  match m, l with
  | b :: m', x :: l' => if b then x :: sel m' l' else sel m' l'
  | _, _ => []
  end.
Definition nsel (m : list bool) : nat := length (filter (fun b => b) m).
Definition anysel (k : key) : bool := existsb (fun b => b) (mask k).

(* LinearTransform.__init__ keeps only keys with at least one selected entry *)
Definition active (ks : list key) : list key := filter anysel ks.

(* serialize_parameters: concat of selected entries; (params.real, params[complex_inds].imag) *)
Definition reals (ks : list key) : list Z := flat_map (fun k => map re (sel (mask k) (vals k))) (active ks).
Definition imags (ks : list key) : list Z :=
  flat_map (fun k => if cplx k then map im (sel (mask k) (vals k)) else []) (active ks).
Definition serialize (ks : list key) : list Z := reals ks ++ imags ks.

(* deserialize: frozen entries from the wave function, selected ones from the vector *)
Fixpoint scatter (m : list bool) (old new : list C) : list C :=
  match m, old with
  | b :: m', o :: old' =>
      if b then match new with x :: new' => x :: scatter m' old' new' | [] => o :: scatter m' old' [] end
      else o :: scatter m' old' new
  | _, _ => old
  end.

Fixpoint deser (ks : list key) (xr xi : list Z) : list key :=
  match ks with
  | [] => []
  | k :: r =>
      if anysel k then
        let n := nsel (mask k) in
        let ims := if cplx k then firstn n xi else repeat 0 n in
        mkKey (cplx k) (scatter (mask k) (vals k) (combine (firstn n xr) ims)) (mask k)
          :: deser r (skipn n xr) (if cplx k then skipn n xi else xi)
      else k :: deser r xr xi      (* key not in to_opt: not touched at all *)
  end.
Definition nparams (ks : list key) : nat := length (reals ks).
Definition deserialize (ks : list key) (x : list Z) : list key :=
  deser ks (firstn (nparams ks) x) (skipn (nparams ks) x).

(* serialize_gradients for one walker: g holds d ln Psi / d p for every entry (same layout as vals);
   result (grads, grads[complex_inds] * 1j) *)
Definition gsel (ks gs : list key) : list (bool * C) :=   (* selected gradient entries with their key's complex flag *)
  flat_map (fun kg => map (fun g => (cplx (fst kg), g)) (sel (mask (fst kg)) (vals (snd kg))))
           (filter (fun kg => anysel (fst kg)) (combine ks gs)).
Definition serialize_gradients (ks gs : list key) : list C :=
  map snd (gsel ks gs) ++ map (fun bg => cmul (snd bg) ci) (filter fst (gsel ks gs)).

(* a linear functional of the parameters (the first-order model of ln Psi): sum_k sum_j g_kj * p_kj *)
Definition lin (gs ks : list key) : C :=
  csum (flat_map (fun kg => map (fun gp => cmul (fst gp) (snd gp)) (combine (vals (fst kg)) (vals (snd kg)))) (combine gs ks)).
Definition dotZ (G : list C) (x : list Z) : C := csum (map (fun gx => cmul (fst gx) (ofZ (snd gx))) (combine G x)).

Definition wf_key (k : key) : Prop := length (mask k) = length (vals k) /\ (cplx k = false -> Forall (fun c => im c = 0) (vals k)).
