(* C16 — gradient duality for ANY number of keys: contracting a gradient dictionary g with the parameters restored from a flat vector
   equals (frozen part) + (serialize_gradients g) . vector, in the concatenation order the code uses (all real coordinates key by key,
   then the imaginary coordinates of the complex keys key by key). *)
From Coq Require Import ZArith List Bool Lia.
From PyQMC Require Import C16.Model C16.Proofs.
Import ListNotations. Open Scope Z_scope.

Definition GR (ks gs : list key) : list C := map snd (gsel ks gs).
Definition GI (ks gs : list key) : list C := map (fun bg => cmul (snd bg) ci) (filter fst (gsel ks gs)).
Definition lindot (gs ks : list key) : C := csum (map (fun gk => cdot (vals (fst gk)) (vals (snd gk))) (combine gs ks)).
Definition frozen1 (k g : key) : C :=
  if anysel k then cdot (selnot (mask k) (vals g)) (selnot (mask k) (vals k)) else cdot (vals g) (vals k).
Definition frozen (ks gs : list key) : C := csum (map (fun kg => frozen1 (fst kg) (snd kg)) (combine ks gs)).
Definition shape_ok (k g : key) : Prop := length (mask k) = length (vals k) /\ length (vals g) = length (vals k).

Lemma czero_l a : cadd (0, 0) a = a. Proof. cring. Qed.
Lemma czero_r a : cadd a (0, 0) = a. Proof. cring. Qed.
Lemma dotZ_nil_l x : dotZ [] x = (0, 0). Proof. reflexivity. Qed.
Lemma dotZ_nil_r G : dotZ G [] = (0, 0). Proof. unfold dotZ. destruct G; reflexivity. Qed.
Lemma dotZ_app A B X Y : length A = length X -> dotZ (A ++ B) (X ++ Y) = cadd (dotZ A X) (dotZ B Y).
Proof.
  unfold dotZ. revert X. induction A as [|a A IH]; intros [|x X] H; cbn in H; try discriminate.
  - cbn [app combine map]. rewrite czero_l. reflexivity.
  - cbn [app combine map]. rewrite !csum_cons, IH by lia. cring.
Qed.

(* the shape of the selected-gradient lists, key by key *)
Lemma gsel_cons k ks g gs : gsel (k :: ks) (g :: gs) =
  (if anysel k then map (fun x => (cplx k, x)) (sel (mask k) (vals g)) else []) ++ gsel ks gs.
Proof. unfold gsel. cbn [combine filter fst]. destruct (anysel k); reflexivity. Qed.
Lemma filter_tag b (l : list C) : filter fst (map (fun x => (b, x)) l) = if b then map (fun x => (b, x)) l else [].
Proof. destruct b; induction l as [|a l IH]; cbn [map filter fst]; [reflexivity|f_equal; exact IH|reflexivity|exact IH]. Qed.
Lemma GR_cons k ks g gs : GR (k :: ks) (g :: gs) = (if anysel k then sel (mask k) (vals g) else []) ++ GR ks gs.
Proof. unfold GR. rewrite gsel_cons, map_app. destruct (anysel k); [rewrite map_map; cbn [snd]; rewrite map_id|]; reflexivity. Qed.
Lemma GI_cons k ks g gs : GI (k :: ks) (g :: gs) =
  (if anysel k then (if cplx k then map (fun x => cmul x ci) (sel (mask k) (vals g)) else []) else []) ++ GI ks gs.
Proof.
  unfold GI. rewrite gsel_cons, filter_app, map_app. destruct (anysel k); [|reflexivity].
  rewrite filter_tag. destruct (cplx k); [rewrite map_map; reflexivity|reflexivity].
Qed.

(* one active key: the three pieces *)
Lemma one_key_complex m g v (xr xi : list Z) : length m = length v -> length g = length v -> length xr = nsel m -> length xi = nsel m ->
  cdot g (scatter m v (combine xr xi)) =
  cadd (cdot (selnot m g) (selnot m v)) (cadd (dotZ (sel m g) xr) (dotZ (map (fun x => cmul x ci) (sel m g)) xi)).
Proof.
  intros Hm Hg Hr Hi. assert (Hs : length (sel m g) = nsel m) by (apply sel_length; lia).
  assert (Hc : length (combine xr xi) = nsel m) by (rewrite combine_length, Hr, Hi; apply Nat.min_id).
  rewrite (cdot_scatter m g v (combine xr xi) Hm Hg Hc).
  f_equal. apply cdot_split_complex; lia.
Qed.
Lemma one_key_real m g v (xr : list Z) : length m = length v -> length g = length v -> length xr = nsel m ->
  cdot g (scatter m v (combine xr (repeat 0 (nsel m)))) = cadd (cdot (selnot m g) (selnot m v)) (dotZ (sel m g) xr).
Proof.
  intros Hm Hg Hr. assert (Hs : length (sel m g) = nsel m) by (apply sel_length; lia).
  assert (Hc : length (combine xr (repeat 0 (nsel m))) = nsel m) by (rewrite combine_length, repeat_length, Hr; apply Nat.min_id).
  rewrite (cdot_scatter m g v _ Hm Hg Hc).
  f_equal. rewrite <- Hs. apply cdot_split_real. lia.
Qed.

Lemma firstn_skipn_len {A} n (l : list A) : (n <= length l)%nat -> length (firstn n l) = n /\ l = firstn n l ++ skipn n l.
Proof. intros H. split; [apply firstn_length_le; exact H|symmetry; apply firstn_skipn]. Qed.

Theorem duality_deser ks : forall gs xr xi, Forall2 shape_ok ks gs ->
  length xr = length (GR ks gs) -> length xi = length (GI ks gs) ->
  lindot gs (deser ks xr xi) = cadd (frozen ks gs) (cadd (dotZ (GR ks gs) xr) (dotZ (GI ks gs) xi)).
Proof.
  induction ks as [|k ks IH]; intros gs xr xi HF Hr Hi.
  - inversion HF; subst. unfold lindot, frozen. cbn. reflexivity.
  - inversion HF as [|k0 g ks0 gs' [Hm Hg] HF']; subst. rewrite GR_cons in Hr |- *. rewrite GI_cons in Hi |- *.
    unfold lindot, frozen. cbn [deser combine map]. unfold frozen1 at 1. cbn [fst snd].
    destruct (anysel k) eqn:Ea.
    + set (n := nsel (mask k)). assert (Hs : length (sel (mask k) (vals g)) = n) by (apply sel_length; lia).
      rewrite app_length, Hs in Hr. destruct (firstn_skipn_len n xr ltac:(lia)) as [Lr Er].
      remember (firstn n xr) as xr1. remember (skipn n xr) as xr2. clear Heqxr1 Heqxr2. subst xr. rewrite app_length in Hr.
      destruct (cplx k) eqn:Ec.
      * rewrite app_length, map_length, Hs in Hi. destruct (firstn_skipn_len n xi ltac:(lia)) as [Li Ei].
        remember (firstn n xi) as xi1. remember (skipn n xi) as xi2. clear Heqxi1 Heqxi2. subst xi. rewrite app_length in Hi.
        cbn [combine map fst snd vals]. rewrite !csum_cons.
        fold (lindot gs' (deser ks xr2 xi2)). fold (frozen ks gs').
        rewrite (IH gs' xr2 xi2 HF') by lia.
        rewrite (one_key_complex (mask k) (vals g) (vals k) xr1 xi1) by (try assumption; lia).
        rewrite !dotZ_app by (rewrite ?map_length; lia). cring.
      * cbn [app] in Hi. cbn [combine map fst snd vals]. rewrite !csum_cons. unfold n in *.
        fold (lindot gs' (deser ks xr2 xi)). fold (frozen ks gs').
        rewrite (IH gs' xr2 xi HF') by lia.
        rewrite (one_key_real (mask k) (vals g) (vals k) xr1) by (try assumption; lia).
        rewrite dotZ_app by lia. cbn [app]. cring.
    + cbn [app] in *. cbn [combine map fst snd]. rewrite !csum_cons.
      fold (lindot gs' (deser ks xr xi)). fold (frozen ks gs').
      rewrite (IH gs' xr xi HF' Hr Hi). cring.
Qed.

(* the statement in terms of the flat vector x = (real coordinates) ++ (imaginary coordinates) *)
Lemma reals_length_GR ks : forall gs, Forall2 shape_ok ks gs -> length (reals ks) = length (GR ks gs).
Proof.
  induction ks as [|k ks IH]; intros gs HF; inversion HF as [|k0 g ks0 gs' [Hm Hg] HF']; subst; [reflexivity|].
  rewrite reals_cons, GR_cons, !app_length, (IH gs' HF'). destruct (anysel k); [|reflexivity].
  rewrite map_length, !sel_length by lia. reflexivity.
Qed.
Theorem gradient_duality ks gs (x : list Z) : Forall2 shape_ok ks gs -> length x = length (serialize_gradients ks gs) ->
  lindot gs (deserialize ks x) = cadd (frozen ks gs) (dotZ (serialize_gradients ks gs) x).
Proof.
  intros HF Hx. unfold deserialize, nparams. rewrite (reals_length_GR ks gs HF).
  change (serialize_gradients ks gs) with (GR ks gs ++ GI ks gs) in *. rewrite app_length in Hx.
  set (n := length (GR ks gs)) in *. destruct (firstn_skipn_len n x ltac:(lia)) as [L E].
  rewrite (duality_deser ks gs (firstn n x) (skipn n x) HF) by (try rewrite skipn_length; lia).
  rewrite E at 3. rewrite dotZ_app by lia. reflexivity.
Qed.
