(* C16 — property theorems about the packed same-spin pair indexing of ThreeBodyJastrow.pgradient (nothing else in this file) *)
From Coq Require Import List Arith.
From PyQMC Require Import C16.Pairs.

(* the slice the loop takes at iteration i (start = the running offset, length n-i-1) is exactly the pairs (i, i+1) ... (i, n-1), for every
   channel size n and every electron i of the channel *)
Theorem C16_pair_slice_of_electron_i_is_its_row : forall n i, i < n ->
  firstn (n - i - 1) (skipn (offset n i) (pairs n)) = row n i.
Proof. exact slice_is_row. Qed.
Print Assumptions C16_pair_slice_of_electron_i_is_its_row.

(* the slices tile the whole packed list, which has n(n-1)/2 entries *)
Theorem C16_pair_slices_tile_the_packed_list : forall n, offset n n = length (pairs n) /\ 2 * length (pairs n) = n * (n - 1).
Proof. exact offsets_tile. Qed.
Print Assumptions C16_pair_slices_tile_the_packed_list.

(* the packed list is exactly the set of ordered pairs i<j<n *)
Theorem C16_packed_list_is_the_ordered_pairs : forall n i j, In (i, j) (pairs n) <-> i < j /\ j < n.
Proof. exact pairs_are_the_ordered_pairs. Qed.
Print Assumptions C16_packed_list_is_the_ordered_pairs.
