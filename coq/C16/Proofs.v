From Coq Require Import ZArith List Bool Lia.
From PyQMC Require Import C16.Model.
Import ListNotations. Open Scope Z_scope.

Lemma sel_length {A} (m : list bool) (l : list A) : length m = length l -> length (sel m l) = nsel m.
Proof.
  revert l. induction m as [|b m IH]; intros l H; destruct l as [|x l]; cbn in *; try reflexivity; try discriminate.
  destruct b; cbn; rewrite IH by lia; reflexivity.
Qed.

Lemma scatter_sel (m : list bool) (l : list C) : length m = length l -> scatter m l (sel m l) = l.
Proof.
  revert l. induction m as [|b m IH]; intros l H; destruct l as [|x l]; cbn in *; try reflexivity; try discriminate.
  destruct b; cbn; rewrite IH by lia; reflexivity.
Qed.

Lemma combine_re_im (l : list C) : combine (map re l) (map im l) = l.
Proof. induction l as [|[a b] l IH]; cbn; [reflexivity|]. rewrite IH. reflexivity. Qed.

Lemma combine_re_zero (l : list C) : Forall (fun c => im c = 0) l -> combine (map re l) (repeat 0 (length l)) = l.
Proof.
  induction l as [|[a b] l IH]; intros H; cbn; [reflexivity|]. inversion H as [|? ? H1 H2]; subst. cbn in H1. subst b.
  rewrite IH by assumption. reflexivity.
Qed.

Lemma sel_Forall {A} (P : A -> Prop) m l : Forall P l -> Forall P (sel m l).
Proof.
  revert l. induction m as [|b m IH]; intros l H; destruct l as [|x l]; cbn; try constructor.
  inversion H; subst. destruct b; [constructor; [assumption|]|]; apply IH; assumption.
Qed.

Lemma firstn_app_exact {A} (a b : list A) n : length a = n -> firstn n (a ++ b) = a.
Proof. intros <-. rewrite firstn_app, Nat.sub_diag, firstn_all. cbn. apply app_nil_r. Qed.
Lemma skipn_app_exact {A} (a b : list A) n : length a = n -> skipn n (a ++ b) = b.
Proof. intros <-. rewrite skipn_app, Nat.sub_diag, skipn_all. reflexivity. Qed.

Lemma reals_cons k r : reals (k :: r) = (if anysel k then map re (sel (mask k) (vals k)) else []) ++ reals r.
Proof. unfold reals, active. cbn [filter]. destruct (anysel k); reflexivity. Qed.
Lemma imags_cons k r : imags (k :: r) = (if anysel k then (if cplx k then map im (sel (mask k) (vals k)) else []) else []) ++ imags r.
Proof. unfold imags, active. cbn [filter]. destruct (anysel k); reflexivity. Qed.

(* flatten then restore is the identity *)
Theorem deser_roundtrip ks : Forall wf_key ks -> deser ks (reals ks) (imags ks) = ks.
Proof.
  induction ks as [|k r IH]; intros H; [reflexivity|]. inversion H as [|? ? [HL HR] Hr]; subst.
  cbn [deser]. rewrite reals_cons, imags_cons. destruct (anysel k) eqn:Ea; [|cbn [app]; rewrite IH by assumption; reflexivity].
  assert (Hn : length (map re (sel (mask k) (vals k))) = nsel (mask k)) by (rewrite map_length; apply sel_length; assumption).
  rewrite (firstn_app_exact _ _ _ Hn), (skipn_app_exact _ _ _ Hn).
  destruct k as [c v m]. cbn [cplx vals mask] in *. destruct c.
  - assert (Hm : length (map im (sel m v)) = nsel m) by (rewrite map_length; apply sel_length; assumption).
    rewrite (firstn_app_exact _ _ _ Hm), (skipn_app_exact _ _ _ Hm). rewrite combine_re_im, scatter_sel by assumption.
    rewrite IH by assumption. reflexivity.
  - cbn [app]. rewrite <- (sel_length m v HL). rewrite combine_re_zero by (apply sel_Forall; apply HR; reflexivity).
    rewrite scatter_sel by assumption. rewrite IH by assumption. reflexivity.
Qed.

Theorem serialize_roundtrip ks : Forall wf_key ks -> deserialize ks (serialize ks) = ks.
Proof.
  intros H. unfold deserialize, serialize, nparams.
  rewrite (firstn_app_exact _ _ _ eq_refl), (skipn_app_exact _ _ _ eq_refl). apply deser_roundtrip. assumption.
Qed.

(* frozen entries, unselected keys, masks, dtypes and shapes are never altered, whatever vector is restored *)
Lemma scatter_length m old new : length (scatter m old new) = length old.
Proof.
  revert old new. induction m as [|b m IH]; intros old new; destruct old as [|o old]; cbn; try reflexivity.
  destruct b; [destruct new|]; cbn; rewrite IH; reflexivity.
Qed.
Lemma scatter_frozen m old new j d : nth j m false = false -> nth j (scatter m old new) d = nth j old d.
Proof.
  revert old new j. induction m as [|b m IH]; intros old new j H; destruct old as [|o old]; cbn; try reflexivity.
  destruct j as [|j].
  - cbn in H. subst b. reflexivity.
  - cbn in H. destruct b; [destruct new|]; cbn; apply IH; assumption.
Qed.

Theorem deser_frozen ks : forall xr xi i j d,
  nth j (mask (nth i ks (mkKey false [] []))) false = false ->
  nth j (vals (nth i (deser ks xr xi) (mkKey false [] []))) d = nth j (vals (nth i ks (mkKey false [] []))) d.
Proof.
  induction ks as [|k r IH]; intros xr xi i j d H; [reflexivity|]. cbn [deser].
  destruct (anysel k) eqn:Ea; destruct i as [|i]; cbn [nth] in *; try reflexivity; try (apply IH; assumption).
  cbn [vals]. apply scatter_frozen. assumption.
Qed.

Theorem deser_structure ks : forall xr xi,
  map mask (deser ks xr xi) = map mask ks /\ map cplx (deser ks xr xi) = map cplx ks
  /\ map (fun k => length (vals k)) (deser ks xr xi) = map (fun k => length (vals k)) ks.
Proof.
  induction ks as [|k r IH]; intros xr xi; [repeat split|]. cbn [deser].
  destruct (anysel k); cbn [map mask cplx vals];
    match goal with |- context [deser r ?a ?b] => destruct (IH a b) as [I1 [I2 I3]] end;
    rewrite I1, I2, I3, ?scatter_length; repeat split.
Qed.

(* unselected keys are returned untouched *)
Theorem deser_inactive_key ks : forall xr xi i, anysel (nth i ks (mkKey false [] [])) = false ->
  nth i (deser ks xr xi) (mkKey false [] []) = nth i ks (mkKey false [] []).
Proof.
  induction ks as [|k r IH]; intros xr xi i H; [reflexivity|]. cbn [deser].
  destruct i as [|i]; cbn [nth] in *.
  - rewrite H. reflexivity.
  - destruct (anysel k); cbn [nth]; apply IH; assumption.
Qed.

(* size of the flattened vector: one coordinate per selected real entry, two per selected complex entry *)
Theorem serialize_length ks : Forall wf_key ks ->
  length (serialize ks) =
  (fold_right Nat.add 0 (map (fun k => nsel (mask k)) ks) + fold_right Nat.add 0 (map (fun k => if cplx k then nsel (mask k) else 0) ks))%nat.
Proof.
  intros H. unfold serialize. rewrite app_length.
  assert (Hz : forall m, existsb (fun b : bool => b) m = false -> nsel m = 0%nat).
  { induction m as [|b m IHm]; intros E; [reflexivity|]. cbn in E. destruct b; [discriminate|]. cbn. apply IHm. assumption. }
  induction ks as [|k r IH]; [reflexivity|]. inversion H as [|? ? [HL HR] Hr]; subst.
  rewrite reals_cons, imags_cons, !app_length. specialize (IH Hr). cbn [map fold_right].
  destruct (anysel k) eqn:Ea.
  - rewrite map_length, sel_length by assumption. destruct (cplx k); [rewrite map_length, sel_length by assumption|]; cbn [length]; lia.
  - unfold anysel in Ea. rewrite (Hz _ Ea). destruct (cplx k); cbn [length]; lia.
Qed.

(* empty selection: empty vector, restore is the identity *)
Theorem empty_selection ks x : (forall k, In k ks -> anysel k = false) -> serialize ks = [] /\ deserialize ks x = ks.
Proof.
  intros H.
  assert (A : active ks = []).
  { unfold active. induction ks as [|k r IH]; [reflexivity|]. cbn [filter]. rewrite (H k) by (left; reflexivity). apply IH. intros; apply H; right; assumption. }
  split.
  - unfold serialize, reals, imags. rewrite A. reflexivity.
  - unfold deserialize, nparams, reals. rewrite A. cbn [flat_map length firstn skipn].
    induction ks as [|k r IH]; [reflexivity|]. cbn [deser]. rewrite (H k) by (left; reflexivity). f_equal.
    apply IH; [intros; apply H; right; assumption|].
    unfold active in A. cbn [filter] in A. rewrite (H k) in A by (left; reflexivity). assumption.
Qed.

(* ---------- gradient duality (one key) ---------- *)
Definition cdot (g v : list C) : C := csum (map (fun gp => cmul (fst gp) (snd gp)) (combine g v)).
Fixpoint selnot {A} (m : list bool) (l : list A) : list A :=
  match m, l with
  | b :: m', x :: l' => if b then selnot m' l' else x :: selnot m' l'
  | _, _ => []
  end.

Lemma C_eq (a b : C) : fst a = fst b -> snd a = snd b -> a = b.
Proof. destruct a, b; cbn; intros -> ->; reflexivity. Qed.

Ltac cring0 := apply C_eq; unfold cadd, cmul, ofZ, ci; cbn [fst snd]; ring.
Lemma cdot_cons g gs v vs : cdot (g :: gs) (v :: vs) = cadd (cmul g v) (cdot gs vs).
Proof. reflexivity. Qed.

(* sum over all entries after scatter = frozen part + selected gradients against the new values *)
Lemma nsel_cons b m : nsel (b :: m) = if b then S (nsel m) else nsel m.
Proof. destruct b; reflexivity. Qed.

Lemma cdot_scatter m : forall g v new, length m = length v -> length g = length v -> length new = nsel m ->
  cdot g (scatter m v new) = cadd (cdot (selnot m g) (selnot m v)) (cdot (sel m g) new).
Proof.
  induction m as [|b m IH]; intros g v new Hm Hg Hn.
  - destruct v; [|discriminate]. destruct g; [|discriminate]. destruct new; [|discriminate]. reflexivity.
  - destruct v as [|v0 v]; [discriminate|]. destruct g as [|g0 g]; [discriminate|]. cbn in Hm, Hg.
    rewrite nsel_cons in Hn. destruct b; cbn [scatter sel selnot].
    + destruct new as [|x new]; [cbn in Hn; discriminate|]. cbn [length] in Hn.
      rewrite !cdot_cons, (IH g v new) by lia. cring0.
    + rewrite !cdot_cons, (IH g v new) by lia. cring0.
Qed.

Lemma csum_cons x l : csum (x :: l) = cadd x (csum l).
Proof. reflexivity. Qed.
Ltac cring := apply C_eq; unfold cadd, cmul, ofZ, ci; cbn [fst snd]; ring.

Lemma cdot_split_complex gs (xr xi : list Z) : length xr = length gs -> length xi = length gs ->
  cdot gs (combine xr xi) =
  cadd (csum (map (fun gx => cmul (fst gx) (ofZ (snd gx))) (combine gs xr)))
       (csum (map (fun gx => cmul (fst gx) (ofZ (snd gx))) (combine (map (fun g => cmul g ci) gs) xi))).
Proof.
  revert xr xi. induction gs as [|g gs IH]; intros xr xi Hr Hi.
  - destruct xr; [|discriminate]. reflexivity.
  - destruct xr as [|a xr]; [discriminate|]. destruct xi as [|b xi]; [discriminate|]. cbn in Hr, Hi.
    cbn [combine map]. rewrite !csum_cons, cdot_cons. rewrite (IH xr xi) by lia. cbn [fst snd]. cring.
Qed.

Lemma cdot_split_real gs (xr : list Z) : length xr = length gs ->
  cdot gs (combine xr (repeat 0 (length gs))) = csum (map (fun gx => cmul (fst gx) (ofZ (snd gx))) (combine gs xr)).
Proof.
  revert xr. induction gs as [|g gs IH]; intros xr Hr.
  - destruct xr; [|discriminate]. reflexivity.
  - destruct xr as [|a xr]; [discriminate|]. cbn in Hr. cbn [length repeat combine map].
    rewrite csum_cons, cdot_cons, (IH xr) by lia. cbn [fst snd]. cring.
Qed.

Lemma csum_app a b : csum (a ++ b) = cadd (csum a) (csum b).
Proof. induction a as [|x a IH]; cbn [app]; [unfold csum at 2; cbn [fold_right]; destruct (csum b); reflexivity|]. rewrite !csum_cons, IH. cring. Qed.

(* for one key with at least one selected entry: restoring the vector x = xr ++ xi and contracting with the
   gradient g equals (frozen part) + (flattened gradient) . x, where the flattened gradient is g on the real
   coordinates and i*g on the imaginary coordinates of complex parameters *)
Theorem gradient_duality_one_key (c : bool) (v g : list C) (m : list bool) (xr xi : list Z) :
  length m = length v -> length g = length v -> existsb (fun b => b) m = true ->
  length xr = nsel m -> length xi = (if c then nsel m else 0%nat) ->
  let k := mkKey c v m in let kg := mkKey c g m in
  cdot g (vals (nth 0 (deserialize [k] (xr ++ xi)) k)) =
  cadd (cdot (selnot m g) (selnot m v)) (dotZ (serialize_gradients [k] [kg]) (xr ++ xi)).
Proof.
  intros Hm Hg Ha Hr Hi k kg. subst k kg.
  assert (Hsg : length (sel m g) = nsel m) by (apply sel_length; lia).
  assert (Hnp : nparams [mkKey c v m] = nsel m).
  { unfold nparams, reals, active. cbn [filter]. unfold anysel. cbn [mask]. rewrite Ha. cbn [flat_map vals mask]. rewrite app_nil_r, map_length. apply sel_length. assumption. }
  unfold deserialize. rewrite Hnp, (firstn_app_exact _ _ _ Hr), (skipn_app_exact _ _ _ Hr).
  cbn [deser]. unfold anysel at 1. cbn [mask cplx vals]. rewrite Ha. cbn [nth vals].
  replace (firstn (nsel m) xr) with xr by (rewrite <- Hr; symmetry; apply firstn_all).
  unfold serialize_gradients, gsel. cbn [combine filter fst snd]. unfold anysel. cbn [mask]. rewrite Ha.
  cbn [flat_map fst snd cplx mask vals]. rewrite !app_nil_r. rewrite map_map. cbn [snd]. rewrite map_id.
  destruct c.
  - replace (firstn (nsel m) xi) with xi by (rewrite <- Hi; symmetry; apply firstn_all).
    assert (Hc : length (combine xr xi) = nsel m) by (rewrite combine_length; lia).
    rewrite (cdot_scatter m g v (combine xr xi) Hm Hg Hc).
    f_equal. rewrite cdot_split_complex by lia.
    unfold dotZ.
    assert (Ef : forall l : list C, filter fst (map (fun g0 : C => (true, g0)) l) = map (fun g0 : C => (true, g0)) l).
    { induction l as [|a l IHl]; [reflexivity|]. cbn [map filter fst]. f_equal. exact IHl. }
    rewrite Ef, map_map. cbn [snd].
    assert (Ec : forall (A B : list C) (X Y : list Z), length A = length X ->
               combine (A ++ B) (X ++ Y) = combine A X ++ combine B Y).
    { induction A as [|a A IHA]; intros B X Y HAX; destruct X as [|x X]; try discriminate; [reflexivity|]. cbn. rewrite IHA by (cbn in HAX; lia). reflexivity. }
    rewrite Ec by lia. rewrite map_app, csum_app. reflexivity.
  - destruct xi; [|discriminate]. rewrite !app_nil_r.
    assert (Hc : length (combine xr (repeat 0 (nsel m))) = nsel m) by (rewrite combine_length, repeat_length; lia).
    rewrite (cdot_scatter m g v _ Hm Hg Hc).
    f_equal. rewrite <- Hsg. rewrite cdot_split_real by lia.
    unfold dotZ.
    assert (Ef : forall l : list C, filter fst (map (fun g0 : C => (false, g0)) l) = []).
    { induction l as [|a l IHl]; [reflexivity|]. cbn [map filter fst]. exact IHl. }
    rewrite Ef. cbn [map]. rewrite app_nil_r. reflexivity.
Qed.
