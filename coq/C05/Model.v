(* C05 — executable model of the determinant bookkeeping between PySCF and the Slater object
   (pyqmc/wf/determinant_tools.py: binary_to_occ, create_packed_objects, flatten_determinants). *)
From Coq Require Import List Arith Bool ZArith Lia.
Import ListNotations.

(* binary_to_occ(S, ncore): S is the occupation string, most significant orbital first; orbital i (counted from the right end) is occupied
   when the character is '1'; the ncore core orbitals come first *)
Fixpoint pos_true (l : list bool) (i : nat) : list nat :=
  match l with [] => [] | b :: t => (if b then [i] else []) ++ pos_true t (S i) end.
Definition binary_to_occ (bits : list bool) (ncore : nat) : list nat :=
  seq 0 ncore ++ map (fun i => i + ncore) (pos_true (rev bits) 0).

(* create_packed_objects: keep determinants with |weight| > tol; store each distinct spin occupation once; map every kept determinant to its entry *)
Definition occ_eqb (a b : list nat) : bool := if list_eq_dec Nat.eq_dec a b then true else false.
Fixpoint index_of (x : list nat) (l : list (list nat)) : option nat :=
  match l with [] => None | y :: t => if occ_eqb x y then Some 0 else option_map S (index_of x t) end.
Definition add_occ (occ : list (list nat)) (x : list nat) : list (list nat) * nat :=
  match index_of x occ with Some i => (occ, i) | None => (occ ++ [x], length occ) end.
Definition det := (Z * (list nat * list nat))%type.
Record packed := { wts : list Z; occ_u : list (list nat); occ_d : list (list nat); map_u : list nat; map_d : list nat }.
Definition empty_packed : packed := {| wts := []; occ_u := []; occ_d := []; map_u := []; map_d := [] |}.
Definition keep (tol : Z) (d : det) : bool := (tol <? Z.abs (fst d))%Z.
Definition pack_step (tol : Z) (p : packed) (d : det) : packed :=
  if keep tol d then
    let '(ou, iu) := add_occ (occ_u p) (fst (snd d)) in
    let '(od, id) := add_occ (occ_d p) (snd (snd d)) in
    {| wts := wts p ++ [fst d]; occ_u := ou; occ_d := od; map_u := map_u p ++ [iu]; map_d := map_d p ++ [id] |}
  else p.
Definition pack (tol : Z) (dets : list det) : packed := fold_left (pack_step tol) dets empty_packed.
(* printable view: [[weights]; up occupations; down occupations; [up map]; [down map]] with everything as integers *)
Definition zl (l : list nat) : list Z := map Z.of_nat l.
Definition pack_view (tol : Z) (dets : list det) : list (list (list Z)) :=
  let p := pack tol dets in [[wts p]; map zl (occ_u p); map zl (occ_d p); [zl (map_u p)]; [zl (map_d p)]].

(* flatten_determinants for one spin: the orbitals of k-point kinds[j] are shifted by the number of orbitals kept for kinds[0..j-1] *)
Fixpoint offsets (sizes : list nat) (acc : nat) : list nat :=
  match sizes with [] => [] | s :: t => acc :: offsets t (acc + s) end.
Definition flatten_spin (max_orb : list nat) (kinds : list nat) (d : list (list nat)) : list nat :=
  let sizes := map (fun k => nth k max_orb 0) kinds in
  concat (map (fun ko => map (fun n => n + snd ko) (nth (fst ko) d [])) (combine kinds (offsets sizes 0))).
