(* C05 — property theorems only (determinant bookkeeping between PySCF and the Slater object). *)
From Coq Require Import List Arith Bool ZArith Sorted.
From PyQMC Require Import C05.Model C05.Proofs.
Import ListNotations.

(* occupation strings: orbital n is in the decoded list iff it is a core orbital or its character (counted from the right end) is '1';
   the list is strictly ascending (so the determinant's column order is the orbital order PySCF's coefficients refer to) *)
Theorem C05_occupation_string_decoding : forall (bits : list bool) (ncore n : nat),
  (In n (binary_to_occ bits ncore) <-> n < ncore \/ (ncore <= n /\ nth (n - ncore) (rev bits) false = true)) /\
  StronglySorted lt (binary_to_occ bits ncore).
Proof. intros bits ncore n. split; [apply binary_to_occ_spec|apply binary_to_occ_sorted]. Qed.
Print Assumptions C05_occupation_string_decoding.

(* packing: for ANY list of determinants and tolerance, row d of (weights, up map, down map) describes the d-th determinant with |weight| > tol:
   same weight, and the stored up / down occupations it points to are that determinant's; no occupation is stored twice *)
Theorem C05_packing_keeps_every_determinant : forall (tol : Z) (dets : list det),
  let p := pack tol dets in
  length (wts p) = length (map_u p) /\ length (map_u p) = length (map_d p) /\ NoDup (occ_u p) /\ NoDup (occ_d p) /\
  Forall2 (row_ok (occ_u p) (occ_d p)) (rows p) (filter (keep tol) dets).
Proof. intros tol dets. exact (pack_correct tol dets). Qed.
Print Assumptions C05_packing_keeps_every_determinant.

(* flattening over the k-points of a twist: block j starts after the orbitals of blocks 0..j-1, so indices of different k-points never collide *)
Theorem C05_flattening_is_injective : forall (sizes : list nat) (i j ni nj : nat), i < j -> j < length sizes -> ni < nth i sizes 0 ->
  ni + nth i (offsets sizes 0) 0 < nj + nth j (offsets sizes 0) 0.
Proof. exact flatten_blocks_disjoint. Qed.
Print Assumptions C05_flattening_is_injective.
