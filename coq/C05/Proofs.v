(* C05 — proofs about the determinant bookkeeping model *)
From Coq Require Import List Arith Bool ZArith Lia Sorted.
From PyQMC Require Import C05.Model.
Import ListNotations.

(* ---------- binary_to_occ ---------- *)
Lemma pos_true_spec l : forall i n, In n (pos_true l i) <-> (i <= n /\ nth (n - i) l false = true).
Proof.
  induction l as [|b t IH]; intros i n; cbn [pos_true].
  - split; [intros []|]. intros [_ H]. destruct (n - i); discriminate H.
  - rewrite in_app_iff, IH. split.
    + intros [H|[H1 H2]].
      * destruct b; [|destruct H]. destruct H as [<-|[]]. split; [lia|]. rewrite Nat.sub_diag. reflexivity.
      * split; [lia|]. replace (n - i) with (S (n - S i)) by lia. exact H2.
    + intros [H1 H2]. destruct (Nat.eq_dec n i) as [->|Hne].
      * left. rewrite Nat.sub_diag in H2. cbn in H2. subst b. left; reflexivity.
      * right. split; [lia|]. replace (n - i) with (S (n - S i)) in H2 by lia. exact H2.
Qed.
Lemma pos_true_sorted l : forall i, StronglySorted lt (pos_true l i).
Proof.
  induction l as [|b t IH]; intros i; cbn [pos_true]; [constructor|].
  destruct b; cbn [app]; [|apply IH]. constructor; [apply IH|].
  apply Forall_forall. intros n Hn. apply pos_true_spec in Hn. lia.
Qed.
Theorem binary_to_occ_spec bits ncore n :
  In n (binary_to_occ bits ncore) <-> n < ncore \/ (ncore <= n /\ nth (n - ncore) (rev bits) false = true).
Proof.
  unfold binary_to_occ. rewrite in_app_iff, in_seq, in_map_iff. split.
  - intros [H|[m [<- Hm]]]; [left; lia|]. right. apply pos_true_spec in Hm. rewrite Nat.sub_0_r in Hm. split; [lia|]. rewrite Nat.add_sub. apply Hm.
  - intros [H|[H1 H2]]; [left; lia|]. right. exists (n - ncore). split; [lia|]. apply pos_true_spec. rewrite Nat.sub_0_r. split; [lia|exact H2].
Qed.
Lemma sorted_map_add l c : StronglySorted lt l -> StronglySorted lt (map (fun i => i + c) l).
Proof.
  induction 1 as [|a l Hs IH Hf]; cbn; constructor; [exact IH|].
  apply Forall_forall. intros x Hx. apply in_map_iff in Hx. destruct Hx as [y [<- Hy]]. rewrite Forall_forall in Hf. specialize (Hf y Hy). lia.
Qed.
Lemma sorted_seq a n : StronglySorted lt (seq a n).
Proof.
  revert a. induction n as [|n IH]; intros a; cbn; constructor; [apply IH|]. apply Forall_forall. intros x Hx. apply in_seq in Hx. lia.
Qed.
Lemma sorted_app l1 l2 : StronglySorted lt l1 -> StronglySorted lt l2 -> (forall x y, In x l1 -> In y l2 -> x < y) -> StronglySorted lt (l1 ++ l2).
Proof.
  induction 1 as [|a l Hs IH Hf]; intros H2 Hc; cbn; [exact H2|]. constructor.
  - apply IH; [exact H2|]. intros x y Hx Hy. apply Hc; [right; exact Hx|exact Hy].
  - apply Forall_forall. intros x Hx. apply in_app_iff in Hx. destruct Hx as [Hx|Hx]; [rewrite Forall_forall in Hf; apply Hf, Hx|apply Hc; [left; reflexivity|exact Hx]].
Qed.
Theorem binary_to_occ_sorted bits ncore : StronglySorted lt (binary_to_occ bits ncore).
Proof.
  unfold binary_to_occ. apply sorted_app; [apply sorted_seq|apply sorted_map_add, pos_true_sorted|].
  intros x y Hx Hy. apply in_seq in Hx. apply in_map_iff in Hy. destruct Hy as [m [<- _]]. lia.
Qed.

(* ---------- create_packed_objects ---------- *)
Lemma occ_eqb_eq a b : occ_eqb a b = true <-> a = b.
Proof. unfold occ_eqb. destruct (list_eq_dec Nat.eq_dec a b); split; intros; try assumption; try reflexivity; try discriminate; contradiction. Qed.
Lemma index_of_some x l i : index_of x l = Some i -> nth i l [] = x /\ i < length l.
Proof.
  revert i. induction l as [|y t IH]; intros i H; cbn in H; [discriminate|].
  destruct (occ_eqb x y) eqn:E.
  - inversion H; subst. apply occ_eqb_eq in E. subst. cbn. split; [reflexivity|lia].
  - destruct (index_of x t) as [j|] eqn:J; cbn in H; [|discriminate]. inversion H; subst. destruct (IH j eq_refl) as [H1 H2]. cbn. split; [exact H1|lia].
Qed.
Lemma index_of_none x l : index_of x l = None -> ~ In x l.
Proof.
  induction l as [|y t IH]; intros H; cbn in H; [intros []|].
  destruct (occ_eqb x y) eqn:E; [discriminate|]. destruct (index_of x t) eqn:J; cbn in H; [discriminate|].
  intros [Heq|Hin]; [subst y; assert (occ_eqb x x = true) by (apply occ_eqb_eq; reflexivity); congruence|exact (IH eq_refl Hin)].
Qed.
Lemma NoDup_snoc {A} (l : list A) x : NoDup l -> ~ In x l -> NoDup (l ++ [x]).
Proof.
  induction 1 as [|a l Ha Hl IH]; intros Hx; cbn; [constructor; [intros []|constructor]|].
  constructor; [|apply IH; intros H; apply Hx; right; exact H].
  intros H. apply in_app_iff in H. destruct H as [H|[<-|[]]]; [exact (Ha H)|apply Hx; left; reflexivity].
Qed.
Lemma add_occ_spec occ x occ' i : add_occ occ x = (occ', i) ->
  nth_error occ' i = Some x /\ (exists ext, occ' = occ ++ ext) /\ (NoDup occ -> NoDup occ').
Proof.
  unfold add_occ. destruct (index_of x occ) as [j|] eqn:J; intros H; inversion H; subst.
  - destruct (index_of_some _ _ _ J) as [H1 H2]. split; [rewrite (nth_error_nth' _ [] H2); f_equal; exact H1|]. split; [exists []; rewrite app_nil_r; reflexivity|tauto].
  - split; [rewrite nth_error_app2 by lia; rewrite Nat.sub_diag; reflexivity|]. split; [exists [x]; reflexivity|].
    intros Hn. apply NoDup_snoc; [exact Hn|exact (index_of_none _ _ J)].
Qed.

Definition rows (p : packed) : list (Z * (nat * nat)) := combine (wts p) (combine (map_u p) (map_d p)).
Definition row_ok (ou od : list (list nat)) (r : Z * (nat * nat)) (d : det) : Prop :=
  fst r = fst d /\ nth_error ou (fst (snd r)) = Some (fst (snd d)) /\ nth_error od (snd (snd r)) = Some (snd (snd d)).
Definition Inv (p : packed) (kept : list det) : Prop :=
  length (wts p) = length (map_u p) /\ length (map_u p) = length (map_d p) /\ NoDup (occ_u p) /\ NoDup (occ_d p) /\
  Forall2 (row_ok (occ_u p) (occ_d p)) (rows p) kept.

Lemma combine_snoc {A B} (a : list A) (b : list B) x y : length a = length b -> combine (a ++ [x]) (b ++ [y]) = combine a b ++ [(x, y)].
Proof.
  revert b. induction a as [|a0 a IH]; intros [|b0 b] H; cbn in *; try discriminate; [reflexivity|]. f_equal. apply IH. lia.
Qed.
Lemma row_ok_ext ou od eu ed r d : row_ok ou od r d -> row_ok (ou ++ eu) (od ++ ed) r d.
Proof.
  intros [H1 [H2 H3]]. split; [exact H1|]. split.
  - rewrite nth_error_app1; [exact H2|]. apply nth_error_Some. rewrite H2. discriminate.
  - rewrite nth_error_app1; [exact H3|]. apply nth_error_Some. rewrite H3. discriminate.
Qed.
Lemma Forall2_row_ext ou od eu ed l k : Forall2 (row_ok ou od) l k -> Forall2 (row_ok (ou ++ eu) (od ++ ed)) l k.
Proof. induction 1 as [|r d0 lr ld H F' IH]; constructor; [apply row_ok_ext, H|exact IH]. Qed.
Lemma pack_step_inv tol p kept d : Inv p kept -> Inv (pack_step tol p d) (if keep tol d then kept ++ [d] else kept).
Proof.
  intros [L1 [L2 [Nu [Nd F]]]]. unfold pack_step. destruct (keep tol d); [|repeat split; assumption].
  destruct (add_occ (occ_u p) (fst (snd d))) as [ou iu] eqn:Au. destruct (add_occ (occ_d p) (snd (snd d))) as [od id] eqn:Ad.
  destruct (add_occ_spec _ _ _ _ Au) as [Hu [[eu Eu] Ndu]]. destruct (add_occ_spec _ _ _ _ Ad) as [Hd [[ed Ed] Ndd]].
  unfold Inv, rows. cbn [wts map_u map_d occ_u occ_d]. rewrite !app_length. cbn [length].
  split; [lia|]. split; [lia|]. split; [apply Ndu, Nu|]. split; [apply Ndd, Nd|].
  rewrite (combine_snoc (map_u p) (map_d p)) by exact L2. rewrite combine_snoc by (rewrite combine_length; lia).
  apply Forall2_app.
  - subst ou od. apply Forall2_row_ext. exact F.
  - constructor; [|constructor]. split; [reflexivity|]. split; cbn [fst snd]; assumption.
Qed.
Theorem pack_inv tol dets : forall p kept, Inv p kept -> Inv (fold_left (pack_step tol) dets p) (kept ++ filter (keep tol) dets).
Proof.
  induction dets as [|d ds IH]; intros p kept H; cbn [fold_left filter]; [rewrite app_nil_r; exact H|].
  specialize (IH _ _ (pack_step_inv tol p kept d H)). destruct (keep tol d); [rewrite <- app_assoc in IH; exact IH|exact IH].
Qed.
Theorem pack_correct tol dets : Inv (pack tol dets) (filter (keep tol) dets).
Proof. apply (pack_inv tol dets empty_packed []). unfold Inv, rows; cbn. repeat split; constructor. Qed.

(* ---------- flatten_determinants ---------- *)
Lemma offsets_length sizes acc : length (offsets sizes acc) = length sizes.
Proof. revert acc. induction sizes as [|s t IH]; intros acc; cbn; [reflexivity|rewrite IH; reflexivity]. Qed.
(* block j of the flattened numbering is [off_j, off_j + size_j): consecutive and disjoint *)
Theorem offsets_blocks sizes : forall acc j, j < length sizes ->
  nth j (offsets sizes acc) 0 = acc + fold_right Nat.add 0 (firstn j sizes).
Proof.
  induction sizes as [|s t IH]; intros acc j Hj; cbn in Hj; [lia|].
  destruct j as [|j]; cbn [offsets nth firstn fold_right]; [lia|]. rewrite IH by lia. lia.
Qed.
Theorem flatten_blocks_disjoint sizes i j ni nj : i < j -> j < length sizes -> ni < nth i sizes 0 -> 
  ni + nth i (offsets sizes 0) 0 < nj + nth j (offsets sizes 0) 0.
Proof.
  intros Hij Hj Hni. rewrite !offsets_blocks by lia. cbn [Nat.add].
  assert (H : fold_right Nat.add 0 (firstn i sizes) + nth i sizes 0 <= fold_right Nat.add 0 (firstn j sizes)).
  { clear Hni ni nj. revert i j Hij Hj. induction sizes as [|s t IH]; intros i j Hij Hj; cbn in Hj; [lia|].
    destruct j as [|j]; [lia|]. destruct i as [|i]; cbn [firstn fold_right nth]; [lia|]. specialize (IH i j). lia. }
  lia.
Qed.
