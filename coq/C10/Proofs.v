(* C10 — proofs: half space of reciprocal points; the reciprocal-space sums are pair sums of cos(G.(x_i - x_j));
   self + background constants of the generated model. *)
From Coq Require Import ZArith List Bool Lia Reals Lra.
From PyQMC Require Import base.Einsum C10.Model gen.Energy_Gen.
Import ListNotations.

(* ---------- half space ---------- *)
Open Scope Z_scope.
Lemma positive_exactly_one g : g <> (0, 0, 0) -> positive g = negb (positive (neg g)).
Proof.
  destruct g as [[a b] c]. intros H. unfold positive, neg.
  assert (a <> 0 \/ b <> 0 \/ c <> 0) as Hn.
  { destruct (Z.eq_dec a 0), (Z.eq_dec b 0), (Z.eq_dec c 0); subst; try tauto. }
  destruct (Z.ltb_spec 0 a), (Z.ltb_spec 0 (- a)), (Z.eqb_spec a 0), (Z.eqb_spec (- a) 0),
           (Z.ltb_spec 0 b), (Z.ltb_spec 0 (- b)), (Z.eqb_spec b 0), (Z.eqb_spec (- b) 0),
           (Z.ltb_spec 0 c), (Z.ltb_spec 0 (- c)); cbn; try reflexivity; lia.
Qed.
Lemma zero_not_positive : positive (0, 0, 0) = false.
Proof. reflexivity. Qed.

Lemma in_zrange lo hi x : In x (zrange lo hi) <-> lo <= x <= hi.
Proof.
  unfold zrange. rewrite in_map_iff. split.
  - intros [k [Hk Hin]]. apply in_seq in Hin. lia.
  - intros H. exists (Z.to_nat (x - lo)). split; [lia|]. apply in_seq. lia.
Qed.
Lemma in_grid ax bx ay by_ az bz a b c :
  In (a, b, c) (grid ax bx ay by_ az bz) <-> ax <= a <= bx /\ ay <= b <= by_ /\ az <= c <= bz.
Proof.
  unfold grid. rewrite in_flat_map. split.
  - intros [a' [Ha H]]. apply in_flat_map in H. destruct H as [b' [Hb H]]. apply in_map_iff in H. destruct H as [c' [E Hc]].
    inversion E; subst. rewrite in_zrange in Ha, Hb, Hc. tauto.
  - intros [Ha [Hb Hc]]. exists a. split; [apply in_zrange; exact Ha|]. apply in_flat_map. exists b. split; [apply in_zrange; exact Hb|].
    apply in_map_iff. exists c. split; [reflexivity|apply in_zrange; exact Hc].
Qed.

(* the generated list is exactly the half space inside the box *)
Theorem pos_points_spec m g : In g (pos_points m) <-> positive g = true /\ in_box (Z.of_nat m) g = true.
Proof.
  destruct g as [[a b] c]. unfold pos_points. rewrite !in_app_iff, !in_grid. unfold positive, in_box.
  rewrite !orb_true_iff, !andb_true_iff, !Z.ltb_lt, !Z.eqb_eq, !Z.leb_le. lia.
Qed.

Lemma pos_points_avoid_origin m : ~ In (0, 0, 0) (pos_points m).
Proof. intros H. apply pos_points_spec in H. destruct H as [H _]. discriminate H. Qed.
Lemma pos_points_one_of_pair m g : g <> (0, 0, 0) -> in_box (Z.of_nat m) g = true ->
  (In g (pos_points m) /\ ~ In (neg g) (pos_points m)) \/ (~ In g (pos_points m) /\ In (neg g) (pos_points m)).
Proof.
  intros Hg Hb. assert (Hb' : in_box (Z.of_nat m) (neg g) = true).
  { destruct g as [[a b] c]. unfold in_box, neg in *. rewrite !andb_true_iff, !Z.leb_le in *. lia. }
  rewrite !pos_points_spec. rewrite (positive_exactly_one g Hg). destruct (positive (neg g)); cbn; [right|left]; split; try tauto; intros [H _]; discriminate H.
Qed.
Lemma same_points_spec l1 l2 : same_points l1 l2 = true -> (forall g, In g l1 <-> In g l2) /\ length l1 = length l2.
Proof.
  unfold same_points, subset. rewrite !andb_true_iff, !forallb_forall, Nat.eqb_eq. intros [[H1 H2] H3]. split; [|exact H3].
  assert (E : forall g h, pt_eqb g h = true -> g = h).
  { intros [[a b] c] [[a' b'] c'] H. unfold pt_eqb in H. rewrite !andb_true_iff, !Z.eqb_eq in H. destruct H as [[-> ->] ->]. reflexivity. }
  intros g; split; intros Hg; [apply H1 in Hg|apply H2 in Hg]; apply existsb_exists in Hg; destruct Hg as [h [Hh Eh]]; apply E in Eh; subst; assumption.
Qed.
Close Scope Z_scope.

(* ---------- reciprocal-space sums are pair sums ---------- *)
Open Scope R_scope.
Fixpoint rsum {A} (f : A -> R) (l : list A) : R := match l with [] => 0 | x :: t => f x + rsum f t end.
Lemma rsum_ext {A} (f g : A -> R) l : (forall x, f x = g x) -> rsum f l = rsum g l.
Proof. intros H; induction l as [|x t IH]; cbn; [reflexivity|rewrite H, IH; reflexivity]. Qed.
Lemma rsum_plus {A} (f g : A -> R) l : rsum (fun x => f x + g x) l = rsum f l + rsum g l.
Proof. induction l as [|x t IH]; cbn; [lra|rewrite IH; lra]. Qed.
Lemma rsum_scal {A} (f : A -> R) c l : rsum (fun x => c * f x) l = c * rsum f l.
Proof. induction l as [|x t IH]; cbn; [lra|rewrite IH; lra]. Qed.
Lemma rsum_scal_r {A} (f : A -> R) c l : rsum (fun x => f x * c) l = rsum f l * c.
Proof. induction l as [|x t IH]; cbn; [lra|rewrite IH; lra]. Qed.
Lemma rsum_product {A B} (f : A -> R) (g : B -> R) la lb :
  rsum f la * rsum g lb = rsum (fun a => rsum (fun b => f a * g b) lb) la.
Proof. induction la as [|a t IH]; cbn; [lra|]. rewrite <- IH, rsum_scal. lra. Qed.

(* |sum_i e^{i b_i}|^2 = sum_i sum_j cos(b_i - b_j): the electron-electron reciprocal term is a sum over PAIRS of an even function of
   the phase difference G.(x_i - x_j) *)
Theorem structure_factor_pairs (b : list R) :
  (rsum cos b) ^ 2 + (rsum sin b) ^ 2 = rsum (fun bi => rsum (fun bj => cos (bi - bj)) b) b.
Proof.
  replace ((rsum cos b) ^ 2) with (rsum cos b * rsum cos b) by ring.
  replace ((rsum sin b) ^ 2) with (rsum sin b * rsum sin b) by ring.
  rewrite !rsum_product, <- rsum_plus. apply rsum_ext. intros bi. rewrite <- rsum_plus. apply rsum_ext. intros bj.
  rewrite cos_minus. reflexivity.
Qed.
(* the electron-ion term  -Re(ion_exp) sum cos - Im(ion_exp) sum sin  with ion_exp = sum_I Z_I e^{i a_I}  is  - sum_I sum_i Z_I cos(a_I - b_i) *)
Theorem cross_term_pairs (ions : list (R * R)) (b : list R) :
  - (rsum (fun zi => fst zi * cos (snd zi)) ions) * rsum cos b - (rsum (fun zi => fst zi * sin (snd zi)) ions) * rsum sin b
  = - rsum (fun zi => rsum (fun bi => fst zi * cos (snd zi - bi)) b) ions.
Proof.
  replace (- rsum (fun zi => fst zi * cos (snd zi)) ions * rsum cos b - rsum (fun zi => fst zi * sin (snd zi)) ions * rsum sin b)
    with (- (rsum (fun zi => fst zi * cos (snd zi)) ions * rsum cos b + rsum (fun zi => fst zi * sin (snd zi)) ions * rsum sin b)) by ring.
  f_equal. rewrite !rsum_product, <- rsum_plus. apply rsum_ext. intros [z a]. cbn [fst snd]. rewrite <- rsum_plus. apply rsum_ext. intros bi.
  rewrite cos_minus. ring.
Qed.
(* displacing a particle by a lattice vector changes G.x by 2 pi m *)
Theorem phase_ignores_lattice_translation t (m : nat) :
  (cos (t + 2 * INR m * PI) = cos t /\ sin (t + 2 * INR m * PI) = sin t) /\ (cos (t - 2 * INR m * PI) = cos t /\ sin (t - 2 * INR m * PI) = sin t).
Proof.
  split; split.
  - apply cos_period. - apply sin_period.
  - rewrite <- (cos_period (t - 2 * INR m * PI) m). f_equal. lra.
  - rewrite <- (sin_period (t - 2 * INR m * PI) m). f_equal. lra.
Qed.
Theorem pair_term_even t : cos (- t) = cos t.
Proof. apply cos_neg. Qed.

(* ---------- constants of the generated model ---------- *)
Theorem constants_total ne S1 S2 V alpha P : V <> 0 -> alpha <> 0 -> 0 < P ->
  ewald_ee_const ne V alpha P + ewald_ei_const ne S1 V alpha P + ewald_ii_const S1 S2 V alpha P
  = - (alpha / sqrt P) * (ne + S2) - P / (2 * V * alpha ^ 2) * (S1 - ne) ^ 2.
Proof.
  intros HV Ha HP. unfold ewald_ee_const, ewald_ei_const, ewald_ii_const.
  assert (sqrt P <> 0) by (apply Rgt_not_eq, sqrt_lt_R0; exact HP). field. repeat split; assumption.
Qed.
Theorem energy_parts_add_the_constants ne S1 S2 V alpha P ees eis iis :
  ewald_energy_ee ne V alpha ees P = ees + ewald_ee_const ne V alpha P /\
  ewald_energy_ei ne S1 V alpha eis P = eis + ewald_ei_const ne S1 V alpha P /\
  ewald_energy_ii S1 S2 V alpha iis P = iis + ewald_ii_const S1 S2 V alpha P.
Proof. repeat split; first [reflexivity | unfold ewald_energy_ee, ewald_energy_ei, ewald_energy_ii, ewald_ee_const, ewald_ei_const, ewald_ii_const; ring]. Qed.
Theorem total_is_sum ke ee ei ecp ii : acc_total ke ee ei ecp ii = acc_ke ke + acc_ee ee + acc_ei ei + acc_ecp ecp + ii.
Proof. unfold acc_total, acc_ke, acc_ee, acc_ei, acc_ecp. ring. Qed.

(* ---------- einsum contractions of ewald.py: every one pairs axes of the same meaning ---------- *)
Lemma ewald3d_sites_typed : forallb site_typed ewald3d_sites = true.
Proof. vm_compute; reflexivity. Qed.
