(* C10 — property theorems only (Coulomb energies: constants, assembly, half space, pair-sum structure of the reciprocal terms). *)
From Coq Require Import ZArith List Bool Reals.
From PyQMC Require Import base.Einsum C10.Model gen.Energy_Gen C10.Proofs.
Import ListNotations.

(* the three constants the CURRENT source adds to ee, ei and ii sum to the textbook self + neutralising-background terms of the
   whole charge set {-1 x ne, Z_I}:  -alpha/sqrt(pi) sum q^2 - pi/(2 V alpha^2) (sum q)^2   (regenerated from ewald.py each run) *)
Theorem C10_constants_are_self_plus_background : forall ne S1 S2 V alpha P : R, V <> 0%R -> alpha <> 0%R -> (0 < P)%R ->
  (ewald_ee_const ne V alpha P + ewald_ei_const ne S1 V alpha P + ewald_ii_const S1 S2 V alpha P
   = - (alpha / sqrt P) * (ne + S2) - P / (2 * V * alpha ^ 2) * (S1 - ne) ^ 2)%R.
Proof. exact constants_total. Qed.
Print Assumptions C10_constants_are_self_plus_background.

(* EnergyAccumulator.__call__ of the CURRENT source: total = ke + ee + ei + ecp + ii, and the reported parts are the parts *)
Theorem C10_total_is_sum_of_parts : forall ke ee ei ecp ii : R,
  (acc_total ke ee ei ecp ii = acc_ke ke + acc_ee ee + acc_ei ei + acc_ecp ecp + ii)%R.
Proof. exact total_is_sum. Qed.
Print Assumptions C10_total_is_sum_of_parts.

(* the half space: of every non-zero G in the box exactly one of G, -G is generated; G = 0 never *)
Theorem C10_half_space_picks_one_of_each_pair : forall (m : nat) (g : pt), g <> (0, 0, 0)%Z -> in_box (Z.of_nat m) g = true ->
  (In g (pos_points m) /\ ~ In (neg g) (pos_points m)) \/ (~ In g (pos_points m) /\ In (neg g) (pos_points m)).
Proof. exact pos_points_one_of_pair. Qed.
Print Assumptions C10_half_space_picks_one_of_each_pair.

Theorem C10_generated_gpoints_are_the_half_space : forall (m : nat) (g : pt),
  In g (pos_points m) <-> positive g = true /\ in_box (Z.of_nat m) g = true.
Proof. exact pos_points_spec. Qed.
Print Assumptions C10_generated_gpoints_are_the_half_space.

(* reciprocal-space terms are sums over pairs of cos of the phase difference: symmetric in the labels, dependent on positions only
   through differences, even in G (so the half space with doubled weight is the full sum), unchanged by 2 pi m *)
Theorem C10_structure_factor_is_pair_sum : forall b : list R,
  ((rsum cos b) ^ 2 + (rsum sin b) ^ 2 = rsum (fun bi => rsum (fun bj => cos (bi - bj)) b) b)%R.
Proof. exact structure_factor_pairs. Qed.
Print Assumptions C10_structure_factor_is_pair_sum.

Theorem C10_cross_term_is_pair_sum : forall (ions : list (R * R)) (b : list R),
  (- (rsum (fun zi => fst zi * cos (snd zi)) ions) * rsum cos b - (rsum (fun zi => fst zi * sin (snd zi)) ions) * rsum sin b
   = - rsum (fun zi => rsum (fun bi => fst zi * cos (snd zi - bi)) b) ions)%R.
Proof. exact cross_term_pairs. Qed.
Print Assumptions C10_cross_term_is_pair_sum.

Theorem C10_reciprocal_term_ignores_lattice_translation : forall (t : R) (m : nat),
  ((cos (t + 2 * INR m * PI) = cos t /\ sin (t + 2 * INR m * PI) = sin t) /\ (cos (t - 2 * INR m * PI) = cos t /\ sin (t - 2 * INR m * PI) = sin t))%R.
Proof. exact phase_ignores_lattice_translation. Qed.
Print Assumptions C10_reciprocal_term_ignores_lattice_translation.

Theorem C10_pair_term_is_even_in_G : forall t : R, cos (- t) = cos t.
Proof. exact pair_term_even. Qed.
Print Assumptions C10_pair_term_is_even_in_G.

(* every einsum of the CURRENT ewald.py (ion-ion real space, electron-ion real space, G.r, |G|^2, reciprocal points) contracts axes of
   the same meaning, under the axis meanings inferred from the calls that produced the operands (soundness of the typing: base/Einsum.v) *)
Theorem C10_contractions_pair_like_axes : forallb site_typed ewald3d_sites = true.
Proof. exact ewald3d_sites_typed. Qed.
Print Assumptions C10_contractions_pair_like_axes.
