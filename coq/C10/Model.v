(* C10 — integer model of the half space of reciprocal-lattice points used by ewald.generate_positive_gpoints (executable). *)
From Coq Require Import ZArith List Bool Lia.
Import ListNotations.
Open Scope Z_scope.

Definition pt := (Z * Z * Z)%type.
Definition neg (g : pt) : pt := let '(a, b, c) := g in (- a, - b, - c).
(* the code: x > 0, any y, z ; or x = 0, y > 0, any z ; or x = y = 0, z > 0 *)
Definition positive (g : pt) : bool :=
  let '(a, b, c) := g in (0 <? a) || ((a =? 0) && (0 <? b)) || ((a =? 0) && (b =? 0) && (0 <? c)).
Definition in_box (m : Z) (g : pt) : bool :=
  let '(a, b, c) := g in (- m <=? a) && (a <=? m) && (- m <=? b) && (b <=? m) && (- m <=? c) && (c <=? m).

Definition zrange (lo hi : Z) : list Z := map (fun k => lo + Z.of_nat k) (seq 0 (Z.to_nat (hi - lo + 1))).
Definition grid (ax bx ay by_ az bz : Z) : list pt :=
  flat_map (fun a => flat_map (fun b => map (fun c => (a, b, c)) (zrange az bz)) (zrange ay by_)) (zrange ax bx).
(* the three mgrid blocks of the code, in its order *)
Definition pos_points (m : nat) : list pt :=
  let M := Z.of_nat m in
  grid 1 M (- M) M (- M) M ++ grid 0 0 1 M (- M) M ++ grid 0 0 0 0 1 M.

Definition pt_eqb (g h : pt) : bool :=
  let '(a, b, c) := g in let '(a', b', c') := h in (a =? a') && (b =? b') && (c =? c').
Definition subset (l1 l2 : list pt) : bool := forallb (fun g => existsb (pt_eqb g) l2) l1.
Definition same_points (l1 l2 : list pt) : bool := subset l1 l2 && subset l2 l1 && (length l1 =? length l2)%nat.
