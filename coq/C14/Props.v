(* C14 — property theorems only.  Everything is parametric in the block propagator (any function of the state and
   the block number), in the storage rounding rnd, and in the state / row / reference types. *)
From Coq Require Import List Arith Bool Lia.
From PyQMC Require Import C14.Model C14.Proofs.
Import ListNotations.

(* any sequence of calls (VMC blocks / optimisation iterations): block numbers 0..n-1 without gap or duplicate,
   one row per block, and the total number of recorded blocks is the largest number requested *)
Theorem C14_block_numbers_contiguous_total_as_requested :
  forall (St Row : Type) (prop : St -> nat -> St * Row) (rnd : St -> St) (Ns : list nat) (fo : option (file St Row)) (s0 : St),
  fcontig St Row fo ->
  fcontig St Row (calls St Row prop rnd fo s0 Ns) /\ nrec St Row (calls St Row prop rnd fo s0 Ns) = fold_left Nat.max Ns (nrec St Row fo).
Proof. exact calls_spec. Qed.
Print Assumptions C14_block_numbers_contiguous_total_as_requested.

(* asking for no more work than is recorded changes nothing *)
Theorem C14_no_extra_work_changes_nothing :
  forall (St Row : Type) (prop : St -> nat -> St * Row) (rnd : St -> St) (f : file St Row) (s0 : St) (N : nat),
  contiguous Row (rows _ _ f) -> rows _ _ f <> [] -> N <= length (rows _ _ f) ->
  snd (call St Row prop rnd (Some f) s0 N) = Some f.
Proof. exact call_idempotent. Qed.
Print Assumptions C14_no_extra_work_changes_nothing.

(* resumed = uninterrupted continuation from the persisted state *)
Theorem C14_resumed_equals_uninterrupted :
  forall (St Row : Type) (prop : St -> nat -> St * Row) (rnd : St -> St) (s0 : St) (N1 N2 : nat),
  (forall s, rnd s = s) -> 0 < N1 -> N1 <= N2 ->
  calls St Row prop rnd None s0 [N1; N2] = calls St Row prop rnd None s0 [N2].
Proof. exact resume_equals_uninterrupted. Qed.
Print Assumptions C14_resumed_equals_uninterrupted.

(* the state a resumed run starts from is the stored (rounded) in-memory state *)
Theorem C14_stored_state_is_rounded_final_state :
  forall (St Row : Type) (prop : St -> nat -> St * Row) (rnd : St -> St) t s b rs sv, 0 < t ->
  saved _ _ (snd (loop St Row prop rnd s b t rs sv)) = rnd (fst (loop St Row prop rnd s b t rs sv)).
Proof. exact loop_saved. Qed.
Print Assumptions C14_stored_state_is_rounded_final_state.

(* DMC with the repaired restart: reference energies recomputed exactly as the loop does *)
Theorem C14_dmc_resumed_equals_uninterrupted :
  forall (St Row Ref : Type) (rnd : St -> St) (propd : St -> Ref -> nat -> St * Row)
         (refs_of : list (nat * (Ref * Row)) -> St -> Ref) (s0 : St) (ref0 : Ref) (N1 N2 : nat),
  (forall s, rnd s = s) -> 0 < N1 -> N1 <= N2 ->
  (let '(_, _, f1) := dloop St Row Ref rnd propd refs_of s0 ref0 0 N1 [] s0 in dresume St Row Ref rnd propd refs_of f1 N2)
  = dloop St Row Ref rnd propd refs_of s0 ref0 0 N2 [] s0.
Proof. exact dmc_resume_equals_uninterrupted. Qed.
Print Assumptions C14_dmc_resumed_equals_uninterrupted.

(* the restart before the fix (references read back from the last row) is refuted on a concrete propagator *)
Definition pd (s ref b : nat) : nat * nat := (s + ref + 1, 10 * s + ref).
Definition rf (rs : list (nat * (nat * nat))) (s : nat) : nat := length rs + s.
Theorem C14_dmc_stale_reference_refuted :
  let '(_, _, f1) := dloop nat nat nat (fun s => s) pd rf 5 0 0 2 [] 5 in
  map (fun r => fst (snd r)) (drows _ _ _ (snd (dresume_old nat nat nat (fun s => s) pd rf 0 f1 3)))
  <> map (fun r => fst (snd r)) (drows _ _ _ (snd (dloop nat nat nat (fun s => s) pd rf 5 0 0 3 [] 5))).
Proof. vm_compute. discriminate. Qed.
Print Assumptions C14_dmc_stale_reference_refuted.

Example C14_instance :
  option_map (fun f => map fst (rows _ _ f)) (calls nat nat (fun s b => (s + b, s)) (fun s => s) None 7 [2; 5; 3; 5; 6]) = Some [0;1;2;3;4;5].
Proof. vm_compute. reflexivity. Qed.
Print Assumptions C14_instance.
