From Coq Require Import List Arith Bool Lia.
From PyQMC Require Import C14.Model.
Import ListNotations.

Section RestartProofs.
Variables (St Row Ref : Type).
Variable prop : St -> nat -> St * Row.
Variable rnd : St -> St.
Notation loop := (loop St Row prop rnd).
Notation call := (call St Row prop rnd).
Notation calls := (calls St Row prop rnd).
Notation file := (file St Row).

Definition contiguous (rs : list (nat * Row)) : Prop := map fst rs = seq 0 (length rs).

Lemma offset_contiguous rs : contiguous rs -> offset_of Row rs = length rs.
Proof.
  unfold contiguous, offset_of. intros H. destruct rs as [|x rs'] using rev_ind; [reflexivity|].
  rewrite rev_app_distr. cbn [rev app]. destruct x as [b r].
  rewrite map_app, app_length in H. cbn [map length] in H. rewrite Nat.add_1_r, seq_S in H.
  apply app_inj_tail in H. destruct H as [_ H]. cbn in H. rewrite app_length. cbn. lia.
Qed.

(* the block loop appends exactly the blocks b, b+1, ..., b+todo-1 *)
Lemma loop_rows todo : forall s b rs sv,
  map fst (rows _ _ (snd (loop s b todo rs sv))) = map fst rs ++ seq b todo.
Proof.
  induction todo as [|t IH]; intros s b rs sv; cbn [loop Model.loop].
  - cbn. rewrite app_nil_r. reflexivity.
  - destruct (prop s b) as [s' r]. rewrite IH. rewrite map_app. cbn [map fst seq]. rewrite <- app_assoc. reflexivity.
Qed.

Lemma loop_contiguous todo s rs sv : contiguous rs ->
  contiguous (rows _ _ (snd (loop s (length rs) todo rs sv))) /\ length (rows _ _ (snd (loop s (length rs) todo rs sv))) = length rs + todo.
Proof.
  intros H. pose proof (loop_rows todo s (length rs) rs sv) as E.
  assert (L : length (rows _ _ (snd (loop s (length rs) todo rs sv))) = length rs + todo).
  { rewrite <- (map_length fst), E, app_length, map_length, seq_length. reflexivity. }
  split; [|exact L]. unfold contiguous. rewrite E, L, H. rewrite seq_app. reflexivity.
Qed.

(* no work requested beyond what is recorded: nothing changes *)
Lemma loop_zero s b rs sv : snd (loop s b 0 rs sv) = mkFile _ _ rs sv.
Proof. reflexivity. Qed.

Definition fcontig (fo : option file) : Prop := match fo with None => True | Some f => contiguous (rows _ _ f) end.
Definition nrec (fo : option file) : nat := match fo with None => 0 | Some f => length (rows _ _ f) end.

(* one call: block numbers stay 0..n-1 without gap or duplicate, and the number of recorded blocks becomes max(recorded, N) *)
Theorem call_spec fo s0 N : fcontig fo ->
  fcontig (snd (call fo s0 N)) /\ nrec (snd (call fo s0 N)) = Nat.max (nrec fo) N.
Proof.
  intros H. destruct fo as [f|]; cbn [call Model.call].
  - destruct (rows _ _ f) as [|x rs] eqn:Er.
    + destruct (loop s0 0 N [] (saved _ _ f)) as [s f'] eqn:El. cbn [snd fcontig nrec]. rewrite Er. cbn [length].
      pose proof (loop_contiguous N s0 [] (saved _ _ f) eq_refl) as [C L]. cbn [length] in C, L. rewrite El in C, L. cbn [snd] in C, L.
      split; [assumption|]. rewrite L. lia.
    + cbn [fcontig] in H. rewrite Er in H. rewrite (offset_contiguous _ H).
      destruct (loop _ _ _ _ _) as [s f'] eqn:El. cbn [snd fcontig nrec]. rewrite Er.
      pose proof (loop_contiguous (N - length (x :: rs)) (saved _ _ f) (x :: rs) (saved _ _ f) H) as [C L].
      rewrite El in C, L. cbn [snd] in C, L. split; [assumption|]. rewrite L. lia.
  - destruct N as [|N]; [cbn; split; [exact I|reflexivity]|].
    destruct (loop s0 0 (S N) [] s0) as [s f'] eqn:El. cbn [snd fcontig nrec].
    pose proof (loop_contiguous (S N) s0 [] s0 eq_refl) as [C L]. cbn [length] in C, L. rewrite El in C, L. cbn [snd] in C, L.
    split; [assumption|]. rewrite L. lia.
Qed.

(* any sequence of calls: contiguous block numbers, one row per block, total = the largest request *)
Theorem calls_spec Ns : forall fo s0, fcontig fo ->
  fcontig (calls fo s0 Ns) /\ nrec (calls fo s0 Ns) = fold_left Nat.max Ns (nrec fo).
Proof.
  induction Ns as [|N r IH]; intros fo s0 H; cbn [calls Model.calls fold_left]; [split; [assumption|reflexivity]|].
  destruct (call_spec fo s0 N H) as [C L]. destruct (IH _ s0 C) as [C' L']. split; [assumption|]. rewrite L', L. reflexivity.
Qed.

(* asking for no more work than is recorded changes nothing *)
Theorem call_idempotent f s0 N : contiguous (rows _ _ f) -> rows _ _ f <> [] -> N <= length (rows _ _ f) ->
  snd (call (Some f) s0 N) = Some f.
Proof.
  intros H Hne HN. cbn [call Model.call]. destruct (rows _ _ f) as [|x rs] eqn:Er; [contradiction|].
  rewrite <- Er in *. rewrite (offset_contiguous _ H). replace (N - length (rows _ _ f)) with 0 by lia.
  cbn [loop Model.loop snd]. destruct f; reflexivity.
Qed.

(* splitting the loop: running t1+t2 blocks = running t1, then t2 from the in-memory state *)
Lemma loop_split t1 : forall t2 s b rs sv,
  loop s b (t1 + t2) rs sv =
  let '(s1, f1) := loop s b t1 rs sv in loop s1 (b + t1) t2 (rows _ _ f1) (saved _ _ f1).
Proof.
  induction t1 as [|t IH]; intros t2 s b rs sv; cbn [Nat.add loop Model.loop].
  - rewrite Nat.add_0_r. reflexivity.
  - destruct (prop s b) as [s' r]. rewrite IH. destruct (loop s' (S b) t _ _) as [s1 f1].
    replace (S b + t) with (b + S t) by lia. reflexivity.
Qed.

Lemma loop_saved t : forall s b rs sv, 0 < t -> saved _ _ (snd (loop s b t rs sv)) = rnd (fst (loop s b t rs sv)).
Proof.
  induction t as [|t IH]; intros s b rs sv Ht; [lia|]. cbn [loop Model.loop]. destruct (prop s b) as [s' r].
  destruct t as [|t']; [reflexivity|]. apply IH. lia.
Qed.

(* resumed = uninterrupted: if the stored state is the in-memory state (no loss in storage: rnd s = s on the states
   reached), a run of N1 blocks followed by a resumed run to N2 records exactly what one run of N2 blocks records *)
Theorem resume_equals_uninterrupted s0 N1 N2 : (forall s, rnd s = s) -> 0 < N1 -> N1 <= N2 ->
  calls None s0 [N1; N2] = calls None s0 [N2].
Proof.
  intros Hr H1 H12. cbn [calls Model.calls call Model.call].
  destruct N1 as [|n1]; [lia|]. destruct N2 as [|n2]; [lia|].
  replace (S n2) with (S n1 + (S n2 - S n1)) at 2 by lia.
  rewrite (loop_split (S n1) (S n2 - S n1) s0 0 [] s0).
  pose proof (loop_contiguous (S n1) s0 [] s0 eq_refl) as [C L]. cbn [length] in C, L.
  pose proof (loop_saved (S n1) s0 0 [] s0 ltac:(lia)) as Sv.
  destruct (loop s0 0 (S n1) [] s0) as [s1 f1] eqn:El. cbn [snd fst] in *.
  cbn [call Model.call].
  destruct (rows _ _ f1) as [|x rs] eqn:Er; [cbn in L; lia|].
  rewrite (offset_contiguous _ C), L. rewrite Sv, Hr. cbn [Nat.add]. reflexivity.
Qed.
End RestartProofs.

(* ---------- DMC ---------- *)
Section DMC.
Variables (St Row Ref : Type).
Variable rnd : St -> St.
Variable propd : St -> Ref -> nat -> St * Row.
Variable refs_of : list (nat * (Ref * Row)) -> St -> Ref.
Notation dloop := (dloop St Row Ref rnd propd refs_of).
Notation dresume := (dresume St Row Ref rnd propd refs_of).

Lemma dloop_split t1 : forall t2 s ref b rs sv,
  dloop s ref b (t1 + t2) rs sv =
  let '(s1, ref1, f1) := dloop s ref b t1 rs sv in dloop s1 ref1 (b + t1) t2 (drows _ _ _ f1) (dsaved _ _ _ f1).
Proof.
  induction t1 as [|t IH]; intros t2 s ref b rs sv; cbn [Nat.add dloop Model.dloop].
  - rewrite Nat.add_0_r. reflexivity.
  - destruct (propd s ref b) as [s' r]. rewrite IH. destruct (dloop s' _ (S b) t _ _) as [[s1 ref1] f1].
    replace (S b + t) with (b + S t) by lia. reflexivity.
Qed.

(* after at least one block: stored state = rounded in-memory state, the in-memory references are the ones the loop
   recomputes from the recorded rows and the in-memory state, rows are b0.. contiguous *)
Lemma dloop_post t : forall s ref b rs sv, 0 < t ->
  let '(s1, ref1, f1) := dloop s ref b t rs sv in
  dsaved _ _ _ f1 = rnd s1 /\ ref1 = refs_of (drows _ _ _ f1) s1 /\ map fst (drows _ _ _ f1) = map fst rs ++ seq b t.
Proof.
  induction t as [|t IH]; intros s ref b rs sv Ht; [lia|]. cbn [dloop Model.dloop]. destruct (propd s ref b) as [s' r].
  destruct t as [|t'].
  - cbn [dloop Model.dloop dsaved drows]. rewrite map_app. cbn. repeat split.
  - specialize (IH s' (refs_of (rs ++ [(b, (ref, r))]) s') (S b) (rs ++ [(b, (ref, r))]) (rnd s') ltac:(lia)).
    destruct (dloop s' _ (S b) (S t') _ _) as [[s1 ref1] f1]. destruct IH as [I1 [I2 I3]]. repeat split; try assumption.
    rewrite I3, map_app. cbn [map fst]. rewrite <- app_assoc. reflexivity.
Qed.

(* repaired restart: N1 blocks then resume to N2 = one uninterrupted run of N2 blocks (no loss in storage) *)
Theorem dmc_resume_equals_uninterrupted s0 ref0 N1 N2 : (forall s, rnd s = s) -> 0 < N1 -> N1 <= N2 ->
  (let '(_, _, f1) := dloop s0 ref0 0 N1 [] s0 in dresume f1 N2) = dloop s0 ref0 0 N2 [] s0.
Proof.
  intros Hr H1 H12.
  assert (E : dloop s0 ref0 0 N2 [] s0 =
              let '(s1, ref1, f1) := dloop s0 ref0 0 N1 [] s0 in dloop s1 ref1 (0 + N1) (N2 - N1) (drows _ _ _ f1) (dsaved _ _ _ f1)).
  { rewrite <- dloop_split. f_equal. lia. }
  rewrite E. clear E.
  pose proof (dloop_post N1 s0 ref0 0 [] s0 H1) as P.
  destruct (dloop s0 ref0 0 N1 [] s0) as [[s1 ref1] f1]. destruct P as [P1 [P2 P3]]. cbn [map app] in P3.
  unfold Model.dresume.
  assert (Hoff : doffset _ _ (drows _ _ _ f1) = N1).
  { unfold doffset. destruct (drows _ _ _ f1) as [|x rs] using rev_ind; [cbn in P3; destruct N1; [lia|discriminate]|].
    rewrite rev_app_distr. cbn [rev app]. destruct x as [b q]. rewrite map_app in P3. cbn [map fst] in P3.
    destruct N1 as [|n]; [lia|]. rewrite seq_S in P3. apply app_inj_tail in P3. destruct P3 as [_ P3]. cbn in P3. lia. }
  rewrite Hoff, P1, Hr, <- P2. cbn [Nat.add]. reflexivity.
Qed.
End DMC.
