(* C14 — restart control flow of mc.vmc / linemin.line_minimization (loop) and dmc.rundmc (dloop), parametric in
   the block propagator (a FUNCTION of state and block number: "given the same random numbers") and in the
   storage rounding of the walker state. *)
From Coq Require Import List Arith Bool.
Import ListNotations.

Section Restart.
Variables (St Row Ref : Type).
Variable prop : St -> nat -> St * Row.        (* one VMC block / optimisation iteration *)
Variable rnd : St -> St.                      (* what survives store + load (float32 coordinates and weights) *)

Record file := mkFile { rows : list (nat * Row); saved : St }.

Fixpoint loop (s : St) (b todo : nat) (rs : list (nat * Row)) (sv : St) : St * file :=
  match todo with
  | O => (s, mkFile rs sv)
  | S t => let '(s', r) := prop s b in loop s' (S b) t (rs ++ [(b, r)]) (rnd s')
  end.

Definition offset_of (rs : list (nat * Row)) : nat :=
  match rev rs with [] => 0 | (b, _) :: _ => S b end.          (* hdf["block"][nrows-1] + 1 *)

(* vmc(..., nblocks=N, hdf_file=f): restart from the file if it holds at least one block *)
Definition call (fo : option file) (s0 : St) (N : nat) : St * option file :=
  match fo with
  | Some f =>
      match rows f with
      | [] => let '(s, f') := loop s0 0 N [] (saved f) in (s, Some f')
      | _ => let off := offset_of (rows f) in
             let '(s, f') := loop (saved f) off (N - off) (rows f) (saved f) in (s, Some f')
      end
  | None => match N with O => (s0, None) | _ => let '(s, f') := loop s0 0 N [] s0 in (s, Some f') end
  end.

Fixpoint calls (fo : option file) (s0 : St) (Ns : list nat) : option file :=
  match Ns with [] => fo | N :: r => calls (snd (call fo s0 N)) s0 r end.

(* ---- DMC: the reference energies are recomputed after every block from the recorded rows and the current state,
   and (after the fix) in exactly the same way when a run is resumed *)
Variable propd : St -> Ref -> nat -> St * Row.
Variable refs_of : list (nat * (Ref * Row)) -> St -> Ref.
Record dfile := mkD { drows : list (nat * (Ref * Row)); dsaved : St }.

Fixpoint dloop (s : St) (ref : Ref) (b todo : nat) (rs : list (nat * (Ref * Row))) (sv : St) : St * Ref * dfile :=
  match todo with
  | O => (s, ref, mkD rs sv)
  | S t => let '(s', r) := propd s ref b in
           let rs' := rs ++ [(b, (ref, r))] in
           dloop s' (refs_of rs' s') (S b) t rs' (rnd s')
  end.
Definition doffset (rs : list (nat * (Ref * Row))) : nat := match rev rs with [] => 0 | (b, _) :: _ => S b end.
(* resume, repaired code: references recomputed from the file and the loaded state *)
Definition dresume (f : dfile) (N : nat) : St * Ref * dfile :=
  let off := doffset (drows f) in dloop (dsaved f) (refs_of (drows f) (dsaved f)) off (N - off) (drows f) (dsaved f).
(* resume, code before the fix: references read back from the last row = those the last block was run WITH *)
Definition dresume_old (dflt : Ref) (f : dfile) (N : nat) : St * Ref * dfile :=
  let off := doffset (drows f) in
  let ref := match rev (drows f) with [] => dflt | (_, (r, _)) :: _ => r end in
  dloop (dsaved f) ref off (N - off) (drows f) (dsaved f).
End Restart.
