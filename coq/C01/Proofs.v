From Coq Require Import Reals Lra Lia List.
From PyQMC Require Import base.Vec3R gen.Kernels_Gen C01.Model.
Import ListNotations. Open Scope R_scope.

Section VMCKernel.
Variable tstep : R.
Variable D : vec3 -> vec3.          (* limdrift (Re (grad ln Psi)) as a function of the position of electron e *)
Variable absr : vec3 -> vec3 -> R.  (* Psi(x')/Psi(x) as returned by gradient_value *)
Variables (x gauss : vec3) (u : R).
Hypothesis tpos : 0 < tstep.

Let x' := vmc_newcoorde tstep x gauss (D x).
Let drift := fun a => vscal tstep (D a).

(* The proofs of this section do not depend on how the source spells its expressions (1/(2 tstep) * (f - b) or (f - b)/(2 tstep), named
   temporaries or not): the generated definitions are unfolded to the coordinates and compared as rational functions. *)
Ltac vec_field := unfold lnT, norm2, vsum, vpow, vmul, vsub, vadd, vscal; cbn [vx vy vz]; field.

(* the argument of the exponential in the acceptance ratio is ln T(x'->x) - ln T(x->x') for the Gaussian of variance tstep about the
   drifted position (so: the squared noise of the reverse move minus that of the forward move, over 2 tstep) *)
Lemma vmc_lnT_arg_is_log_density_ratio :
  vmc_lnT_arg tstep gauss (D x) (D x') = lnT tstep drift x' x - lnT tstep drift x x'.
Proof.
  subst drift. unfold lnT. cbv beta. set (d := D x'). subst x'. set (d0 := D x) in *. clearbody d d0.
  unfold vmc_lnT_arg, vmc_newcoorde. vec_field. lra.
Qed.

(* the proposal that is drawn has variance tstep *)
Lemma vmc_proposal_variance : vmc_proposal_scale tstep ^ 2 = tstep.
Proof. unfold vmc_proposal_scale. cbn. rewrite Rmult_1_r. apply sqrt_sqrt. lra. Qed.

(* t_prob is the ratio of reverse to forward proposal densities of that Gaussian *)
Theorem vmc_tprob_is_density_ratio :
  vmc_t_prob tstep gauss (D x) (D x') = Tdens tstep drift x' x / Tdens tstep drift x x'.
Proof.
  unfold Tdens.
  assert (Hs : sqrt (2 * PI * tstep) <> 0).
  { apply Rgt_not_eq, sqrt_lt_R0. pose proof PI_RGT_0. nra. }
  replace (/ sqrt (2 * PI * tstep) ^ 3 * exp (lnT tstep drift x' x) / (/ sqrt (2 * PI * tstep) ^ 3 * exp (lnT tstep drift x x')))
    with (exp (lnT tstep drift x' x) / exp (lnT tstep drift x x')).
  2:{ field; repeat split; try (apply Rgt_not_eq, exp_pos); try exact Hs. }
  assert (E : exp (lnT tstep drift x' x) / exp (lnT tstep drift x x') = exp (lnT tstep drift x' x - lnT tstep drift x x')).
  { unfold Rminus. rewrite exp_plus, exp_Ropp. reflexivity. }
  rewrite E. clear E. rewrite <- vmc_lnT_arg_is_log_density_ratio. reflexivity.
Qed.

(* the quantity the uniform number is compared with is |Psi'/Psi|^2 t_prob *)
Lemma vmc_ratio_shape v dx dn : vmc_ratio tstep v gauss dx dn = Rabs v ^ 2 * vmc_t_prob tstep gauss dx dn.
Proof. unfold vmc_ratio, vmc_t_prob. ring. Qed.
Lemma vmc_accept_shape v dx dn : vmc_accept tstep u v gauss dx dn <-> u < vmc_ratio tstep v gauss dx dn.
Proof. unfold vmc_accept, vmc_ratio. split; intro H; exact H. Qed.

(* acceptance test == u < min(1, |Psi'|^2 T(x'->x) / (|Psi|^2 T(x->x'))) for every u in [0,1) *)
Theorem vmc_accept_is_metropolis_hastings : 0 <= u < 1 ->
  (vmc_accept tstep u (absr x x') gauss (D x) (D x') <->
   u < mh_prob (Rabs (absr x x') ^ 2) (Tdens tstep drift x' x / Tdens tstep drift x x')).
Proof.
  intros Hu. rewrite vmc_accept_shape, vmc_ratio_shape, vmc_tprob_is_density_ratio. unfold mh_prob.
  set (q := Rabs (absr x x') ^ 2 * (Tdens tstep drift x' x / Tdens tstep drift x x')).
  unfold Rmin. destruct (Rle_dec 1 q); split; intro; lra.
Qed.

(* what is done with the outcome: the walker is moved to the proposed point exactly where accepted, the wave function
   is told the same point and the same mask, and the reverse quantities were evaluated at the proposed point *)
Theorem vmc_effects :
  vmc_moved_to tstep x gauss (D x) = x' /\ vmc_update_position tstep x gauss (D x) = x' /\
  vmc_second_gradient_position tstep x gauss (D x) = x' /\
  (forall v dn, vmc_move_mask tstep u v gauss (D x) dn = vmc_accept tstep u v gauss (D x) dn) /\
  (forall v dn, vmc_update_mask tstep u v gauss (D x) dn = vmc_accept tstep u v gauss (D x) dn).
Proof. repeat split; reflexivity. Qed.
End VMCKernel.

(* detailed balance: pi(a) T(a->b) A(a->b) = pi(b) T(b->a) A(b->a) with A = min(1, pi(b)T(b->a)/(pi(a)T(a->b))) *)
Lemma detailed_balance a b : 0 < a -> 0 < b -> a * Rmin 1 (b / a) = b * Rmin 1 (a / b).
Proof.
  intros Ha Hb. unfold Rmin.
  destruct (Rle_dec 1 (b / a)) as [H1|H1]; destruct (Rle_dec 1 (a / b)) as [H2|H2].
  - assert (a <= b). { apply (Rmult_le_compat_r a) in H1; [|lra]. unfold Rdiv in H1. rewrite Rmult_assoc, Rinv_l in H1; lra. }
    assert (b <= a). { apply (Rmult_le_compat_r b) in H2; [|lra]. unfold Rdiv in H2. rewrite Rmult_assoc, Rinv_l in H2; lra. }
    lra.
  - field. lra.
  - field. lra.
  - exfalso. apply Rnot_le_lt in H1, H2.
    assert (b < a). { apply (Rmult_lt_compat_r a) in H1; [|lra]. unfold Rdiv in H1. rewrite Rmult_assoc, Rinv_l in H1; lra. }
    assert (a < b). { apply (Rmult_lt_compat_r b) in H2; [|lra]. unfold Rdiv in H2. rewrite Rmult_assoc, Rinv_l in H2; lra. }
    lra.
Qed.

(* ---------- mc.limdrift ---------- *)
Lemma sqrt_norm2_pos g : 0 < sqrt (norm2 g) -> 0 < norm2 g.
Proof. intros H. destruct (Rle_lt_dec (norm2 g) 0) as [Hle|Hlt]; [|assumption]. rewrite (sqrt_neg_0 _ Hle) in H. lra. Qed.

(* shape-independent: whichever comparison the source makes is split on, and each branch is compared with the specification coordinate by coordinate *)
Ltac split_comparisons :=
  repeat match goal with
  | |- context [Rlt_dec ?a ?b] => destruct (Rlt_dec a b)
  | |- context [Rle_dec ?a ?b] => destruct (Rle_dec a b)
  end.
Theorem mc_limdrift_spec cutoff g : 0 < cutoff ->
  (sqrt (norm2 g) <= cutoff -> mc_limdrift cutoff g = g) /\
  (cutoff < sqrt (norm2 g) -> mc_limdrift cutoff g = vscal (cutoff / sqrt (norm2 g)) g /\ sqrt (norm2 (mc_limdrift cutoff g)) = cutoff).
Proof.
  intros Hc.
  assert (N : 0 < sqrt (norm2 g) -> sqrt (norm2 (vscal (cutoff / sqrt (norm2 g)) g)) = cutoff).
  { intros Hn. rewrite norm2_vscal.
    replace (cutoff / sqrt (norm2 g) * (cutoff / sqrt (norm2 g)) * norm2 g) with (cutoff * cutoff * (norm2 g / (sqrt (norm2 g) * sqrt (norm2 g)))) by (field; lra).
    rewrite sqrt_sqrt by (apply Rlt_le, sqrt_norm2_pos; assumption).
    replace (norm2 g / norm2 g) with 1 by (field; apply Rgt_not_eq, sqrt_norm2_pos; assumption).
    rewrite Rmult_1_r. apply sqrt_square. lra. }
  assert (Big : cutoff < sqrt (norm2 g) -> mc_limdrift cutoff g = vscal (cutoff / sqrt (norm2 g)) g).
  { intros Hgt. unfold mc_limdrift. rewrite ?vsum_vmul_self. fold (norm2 g). split_comparisons; try lra.
    apply vec3_eq; unfold vscal, vmul; cbn [vx vy vz]; field; lra. }
  assert (Small : sqrt (norm2 g) <= cutoff -> mc_limdrift cutoff g = g).
  { intros Hle. unfold mc_limdrift. rewrite ?vsum_vmul_self. fold (norm2 g). split_comparisons; try lra.
    apply vec3_eq; unfold vscal, vmul; cbn [vx vy vz]; try reflexivity; field. }
  split; [exact Small|]. intros Hgt. split; [exact (Big Hgt)|]. rewrite (Big Hgt). apply N. lra.
Qed.

(* ---------- the multi-wave-function sampler ---------- *)
Lemma rsum_scale (c : R) l : rsum (map (fun v => c * v) l) = c * rsum l.
Proof. unfold rsum. induction l as [|a l IH]; cbn [map fold_right]; [ring|]. rewrite IH. ring. Qed.
Lemma rsum_cons a l : rsum (a :: l) = a + rsum l.
Proof. reflexivity. Qed.

(* with absratios_i = |Psi_i(R')|/|Psi_i(R)| and logs_i = ln|Psi_i(R)| the ratio is t_prob * sum_i|Psi_i(R')|^2 / sum_i|Psi_i(R)|^2 *)
Theorem mixture_ratio t_prob (psi psi' : list R) :
  psi <> [] -> length psi' = length psi -> Forall (fun p => 0 < p) psi ->
  mix_ratio t_prob (map (fun pp => snd pp / fst pp) (combine psi psi')) (map ln psi)
  = t_prob * rsum (map (fun p => p ^ 2) psi') / rsum (map (fun p => p ^ 2) psi).
Proof.
  intros Hne Hlen Hpos. unfold mix_ratio, mix_weights.
  destruct psi as [|p0 ps] eqn:E; [contradiction|]. rewrite <- E in *. 
  assert (Hp0 : 0 < p0) by (rewrite E in Hpos; inversion Hpos; assumption).
  assert (H0 : hd 0 (map ln psi) = ln p0) by (rewrite E; reflexivity). rewrite H0.
  assert (W : forall p, 0 < p -> exp (2 * (ln p - ln p0)) = p ^ 2 / p0 ^ 2).
  { intros p Hp. replace (2 * (ln p - ln p0)) with ((ln p + ln p) + - (ln p0 + ln p0)) by ring.
    rewrite exp_plus, exp_Ropp, !exp_plus, !exp_ln by assumption. field. lra. }
  assert (D1 : rsum (map (fun l => exp (2 * (l - ln p0))) (map ln psi)) = / p0 ^ 2 * rsum (map (fun p => p ^ 2) psi)).
  { rewrite <- rsum_scale. clear E H0 Hne Hlen. induction psi as [|a l IH]; [reflexivity|]. inversion Hpos; subst. cbn [map rsum fold_right].
    rewrite W by assumption. fold (rsum (map (fun l0 => exp (2 * (l0 - ln p0))) (map ln l))). fold (rsum (map (fun v => / p0 ^ 2 * v) (map (fun p => p ^ 2) l))).
    rewrite IH by assumption. rewrite map_map. field. lra. }
  assert (N1 : rsum (map (fun rw => fst rw ^ 2 * snd rw) (combine (map (fun pp => snd pp / fst pp) (combine psi psi')) (map (fun l => exp (2 * (l - ln p0))) (map ln psi))))
               = / p0 ^ 2 * rsum (map (fun p => p ^ 2) psi')).
  { rewrite <- rsum_scale. clear E H0 Hne D1. revert psi' Hlen. induction psi as [|a l IH]; intros psi' Hlen.
    - destruct psi'; [reflexivity|discriminate].
    - destruct psi' as [|b l']; [discriminate|]. inversion Hpos; subst. cbn [combine map].
      rewrite !rsum_cons. cbn [fst snd]. rewrite W by assumption.
      rewrite IH by (try assumption; cbn in Hlen; lia). field. split; lra. }
  rewrite N1, D1.
  assert (S : 0 < rsum (map (fun p => p ^ 2) psi)).
  { rewrite E. cbn [map]. rewrite rsum_cons.
    assert (0 <= rsum (map (fun p => p ^ 2) ps)). { clear. induction ps as [|a l IH]; cbn [map]; [unfold rsum; cbn; lra|]. rewrite rsum_cons. nra. }
    nra. }
  field. split; lra.
Qed.
