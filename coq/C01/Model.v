(* C01 — specification side: the Gaussian proposal density the samplers claim to draw from, the
   Metropolis-Hastings acceptance probability, and the multi-wave-function acceptance ratio of
   sample_many.sample_overlap_worker (hand model; its two source lines are tied by an AST template check).
   The kernel itself is NOT written here: it is gen/Kernels_Gen.v, regenerated from /repo on every run. *)
From Coq Require Import Reals List.
From PyQMC Require Import base.Vec3R.
Import ListNotations. Open Scope R_scope.

(* density of N(a + drift(a), sigma2 * I) at b, and its logarithm up to the normalisation *)
Definition lnT (sigma2 : R) (drift : vec3 -> vec3) (a b : vec3) : R :=
  - norm2 (vsub (vsub b a) (drift a)) / (2 * sigma2).
Definition Tdens (sigma2 : R) (drift : vec3 -> vec3) (a b : vec3) : R :=
  / (sqrt (2 * PI * sigma2)) ^ 3 * exp (lnT sigma2 drift a b).

Definition mh_prob (pi_ratio t_ratio : R) : R := Rmin 1 (pi_ratio * t_ratio).

(* sample_many: wf_ratios_i = |Psi_i(R')/Psi_i(R)|^2, log_values_i = ln|Psi_i(R)|,
   weights = exp(2 (log_values - log_values[0])), ratio = t_prob * sum(wf_ratios*weights) / sum(weights) *)
Definition rsum (l : list R) : R := fold_right Rplus 0 l.
Definition mix_weights (logs : list R) : list R := map (fun l => exp (2 * (l - hd 0 logs))) logs.
Definition mix_ratio (t_prob : R) (absratios logs : list R) : R :=
  t_prob * rsum (map (fun rw => (fst rw) ^ 2 * snd rw) (combine absratios (mix_weights logs))) / rsum (mix_weights logs).
