(* C01 — property theorems only.  The kernel definitions vmc_* / mc_limdrift come from gen/Kernels_Gen.v, which
   the check regenerates from /repo's mc.py on every run: these theorems are re-checked against what the code says now. *)
From Coq Require Import Reals Lra List.
From PyQMC Require Import C18.Model C18.Proofs.
From PyQMC Require Import base.Vec3R gen.Kernels_Gen C01.Model C01.Proofs.
Import ListNotations. Open Scope R_scope.

(* the exponent of the acceptance ratio is ln T(x'->x) - ln T(x->x') for drift tstep * D and variance tstep: the squared noise of the reverse
   move minus the squared noise of the forward move, over 2 tstep *)
Theorem C01_exponent_is_log_density_ratio : forall tstep D x gauss, 0 < tstep ->
  let x' := vmc_newcoorde tstep x gauss (D x) in let drift := fun a => vscal tstep (D a) in
  vmc_lnT_arg tstep gauss (D x) (D x') = lnT tstep drift x' x - lnT tstep drift x x'.
Proof. intros. apply vmc_lnT_arg_is_log_density_ratio. assumption. Qed.
Print Assumptions C01_exponent_is_log_density_ratio.

(* ... and the quantity compared with the uniform number is |Psi'/Psi|^2 times the exponential of it *)
Theorem C01_ratio_is_psi2_times_tprob : forall tstep u v gauss dx dn,
  (vmc_accept tstep u v gauss dx dn <-> u < vmc_ratio tstep v gauss dx dn) /\
  vmc_ratio tstep v gauss dx dn = Rabs v ^ 2 * vmc_t_prob tstep gauss dx dn /\ vmc_t_prob tstep gauss dx dn = exp (vmc_lnT_arg tstep gauss dx dn).
Proof. intros. split; [|split]; [eapply vmc_accept_shape|eapply vmc_ratio_shape|reflexivity]. Qed.
Print Assumptions C01_ratio_is_psi2_times_tprob.

(* the Gaussian actually drawn (scale = sqrt tstep) has variance tstep *)
Theorem C01_proposal_variance_is_tstep : forall tstep, 0 < tstep -> vmc_proposal_scale tstep ^ 2 = tstep.
Proof. exact vmc_proposal_variance. Qed.
Print Assumptions C01_proposal_variance_is_tstep.

Theorem C01_tprob_is_reverse_over_forward_density : forall tstep D x gauss, 0 < tstep ->
  let x' := vmc_newcoorde tstep x gauss (D x) in let drift := fun a => vscal tstep (D a) in
  vmc_t_prob tstep gauss (D x) (D x') = Tdens tstep drift x' x / Tdens tstep drift x x'.
Proof. intros. apply vmc_tprob_is_density_ratio. assumption. Qed.
Print Assumptions C01_tprob_is_reverse_over_forward_density.

(* the acceptance set for the uniform is [0, min(1, |Psi'|^2 T(R'->R) / (|Psi|^2 T(R->R')))) — for every drift function,
   every ratio function, every position, noise and uniform *)
Theorem C01_acceptance_is_metropolis_hastings : forall tstep D absr x gauss u, 0 < tstep -> 0 <= u < 1 ->
  let x' := vmc_newcoorde tstep x gauss (D x) in let drift := fun a => vscal tstep (D a) in
  (vmc_accept tstep u (absr x x') gauss (D x) (D x') <->
   u < mh_prob (Rabs (absr x x') ^ 2) (Tdens tstep drift x' x / Tdens tstep drift x x')).
Proof. intros. apply vmc_accept_is_metropolis_hastings; assumption. Qed.
Print Assumptions C01_acceptance_is_metropolis_hastings.

(* hence detailed balance with |Psi|^2: pi T A = pi' T' A' *)
Theorem C01_detailed_balance : forall a b, 0 < a -> 0 < b -> a * Rmin 1 (b / a) = b * Rmin 1 (a / b).
Proof. exact detailed_balance. Qed.
Print Assumptions C01_detailed_balance.

(* the outcome is applied consistently: move target, update target and the point where the reverse quantities were
   evaluated are all the proposed point; both masks are the acceptance test *)
Theorem C01_effects_consistent : forall tstep D x gauss u,
  let x' := vmc_newcoorde tstep x gauss (D x) in
  vmc_moved_to tstep x gauss (D x) = x' /\ vmc_update_position tstep x gauss (D x) = x' /\
  vmc_second_gradient_position tstep x gauss (D x) = x' /\
  (forall v dn, vmc_move_mask tstep u v gauss (D x) dn = vmc_accept tstep u v gauss (D x) dn) /\
  (forall v dn, vmc_update_mask tstep u v gauss (D x) dn = vmc_accept tstep u v gauss (D x) dn).
Proof. intros. apply vmc_effects. Qed.
Print Assumptions C01_effects_consistent.

(* rejected walkers keep their coordinates exactly (list model of configs.move shared with C18) *)
Theorem C01_rejected_walkers_keep_coordinates : forall e s news accept i,
  (i < length s)%nat -> length news = length s -> length accept = length s -> nth i accept false = false ->
  nth i (move e s news accept) [] = nth i s [].
Proof. intros e s news accept i H1 H2 H3 H4. rewrite move_spec by assumption. rewrite H4. reflexivity. Qed.
Print Assumptions C01_rejected_walkers_keep_coordinates.

Theorem C01_limdrift_caps_the_drift : forall cutoff g, 0 < cutoff ->
  (sqrt (norm2 g) <= cutoff -> mc_limdrift cutoff g = g) /\
  (cutoff < sqrt (norm2 g) -> mc_limdrift cutoff g = vscal (cutoff / sqrt (norm2 g)) g /\ sqrt (norm2 (mc_limdrift cutoff g)) = cutoff).
Proof. exact mc_limdrift_spec. Qed.
Print Assumptions C01_limdrift_caps_the_drift.

(* multi-wave-function sampler: same rule with |Psi|^2 replaced by sum_i |Psi_i|^2 *)
Theorem C01_mixture_ratio : forall t_prob (psi psi' : list R),
  psi <> [] -> length psi' = length psi -> Forall (fun p => 0 < p) psi ->
  mix_ratio t_prob (map (fun pp => snd pp / fst pp) (combine psi psi')) (map ln psi)
  = t_prob * rsum (map (fun p => p ^ 2) psi') / rsum (map (fun p => p ^ 2) psi).
Proof. exact mixture_ratio. Qed.
Print Assumptions C01_mixture_ratio.
