(* C15 — model of the per-block datasets of one HDF5 results file under hdftools.append_hdf with the row counter
   f.attrs["nrows"] (the code after "fix: a block that was only partly written to the HDF5 file is never used").
   A dataset is a list of rows; a row is Some b (written for block b) or None (created by resize, not yet assigned).
   One block write = the list of micro-operations below; a failure (I/O error, interrupt) = stopping after any prefix. *)
From Coq Require Import List Arith Bool.
Import ListNotations.

Notation row := (option nat).
Record file := mkF { dsets : list (list row); nrows : nat }.

Inductive mop :=
| Resize (k len : nat)        (* f[k].resize((len, ...)): truncates or pads with unassigned rows *)
| Assign (k i b : nat)        (* f[k][i] = data of block b *)
| Commit (n : nat).           (* f.attrs["nrows"] = n *)

Fixpoint updk {A} (l : list A) (k : nat) (g : A -> A) : list A :=
  match l, k with [], _ => [] | x :: t, O => g x :: t | x :: t, S k' => x :: updk t k' g end.
Definition resize (len : nat) (d : list row) : list row := firstn len d ++ repeat None (len - length d).
Fixpoint setnth (i : nat) (v : row) (d : list row) : list row :=
  match d, i with [], _ => [] | _ :: t, O => v :: t | x :: t, S i' => x :: setnth i' v t end.

Definition step (f : file) (o : mop) : file :=
  match o with
  | Resize k len => mkF (updk (dsets f) k (resize len)) (nrows f)
  | Assign k i b => mkF (updk (dsets f) k (setnth i (Some b))) (nrows f)
  | Commit n => mkF (dsets f) n
  end.
Definition run (f : file) (ops : list mop) : file := fold_left step ops f.

(* append_hdf(f, data) for block b on a file with K datasets: n = f.attrs["nrows"];
   for every key: resize to n+1, assign row n; finally nrows = n+1 *)
Definition append_ops (K n b : nat) : list mop :=
  flat_map (fun k => [Resize k (S n); Assign k n b]) (seq 0 K) ++ [Commit (S n)].

(* the restart code reads the last COMMITTED row of the "block" dataset (dataset 0) *)
Definition next_block (f : file) : nat :=
  match nrows f with
  | O => 0
  | S m => match nth m (nth 0 (dsets f) []) None with Some b => S b | None => 0 end
  end.

(* one attempt to write the next block: complete (cut = None) or failing after `cut` micro-operations *)
Definition attempt (K : nat) (f : file) (cut : option nat) : file :=
  let ops := append_ops K (nrows f) (next_block f) in
  match cut with None => run f ops | Some c => run f (firstn c ops) end.
Definition session (K : nat) (f : file) (cuts : list (option nat)) : file := fold_left (attempt K) cuts f.

Definition empty_file (K : nat) : file := mkF (repeat [] K) 0.

(* ---- the protocol before the fix: each dataset is extended by one row from its own current length, rows
   are read back with [-1]; no counter *)
Definition old_append_ops (lens : list nat) (b : nat) : list mop :=
  flat_map (fun kl => [Resize (fst kl) (S (snd kl)); Assign (fst kl) (snd kl) b]) (combine (seq 0 (length lens)) lens).
Definition old_next_block (f : file) : nat :=
  match last (nth 0 (dsets f) []) None with Some b => S b | None => 0 end.
Definition old_attempt (f : file) (cut : option nat) : file :=
  let ops := old_append_ops (map (@length row) (dsets f)) (old_next_block f) in
  match cut with None => run f ops | Some c => run f (firstn c ops) end.

(* observable summary used by the correspondence: (nrows, lengths, rows as block tags with 0 = unassigned, b+1 = block b) *)
Definition tags (d : list row) : list nat := map (fun r => match r with Some b => S b | None => 0 end) d.
Definition show (f : file) := (nrows f, map tags (dsets f)).
