From Coq Require Import List Arith Bool Lia.
From PyQMC Require Import C15.Model.
Import ListNotations.

(* every dataset has at least the committed rows, and committed row i describes block i *)
Definition good_ds (n : nat) (d : list row) : Prop := n <= length d /\ forall i, i < n -> nth i d None = Some i.
Definition Inv (f : file) : Prop := Forall (good_ds (nrows f)) (dsets f).
Definition aligned (f : file) : Prop := Forall (fun d => length d = nrows f) (dsets f).

Lemma updk_length {A} (l : list A) k g : length (updk l k g) = length l.
Proof. revert k; induction l; destruct k; cbn; auto. Qed.
Lemma Forall_updk {A} (P : A -> Prop) l k g : Forall P l -> (forall x, P x -> P (g x)) -> Forall P (updk l k g).
Proof. intros H Hg. revert k. induction H; destruct k; cbn; constructor; auto. Qed.
Lemma nth_updk_same {A} (l : list A) k g d : k < length l -> nth k (updk l k g) d = g (nth k l d).
Proof. revert k; induction l as [|x t IH]; intros k H; [cbn in H; lia|]. destruct k; cbn; [reflexivity|]. apply IH. cbn in H. lia. Qed.
Lemma nth_updk_other {A} (l : list A) k j g d : j <> k -> nth j (updk l k g) d = nth j l d.
Proof. revert k j; induction l as [|x t IH]; intros k j H; destruct k, j; cbn; try reflexivity; try lia. apply IH. lia. Qed.

Lemma resize_length len d : length (resize len d) = len.
Proof. unfold resize. rewrite app_length, firstn_length, repeat_length. lia. Qed.
Lemma nth_firstn_lt {A} (d : list A) n i def : i < n -> nth i (firstn n d) def = nth i d def.
Proof. revert n i; induction d as [|x t IH]; intros n i H; destruct n, i; cbn; try lia; auto. apply IH; lia. Qed.
Lemma resize_nth len d i : i < len -> i < length d -> nth i (resize len d) None = nth i d None.
Proof. intros H1 H2. unfold resize. rewrite app_nth1 by (rewrite firstn_length; lia). apply nth_firstn_lt. assumption. Qed.
Lemma setnth_length i v d : length (setnth i v d) = length d.
Proof. revert i; induction d; destruct i; cbn; auto. Qed.
Lemma setnth_other i j v d : j <> i -> nth j (setnth i v d) None = nth j d None.
Proof. revert i j; induction d as [|x t IH]; intros i j H; destruct i, j; cbn; try reflexivity; try lia. apply IH. lia. Qed.
Lemma setnth_same i v d : i < length d -> nth i (setnth i v d) None = v.
Proof. revert i; induction d as [|x t IH]; intros i H; [cbn in H; lia|]. destruct i; cbn; [reflexivity|]. apply IH. cbn in H. lia. Qed.

Lemma good_resize n len d : n <= len -> good_ds n d -> good_ds n (resize len d).
Proof.
  intros Hl [H1 H2]. split; [rewrite resize_length; assumption|].
  intros i Hi. rewrite resize_nth by lia. apply H2. assumption.
Qed.
Lemma good_setnth n i v d : n <= i -> good_ds n d -> good_ds n (setnth i v d).
Proof.
  intros Hi [H1 H2]. split; [rewrite setnth_length; assumption|].
  intros j Hj. rewrite setnth_other by lia. apply H2. assumption.
Qed.

(* a micro-operation of the append at row n = nrows (other than the commit) never disturbs a committed row *)
Definition touches_only_uncommitted (n : nat) (o : mop) : Prop :=
  match o with Resize _ len => n <= len | Assign _ i _ => n <= i | Commit _ => False end.

Lemma step_inv f o : Inv f -> touches_only_uncommitted (nrows f) o -> Inv (step f o) /\ nrows (step f o) = nrows f.
Proof.
  intros HI Ht. destruct o as [k len|k i b|m]; cbn in Ht; [| |contradiction]; unfold Inv in *; cbn [step dsets nrows]; split; try reflexivity.
  - apply Forall_updk; [assumption|]. intros x Hx. apply good_resize; assumption.
  - apply Forall_updk; [assumption|]. intros x Hx. apply good_setnth; assumption.
Qed.

Lemma run_inv ops : forall f n, nrows f = n -> Inv f -> Forall (touches_only_uncommitted n) ops ->
  Inv (run f ops) /\ nrows (run f ops) = n.
Proof.
  induction ops as [|o ops IH]; intros f n Hn HI Hf; [split; assumption|].
  inversion Hf as [|? ? Ho Hr]; subst. cbn [run fold_left].
  destruct (step_inv f o HI Ho) as [HI' Hn']. apply IH; [assumption|assumption|assumption].
Qed.

Lemma body_ops_safe K n b : Forall (touches_only_uncommitted n) (flat_map (fun k => [Resize k (S n); Assign k n b]) (seq 0 K)).
Proof.
  apply Forall_forall. intros o Ho. apply in_flat_map in Ho. destruct Ho as [k [_ [<-|[<-|[]]]]]; cbn; lia.
Qed.

Lemma firstn_Forall {A} (P : A -> Prop) n l : Forall P l -> Forall P (firstn n l).
Proof. intros H. revert n. induction H; destruct n; cbn; constructor; auto. Qed.

Lemma body_length n b K : forall s, length (flat_map (fun k => [Resize k (S n); Assign k n b]) (seq s K)) = 2 * K.
Proof. induction K as [|K IH]; intros s; [reflexivity|]. cbn [seq flat_map app length]. rewrite IH. lia. Qed.

(* crash at ANY point of the block write: the committed part is intact and the counter unchanged *)
Theorem crash_keeps_committed K f c : Inv f -> c <= 2 * K ->
  Inv (attempt K f (Some c)) /\ nrows (attempt K f (Some c)) = nrows f.
Proof.
  intros HI Hc. unfold attempt, append_ops.
  pose proof (body_length (nrows f) (next_block f) K 0) as Hlen.
  rewrite firstn_app. replace (c - _) with 0 by lia. cbn [firstn]. rewrite app_nil_r.
  apply run_inv; [reflexivity|assumption|]. apply firstn_Forall. apply body_ops_safe.
Qed.

(* the body of a complete append makes row n of EVERY dataset describe the new block and every length n+1 *)
Lemma body_complete K : forall f n b, nrows f = n -> length (dsets f) = K ->
  let f' := run f (flat_map (fun k => [Resize k (S n); Assign k n b]) (seq 0 K)) in
  Forall (fun d => length d = S n /\ nth n d None = Some b) (dsets f') /\ length (dsets f') = K.
Proof.
  intros f n b Hn HK.
  assert (G : forall j f0, j <= K -> length (dsets f0) = K ->
            Forall (fun d => length d = S n /\ nth n d None = Some b) (firstn (K - j) (dsets f0)) ->
            let f1 := run f0 (flat_map (fun k => [Resize k (S n); Assign k n b]) (seq (K - j) j)) in
            Forall (fun d => length d = S n /\ nth n d None = Some b) (dsets f1) /\ length (dsets f1) = K).
  { induction j as [|j IH]; intros f0 Hj HK0 Hdone.
    - cbn. rewrite Nat.sub_0_r in Hdone. rewrite <- HK0 in Hdone. rewrite firstn_all in Hdone. split; assumption.
    - cbn [seq flat_map app run fold_left]. 
      set (k := K - S j) in *.
      set (f2 := step (step f0 (Resize k (S n))) (Assign k n b)).
      replace (S k) with (K - j) by lia.
      apply IH; [lia| |].
      + subst f2. cbn [step dsets]. rewrite !updk_length. assumption.
      + subst f2. cbn [step dsets]. apply Forall_forall. intros d Hd.
        apply In_nth with (d := []) in Hd. destruct Hd as [i [Hi Ed]]. rewrite firstn_length in Hi. rewrite !updk_length in Hi.
        rewrite nth_firstn_lt in Ed by lia. subst d.
        destruct (Nat.eq_dec i k) as [->|Hne].
        * rewrite nth_updk_same by (rewrite updk_length; lia). rewrite nth_updk_same by lia.
          split; [rewrite setnth_length, resize_length; reflexivity|]. apply setnth_same. rewrite resize_length. lia.
        * rewrite !nth_updk_other by assumption.
          rewrite Forall_forall in Hdone. apply Hdone. rewrite <- (nth_firstn_lt _ k) by lia. apply nth_In. rewrite firstn_length. lia. }
  specialize (G K f ltac:(lia) HK). rewrite Nat.sub_diag in G. apply G. cbn. constructor.
Qed.

Lemma Inv_next_block f : Inv f -> dsets f <> [] -> next_block f = nrows f.
Proof.
  intros HI Hne. unfold next_block. destruct (nrows f) as [|m] eqn:En; [reflexivity|].
  destruct (dsets f) as [|d0 r] eqn:Ed; [contradiction|]. unfold Inv in HI. rewrite Ed, En in HI. inversion HI as [|? ? [H1 H2] _]; subst.
  cbn [nth]. rewrite (H2 m) by lia. reflexivity.
Qed.

(* a COMPLETE block write, after any history satisfying the invariant: aligned file, one more committed row, invariant kept *)
Theorem complete_append K f : 0 < K -> Inv f -> length (dsets f) = K ->
  let f' := attempt K f None in
  Inv f' /\ aligned f' /\ nrows f' = S (nrows f) /\ length (dsets f') = K.
Proof.
  intros HK HI HL. unfold attempt, append_ops. unfold run. rewrite fold_left_app. cbn [fold_left].
  fold (run f (flat_map (fun k => [Resize k (S (nrows f)); Assign k (nrows f) (next_block f)]) (seq 0 K))).
  set (n := nrows f). set (body := flat_map _ _).
  assert (Hnb : next_block f = n) by (apply Inv_next_block; [assumption|destruct (dsets f); [cbn in HL; lia|discriminate]]).
  destruct (run_inv body f n eq_refl HI (body_ops_safe K n (next_block f))) as [HI1 Hn1].
  destruct (body_complete K f n (next_block f) eq_refl HL) as [HB HL1]. fold body in HB, HL1.
  cbn [step dsets nrows]. repeat split; try assumption.
  - unfold Inv. cbn [dsets nrows]. apply Forall_forall. intros d Hd.
    unfold Inv in HI1. rewrite Forall_forall in HB, HI1. destruct (HB d Hd) as [Hlen Hrow]. destruct (HI1 d Hd) as [G1 G2]. rewrite Hn1 in G1, G2.
    split; [lia|]. intros i Hi. destruct (Nat.eq_dec i n) as [->|Hne]; [rewrite Hrow, Hnb; reflexivity|apply G2; lia].
  - unfold aligned. cbn [dsets nrows]. apply Forall_forall. intros d Hd. rewrite Forall_forall in HB. apply HB. assumption.
Qed.

(* any sequence of attempts (each failing at any point, or completing): the invariant always holds, the committed
   block numbers are 0..nrows-1 without gap or duplicate, and whenever the last attempt completed the file is aligned *)
Theorem session_safe K cuts : 0 < K -> (forall c, In (Some c) cuts -> c <= 2 * K) ->
  forall f, Inv f -> length (dsets f) = K ->
  let f' := session K f cuts in
  Inv f' /\ length (dsets f') = K /\ (match rev cuts with None :: _ => aligned f' | _ => True end).
Proof.
  intros HK. induction cuts as [|c cuts IH] using rev_ind; intros Hc f HI HL.
  - cbn. repeat split; assumption.
  - unfold session. rewrite fold_left_app. cbn [fold_left]. fold (session K f cuts).
    destruct (IH ltac:(intros; apply Hc; apply in_or_app; left; assumption) f HI HL) as [HI' [HL' _]].
    rewrite rev_app_distr. cbn [rev app].
    destruct c as [c|].
    + assert (c <= 2 * K) by (apply Hc; apply in_or_app; right; left; reflexivity).
      destruct (crash_keeps_committed K (session K f cuts) c HI' H) as [G1 G2].
      repeat split; try assumption.
      unfold attempt. 
      assert (forall ops g, length (dsets (run g ops)) = length (dsets g)) as RL.
      { induction ops as [|o ops IHo]; intros g; [reflexivity|]. cbn [run fold_left]. fold (run (step g o) ops). rewrite IHo.
        destruct o; cbn [step dsets]; rewrite ?updk_length; reflexivity. }
      rewrite RL. assumption.
    + destruct (complete_append K (session K f cuts) HK HI' HL') as [G1 [G2 [G3 G4]]]. repeat split; assumption.
Qed.

Lemma Inv_empty K : Inv (empty_file K) /\ length (dsets (empty_file K)) = K.
Proof.
  unfold empty_file, Inv. cbn. split; [|apply repeat_length]. apply Forall_forall. intros d Hd. apply repeat_spec in Hd. subst d.
  split; [cbn; lia|intros i Hi; lia].
Qed.
