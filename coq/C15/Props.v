(* C15 — property theorems only. *)
From Coq Require Import List Arith Bool Lia.
From PyQMC Require Import C15.Model C15.Proofs.
Import ListNotations.

(* a failure after ANY number of micro-operations of a block write leaves every committed row in place and the
   committed-row counter unchanged (so the restart code, which reads row nrows-1, never sees the partial block) *)
Theorem C15_failure_keeps_committed_rows : forall K f c, Inv f -> c <= 2 * K ->
  Inv (attempt K f (Some c)) /\ nrows (attempt K f (Some c)) = nrows f.
Proof. exact crash_keeps_committed. Qed.
Print Assumptions C15_failure_keeps_committed_rows.

(* a block write that completes — after whatever leftovers earlier failures put in the file — leaves all datasets
   with the same number of rows = counter, row i of every dataset describing block i *)
Theorem C15_completed_write_is_aligned : forall K f, 0 < K -> Inv f -> length (dsets f) = K ->
  let f' := attempt K f None in
  Inv f' /\ aligned f' /\ nrows f' = S (nrows f) /\ length (dsets f') = K.
Proof. exact complete_append. Qed.
Print Assumptions C15_completed_write_is_aligned.

(* every finite sequence of attempts — any number of failures, each at any point, first or later blocks — keeps the
   invariant; after a completed attempt the file is aligned and its block numbers are 0..nrows-1 *)
Theorem C15_any_failure_sequence_safe : forall K cuts, 0 < K -> (forall c, In (Some c) cuts -> c <= 2 * K) ->
  forall f, Inv f -> length (dsets f) = K ->
  let f' := session K f cuts in
  Inv f' /\ length (dsets f') = K /\ (match rev cuts with None :: _ => aligned f' | _ => True end).
Proof. exact session_safe. Qed.
Print Assumptions C15_any_failure_sequence_safe.

Theorem C15_new_file_satisfies_invariant : forall K, Inv (empty_file K) /\ length (dsets (empty_file K)) = K.
Proof. exact Inv_empty. Qed.
Print Assumptions C15_new_file_satisfies_invariant.

(* the protocol before the fix is refuted: 3 datasets, two complete blocks, a failure after the first dataset of the
   third block was extended, then a restarted run that completes one more block: dataset 0 has 4 rows, the others 3,
   and row 2 of dataset 0 describes block 2 while row 2 of the others describes block 3 *)
Theorem C15_old_protocol_refuted :
  let f2 := old_attempt (old_attempt (mkF [[];[];[]] 0) None) None in
  let f3 := old_attempt (old_attempt f2 (Some 2)) None in
  map tags (dsets f3) = [[1;2;3;4]; [1;2;4]; [1;2;4]].
Proof. vm_compute. reflexivity. Qed.
Print Assumptions C15_old_protocol_refuted.

(* the same history under the repaired protocol *)
Example C15_new_protocol_same_history :
  show (session 3 (empty_file 3) [None; None; Some 2; None]) = (3, [[1;2;3]; [1;2;3]; [1;2;3]]) /\
  show (session 3 (empty_file 3) [None; Some 5; Some 1; None; Some 6]) = (2, [[1;2;3]; [1;2;3]; [1;2;3]]).
Proof. split; vm_compute; reflexivity. Qed.
Print Assumptions C15_new_protocol_same_history.
