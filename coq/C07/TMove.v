From Coq Require Import ZArith List Bool Lia.
From PyQMC Require Import base.Cnt C07.Model.
Import ListNotations. Open Scope Z_scope.

Lemma pospart_nonneg a : nonneg (pospart a).
Proof. unfold nonneg, pospart. apply Forall_forall. intros x Hx. apply in_map_iff in Hx. destruct Hx as [y [<- _]]. lia. Qed.
Lemma pospart_length a : length (pospart a) = length a.
Proof. apply map_length. Qed.
Lemma pospart_nth a i : nth i (pospart a) 0 = Z.max 0 (nth i a 0).
Proof. unfold pospart. exact (map_nth (Z.max 0) a 0 i). Qed.

Lemma ss_right_all w s x : nonneg w -> 0 < s -> s * total w <= x -> ss true w s x = Z.of_nat (length w).
Proof.
  intros Hw Hs Hx. unfold ss.
  rewrite (cnt_ext _ (fun m => (0 <=? m) && (m <? Z.of_nat (length w)))).
  - rewrite cnt_interval. lia.
  - intros m Hm. cbv zeta. replace (0 <=? m) with true by (symmetry; apply Z.leb_le; lia).
    replace (m <? Z.of_nat (length w)) with true by (symmetry; apply Z.ltb_lt; lia). cbn [andb].
    apply Z.leb_le. pose proof (pre_mono w Hw (S (Z.to_nat m)) (length w) ltac:(lia)). unfold total in Hx. nia.
Qed.

Section TMove.
Variables (a : list Z) (den M rho : Z).
Hypothesis Hden : 0 < den.
Hypothesis HM : 0 < M.
Hypothesis Hrho : 0 <= rho < M.
Let w := pospart a.
Let W := total w.
Let x := rho * (den + W).

Lemma W_nonneg : 0 <= W.
Proof. subst W. unfold total. apply pre_nonneg. apply pospart_nonneg. Qed.

(* point i is selected exactly for uniforms r = rho/M with P_i/(den+W) <= r < P_{i+1}/(den+W):
   an interval of length t_i^+ / (1 + sum t^+) *)
Theorem tmove_interval (i : nat) : (i < length a)%nat ->
  (tmove_select true a den M rho = Z.of_nat i <-> M * pre w i <= rho * (den + W) < M * pre w (S i)).
Proof.
  intros Hi. unfold tmove_select. fold w W x. pose proof W_nonneg as HW.
  destruct (Z_lt_le_dec x (M * W)) as [Hlt|Hge].
  - apply ss_right_iff; [apply pospart_nonneg|assumption|unfold w; rewrite pospart_length; assumption|].
    split; [subst x; nia|exact Hlt].
  - rewrite ss_right_all by (try apply pospart_nonneg; try assumption; subst W; exact Hge).
    assert (Lw : length w = length a) by apply pospart_length. rewrite Lw.
    split; [intros E; apply Nat2Z.inj in E; lia|].
    intros [_ H2]. exfalso.
    pose proof (pre_mono w (pospart_nonneg a) (S i) (length w) ltac:(lia)) as P. change (pre w (length w)) with W in P.
    subst x. nia.
Qed.

(* a selected point always has strictly positive amplitude *)
Theorem tmove_selected_positive (i : nat) : (i < length a)%nat ->
  tmove_select true a den M rho = Z.of_nat i -> 0 < nth i a 0.
Proof.
  intros Hi E. apply (tmove_interval i Hi) in E.
  assert (Hlt : pre w i < pre w (S i)) by nia.
  rewrite (pre_S_nth w i) in Hlt by (unfold w; rewrite pospart_length; assumption).
  unfold w in Hlt. rewrite pospart_nth in Hlt. lia.
Qed.

(* no move is proposed exactly for r >= W/(den+W), i.e. with probability 1/(1 + sum t^+) *)
Theorem tmove_none : tmove_moves true a den M rho = false <-> M * W <= rho * (den + W).
Proof.
  unfold tmove_moves, tmove_select. fold w W x. pose proof W_nonneg as HW. rewrite Z.ltb_ge. split.
  - intros H. destruct (Z_lt_le_dec x (M * W)) as [Hlt|Hge]; [|subst x; exact Hge]. exfalso.
    pose proof (ss_right_lt w M x (pospart_nonneg a) HM ltac:(split; [subst x; nia|exact Hlt])) as B.
    assert (Lw : length w = length a) by apply pospart_length. rewrite Lw in B. lia.
  - intros H. rewrite ss_right_all by (try apply pospart_nonneg; try assumption; subst W x; exact H).
    assert (Lw : length w = length a) by apply pospart_length. rewrite Lw. lia.
Qed.

Theorem tmove_index_range : 0 <= tmove_select true a den M rho <= Z.of_nat (length a).
Proof.
  unfold tmove_select, ss. rewrite pospart_length.
  apply (cnt_bounds (fun m => let p := M * pre (pospart a) (S (Z.to_nat m)) in p <=? rho * (den + total (pospart a))) (length a)).
Qed.
End TMove.

(* the selection with side="left" (before "fix: T-move selection ...") picks a point of zero amplitude when r = 0 *)
Lemma tmove_left_refuted : tmove_select false [0; 1] 1 4 0 = 0 /\ tmove_moves false [0; 1] 1 4 0 = true /\ tmove_select true [0; 1] 1 4 0 = 1.
Proof. repeat split; vm_compute; reflexivity. Qed.
