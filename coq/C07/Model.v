(* C07 — hand-written part: the T-move selection of dmc.propose_tmoves in exact integer units (shared searchsorted model of
   base/Cnt.v) and the block-level control quantities of rundmc for an exact eigenfunction.
   The drift-diffusion kernel, compute_S and the weight update are NOT written here: they are gen/Kernels_Gen.v. *)
From Coq Require Import ZArith List Bool.
From PyQMC Require Import base.Cnt.
Import ListNotations. Open Scope Z_scope.

(* amplitudes t_j = a_j / den (integers a_j, den > 0); forward_probability = positive part;
   norm = 1 + sum(positive) = (den + W)/den; cdf_j = P_j / (den + W); uniform r = rho / M.
   selected = searchsorted(cdf, r, side) ; cdf_j <= r  <->  M * P_j <= rho * (den + W) *)
Definition pospart (a : list Z) : list Z := map (Z.max 0) a.
Definition tmove_select (right : bool) (a : list Z) (den M rho : Z) : Z :=
  ss right (pospart a) M (rho * (den + total (pospart a))).
(* move_selected = selected < number of points *)
Definition tmove_moves (right : bool) (a : list Z) (den M rho : Z) : bool :=
  tmove_select right a den M rho <? Z.of_nat (length a).
