From Coq Require Import Reals Lra Lia ZArith List Bool.
From PyQMC Require Import base.Vec3R gen.Kernels_Gen C01.Model C01.Proofs.
Import ListNotations.

(* ================= drift-diffusion kernel (real-valued R) ================= *)
Open Scope R_scope.
Section DDKernel.
Variable tstep : R.
Variable Dt : vec3 -> vec3.      (* limdrift(Re grad ln Psi, tstep): the Umrigar drift ALREADY multiplied by the time step *)
Variables (x gauss : vec3) (u : R).
Hypothesis tpos : 0 < tstep.
Let x' := dd_eposnew_real x gauss (Dt x).

(* shape-independent proofs: the generated definitions are unfolded to the coordinates and compared as rational functions *)
Ltac vec_field := unfold lnT, norm2, vsum, vpow, vmul, vsub, vadd, vscal; cbn [vx vy vz]; field.
Ltac vec_ring := unfold lnT, norm2, vsum, vpow, vmul, vsub, vadd, vscal; cbn [vx vy vz]; ring.

Lemma dd_lnT_arg_is_log_density_ratio :
  dd_lnT_arg_real tstep gauss (Dt x) (Dt x') = lnT tstep Dt x' x - lnT tstep Dt x x'.
Proof.
  unfold lnT. set (d := Dt x'). subst x'. set (d0 := Dt x) in *. clearbody d d0.
  unfold dd_lnT_arg_real, dd_eposnew_real. vec_field. lra.
Qed.
Lemma dd_variance : dd_proposal_scale_real tstep ^ 2 = tstep.
Proof. unfold dd_proposal_scale_real. cbn. rewrite Rmult_1_r. apply sqrt_sqrt. lra. Qed.

Theorem dd_tprob_is_density_ratio :
  dd_t_prob_real tstep gauss (Dt x) (Dt x') = Tdens tstep Dt x' x / Tdens tstep Dt x x'.
Proof.
  unfold Tdens.
  assert (Hs : sqrt (2 * PI * tstep) <> 0).
  { apply Rgt_not_eq, sqrt_lt_R0. pose proof PI_RGT_0. nra. }
  replace (/ sqrt (2 * PI * tstep) ^ 3 * exp (lnT tstep Dt x' x) / (/ sqrt (2 * PI * tstep) ^ 3 * exp (lnT tstep Dt x x')))
    with (exp (lnT tstep Dt x' x) / exp (lnT tstep Dt x x')).
  2:{ field; repeat split; try (apply Rgt_not_eq, exp_pos); try exact Hs. }
  assert (E : exp (lnT tstep Dt x' x) / exp (lnT tstep Dt x x') = exp (lnT tstep Dt x' x - lnT tstep Dt x x')).
  { unfold Rminus. rewrite exp_plus, exp_Ropp. reflexivity. }
  rewrite E. clear E. rewrite <- dd_lnT_arg_is_log_density_ratio. reflexivity.
Qed.

(* The acceptance test may be written `u < |v|^2 t_prob sign(v)` or `u < |v|^2 t_prob /\ 0 < v` (or with the factors in another order): the
   proofs below unfold it, name the one exponential it contains (the generated dd_t_prob_* is that very sub-expression), and finish by real arithmetic. *)
Lemma dd_tprob_same dx dn : dd_t_prob_complex tstep gauss dx dn = dd_t_prob_real tstep gauss dx dn.
Proof. unfold dd_t_prob_complex, dd_t_prob_real. first [reflexivity | f_equal; vec_field; lra]. Qed.
Ltac name_tprob q :=
  match goal with |- context [exp ?a] => set (q := exp a) in * end.
Ltac finish_accept := unfold mh_prob, Rmin; repeat match goal with |- context [Rle_dec ?a ?b] => destruct (Rle_dec a b) end;
  split; intros; repeat match goal with H : _ /\ _ |- _ => destruct H end; repeat split; try lra; try nra.

(* complex wave functions: plain Metropolis-Hastings *)
Theorem dd_accept_complex_is_mh (v : R) : 0 <= u < 1 ->
  (dd_accept_complex tstep u v gauss (Dt x) (Dt x') <-> u < mh_prob (Rabs v ^ 2) (Tdens tstep Dt x' x / Tdens tstep Dt x x')).
Proof.
  intros Hu. rewrite <- dd_tprob_is_density_ratio, <- dd_tprob_same. unfold dd_accept_complex, dd_t_prob_complex.
  name_tprob t. set (a := Rabs v ^ 2). finish_accept.
Qed.

(* real wave functions: same rule when the sign is kept ... *)
Theorem dd_accept_real_same_sign (v : R) : 0 <= u < 1 -> 0 < v ->
  (dd_accept_real tstep u v gauss (Dt x) (Dt x') <-> u < mh_prob (Rabs v ^ 2) (Tdens tstep Dt x' x / Tdens tstep Dt x x')).
Proof.
  intros Hu Hv. rewrite <- dd_tprob_is_density_ratio. unfold dd_accept_real, dd_t_prob_real. rewrite ?(sgn_pos v Hv).
  name_tprob t. set (a := Rabs v ^ 2). finish_accept.
Qed.

(* ... and a move that changes the sign of Psi (or lands on the node) is never accepted: fixed node *)
Theorem dd_fixed_node (v : R) (dn : vec3) : 0 <= u -> v <= 0 -> ~ dd_accept_real tstep u v gauss (Dt x) dn.
Proof.
  intros Hu Hv. unfold dd_accept_real.
  name_tprob t. assert (Ht : 0 < t) by (subst t; apply exp_pos).
  assert (Ha : 0 <= Rabs v ^ 2) by (apply pow2_ge_0). set (a := Rabs v ^ 2) in *.
  assert (Hat : 0 <= a * t) by (apply Rmult_le_pos; lra).
  destruct (Rle_lt_or_eq_dec v 0 Hv) as [Hneg|Hz].
  - rewrite ?(sgn_neg v Hneg). intro H. repeat match goal with H : _ /\ _ |- _ => destruct H end; nra.
  - subst v. rewrite ?sgn_zero. intro H. repeat match goal with H : _ /\ _ |- _ => destruct H end; nra.
Qed.

Theorem dd_returns : 
  dd_returned_position_real x gauss (Dt x) = x' /\ dd_returned_r2_real gauss (Dt x) = norm2 (vsub x' x) /\
  (forall v dn, dd_returned_accept_real tstep u v gauss (Dt x) dn = dd_accept_real tstep u v gauss (Dt x) dn).
Proof.
  split; [reflexivity|]. split; [|reflexivity]. subst x'. set (d0 := Dt x). clearbody d0. unfold dd_returned_r2_real, dd_eposnew_real. vec_ring.
Qed.
End DDKernel.

(* ================= branching factor ================= *)
Lemma sat_bound branchcut d : 0 <= branchcut ->
  Rabs (if Rlt_dec branchcut (Rabs d) then branchcut * sgn d else d) <= branchcut.
Proof.
  intros Hb. destruct (Rlt_dec branchcut (Rabs d)) as [H|H].
  - rewrite Rabs_mult, (Rabs_right branchcut) by lra. pose proof (sgn_abs d). nra.
  - lra.
Qed.

Lemma abs_between x y : Rabs x <= y -> - y <= x <= y.
Proof. unfold Rabs; destruct (Rcase_abs x); lra. Qed.

(* S = E_T - E_est + f_sat(E_est - E_L)/sqrt(1 + (v2 tau/N)^2) lies within cut of E_T - E_est, whatever the local energy *)
Theorem compute_S_bounded tau branchcut e_est e_trial eloc nelec v2 : 0 <= branchcut ->
  e_trial - e_est - branchcut <= dmc_compute_S tau branchcut e_est e_trial eloc nelec v2 <= e_trial - e_est + branchcut.
Proof.
  intros Hb. unfold dmc_compute_S.
  (* shape-independent: name the square root, split on the saturation test, bound the numerator in each branch *)
  match goal with |- context [sqrt ?a] => set (den := sqrt a) end.
  assert (Hden : 1 <= den) by (subst den; rewrite <- sqrt_1 at 1; apply sqrt_le_1_alt; nra).
  assert (Hi : 0 < / den <= 1) by (split; [apply Rinv_0_lt_compat; lra | rewrite <- Rinv_1; apply Rinv_le_contravar; lra]).
  pose proof (sgn_abs (e_est - eloc)) as Hsg. apply abs_between in Hsg.
  assert (Key : forall n, - branchcut <= n <= branchcut -> e_trial - e_est - branchcut <= e_trial - e_est + n / den <= e_trial - e_est + branchcut).
  { intros n Hn. unfold Rdiv. set (i := / den) in *. destruct (Rle_lt_dec 0 n); nra. }
  repeat match goal with
  | |- context [if Rlt_dec ?a ?b then _ else _] => destruct (Rlt_dec a b) as [Hc|Hc]
  | |- context [if Rle_dec ?a ?b then _ else _] => destruct (Rle_dec a b) as [Hc|Hc]
  end; apply Key.
  - nra.
  - apply abs_between. lra.
Qed.

Lemma exp_mono a b : a <= b -> exp a <= exp b.
Proof. intros H. destruct (Req_dec a b) as [->|Hne]; [lra|]. apply Rlt_le, exp_increasing. lra. Qed.

(* the factor multiplying a walker's weight in one step *)
Theorem wmult_bounded tstep Snew Sold r2a r2p lo hi : 0 < tstep -> 0 <= r2a <= r2p -> 0 < r2p ->
  lo <= Snew <= hi -> lo <= Sold <= hi ->
  Rmin 1 (exp (tstep * lo)) <= dmc_wmult tstep Snew Sold r2a r2p <= Rmax 1 (exp (tstep * hi)).
Proof.
  intros Ht Hr Hp Hn Ho.
  set (d := r2a / r2p). assert (Hd : 0 <= d <= 1).
  { subst d. split; [apply Rmult_le_pos; [lra|apply Rlt_le, Rinv_0_lt_compat; lra]|]. apply (Rmult_le_reg_r r2p); [lra|]. unfold Rdiv. rewrite Rmult_assoc, Rinv_l by lra. lra. }
  set (m := 1 / 2 * Snew + 1 / 2 * Sold). assert (Hm : lo <= m <= hi) by (subst m; lra).
  set (tl := tstep * lo). set (th := tstep * hi). set (tm := tstep * m).
  assert (Htm : tl <= tm <= th) by (subst tl th tm; split; apply Rmult_le_compat_l; lra).
  assert (E : dmc_wmult tstep Snew Sold r2a r2p = exp (d * tm)) by (unfold dmc_wmult; f_equal; subst d tm m; field; lra). rewrite E.
  assert (Dm : d * tm = tm - (1 - d) * tm) by ring.
  split.
  - destruct (Rle_lt_dec 0 tl) as [Hpos|Hneg].
    + apply Rle_trans with 1; [apply Rmin_l|]. rewrite <- exp_0. apply exp_mono. apply Rmult_le_pos; lra.
    + apply Rle_trans with (exp tl); [apply Rmin_r|]. apply exp_mono.
      destruct (Rle_lt_dec 0 tm) as [H1|H1]; [assert (0 <= d * tm) by (apply Rmult_le_pos; lra); lra|].
      assert ((1 - d) * tm <= 0) by (apply Rmult_le_0_lt_compat_neg || nra). nra.
  - destruct (Rle_lt_dec th 0) as [Hneg|Hpos].
    + apply Rle_trans with 1; [|apply Rmax_l]. rewrite <- exp_0. apply exp_mono. assert (tm <= 0) by lra. nra.
    + apply Rle_trans with (exp th); [|apply Rmax_r]. apply exp_mono.
      destruct (Rle_lt_dec tm 0) as [H1|H1]; [assert (d * tm <= 0) by nra; lra|]. nra.
Qed.

(* exact eigenfunction: E_L = E everywhere and E_est = E_T = E give S = 0 and an unchanged weight *)
Theorem eigenfunction_keeps_weights tau branchcut E nelec v2 tstep r2a r2p : 0 <= branchcut ->
  dmc_compute_S tau branchcut E E E nelec v2 = 0 /\
  dmc_wmult tstep (dmc_compute_S tau branchcut E E E nelec v2) (dmc_compute_S tau branchcut E E E nelec v2) r2a r2p = 1.
Proof.
  intros Hb. assert (S0 : dmc_compute_S tau branchcut E E E nelec v2 = 0).
  { unfold dmc_compute_S. replace (E - E) with 0 by ring. rewrite Rabs_R0. destruct (Rlt_dec branchcut 0); [lra|]. unfold Rdiv. ring. }
  split; [exact S0|]. rewrite S0. unfold dmc_wmult. rewrite <- exp_0. f_equal. unfold Rdiv. ring.
Qed.

(* Umrigar drift limiter: a non-negative multiple of g, never longer than the unlimited drift tau*g *)
Theorem dmc_limdrift_shrinks tau acyrus g : 0 < tau -> 0 < acyrus ->
  exists c, dmc_limdrift tau acyrus g = vscal c g /\ 0 < c <= tau.
Proof.
  intros Ht Ha. unfold dmc_limdrift. rewrite ?vsum_vmul_self. set (v2 := vsum (vpow g 2)).
  match goal with |- context [Rlt_dec ?a v2] => destruct (Rlt_dec a v2) as [H|H] end.
  - eexists. split; [reflexivity|].
    assert (Hv : 0 < v2). { eapply Rlt_trans; [|exact H]. lra. }
    set (y := 2 * tau * acyrus * v2). assert (Hy : 0 < y) by (subst y; repeat apply Rmult_lt_0_compat; lra).
    (* whatever way the source spells 1 + 2 tau a v2 and a v2 *)
    match goal with |- context [sqrt ?a] => replace a with (1 + y) by (subst y; ring) end.
    match goal with |- _ < _ / ?d <= _ => replace d with (acyrus * v2) by ring end.
    assert (S1 : 1 < sqrt (1 + y)). { rewrite <- sqrt_1 at 1. apply sqrt_lt_1_alt. lra. }
    assert (S2 : sqrt (1 + y) <= 1 + y / 2).
    { rewrite <- (sqrt_square (1 + y / 2)) by lra. apply sqrt_le_1_alt. nra. }
    split.
    + assert (0 < acyrus * v2) by (apply Rmult_lt_0_compat; lra). apply Rdiv_lt_0_compat; lra.
    + assert (Hav : 0 < acyrus * v2) by (apply Rmult_lt_0_compat; lra).
      apply (Rmult_le_reg_r (acyrus * v2)); [exact Hav|]. unfold Rdiv. rewrite Rmult_assoc, Rinv_l by lra.
      replace (tau * (acyrus * v2)) with (y / 2) by (subst y; field). lra.
  - eexists. split; [reflexivity|lra].
Qed.
