(* C07 — property theorems only.  dd_* / dmc_* definitions come from gen/Kernels_Gen.v, regenerated from
   /repo's dmc.py on every run. *)
From Coq Require Import Reals Lra ZArith List.
From PyQMC Require Import base.Cnt C07.Model C07.TMove.
From PyQMC Require Import base.Vec3R gen.Kernels_Gen C01.Model C01.Proofs C07.Proofs.
Import ListNotations.
Open Scope R_scope.

Theorem C07_proposal_variance_is_tstep : forall tstep, 0 < tstep -> dd_proposal_scale_real tstep ^ 2 = tstep.
Proof. exact dd_variance. Qed.
Print Assumptions C07_proposal_variance_is_tstep.

Theorem C07_tprob_is_reverse_over_forward_density : forall tstep Dt x gauss, 0 < tstep ->
  let x' := dd_eposnew_real x gauss (Dt x) in
  dd_t_prob_real tstep gauss (Dt x) (Dt x') = Tdens tstep Dt x' x / Tdens tstep Dt x x'.
Proof. intros. apply dd_tprob_is_density_ratio. assumption. Qed.
Print Assumptions C07_tprob_is_reverse_over_forward_density.

Theorem C07_acceptance_complex_is_metropolis_hastings : forall tstep Dt x gauss u v, 0 < tstep -> 0 <= u < 1 ->
  let x' := dd_eposnew_real x gauss (Dt x) in
  (dd_accept_complex tstep u v gauss (Dt x) (Dt x') <-> u < mh_prob (Rabs v ^ 2) (Tdens tstep Dt x' x / Tdens tstep Dt x x')).
Proof. intros. apply dd_accept_complex_is_mh; assumption. Qed.
Print Assumptions C07_acceptance_complex_is_metropolis_hastings.

Theorem C07_acceptance_real_is_metropolis_hastings_inside_nodal_pocket : forall tstep Dt x gauss u v, 0 < tstep -> 0 <= u < 1 -> 0 < v ->
  let x' := dd_eposnew_real x gauss (Dt x) in
  (dd_accept_real tstep u v gauss (Dt x) (Dt x') <-> u < mh_prob (Rabs v ^ 2) (Tdens tstep Dt x' x / Tdens tstep Dt x x')).
Proof. intros. apply dd_accept_real_same_sign; assumption. Qed.
Print Assumptions C07_acceptance_real_is_metropolis_hastings_inside_nodal_pocket.

(* fixed node: for a real wave function a move with Psi'/Psi <= 0 is never accepted, whatever the drift, noise and uniform *)
Theorem C07_fixed_node : forall tstep (Dt : vec3 -> vec3) (x : vec3) gauss u v dn, 0 <= u -> v <= 0 -> ~ dd_accept_real tstep u v gauss (Dt x) dn.
Proof. intros. apply dd_fixed_node; assumption. Qed.
Print Assumptions C07_fixed_node.

Theorem C07_returned_move : forall tstep Dt x gauss u,
  let x' := dd_eposnew_real x gauss (Dt x) in
  dd_returned_position_real x gauss (Dt x) = x' /\ dd_returned_r2_real gauss (Dt x) = norm2 (vsub x' x) /\
  (forall v dn, dd_returned_accept_real tstep u v gauss (Dt x) dn = dd_accept_real tstep u v gauss (Dt x) dn).
Proof. intros. apply dd_returns. Qed.
Print Assumptions C07_returned_move.

(* the saturated branching term: S within cut of E_T - E_est for EVERY real local energy *)
Theorem C07_S_bounded : forall tau branchcut e_est e_trial eloc nelec v2, 0 <= branchcut ->
  e_trial - e_est - branchcut <= dmc_compute_S tau branchcut e_est e_trial eloc nelec v2 <= e_trial - e_est + branchcut.
Proof. exact compute_S_bounded. Qed.
Print Assumptions C07_S_bounded.

(* one-step weight factor between min(1, exp(tau (E_T - E_est - cut))) and max(1, exp(tau (E_T - E_est + cut))) *)
Theorem C07_weight_factor_bounded : forall tstep tau branchcut e_est e_trial eloc_new eloc_old nelec v2new v2old r2a r2p,
  0 < tstep -> 0 <= branchcut -> 0 <= r2a <= r2p -> 0 < r2p ->
  Rmin 1 (exp (tstep * (e_trial - e_est - branchcut)))
  <= dmc_wmult tstep (dmc_compute_S tau branchcut e_est e_trial eloc_new nelec v2new) (dmc_compute_S tau branchcut e_est e_trial eloc_old nelec v2old) r2a r2p
  <= Rmax 1 (exp (tstep * (e_trial - e_est + branchcut))).
Proof.
  intros. apply wmult_bounded; try assumption; apply compute_S_bounded; assumption.
Qed.
Print Assumptions C07_weight_factor_bounded.

Theorem C07_eigenfunction_keeps_weights : forall tau branchcut E nelec v2 tstep r2a r2p, 0 <= branchcut ->
  dmc_compute_S tau branchcut E E E nelec v2 = 0 /\
  dmc_wmult tstep (dmc_compute_S tau branchcut E E E nelec v2) (dmc_compute_S tau branchcut E E E nelec v2) r2a r2p = 1.
Proof. exact eigenfunction_keeps_weights. Qed.
Print Assumptions C07_eigenfunction_keeps_weights.

Theorem C07_umrigar_drift_is_shrunk_drift : forall tau acyrus g, 0 < tau -> 0 < acyrus ->
  exists c, dmc_limdrift tau acyrus g = vscal c g /\ 0 < c <= tau.
Proof. exact dmc_limdrift_shrinks. Qed.
Print Assumptions C07_umrigar_drift_is_shrunk_drift.

(* ---- T-moves (exact integer units: amplitudes a_j/den, uniform rho/M) ---- *)
Open Scope Z_scope.
Theorem C07_tmove_interval : forall a den M rho, 0 < den -> 0 < M -> 0 <= rho < M -> forall i : nat, (i < length a)%nat ->
  (tmove_select true a den M rho = Z.of_nat i <->
   M * pre (pospart a) i <= rho * (den + total (pospart a)) < M * pre (pospart a) (S i)).
Proof. exact tmove_interval. Qed.
Print Assumptions C07_tmove_interval.

Theorem C07_tmove_never_to_nonpositive_amplitude : forall a den M rho, 0 < den -> 0 < M -> 0 <= rho < M -> forall i : nat, (i < length a)%nat ->
  tmove_select true a den M rho = Z.of_nat i -> 0 < nth i a 0.
Proof. exact tmove_selected_positive. Qed.
Print Assumptions C07_tmove_never_to_nonpositive_amplitude.

Theorem C07_tmove_no_move_probability : forall a den M rho, 0 < den -> 0 < M -> 0 <= rho < M ->
  (tmove_moves true a den M rho = false <-> M * total (pospart a) <= rho * (den + total (pospart a))).
Proof. exact tmove_none. Qed.
Print Assumptions C07_tmove_no_move_probability.

Theorem C07_tmove_left_side_refuted :
  tmove_select false [0; 1] 1 4 0 = 0 /\ tmove_moves false [0; 1] 1 4 0 = true /\ tmove_select true [0; 1] 1 4 0 = 1.
Proof. exact tmove_left_refuted. Qed.
Print Assumptions C07_tmove_left_side_refuted.
