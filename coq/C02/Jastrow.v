(* C02 — two-body Jastrow bookkeeping (jastrowspin.JastrowSpin): per-electron partial sums split by the spin of the
   other electron, and the three spin-channel totals, updated incrementally when one electron moves.
   Abstract in the basis function b (any symmetric Z-valued function of two positions) and in the position type:
   "incremental state = recompute" for every history of moves. *)
From Coq Require Import ZArith List Bool Lia.
Import ListNotations. Open Scope Z_scope.

Section Jastrow.
Variable pos : Type.
Variable b : pos -> pos -> Z.
Hypothesis b_sym : forall x y, b x y = b y x.
Variables (n nup : nat).

Definition spin (i : nat) : bool := (nup <=? i)%nat.               (* false = up, true = down *)
Definition chan (s t : bool) : nat := if s then (if t then 2 else 1) else (if t then 1 else 0).   (* upup 0, updown 1, downdown 2 *)

Fixpoint sumn (m : nat) (f : nat -> Z) : Z := match m with O => 0 | S k => sumn k f + f k end.
Definition ind (c : bool) (x : Z) : Z := if c then x else 0.

(* recompute: partial sums and channel totals from the positions *)
Definition part_of (r : nat -> pos) (i : nat) (s : bool) : Z :=
  sumn n (fun j => ind (negb (j =? i)%nat && Bool.eqb (spin j) s) (b (r i) (r j))).
Definition total_of (r : nat -> pos) (c : nat) : Z :=
  sumn n (fun j => sumn j (fun i => ind (chan (spin i) (spin j) =? c)%nat (b (r i) (r j)))).

Record state := mkS { rr : nat -> pos; bpart : nat -> bool -> Z; bval : nat -> Z }.
Definition Inv (s : state) : Prop :=
  (forall i t, (i < n)%nat -> bpart s i t = part_of (rr s) i t) /\ (forall c, bval s c = total_of (rr s) c).
Definition recompute (r : nat -> pos) : state := mkS r (part_of r) (total_of r).

(* updateinternals(e, x'): uses the object's OWN positions for the old terms *)
Definition upd_pos (r : nat -> pos) (e : nat) (x : pos) : nat -> pos := fun k => if (k =? e)%nat then x else r k.
Definition new_part (r : nat -> pos) (e : nat) (x : pos) (t : bool) : Z :=
  sumn n (fun j => ind (negb (j =? e)%nat && Bool.eqb (spin j) t) (b x (r j))).
Definition update (s : state) (e : nat) (x : pos) : state :=
  let r := rr s in
  mkS (upd_pos r e x)
      (fun j t => if (j =? e)%nat then new_part r e x t
                  else bpart s j t + ind (Bool.eqb (spin e) t) (b (r j) x - b (r j) (r e)))
      (fun c => bval s c + ind (chan (spin e) false =? c)%nat (new_part r e x false - bpart s e false)
                         + ind (chan (spin e) true =? c)%nat (new_part r e x true - bpart s e true)).
(* the same with the old position read from coordinates that were ALREADY moved (the defect fixed for the three-body Jastrow) *)
Definition update_stale (s : state) (e : nat) (x : pos) : state :=
  let r := rr s in
  mkS (upd_pos r e x)
      (fun j t => if (j =? e)%nat then new_part r e x t
                  else bpart s j t + ind (Bool.eqb (spin e) t) (b (r j) x - b (r j) x))
      (bval (update s e x)).

(* ---------- sums ---------- *)
Lemma sumn_ext m f g : (forall k, (k < m)%nat -> f k = g k) -> sumn m f = sumn m g.
Proof. induction m as [|k IH]; intros H; cbn; [reflexivity|]. rewrite IH, (H k) by (intros; try apply H; lia). reflexivity. Qed.
Lemma sumn_add m f g : sumn m (fun k => f k + g k) = sumn m f + sumn m g.
Proof. induction m as [|k IH]; cbn; [reflexivity|]. rewrite IH. ring. Qed.
Lemma sumn_sub m f g : sumn m f - sumn m g = sumn m (fun k => f k - g k).
Proof. induction m as [|k IH]; cbn; [reflexivity|]. rewrite <- IH. ring. Qed.
Lemma sumn_zero m : sumn m (fun _ => 0) = 0.
Proof. induction m as [|k IH]; cbn; [reflexivity|]. rewrite IH. reflexivity. Qed.
Lemma sumn_single m e c : (e < m)%nat -> sumn m (fun k => if (k =? e)%nat then c else 0) = c.
Proof.
  induction m as [|k IH]; intros H; [lia|]. cbn [sumn]. destruct (Nat.eq_dec k e) as [->|Hne].
  - rewrite Nat.eqb_refl. rewrite (sumn_ext e _ (fun _ => 0)); [rewrite sumn_zero; ring|]. intros j Hj. destruct (Nat.eqb_spec j e); [lia|reflexivity].
  - rewrite IH by lia. destruct (Nat.eqb_spec k e); [contradiction|ring].
Qed.
Lemma sumn_single_out m e c : (m <= e)%nat -> sumn m (fun k => if (k =? e)%nat then c else 0) = 0.
Proof. intros H. rewrite (sumn_ext m _ (fun _ => 0)); [apply sumn_zero|]. intros j Hj. destruct (Nat.eqb_spec j e); [lia|reflexivity]. Qed.

Lemma ind_add c x y : ind c (x + y) = ind c x + ind c y.
Proof. destruct c; cbn; ring. Qed.

(* ---------- partial sums ---------- *)
Lemma part_other r e x j t : (e < n)%nat -> (j < n)%nat -> j <> e ->
  part_of (upd_pos r e x) j t = part_of r j t + ind (Bool.eqb (spin e) t) (b (r j) x - b (r j) (r e)).
Proof.
  intros He Hj Hne. unfold part_of, upd_pos. destruct (Nat.eqb_spec j e) as [|_]; [contradiction|].
  rewrite (sumn_ext n _ (fun k => ind (negb (k =? j)%nat && Bool.eqb (spin k) t) (b (r j) (r k))
                                    + (if (k =? e)%nat then ind (Bool.eqb (spin e) t) (b (r j) x - b (r j) (r e)) else 0))).
  - rewrite sumn_add, sumn_single by assumption. reflexivity.
  - intros k Hk. destruct (Nat.eqb_spec k e) as [->|Hke].
    + destruct (Nat.eqb_spec e j) as [Hej|_]; [symmetry in Hej; contradiction|]. cbn [negb andb]. destruct (Bool.eqb (spin e) t); cbn; ring.
    + ring.
Qed.

Lemma part_self r e x t : (e < n)%nat -> part_of (upd_pos r e x) e t = new_part r e x t.
Proof.
  intros He. unfold part_of, new_part, upd_pos. apply sumn_ext. intros k Hk. rewrite Nat.eqb_refl.
  destruct (Nat.eqb_spec k e) as [->|Hke]; reflexivity.
Qed.

(* ---------- channel totals ---------- *)
Lemma chan_sym s t : chan s t = chan t s.
Proof. destruct s, t; reflexivity. Qed.

(* row j of the pair sum after the move *)
Lemma total_delta r e x c : (e < n)%nat ->
  total_of (upd_pos r e x) c = total_of r c
    + sumn n (fun j => ind (negb (j =? e)%nat && (chan (spin e) (spin j) =? c)%nat) (b x (r j) - b (r e) (r j))).
Proof.
  intros He. unfold total_of.
  (* per row j: the difference of the inner sums *)
  assert (Row : forall j, (j < n)%nat ->
     sumn j (fun i => ind (chan (spin i) (spin j) =? c)%nat (b (upd_pos r e x i) (upd_pos r e x j)))
     = sumn j (fun i => ind (chan (spin i) (spin j) =? c)%nat (b (r i) (r j)))
       + (if (j =? e)%nat then sumn e (fun i => ind (chan (spin i) (spin e) =? c)%nat (b (r i) x - b (r i) (r e)))
          else ind ((e <? j)%nat && (chan (spin e) (spin j) =? c)%nat) (b x (r j) - b (r e) (r j)))).
  { intros j Hj. unfold upd_pos. destruct (Nat.eqb_spec j e) as [->|Hje].
    - rewrite <- sumn_add. apply sumn_ext. intros i Hi. destruct (Nat.eqb_spec i e); [lia|]. rewrite <- ind_add. f_equal. ring.
    - destruct (Nat.ltb_spec e j) as [Hlt|Hge].
      + cbn [andb].
        rewrite (sumn_ext j _ (fun i => ind (chan (spin i) (spin j) =? c)%nat (b (r i) (r j))
                                        + (if (i =? e)%nat then ind (chan (spin e) (spin j) =? c)%nat (b x (r j) - b (r e) (r j)) else 0))).
        * rewrite sumn_add, sumn_single by assumption. reflexivity.
        * intros i Hi. destruct (Nat.eqb_spec i e) as [->|Hie]; [rewrite <- ind_add; f_equal; ring|ring].
      + cbn [andb ind]. rewrite Z.add_0_r. apply sumn_ext. intros i Hi. destruct (Nat.eqb_spec i e); [lia|reflexivity]. }
  rewrite (sumn_ext n _ _ Row). rewrite sumn_add. f_equal.
  (* the row e contribution (i < e) plus the rows j > e  =  sum over all j <> e *)
  rewrite (sumn_ext n (fun j => if (j =? e)%nat then _ else _)
            (fun j => (if (j =? e)%nat then sumn e (fun i => ind (chan (spin i) (spin e) =? c)%nat (b (r i) x - b (r i) (r e))) else 0)
                      + ind (negb (j =? e)%nat && (e <? j)%nat && (chan (spin e) (spin j) =? c)%nat) (b x (r j) - b (r e) (r j)))).
  2:{ intros j Hj. destruct (Nat.eqb_spec j e); cbn [negb andb ind]; ring. }
  rewrite sumn_add, sumn_single by assumption.
  (* sum_{i<e} [..] (b(r i, x) - b(r i, r e))  as a sum over all j<n with j<e *)
  assert (Lo : sumn e (fun i => ind (chan (spin i) (spin e) =? c)%nat (b (r i) x - b (r i) (r e)))
               = sumn n (fun j => ind (negb (j =? e)%nat && (j <? e)%nat && (chan (spin e) (spin j) =? c)%nat) (b x (r j) - b (r e) (r j)))).
  { clear Row. assert (G : forall m, (e <= m)%nat ->
        sumn m (fun j => ind (negb (j =? e)%nat && (j <? e)%nat && (chan (spin e) (spin j) =? c)%nat) (b x (r j) - b (r e) (r j)))
        = sumn e (fun i => ind (chan (spin i) (spin e) =? c)%nat (b (r i) x - b (r i) (r e)))).
    { induction m as [|m IH]; intros Hm.
      - assert (e = 0)%nat by lia. subst e. reflexivity.
      - destruct (Nat.eq_dec e (S m)) as [->|Hne].
        + apply sumn_ext. intros j Hj. destruct (Nat.eqb_spec j (S m)); [lia|]. destruct (Nat.ltb_spec j (S m)); [|lia]. cbn [negb andb].
          rewrite (chan_sym (spin (S m)) (spin j)), (b_sym x (r j)), (b_sym (r (S m)) (r j)). reflexivity.
        + cbn [sumn]. rewrite IH by lia. destruct (Nat.ltb_spec m e); [lia|]. rewrite andb_false_r. cbn [andb ind]. ring. }
    symmetry. apply G. lia. }
  rewrite Lo, <- sumn_add. apply sumn_ext. intros j Hj.
  destruct (Nat.eqb_spec j e) as [->|Hne]; cbn [negb andb ind]; [ring|].
  destruct (Nat.ltb_spec j e), (Nat.ltb_spec e j); cbn [andb ind]; try lia; ring.
Qed.

Lemma delta_by_spin r e x c : (e < n)%nat ->
  sumn n (fun j => ind (negb (j =? e)%nat && (chan (spin e) (spin j) =? c)%nat) (b x (r j) - b (r e) (r j)))
  = ind (chan (spin e) false =? c)%nat (new_part r e x false - part_of r e false)
    + ind (chan (spin e) true =? c)%nat (new_part r e x true - part_of r e true).
Proof.
  intros He. unfold new_part, part_of.
  assert (D : forall t, sumn n (fun j => ind (negb (j =? e)%nat && Bool.eqb (spin j) t) (b x (r j)))
                        - sumn n (fun j => ind (negb (j =? e)%nat && Bool.eqb (spin j) t) (b (r e) (r j)))
                        = sumn n (fun j => ind (negb (j =? e)%nat && Bool.eqb (spin j) t) (b x (r j) - b (r e) (r j)))).
  { intros t. rewrite sumn_sub. apply sumn_ext. intros k _. destruct (negb (k =? e)%nat && Bool.eqb (spin k) t); cbn; ring. }
  rewrite !D.
  assert (Sc : forall cnd f, ind cnd (sumn n f) = sumn n (fun k => ind cnd (f k))).
  { intros cnd f. destruct cnd; cbn; [reflexivity|symmetry; apply sumn_zero]. }
  rewrite !Sc, <- sumn_add. apply sumn_ext. intros j _.
  destruct (Nat.eqb_spec j e); cbn [negb andb ind]; [destruct (chan (spin e) false =? c)%nat, (chan (spin e) true =? c)%nat; cbn; ring|].
  destruct (spin j); cbn [Bool.eqb ind]; destruct (chan (spin e) false =? c)%nat, (chan (spin e) true =? c)%nat; cbn; ring.
Qed.

(* ---------- the invariant ---------- *)
Theorem recompute_inv r : Inv (recompute r).
Proof. split; intros; reflexivity. Qed.

Theorem update_inv s e x : (e < n)%nat -> Inv s -> Inv (update s e x).
Proof.
  intros He [HP HV]. split.
  - intros i t Hi. cbn [update bpart rr]. destruct (Nat.eqb_spec i e) as [->|Hne].
    + symmetry. apply part_self. assumption.
    + rewrite part_other by assumption. rewrite HP by assumption. reflexivity.
  - intros c. cbn [update bval rr]. rewrite total_delta by assumption. rewrite delta_by_spin by assumption.
    rewrite HV, !HP by assumption. ring.
Qed.

(* any history of moves (electron, new position), starting from a recompute: the incremental state equals a recompute *)
Definition run (s : state) (moves : list (nat * pos)) : state := fold_left (fun st m => update st (fst m) (snd m)) moves s.
Theorem history_inv moves : forall s, Inv s -> Forall (fun m => (fst m < n)%nat) moves -> Inv (run s moves).
Proof.
  induction moves as [|m ms IH]; intros s HI Hf; [exact HI|]. inversion Hf; subst. cbn [run fold_left]. apply IH; [apply update_inv; assumption|assumption].
Qed.
End Jastrow.
