(* C02 — property theorems only (incremental wave-function state = recompute). *)
From Coq Require Import Arith ZArith List Bool Lia Field QArith Qcanon.
From PyQMC Require Import C02.SM C02.Jastrow.
Import ListNotations.

(* Slater: if B is the inverse of A then the rank-one update of B is the inverse of A with row e replaced by v
   — every field, every size, provided the determinant ratio (v.B)_e is non-zero *)
Theorem C02_inverse_update_is_inverse_of_updated_matrix :
  forall (F : Type) (zero one : F) (add mul sub : F -> F -> F) (opp : F -> F) (div : F -> F -> F) (inv : F -> F),
  field_theory zero one add mul sub opp div inv (@eq F) ->
  forall (n e : nat) A B v, (e < n)%nat -> right_inv F zero one add mul n A B -> tmpv F zero add mul n v B e <> zero ->
  right_inv F zero one add mul n (setrow F A e v) (sm_row F zero add mul sub div n e B v).
Proof. exact sm_inverse. Qed.
Print Assumptions C02_inverse_update_is_inverse_of_updated_matrix.

(* the executable instance used by the correspondence (canonical rationals) is an instance of that theorem *)
Theorem C02_inverse_update_over_Qc : forall (n e : nat) A B v, (e < n)%nat ->
  right_inv Qc 0%Qc 1%Qc Qcplus Qcmult n A B -> tmpv Qc 0%Qc Qcplus Qcmult n v B e <> 0%Qc ->
  right_inv Qc 0%Qc 1%Qc Qcplus Qcmult n (setrow Qc A e v) (QcF_sm_row n e B v).
Proof. exact (sm_inverse Qc 0%Qc 1%Qc Qcplus Qcmult Qcminus Qcopp Qcdiv Qcinv Qcft). Qed.
Print Assumptions C02_inverse_update_over_Qc.

(* an update under an accept mask is the pointwise conditional: masked walkers updated, the others untouched *)
Theorem C02_masked_update_is_pointwise : forall (S : Type) (upd : S -> S) m ws (i : nat) d, (i < length ws)%nat -> length m = length ws ->
  nth i (masked_update upd m ws) d = if nth i m false then upd (nth i ws d) else nth i ws d.
Proof. exact @masked_update_nth. Qed.
Print Assumptions C02_masked_update_is_pointwise.

(* two-body Jastrow: after ANY history of single-electron moves the per-electron partial sums (by spin of the partner)
   and the three spin-channel totals equal those recomputed from the current positions — for every symmetric basis
   function, every number of electrons and every spin split *)
Theorem C02_jastrow_incremental_equals_recompute :
  forall (pos : Type) (b : pos -> pos -> Z), (forall x y, b x y = b y x) ->
  forall (n nup : nat) (moves : list (nat * pos)) (s : state pos),
  Inv pos b n nup s -> Forall (fun m => (fst m < n)%nat) moves -> Inv pos b n nup (run pos b n nup s moves).
Proof. intros pos b Hb n nup moves s. apply history_inv. exact Hb. Qed.
Print Assumptions C02_jastrow_incremental_equals_recompute.

Theorem C02_jastrow_recompute_satisfies_invariant : forall (pos : Type) (b : pos -> pos -> Z) n nup r, Inv pos b n nup (recompute pos b n nup r).
Proof. exact recompute_inv. Qed.
Print Assumptions C02_jastrow_recompute_satisfies_invariant.

(* reading the OLD position of the moved electron from coordinates that were already moved (what
   ThreeBodyJastrow.updateinternals did before its fix) breaks the invariant: 3 electrons on a line, b = squared distance *)
Theorem C02_stale_old_position_refuted :
  let b := fun x y : Z => ((x - y) * (x - y))%Z in
  let s0 := recompute Z b 3 2 (fun k => Z.of_nat k) in
  let bad := update_stale Z b 3 2 s0 0 10%Z in
  let good := update Z b 3 2 s0 0 10%Z in
  bpart Z bad 1 false <> part_of Z b 3 2 (rr Z bad) 1 false /\ bpart Z good 1 false = part_of Z b 3 2 (rr Z good) 1 false.
Proof. cbv zeta. split; vm_compute; congruence. Qed.
Print Assumptions C02_stale_old_position_refuted.
