(* C02/C03 — rank-one update of an inverse (slater.sherman_morrison_ms) over an arbitrary field, any matrix size.
   One definition, two uses: proved for every field; executed with F := Qc (canonical rationals) by vm_compute. *)
From Coq Require Import Arith List Lia Field Ring.
Import ListNotations.

Section SM.
Variables (F : Type) (zero one : F) (add mul sub : F -> F -> F) (opp : F -> F)
          (div : F -> F -> F) (inv : F -> F).
Hypothesis Fth : field_theory zero one add mul sub opp div inv (@eq F).
Add Field FF : Fth.
Notation "0" := zero. Notation "1" := one.
Infix "+" := add. Infix "*" := mul. Infix "-" := sub. Infix "/" := div.

Fixpoint sum (n : nat) (f : nat -> F) : F :=
  match n with O => 0 | S k => sum k f + f k end.

Lemma sum_ext n f g : (forall k, k < n -> f k = g k) -> sum n f = sum n g.
Proof. induction n as [|k IH]; intros H; cbn; [reflexivity|]. rewrite IH, (H k); auto. Qed.
Lemma sum_scal_r n c f : sum n (fun k => f k * c) = sum n f * c.
Proof. induction n as [|k IH]; cbn; [ring|rewrite IH; ring]. Qed.
Lemma sum_sub n f g : sum n (fun k => f k - g k) = sum n f - sum n g.
Proof. induction n as [|k IH]; cbn; [ring|rewrite IH; ring]. Qed.

Definition delta (i j : nat) : F := if Nat.eqb i j then 1 else 0.
Definition mm (n : nat) (A B : nat -> nat -> F) (i j : nat) : F := sum n (fun k => A i k * B k j).
Definition right_inv n A B := forall i j, i < n -> j < n -> mm n A B i j = delta i j.

(* the code: tmp = vec . inv ; ratio = tmp[e]; inv_ratio = inv[:,e]/ratio;
   invnew = inv - outer(inv_ratio, tmp); invnew[:,e] = inv_ratio *)
Definition tmpv n (v : nat -> F) (B : nat -> nat -> F) (j : nat) : F := sum n (fun k => v k * B k j).
Definition setrow (A : nat -> nat -> F) e (v : nat -> F) : nat -> nat -> F :=
  fun i k => if Nat.eqb i e then v k else A i k.
Definition sm_ratio n e (B : nat -> nat -> F) (v : nat -> F) : F := tmpv n v B e.
Definition sm_row n e (B : nat -> nat -> F) (v : nat -> F) : nat -> nat -> F :=
  let tmp := tmpv n v B in let ratio := tmp e in
  fun i j => let ir := B i e / ratio in if Nat.eqb j e then ir else B i j - ir * tmp j.

Theorem sm_inverse n e A B v :
  e < n -> right_inv n A B -> tmpv n v B e <> 0 ->
  right_inv n (setrow A e v) (sm_row n e B v).
Proof.
  intros He HAB Hr i j Hi Hj. unfold mm, sm_row, setrow. cbv zeta.
  set (ratio := tmpv n v B e) in *.
  destruct (Nat.eqb i e) eqn:Eie; destruct (Nat.eqb j e) eqn:Eje.
  - apply Nat.eqb_eq in Eie, Eje. subst i j.
    rewrite (sum_ext n _ (fun k => (v k * B k e) * (1 / ratio))) by (intros; field; exact Hr).
    rewrite sum_scal_r. fold (tmpv n v B e). fold ratio. unfold delta. rewrite Nat.eqb_refl. field. exact Hr.
  - apply Nat.eqb_eq in Eie. subst i.
    rewrite (sum_ext n _ (fun k => v k * B k j - (v k * B k e) * (tmpv n v B j / ratio))) by (intros; field; exact Hr).
    rewrite sum_sub, sum_scal_r. fold (tmpv n v B j). fold (tmpv n v B e). fold ratio.
    unfold delta. rewrite Nat.eqb_sym, Eje. field. exact Hr.
  - apply Nat.eqb_eq in Eje. subst j.
    rewrite (sum_ext n _ (fun k => (A i k * B k e) * (1 / ratio))) by (intros; field; exact Hr).
    rewrite sum_scal_r. fold (mm n A B i e). rewrite HAB by assumption. unfold delta. rewrite Eie. field. exact Hr.
  - rewrite (sum_ext n _ (fun k => A i k * B k j - (A i k * B k e) * (tmpv n v B j / ratio))) by (intros; field; exact Hr).
    rewrite sum_sub, sum_scal_r. fold (mm n A B i j). fold (mm n A B i e).
    rewrite !HAB by assumption. unfold delta at 2. rewrite Eie. field. exact Hr.
Qed.

(* masked update: per walker, apply or keep *)
Definition masked_update {S} (upd : S -> S) (m : list bool) (ws : list S) : list S :=
  map (fun mw : bool * S => if fst mw then upd (snd mw) else snd mw) (combine m ws).
Lemma masked_update_nth {S} (upd : S -> S) m ws i d : i < length ws -> length m = length ws ->
  nth i (masked_update upd m ws) d = if nth i m false then upd (nth i ws d) else nth i ws d.
Proof.
  revert m i. induction ws as [|w ws IH]; intros m i Hi Hl; [cbn in Hi; lia|].
  destruct m as [|b m]; [discriminate|]. destruct i as [|i]; cbn; [reflexivity|]. apply IH; cbn in *; lia.
Qed.
End SM.

(* ---- executable instance over canonical rationals ---- *)
From Coq Require Import ZArith QArith Qcanon.
Definition QcF_sm_row := sm_row Qc 0%Qc Qcplus Qcmult Qcminus Qcdiv.
Definition QcF_sm_ratio := sm_ratio Qc 0%Qc Qcplus Qcmult.
Definition lookup2 (M : list (list Qc)) (i j : nat) : Qc := nth j (nth i M []) 0%Qc.
Definition lookup1 (v : list Qc) (k : nat) : Qc := nth k v 0%Qc.
Definition sm_step_list (n e : nat) (B : list (list Qc)) (v : list Qc) : Qc * list (list Qc) :=
  (QcF_sm_ratio n e (lookup2 B) (lookup1 v),
   map (fun i => map (fun j => QcF_sm_row n e (lookup2 B) (lookup1 v) i j) (seq 0 n)) (seq 0 n)).
Definition qcz (q : Qc) : list Z := [Qnum (this q); Zpos (Qden (this q))].
