From Coq Require Import ZArith List Bool Lia.
From PyQMC Require Import base.Cnt C08.Model.
Import ListNotations. Open Scope Z_scope.

Section Branch.
Variables (w : list Z) (M j : Z).
Hypothesis Hw : nonneg w.
Hypothesis HW : 0 < total w.
Hypothesis HM : 0 < M.
Hypothesis Hj : 0 <= j < M.
Let N := length w.
Let W := total w.

Lemma N_pos : (0 < N)%nat.
Proof. subst N. destruct w; [cbn in HW; lia| cbn; lia]. Qed.

Lemma point_range k : 0 <= point N (j * Z.of_nat N * W) (M * W) k < Z.of_nat N * M * total w.
Proof.
  unfold point. pose proof N_pos.
  replace (Z.of_nat N * M * total w) with (Z.of_nat N * (M * W)) by (subst W; ring).
  apply Z.mod_pos_bound. subst W. nia.
Qed.

Lemma newind_iff k (i : nat) : (i < N)%nat ->
  (newind true w M j k = Z.of_nat i <->
   Z.of_nat N * M * pre w i <= point N (j * Z.of_nat N * W) (M * W) k < Z.of_nat N * M * pre w (S i)).
Proof.
  intros Hi. unfold newind. fold N W.
  apply ss_right_iff; try assumption.
  - pose proof N_pos. nia.
  - apply point_range.
Qed.

Lemma copies_as_interval (i : nat) : (i < N)%nat ->
  copies true w M j (Z.of_nat i) =
  cnt (fun k => let x := (j * Z.of_nat N * W + k * (M * W)) mod (Z.of_nat N * (M * W)) in
                (Z.of_nat N * M * pre w i <=? x) && (x <? Z.of_nat N * M * pre w (S i))) N.
Proof.
  intros Hi. unfold copies. fold N. apply cnt_ext. intros k Hk. cbv zeta.
  pose proof (newind_iff k i Hi) as E. unfold point in E.
  destruct (Z.eqb_spec (newind true w M j k) (Z.of_nat i)) as [H|H].
  - apply E in H. symmetry. apply andb_true_iff. split; [apply Z.leb_le|apply Z.ltb_lt]; lia.
  - symmetry. apply not_true_iff_false. intros Hc. apply H, E.
    apply andb_true_iff in Hc. destruct Hc as [H1 H2]. apply Z.leb_le in H1. apply Z.ltb_lt in H2. lia.
Qed.

Lemma copies_bounds (i : nat) : (i < N)%nat ->
  (Z.of_nat N * nth i w 0) / W <= copies true w M j (Z.of_nat i) <= cdiv (Z.of_nat N * nth i w 0) W.
Proof.
  intros Hi. rewrite copies_as_interval by assumption.
  pose proof N_pos as HN.
  pose proof (pre_nonneg w Hw i) as P0.
  pose proof (pre_step w Hw i) as P1.
  pose proof (pre_mono w Hw (S i) N ltac:(lia)) as P2. change (pre w N) with W in P2.
  pose proof (branch_count_bounds N (j * Z.of_nat N * W) (M * W)
                (Z.of_nat N * M * pre w i) (Z.of_nat N * M * pre w (S i))) as B.
  assert (Hd : 0 < M * W) by (subst W; nia).
  assert (Hc : 0 <= j * Z.of_nat N * W) by (subst W; nia).
  assert (HNM : 0 <= Z.of_nat N * M) by nia.
  assert (HA : 0 <= Z.of_nat N * M * pre w i <= Z.of_nat N * M * pre w (S i)).
  { split; [apply Z.mul_nonneg_nonneg; [exact HNM|exact P0] | apply Z.mul_le_mono_nonneg_l; [exact HNM|exact P1]]. }
  assert (HB : Z.of_nat N * M * pre w (S i) <= Z.of_nat N * (M * W)).
  { replace (Z.of_nat N * (M * W)) with (Z.of_nat N * M * W) by ring. apply Z.mul_le_mono_nonneg_l; lia. }
  specialize (B Hd HN Hc HA HB).
  rewrite (pre_S_nth w i Hi) in B |- *.
  replace (Z.of_nat N * M * (pre w i + nth i w 0) - Z.of_nat N * M * pre w i)
    with ((Z.of_nat N * nth i w 0) * M) in B by ring.
  replace (M * W) with (W * M) in B by ring.
  unfold cdiv in B |- *.
  replace (- (Z.of_nat N * nth i w 0 * M)) with ((- (Z.of_nat N * nth i w 0)) * M) in B by ring.
  rewrite !Z.div_mul_cancel_r in B by lia.
  replace (W * M) with (M * W) in B by ring. exact B.
Qed.

Lemma copies_zero (i : nat) : (i < N)%nat -> nth i w 0 = 0 -> copies true w M j (Z.of_nat i) = 0.
Proof.
  intros Hi Hz. pose proof (copies_bounds i Hi) as B. rewrite Hz in B.
  rewrite Z.mul_0_r in B. unfold cdiv in B. change (- 0) with 0 in B. rewrite !Zdiv_0_l in B. lia.
Qed.

Lemma newind_range k : 0 <= newind true w M j k < Z.of_nat N.
Proof.
  unfold newind. fold N W. apply ss_right_lt; try assumption.
  - pose proof N_pos. nia.
  - apply point_range.
Qed.

End Branch.

(* every comb tooth lands in exactly one walker: the copy numbers add up to N *)
Lemma cnt_partition (f : Z -> Z) (n : nat) (m : nat) :
  (forall k, 0 <= k < Z.of_nat n -> 0 <= f k < Z.of_nat m) ->
  fold_right Z.add 0 (map (fun i => cnt (fun k => f k =? Z.of_nat i) n) (seq 0 m)) = Z.of_nat n.
Proof.
  induction n as [|n IH]; intros H.
  - cbn [cnt]. induction (seq 0 m) as [|a l IHl]; cbn; lia.
  - cbn [cnt].
    assert (E : forall l, fold_right Z.add 0 (map (fun i => cnt (fun k => f k =? Z.of_nat i) n +
                 (if f (Z.of_nat n) =? Z.of_nat i then 1 else 0)) l)
              = fold_right Z.add 0 (map (fun i => cnt (fun k => f k =? Z.of_nat i) n) l)
                + fold_right Z.add 0 (map (fun i => if f (Z.of_nat n) =? Z.of_nat i then 1 else 0) l)).
    { induction l as [|a l IHl]; cbn [map fold_right]; lia. }
    rewrite E, IH by (intros k Hk; apply H; lia). clear E IH.
    specialize (H (Z.of_nat n) ltac:(lia)).
    set (v := f (Z.of_nat n)) in *.
    assert (G : forall a b, fold_right Z.add 0 (map (fun i => if v =? Z.of_nat i then 1 else 0) (seq a b))
               = if (Z.of_nat a <=? v) && (v <? Z.of_nat (a + b)) then 1 else 0).
    { intros a b. revert a. induction b as [|b IHb]; intros a.
      - cbn. rewrite Nat.add_0_r. destruct (Z.leb_spec (Z.of_nat a) v), (Z.ltb_spec v (Z.of_nat a)); cbn; lia.
      - cbn [seq map fold_right]. rewrite IHb.
        destruct (Z.eqb_spec v (Z.of_nat a));
        destruct (Z.leb_spec (Z.of_nat (S a)) v), (Z.ltb_spec v (Z.of_nat (S a + b)));
        destruct (Z.leb_spec (Z.of_nat a) v), (Z.ltb_spec v (Z.of_nat (a + S b))); cbn [andb]; lia. }
    rewrite G. destruct (Z.leb_spec (Z.of_nat 0) v), (Z.ltb_spec v (Z.of_nat (0 + m))); cbn [andb]; lia.
Qed.

Lemma copies_total w M j : nonneg w -> 0 < total w -> 0 < M -> 0 <= j < M ->
  fold_right Z.add 0 (map (fun i => copies true w M j (Z.of_nat i)) (seq 0 (length w))) = Z.of_nat (length w).
Proof.
  intros Hw HW HM Hj. unfold copies. apply cnt_partition.
  intros k _. apply newind_range; assumption.
Qed.

(* ---------- unbiasedness: the set of offsets for which tooth k selects walker i ---------- *)
(* u, t = k/N, a, b are given on a common grid of resolution 1/G: u,t in [0,G), 0<=a<=b<=G.
   (u+t) mod G in [a,b)  <->  u in [lo1,hi1) or u in [lo2,hi2), and the two pieces have total length b-a. *)
Definition piece1 (G t a b : Z) := (Z.max a t - t, Z.max (Z.max a t) b - t).
Definition piece2 (G t a b : Z) := (a + G - t, Z.max a (Z.min b t) + G - t).

Lemma tooth_offsets G t a b u :
  0 < G -> 0 <= t < G -> 0 <= a <= b -> b <= G -> 0 <= u < G ->
  (a <= (u + t) mod G < b <->
   (fst (piece1 G t a b) <= u < snd (piece1 G t a b)) \/ (fst (piece2 G t a b) <= u < snd (piece2 G t a b))).
Proof.
  intros HG Ht Ha Hb Hu. unfold piece1, piece2; cbn [fst snd].
  destruct (Z.ltb_spec (u + t) G) as [H|H].
  - rewrite Z.mod_small by lia. lia.
  - replace (u + t) with ((u + t - G) + 1 * G) by ring. rewrite Z.mod_add by lia.
    rewrite Z.mod_small by lia. lia.
Qed.

Lemma tooth_measure G t a b :
  0 < G -> 0 <= t < G -> 0 <= a <= b -> b <= G ->
  (snd (piece1 G t a b) - fst (piece1 G t a b)) + (snd (piece2 G t a b) - fst (piece2 G t a b)) = b - a
  /\ 0 <= fst (piece1 G t a b) <= snd (piece1 G t a b) /\ snd (piece1 G t a b) <= fst (piece2 G t a b)
  /\ fst (piece2 G t a b) <= snd (piece2 G t a b)
  /\ (fst (piece2 G t a b) < snd (piece2 G t a b) -> snd (piece2 G t a b) <= G).
Proof. intros HG Ht Ha Hb. unfold piece1, piece2; cbn [fst snd]. lia. Qed.

(* ---------- the same model with side="left" (the code before the fix) is refuted ---------- *)
Lemma left_refuted_equal_weights : copies false [1; 1] 2 1 0 = 2 /\ copies false [1; 1] 2 1 1 = 0.
Proof. split; vm_compute; reflexivity. Qed.
Lemma left_refuted_zero_weight : copies false [0; 1] 1 0 0 = 1.
Proof. vm_compute; reflexivity. Qed.

(* ---------- resample is a row gather ---------- *)
Lemma resample_length {A} (d : A) rows inds : length (resample d rows inds) = length inds.
Proof. unfold resample. apply map_length. Qed.
Lemma resample_nth {A} (d : A) rows inds k : (k < length inds)%nat ->
  nth k (resample d rows inds) d = nth (Z.to_nat (nth k inds 0)) rows d.
Proof.
  intros Hk. unfold resample.
  rewrite (nth_indep _ d (nth (Z.to_nat 0) rows d)) by (rewrite map_length; assumption).
  rewrite (map_nth (fun i => nth (Z.to_nat i) rows d) inds 0 k). reflexivity.
Qed.

(* tooth k selects walker i exactly for offsets in two half-open pieces of total length w_i/W *)
Lemma tooth_selects w M j (k i : nat) :
  nonneg w -> 0 < total w -> 0 < M -> 0 <= j < M -> (k < length w)%nat -> (i < length w)%nat ->
  let N := Z.of_nat (length w) in let W := total w in
  let G := N * M * W in let t := Z.of_nat k * (M * W) in
  let a := N * M * pre w i in let b := N * M * pre w (S i) in
  let u := j * N * W in
  (0 <= u < G) /\
  (newind true w M j (Z.of_nat k) = Z.of_nat i <->
     (fst (piece1 G t a b) <= u < snd (piece1 G t a b)) \/ (fst (piece2 G t a b) <= u < snd (piece2 G t a b))) /\
  (snd (piece1 G t a b) - fst (piece1 G t a b)) + (snd (piece2 G t a b) - fst (piece2 G t a b)) = N * M * nth i w 0.
Proof.
  intros Hw HW HM Hj Hk Hi N W G t a b u.
  assert (HN : 0 < N) by (subst N; lia).
  assert (HG : 0 < G) by (subst G W; nia).
  assert (Hu : 0 <= u < G) by (subst u G W; nia).
  assert (Ht : 0 <= t < G).
  { subst t G. split; [subst W; nia|].
    replace (N * M * W) with (N * (M * W)) by ring. apply Z.mul_lt_mono_pos_r; [subst W; nia| subst N; lia]. }
  pose proof (pre_nonneg w Hw i) as P0. pose proof (pre_step w Hw i) as P1.
  pose proof (pre_mono w Hw (S i) (length w) ltac:(lia)) as P2. change (pre w (length w)) with W in P2.
  assert (HNM : 0 <= N * M) by nia.
  assert (Ha : 0 <= a <= b).
  { subst a b. split; [apply Z.mul_nonneg_nonneg; assumption | apply Z.mul_le_mono_nonneg_l; assumption]. }
  assert (Hb : b <= G). { subst b G. apply Z.mul_le_mono_nonneg_l; assumption. }
  split; [exact Hu|]. split.
  - rewrite (newind_iff w M j Hw HW HM (Z.of_nat k) i Hi).
    assert (E : point (length w) (j * Z.of_nat (length w) * total w) (M * total w) (Z.of_nat k) = (u + t) mod G).
    { unfold point. subst u t G N W. f_equal; ring. }
    rewrite E. exact (tooth_offsets G t a b u HG Ht Ha Hb Hu).
  - destruct (tooth_measure G t a b HG Ht Ha Hb) as [E _]. rewrite E. subst a b.
    rewrite (pre_S_nth w i Hi). ring.
Qed.
