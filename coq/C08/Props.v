(* C08 — property theorems only.  Each is closed by `exact <lemma>` so that the statements below
   cannot be weakened quietly; assumptions are printed for the evidence file. *)
From Coq Require Import ZArith List Bool Lia.
From PyQMC Require Import base.Cnt C08.Model C08.Proofs.
Import ListNotations. Open Scope Z_scope.

(* copies_i is floor(N w_i/W) or ceil(N w_i/W), for every weight vector, offset j/M and walker *)
Theorem C08_floor_or_ceil : forall w M j,
  nonneg w -> 0 < total w -> 0 < M -> 0 <= j < M -> forall i : nat, (i < length w)%nat ->
  (Z.of_nat (length w) * nth i w 0) / total w <= copies true w M j (Z.of_nat i)
    <= cdiv (Z.of_nat (length w) * nth i w 0) (total w).
Proof. exact copies_bounds. Qed.
Print Assumptions C08_floor_or_ceil.

Theorem C08_zero_weight_never_copied : forall w M j,
  nonneg w -> 0 < total w -> 0 < M -> 0 <= j < M -> forall i : nat, (i < length w)%nat ->
  nth i w 0 = 0 -> copies true w M j (Z.of_nat i) = 0.
Proof. exact copies_zero. Qed.
Print Assumptions C08_zero_weight_never_copied.

(* every returned walker is a copy of an input walker ... *)
Theorem C08_indices_valid : forall w M j,
  nonneg w -> 0 < total w -> 0 < M -> forall k,
  0 <= newind true w M j k < Z.of_nat (length w).
Proof. exact newind_range. Qed.
Print Assumptions C08_indices_valid.

(* ... and the number of walkers is conserved *)
Theorem C08_walkers_conserved : forall w M j,
  nonneg w -> 0 < total w -> 0 < M -> 0 <= j < M ->
  fold_right Z.add 0 (map (fun i => copies true w M j (Z.of_nat i)) (seq 0 (length w))) = Z.of_nat (length w).
Proof. exact copies_total. Qed.
Print Assumptions C08_walkers_conserved.

(* all new weights are W/N, hence total weight N*(W/N) = W is conserved *)
Theorem C08_weights_equal : forall w, Forall (fun p => p = (total w, Z.of_nat (length w))) (newweights w)
  /\ length (newweights w) = length w.
Proof.
  intros w. split; [|apply map_length]. unfold newweights. apply Forall_forall.
  intros p Hp. apply in_map_iff in Hp. destruct Hp as [? [E _]]. symmetry. exact E.
Qed.
Print Assumptions C08_weights_equal.

(* exact unbiasedness: for every tooth k the set of offsets selecting walker i is a union of two
   half-open intervals of total length (N M w_i) out of the period G = N M W, i.e. w_i/W; summed
   over the N teeth the expected number of copies is N w_i / W. *)
Theorem C08_unbiased : forall w M j (k i : nat),
  nonneg w -> 0 < total w -> 0 < M -> 0 <= j < M -> (k < length w)%nat -> (i < length w)%nat ->
  let N := Z.of_nat (length w) in let W := total w in
  let G := N * M * W in let t := Z.of_nat k * (M * W) in
  let a := N * M * pre w i in let b := N * M * pre w (S i) in
  let u := j * N * W in
  (0 <= u < G) /\
  (newind true w M j (Z.of_nat k) = Z.of_nat i <->
     (fst (piece1 G t a b) <= u < snd (piece1 G t a b)) \/ (fst (piece2 G t a b) <= u < snd (piece2 G t a b))) /\
  (snd (piece1 G t a b) - fst (piece1 G t a b)) + (snd (piece2 G t a b) - fst (piece2 G t a b)) = N * M * nth i w 0.
Proof. exact tooth_selects. Qed.
Print Assumptions C08_unbiased.

(* resample gathers rows: row k of the result is row newinds[k] of the input *)
Theorem C08_resample_gathers : forall (A : Type) (d : A) rows inds k, (k < length inds)%nat ->
  nth k (resample d rows inds) d = nth (Z.to_nat (nth k inds 0)) rows d.
Proof. exact @resample_nth. Qed.
Print Assumptions C08_resample_gathers.

(* the model with side="left" (the code before the fix: commit "fix: branch() comb ...") violates the property *)
Theorem C08_left_side_refuted :
  (copies false [1; 1] 2 1 0 = 2 /\ copies false [1; 1] 2 1 1 = 0) /\ copies false [0; 1] 1 0 0 = 1.
Proof. exact (conj left_refuted_equal_weights left_refuted_zero_weight). Qed.
Print Assumptions C08_left_side_refuted.

(* non-vacuity: a concrete weight vector with a zero, a huge ratio and a weight above 2 meets the hypotheses *)
Example C08_hypotheses_satisfiable :
  nonneg [0; 1; 1000000; 5] /\ 0 < total [0; 1; 1000000; 5] /\ 0 < 8 /\ 0 <= 3 < 8
  /\ map (fun i => copies true [0; 1; 1000000; 5] 8 3 i) [0; 1; 2; 3] = [0; 0; 4; 0].
Proof. repeat split; try lia; try (repeat constructor; lia). Qed.
Print Assumptions C08_hypotheses_satisfiable.
