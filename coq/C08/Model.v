(* C08 — model of pyqmc.method.dmc.branch (the stochastic comb) in exact integer units.
   Weights are integers w_i >= 0 (the harness scales the doubles by a common power of two),
   the offset is u = j / M.  In units of 1/(N*M):
     comb step d = M*W, first point c = j*N*W, point k = (c + k*d) mod (N*d),
     cumulative table s * cumsum w with s = N*M.                                  *)
From Coq Require Import ZArith List Bool.
From PyQMC Require Import base.Cnt.
Import ListNotations. Open Scope Z_scope.

Definition point (N : nat) (c d k : Z) : Z := (c + k * d) mod (Z.of_nat N * d).

Definition newind (right : bool) (w : list Z) (M j k : Z) : Z :=
  let N := length w in let W := total w in
  ss right w (Z.of_nat N * M) (point N (j * Z.of_nat N * W) (M * W) k).

(* the index array handed to configs.resample *)
Definition newinds (right : bool) (w : list Z) (M j : Z) : list Z :=
  map (fun k => newind right w M j (Z.of_nat k)) (seq 0 (length w)).

(* number of copies of walker i *)
Definition copies (right : bool) (w : list Z) (M j : Z) (i : Z) : Z :=
  cnt (fun k => newind right w M j k =? i) (length w).

(* weights after branching, as the pair (numerator, denominator) of W/N for each walker *)
Definition newweights (w : list Z) : list (Z * Z) :=
  map (fun _ => (total w, Z.of_nat (length w))) w.

(* configs.resample(newinds): row k of the result is row newinds[k] of the input
   (coordinates and, for periodic walkers, wrap counters alike) *)
Definition resample {A} (dflt : A) (rows : list A) (inds : list Z) : list A :=
  map (fun i => nth (Z.to_nat i) rows dflt) inds.
