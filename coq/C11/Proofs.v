(* C11 — proofs *)
From Coq Require Import List Ascii Bool ZArith Lia Reals Lra.
From PyQMC Require Import base.Einsum gen.Ewald2d_Gen C11.Model.
Import ListNotations.

(* ---- weights regenerated from ewald2d.py ---- *)
Open Scope R_scope.
(* The proofs below do not depend on how the source spells the arguments of exp/erfc/erf (g * -z, -(g*z), (-g)*z, ...):
   every argument of F is replaced by its ring normal form, so that arguments equal as polynomials become syntactically equal. *)
Ltac canon_step F :=
  match goal with
  | |- context [F ?a] =>
      let x := fresh "arg" in let Hx := fresh "Harg" in
      pose (x := a); assert (Hx : x = a) by reflexivity; ring_simplify in Hx;
      match type of Hx with _ = ?a' => tryif constr_eq a a' then fail else (replace a with a' by ring) end; clear Hx; clear x
  end.
Ltac canon_arg F := do 12 (try canon_step F).

Theorem recip_weight_even g z alpha A P (erfc : R -> R) : w2d_recip g (- z) alpha A P erfc = w2d_recip g z alpha A P erfc.
Proof. unfold w2d_recip. canon_arg exp. canon_arg erfc. ring. Qed.
Theorem charge_weight_even z alpha A P (erf : R -> R) : (forall x, erf (- x) = - erf x) ->
  w2d_charge (- z) alpha A P erf = w2d_charge z alpha A P erf.
Proof.
  intros Hodd. unfold w2d_charge.
  match goal with |- context [erf ?a] => match goal with |- context [erf ?b] =>
    tryif constr_eq a b then fail else (replace a with (- b) by ring; rewrite (Hodd b)) end end.
  canon_arg exp. ring.
Qed.
(* the self term is  -alpha/sqrt(pi) q2  +  (sum of the z = 0 reciprocal weights) q2  +  (k = 0 weight at z = 0) q2 *)
Theorem self_term_limit alpha A P sumW q2 (erf : R -> R) : erf 0 = 0 -> 0 < P -> alpha <> 0 -> A <> 0 ->
  w2d_self alpha A P sumW q2 = (- alpha / sqrt P + sumW + w2d_charge 0 alpha A P erf) * q2.
Proof.
  intros H0 HP Ha HA. unfold w2d_self, w2d_charge.
  canon_arg erf. rewrite H0. canon_arg exp. rewrite exp_0.
  assert (Hs : sqrt P <> 0) by (apply Rgt_not_eq, sqrt_lt_R0; exact HP).
  assert (Hq : sqrt P * sqrt P = P) by (apply sqrt_sqrt; lra).
  remember (sqrt P) as s eqn:Es. rewrite <- Hq. field. repeat split; assumption.
Qed.
Close Scope R_scope.

(* ---- typed contractions ---- *)
Lemma all_sites_typed : forallb site_typed contraction_sites = true.
Proof. vm_compute. reflexivity. Qed.
Lemma f6_rejected : site_typed f6_site = false.
Proof. vm_compute. reflexivity. Qed.

Open Scope Z_scope.
Lemma half_plane g : g <> (0, 0) -> positive2 g = negb (positive2 (neg2 g)).
Proof.
  destruct g as [a b]. intros H. unfold positive2, neg2.
  assert (a <> 0 \/ b <> 0) by (destruct (Z.eq_dec a 0), (Z.eq_dec b 0); subst; tauto).
  destruct (Z.ltb_spec 0 a), (Z.ltb_spec 0 (- a)), (Z.eqb_spec a 0), (Z.eqb_spec (- a) 0), (Z.ltb_spec 0 b), (Z.ltb_spec 0 (- b)); cbn; try reflexivity; lia.
Qed.
