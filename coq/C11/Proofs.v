(* C11 — proofs *)
From Coq Require Import List Ascii Bool ZArith Lia Reals Lra.
From PyQMC Require Import gen.Ewald2d_Gen C11.Model.
Import ListNotations.

(* ---- weights regenerated from ewald2d.py ---- *)
Open Scope R_scope.
Theorem recip_weight_even g z alpha A P (erfc : R -> R) : w2d_recip g (- z) alpha A P erfc = w2d_recip g z alpha A P erfc.
Proof.
  unfold w2d_recip. f_equal.
  replace (g * - z) with (- g * z) by ring. replace (- g * - z) with (g * z) by ring.
  replace (g / (2 * alpha) + alpha * - z) with (g / (2 * alpha) - alpha * z) by ring.
  replace (g / (2 * alpha) - alpha * - z) with (g / (2 * alpha) + alpha * z) by ring. ring.
Qed.
Theorem charge_weight_even z alpha A P (erf : R -> R) : (forall x, erf (- x) = - erf x) ->
  w2d_charge (- z) alpha A P erf = w2d_charge z alpha A P erf.
Proof.
  intros Hodd. unfold w2d_charge. f_equal.
  replace (alpha * - z) with (- (alpha * z)) by ring. rewrite Hodd.
  replace ((- z) ^ 2) with (z ^ 2) by ring. ring.
Qed.
(* the self term is  -alpha/sqrt(pi) q2  +  (sum of the z = 0 reciprocal weights) q2  +  (k = 0 weight at z = 0) q2 *)
Theorem self_term_limit alpha A P sumW q2 (erf : R -> R) : erf 0 = 0 -> 0 < P -> alpha <> 0 -> A <> 0 ->
  w2d_self alpha A P sumW q2 = (- alpha / sqrt P + sumW + w2d_charge 0 alpha A P erf) * q2.
Proof.
  intros H0 HP Ha HA. unfold w2d_self, w2d_charge.
  replace (alpha * 0) with 0 by ring. rewrite H0.
  replace (- alpha ^ 2 * 0 ^ 2) with 0 by ring. rewrite exp_0.
  assert (Hs : sqrt P <> 0) by (apply Rgt_not_eq, sqrt_lt_R0; exact HP).
  assert (Hq : sqrt P * sqrt P = P) by (apply sqrt_sqrt; lra).
  remember (sqrt P) as s eqn:Es. rewrite <- Hq. field. repeat split; assumption.
Qed.
Close Scope R_scope.

(* ---- typed contractions ---- *)
Lemma axis_eqb_eq a b : axis_eqb a b = true -> a = b.
Proof. destruct a, b; cbn; intros H; try reflexivity; discriminate H. Qed.

(* a binding extends another one *)
Definition extends (m' m : binding) : Prop := forall c a, lookup c m = Some a -> lookup c m' = Some a.
Lemma extends_refl m : extends m m. Proof. intros c a H; exact H. Qed.
Lemma extends_trans m1 m2 m3 : extends m1 m2 -> extends m2 m3 -> extends m1 m3.
Proof. intros H1 H2 c a H. apply H1, H2, H. Qed.
Lemma extends_cons c a m : lookup c m = None -> extends ((c, a) :: m) m.
Proof.
  intros Hn c' a' H. cbn. destruct (Ascii.eqb_spec c' c) as [->|]; [rewrite Hn in H; discriminate H|exact H].
Qed.

Lemma bind_operand_sound letters : forall axes m m', bind_operand letters axes m = Some m' ->
  extends m' m /\ length letters = length axes /\
  (forall i c a, nth_error letters i = Some c -> nth_error axes i = Some a -> lookup c m' = Some a).
Proof.
  induction letters as [|c ls IH]; intros [|a axs] m m' H; cbn in H; try discriminate H.
  - inversion H; subst. split; [apply extends_refl|]. split; [reflexivity|]. intros [|i] c a Hc; discriminate Hc.
  - destruct (lookup c m) as [a'|] eqn:L.
    + destruct (axis_eqb a a') eqn:E; [|discriminate H]. apply axis_eqb_eq in E. subst a'.
      destruct (IH _ _ _ H) as [He [Hl Hn]]. split; [exact He|]. split; [cbn; f_equal; exact Hl|].
      intros [|i] c0 a0 Hc Ha; cbn in Hc, Ha; [inversion Hc; inversion Ha; subst; apply He; exact L|eapply Hn; eassumption].
    + destruct (IH _ _ _ H) as [He [Hl Hn]]. split; [eapply extends_trans; [exact He|apply extends_cons; exact L]|]. split; [cbn; f_equal; exact Hl|].
      intros [|i] c0 a0 Hc Ha; cbn in Hc, Ha; [inversion Hc; inversion Ha; subst; apply He; cbn; rewrite Ascii.eqb_refl; reflexivity|eapply Hn; eassumption].
Qed.

Lemma bind_all_sound ins : forall ops m m', bind_all ins ops m = Some m' ->
  extends m' m /\
  (forall k letters axes, nth_error ins k = Some letters -> nth_error ops k = Some axes ->
     length letters = length axes /\ forall i c a, nth_error letters i = Some c -> nth_error axes i = Some a -> lookup c m' = Some a).
Proof.
  induction ins as [|l ins IH]; intros [|o ops] m m' H; cbn in H; try discriminate H.
  - inversion H; subst. split; [apply extends_refl|]. intros [|k] ? ? Hk; discriminate Hk.
  - destruct (bind_operand l o m) as [m1|] eqn:B; [|discriminate H].
    destruct (bind_operand_sound _ _ _ _ B) as [E1 [L1 N1]]. destruct (IH _ _ _ H) as [E2 N2].
    split; [eapply extends_trans; eassumption|].
    intros [|k] letters axes Hl Ha; cbn in Hl, Ha.
    + inversion Hl; inversion Ha; subst. split; [exact L1|]. intros i c a Hc Hx. apply E2. eapply N1; eassumption.
    + eapply N2; eassumption.
Qed.

(* if a contraction types, there is ONE assignment of meanings to letters such that every axis of every operand carries the meaning of its
   letter: two axes summed (or matched) by a shared letter always mean the same thing, whatever the sizes *)
Theorem typed_contraction_sound ins out ops res : type_einsum ins out ops = Some res ->
  exists m : binding,
    (forall k letters axes, nth_error ins k = Some letters -> nth_error ops k = Some axes ->
       length letters = length axes /\ forall i c a, nth_error letters i = Some c -> nth_error axes i = Some a -> lookup c m = Some a) /\
    out_axes out m = Some res.
Proof.
  unfold type_einsum. destruct (bind_all ins ops []) as [m|] eqn:B; [|discriminate]. intros H.
  exists m. split; [apply (bind_all_sound _ _ _ _ B)|exact H].
Qed.

Lemma all_sites_typed : forallb site_typed contraction_sites = true.
Proof. vm_compute. reflexivity. Qed.
Lemma sites_nonempty : (8 <=? length contraction_sites)%nat = true.
Proof. vm_compute. reflexivity. Qed.
Lemma f6_rejected : site_typed f6_site = false.
Proof. vm_compute. reflexivity. Qed.

Open Scope Z_scope.
Lemma half_plane g : g <> (0, 0) -> positive2 g = negb (positive2 (neg2 g)).
Proof.
  destruct g as [a b]. intros H. unfold positive2, neg2.
  assert (a <> 0 \/ b <> 0) by (destruct (Z.eq_dec a 0), (Z.eq_dec b 0); subst; tauto).
  destruct (Z.ltb_spec 0 a), (Z.ltb_spec 0 (- a)), (Z.eqb_spec a 0), (Z.eqb_spec (- a) 0), (Z.ltb_spec 0 b), (Z.ltb_spec 0 (- b)); cbn; try reflexivity; lia.
Qed.
