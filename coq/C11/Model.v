(* C11 — typing of einsum contractions by the MEANING of each axis, and the half plane of reciprocal points (executable). *)
From Coq Require Import List Ascii Bool ZArith Lia.
From PyQMC Require Import gen.Ewald2d_Gen.
Import ListNotations.

Definition axis_eqb (a b : axis) : bool :=
  match a, b with
  | Ax_walker, Ax_walker | Ax_ion, Ax_ion | Ax_electron, Ax_electron | Ax_pair, Ax_pair | Ax_ionpair, Ax_ionpair
  | Ax_kpoint, Ax_kpoint | Ax_xyz, Ax_xyz | Ax_one, Ax_one | Ax_two, Ax_two => true
  | _, _ => false
  end.

Definition binding := list (ascii * axis).
Fixpoint lookup (c : ascii) (m : binding) : option axis :=
  match m with [] => None | (c', a) :: t => if Ascii.eqb c c' then Some a else lookup c t end.
(* bind the letters of one operand to the meanings of its axes; fail on a length mismatch or on a letter already bound to another meaning *)
Fixpoint bind_operand (letters : list ascii) (axes : list axis) (m : binding) : option binding :=
  match letters, axes with
  | [], [] => Some m
  | c :: ls, a :: axs =>
      match lookup c m with
      | None => bind_operand ls axs ((c, a) :: m)
      | Some a' => if axis_eqb a a' then bind_operand ls axs m else None
      end
  | _, _ => None
  end.
Fixpoint bind_all (ins : list (list ascii)) (ops : list (list axis)) (m : binding) : option binding :=
  match ins, ops with
  | [], [] => Some m
  | l :: ins', o :: ops' => match bind_operand l o m with Some m' => bind_all ins' ops' m' | None => None end
  | _, _ => None
  end.
Fixpoint out_axes (out : list ascii) (m : binding) : option (list axis) :=
  match out with
  | [] => Some []
  | c :: t => match lookup c m, out_axes t m with Some a, Some r => Some (a :: r) | _, _ => None end
  end.
Definition type_einsum (ins : list (list ascii)) (out : list ascii) (ops : list (list axis)) : option (list axis) :=
  match bind_all ins ops [] with Some m => out_axes out m | None => None end.

Definition site_typed (s : list (list ascii) * list ascii * list (list axis)) : bool :=
  let '(ins, out, ops) := s in match type_einsum ins out ops with Some _ => true | None => false end.
(* what the F6 defect looked like: the ion charges contracted with the electron axis *)
Definition f6_site : list (list ascii) * list ascii * list (list axis) :=
  ([["k"%char]; ["i"%char; "j"%char; "k"%char]], ["i"%char], [[Ax_ion]; [Ax_walker; Ax_ion; Ax_electron]]).

(* half plane of in-plane reciprocal points: x > 0 any y, or x = 0 and y > 0 *)
Open Scope Z_scope.
Definition positive2 (g : Z * Z) : bool := let '(a, b) := g in (0 <? a) || ((a =? 0) && (0 <? b)).
Definition neg2 (g : Z * Z) : Z * Z := let '(a, b) := g in (- a, - b).
