(* C11 — typing of einsum contractions by the MEANING of each axis, and the half plane of reciprocal points (executable). *)
From Coq Require Import List Ascii Bool ZArith Lia.
From PyQMC Require Import base.Einsum gen.Ewald2d_Gen.
Import ListNotations.

(* what the F6 defect looked like: the ion charges contracted with the electron axis *)
Definition f6_site : site :=
  ([["k"%char]; ["i"%char; "j"%char; "k"%char]], ["i"%char], [[Ax_ion]; [Ax_walker; Ax_ion; Ax_electron]]).

(* half plane of in-plane reciprocal points: x > 0 any y, or x = 0 and y > 0 *)
Open Scope Z_scope.
Definition positive2 (g : Z * Z) : bool := let '(a, b) := g in (0 <? a) || ((a =? 0) && (0 <? b)).
Definition neg2 (g : Z * Z) : Z * Z := let '(a, b) := g in (- a, - b).
