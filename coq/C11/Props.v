(* C11 — property theorems only (2D Ewald: weights regenerated from ewald2d.py, typed contractions, half plane). *)
From Coq Require Import List Ascii Bool ZArith Reals.
From PyQMC Require Import base.Einsum gen.Ewald2d_Gen C11.Model C11.Proofs.
Import ListNotations.

(* exchanging the two particles of a pair flips the height difference: the reciprocal weight of the CURRENT source is even in it
   (for ANY function standing for erfc), so pair sums are symmetric in the labels *)
Theorem C11_reciprocal_weight_is_even_in_height : forall (g z alpha A P : R) (erfc : R -> R),
  w2d_recip g (- z)%R alpha A P erfc = w2d_recip g z alpha A P erfc.
Proof. exact recip_weight_even. Qed.
Print Assumptions C11_reciprocal_weight_is_even_in_height.

Theorem C11_charge_weight_is_even_in_height : forall (z alpha A P : R) (erf : R -> R), (forall x : R, erf (- x)%R = (- erf x)%R) ->
  w2d_charge (- z)%R alpha A P erf = w2d_charge z alpha A P erf.
Proof. exact charge_weight_even. Qed.
Print Assumptions C11_charge_weight_is_even_in_height.

(* the self term of the CURRENT source = real-space self term + the i = j terms of the reciprocal sum (z = 0) + the k = 0 weight at z = 0 *)
Theorem C11_self_term_is_the_zero_height_limit : forall (alpha A P sumW q2 : R) (erf : R -> R), erf 0%R = 0%R -> (0 < P)%R -> alpha <> 0%R -> A <> 0%R ->
  w2d_self alpha A P sumW q2 = ((- alpha / sqrt P + sumW + w2d_charge 0 alpha A P erf) * q2)%R.
Proof. exact self_term_limit. Qed.
Print Assumptions C11_self_term_is_the_zero_height_limit.

(* every einsum of the three energy routines of the CURRENT source pairs axes of the same meaning (ion charges with the ION axis, ...),
   and the contraction that was the F6 defect (ion charges against the electron axis) is rejected by the same check *)
Theorem C11_contractions_pair_like_axes :
  forallb site_typed contraction_sites = true /\ site_typed f6_site = false.
Proof. split; [exact all_sites_typed|exact f6_rejected]. Qed.
Print Assumptions C11_contractions_pair_like_axes.

(* what "typed" means, for all sizes: one assignment of meanings to the subscript letters explains every operand axis *)
Theorem C11_typed_contraction_sums_like_axes : forall ins out ops res, type_einsum ins out ops = Some res ->
  exists m : binding,
    (forall k letters axes, nth_error ins k = Some letters -> nth_error ops k = Some axes ->
       length letters = length axes /\ forall i c a, nth_error letters i = Some c -> nth_error axes i = Some a -> lookup c m = Some a) /\
    out_axes out m = Some res.
Proof. exact typed_contraction_sound. Qed.
Print Assumptions C11_typed_contraction_sums_like_axes.

Theorem C11_half_plane_picks_one_of_each_pair : forall g : Z * Z, g <> (0, 0)%Z -> positive2 g = negb (positive2 (neg2 g)).
Proof. exact half_plane. Qed.
Print Assumptions C11_half_plane_picks_one_of_each_pair.
