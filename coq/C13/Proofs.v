From Coq Require Import ZArith QArith List Bool Lia Lqa.
From PyQMC Require Import base.Cnt base.Split C09.Model C09.Proofs C13.Model.
Import ListNotations. Open Scope Q_scope.

(* ---------- walker skipping ---------- *)
Lemma qabs_nonneg x : 0 <= qabs x.
Proof. unfold qabs. destruct (Qlt_le_dec x 0); lra. Qed.
Lemma qabs_zero x : qabs x == 0 -> x == 0.
Proof. unfold qabs. destruct (Qlt_le_dec x 0); lra. Qed.

Lemma dot_cons x xs y ys : dot (x :: xs) (y :: ys) = x * y + dot xs ys.
Proof. reflexivity. Qed.
Lemma dot_nil_l ys : dot [] ys = 0.
Proof. reflexivity. Qed.

Lemma dot_div v a p : dot (map (fun x => x / p) v) a == dot v a / p.
Proof.
  revert a. induction v as [|x v IH]; intros a; [cbn; unfold Qdiv; ring|].
  destruct a as [|y a]; [cbn; unfold Qdiv; ring|]. cbn [map]. rewrite !dot_cons, IH. unfold Qdiv. ring.
Qed.

Lemma dot_abs_zero v c : length c = length v -> Forall (fun x => 0 < x) c -> dot (map qabs v) c == 0 -> Forall (fun x => x == 0) v.
Proof.
  revert c. induction v as [|x v IH]; intros c Hl Hc Hz; [constructor|].
  destruct c as [|y c]; [discriminate|]. inversion Hc as [|? ? Hy Hc']; subst. cbn [map] in Hz. rewrite dot_cons in Hz.
  assert (Hn : 0 <= dot (map qabs v) c).
  { clear -Hc'. revert c Hc'. induction v as [|x v IH]; intros c Hc; [cbn; lra|]. destruct c as [|y c]; [cbn; lra|]. inversion Hc; subst.
    cbn [map]. rewrite dot_cons. pose proof (qabs_nonneg x). specialize (IH c H2). nra. }
  pose proof (qabs_nonneg x) as Hx.
  assert (Hxy : 0 <= qabs x * y) by nra.
  constructor.
  - apply qabs_zero. destruct (Qlt_le_dec 0 (qabs x)) as [Hp|Hp]; [|lra]. assert (0 < qabs x * y) by nra. lra.
  - apply (IH c); [cbn in Hl; lia|assumption|lra].
Qed.

Lemma dot_zero_l v a : Forall (fun x => x == 0) v -> dot v a == 0.
Proof.
  revert a. induction v as [|x v IH]; intros a H; [reflexivity|]. destruct a as [|y a]; [reflexivity|]. inversion H; subst.
  rewrite dot_cons, IH by assumption. rewrite H2. ring.
Qed.

(* the masked estimator is unbiased for EVERY threshold: E_u[estimate] = full sum *)
Theorem mask_unbiased thr_pos v c a : length c = length v -> Forall (fun x => 0 < x) c ->
  mask_expectation thr_pos v c a == dot v a.
Proof.
  intros Hl Hc. unfold mask_expectation. set (p := mask_prob thr_pos v c).
  rewrite dot_div. destruct (Qeq_dec p 0) as [Hz|Hnz].
  - (* p = 0 only if every v_l = 0 *)
    assert (Hv : Forall (fun x => x == 0) v).
    { subst p. unfold mask_prob in Hz. destruct thr_pos; [|lra].
      destruct (Qlt_le_dec 1 (dot (map qabs v) c)); [lra|]. apply (dot_abs_zero v c); assumption. }
    rewrite (dot_zero_l v a Hv). rewrite Hz. unfold Qdiv. ring.
  - field. assumption.
Qed.

Lemma mask_prob_range thr_pos v c : Forall (fun x => 0 < x) c -> 0 <= mask_prob thr_pos v c <= 1.
Proof.
  intros Hc. unfold mask_prob. destruct thr_pos; [|lra]. destruct (Qlt_le_dec 1 (dot (map qabs v) c)); [lra|]. split; [|assumption].
  clear q. revert c Hc. induction v as [|x v IH]; intros c Hc; [cbn; lra|]. destruct c as [|y c]; [cbn; lra|]. inversion Hc; subst.
  cbn [map]. rewrite dot_cons. pose proof (qabs_nonneg x). specialize (IH c H2). nra.
Qed.

(* ---------- point selection ---------- *)
Definition sel_ok (tot k : Q) (x : (Q * bool) * Q) : Prop :=
  0 <= fst (fst x) /\ (snd (fst x) = false -> fst (fst x) == 0 -> snd x == 0) /\ (Qeq_bool tot 0 = true -> snd (fst x) = false -> snd x == 0).

Lemma select_term_is_v tot k x : 0 < k -> sel_ok tot k x -> select_term tot k x == snd x.
Proof.
  intros Hk [Hp [Hz Ht]]. destruct x as [[p d] v]. cbn [fst snd] in *. unfold select_term, pnorm1. cbn [fst snd].
  destruct d.
  - assert (E0 : Qeq_bool 0 0 = true) by reflexivity. rewrite E0. ring.
  - destruct (Qeq_bool tot 0) eqn:Et.
    + pose proof (Ht eq_refl eq_refl) as Hv0. destruct (Qeq_bool (1 / k) 0); [lra|]. field. lra.
    + destruct (Qeq_bool (p / tot) 0) eqn:Ep.
      * apply Qeq_bool_iff in Ep. assert (~ tot == 0) by (intros E; apply Qeq_bool_iff in E; congruence).
        assert (p == 0). { assert (E1 : p == (p / tot) * tot) by (field; assumption). rewrite Ep in E1. lra. }
        pose proof (Hz eq_refl H0) as Hv0. lra.
      * assert (Ht0 : ~ tot == 0) by (intros E; apply Qeq_bool_iff in E; congruence).
        assert (Hp0 : ~ p == 0). { intros E. assert (E2 : p / tot == 0) by (rewrite E; unfold Qdiv; ring). apply Qeq_bool_iff in E2. congruence. }
        field. auto.
Qed.

(* the estimator with n_det deterministic points and any number of random picks is unbiased:
   expectation = sum of ALL terms, provided a point of zero probability carries a zero term (prob_i = sum_l v_il^2) *)
Theorem select_unbiased prob det v : length det = length prob -> length v = length prob ->
  Forall (sel_ok (rest_total prob det) (nrest det)) (combine (combine prob det) v) ->
  (exists i, nth i det true = false) \/ Forall (fun d => d = true) det ->
  select_expectation prob det v == sumQ v.
Proof.
  intros Hd Hv Hok Hk. unfold select_expectation.
  assert (Hmap : map snd (combine (combine prob det) v) = v).
  { clear Hok Hk. revert det v Hd Hv. induction prob as [|p ps IH]; intros det v Hd Hv; [destruct v; [reflexivity|discriminate]|].
    destruct det as [|d ds]; [discriminate|]. destruct v as [|x xs]; [discriminate|]. cbn. f_equal. apply IH; cbn in *; lia. }
  transitivity (sumQ (map snd (combine (combine prob det) v))); [|rewrite Hmap; reflexivity].
  destruct Hk as [[i Hi]|Hall].
  - assert (Hkpos : 0 < nrest det).
    { unfold nrest. apply lenQ_pos. clear -Hi. revert i Hi. induction det as [|d ds IH]; intros i Hi; [destruct i; discriminate|].
      destruct d; cbn [filter negb]; [|discriminate]. destruct i; [discriminate|]. apply (IH i). exact Hi. }
    apply sumQ_map_ext. intros x Hx. apply select_term_is_v; [assumption|]. rewrite Forall_forall in Hok. apply Hok. assumption.
  - (* every point deterministic: second term vanishes *)
    apply sumQ_map_ext. intros [[p d] x] Hx.
    assert (d = true).
    { apply in_combine_l in Hx. apply in_combine_r in Hx. rewrite Forall_forall in Hall. apply Hall. assumption. }
    subst d. unfold select_term, pnorm1. cbn [fst snd]. assert (E0 : Qeq_bool 0 0 = true) by reflexivity. rewrite E0. ring.
Qed.

(* ---------- which uniform picks which point: (r > cdf).sum() ---------- *)
Theorem pick_interval w M rho (i : nat) : nonneg w -> (0 < M)%Z -> (0 < rho <= M)%Z -> (0 < Cnt.total w)%Z -> (i < length w)%nat ->
  (pick_index w M rho = Z.of_nat i <-> (M * pre w i < rho * Cnt.total w <= M * pre w (S i))%Z).
Proof.
  intros Hw HM Hr HW Hi. unfold pick_index. apply ss_left_iff; try assumption. nia.
Qed.

(* ---------- slices ---------- *)
Lemma det_slice_new_length {A} (l : list A) n_det : (0 <= n_det <= Z.of_nat (length l))%Z ->
  length (det_slice_new l n_det) = Z.to_nat n_det.
Proof.
  intros H. unfold det_slice_new, slice_from.
  destruct (Z.ltb_spec (Z.of_nat (length l) - n_det) 0); [lia|]. rewrite skipn_length. lia.
Qed.
Lemma det_slice_old_zero {A} (l : list A) : det_slice_old l 0 = l.
Proof. unfold det_slice_old, slice_from. cbn [Z.opp Z.ltb Z.compare]. replace (Z.to_nat (Z.min 0 (Z.of_nat (length l)))) with 0%nat by lia. reflexivity. Qed.
Lemma det_slice_old_pos {A} (l : list A) n_det : (0 < n_det <= Z.of_nat (length l))%Z -> det_slice_old l n_det = det_slice_new l n_det.
Proof.
  intros H. unfold det_slice_old, det_slice_new, slice_from.
  destruct (Z.ltb_spec (- n_det) 0); [|lia]. destruct (Z.ltb_spec (Z.of_nat (length l) - n_det) 0); [lia|].
  f_equal. lia.
Qed.

(* ---------- naip ---------- *)
Lemma naip_int_new_spec n natoms : naip_int_new n natoms = repeat n natoms.
Proof. unfold naip_int_new. induction natoms as [|k IH]; cbn [repeat map]; [reflexivity|]. rewrite IH. f_equal. lia. Qed.
Lemma naip_int_old_refuted : naip_int_old 6 2 = [0; 0]%nat /\ naip_int_new 6 2 = [6; 6]%nat.
Proof. split; reflexivity. Qed.
Lemma naip_default_total maxL : (-1 <= maxL)%Z -> (maxL = -1)%Z \/ (0 < naip_default_new maxL)%nat.
Proof. intros H. unfold naip_default_new. destruct (Z.eqb_spec maxL (-1)); [left; assumption|right]. destruct (maxL <=? 1)%Z; lia. Qed.
Lemma naip_default_old_refuted : naip_default_old 3 = 0%nat /\ naip_default_new 3 = 12%nat.
Proof. split; reflexivity. Qed.
