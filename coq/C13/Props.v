(* C13 — property theorems only. *)
From Coq Require Import ZArith QArith List Bool Lia.
From PyQMC Require Import base.Cnt C09.Model C13.Model C13.Proofs.
Import ListNotations. Open Scope Q_scope.

(* skipping walkers with probability 1 - p and dividing the kept ones by p leaves the expectation equal to the full sum,
   for every threshold (positive: p = min(1, sum |v_l| c_l); non-positive: p = 1), every channel set, every quadrature sum a_l *)
Theorem C13_walker_skipping_unbiased : forall thr_pos v c a, length c = length v -> Forall (fun x => 0 < x) c ->
  mask_expectation thr_pos v c a == dot v a.
Proof. exact mask_unbiased. Qed.
Print Assumptions C13_walker_skipping_unbiased.

Theorem C13_skip_probability_in_unit_interval : forall thr_pos v c, Forall (fun x => 0 < x) c -> 0 <= mask_prob thr_pos v c <= 1.
Proof. exact mask_prob_range. Qed.
Print Assumptions C13_skip_probability_in_unit_interval.

(* evaluating n_det points deterministically and the others by random picks weighted 1/(n_rand p') is unbiased, for every
   selection size (including n_det = 0 and n_det = all), provided zero-probability points carry zero terms *)
Theorem C13_point_selection_unbiased : forall prob det v, length det = length prob -> length v = length prob ->
  Forall (sel_ok (rest_total prob det) (nrest det)) (combine (combine prob det) v) ->
  (exists i, nth i det true = false) \/ Forall (fun d => d = true) det ->
  select_expectation prob det v == sumQ v.
Proof. exact select_unbiased. Qed.
Print Assumptions C13_point_selection_unbiased.

(* the uniform r picks point i exactly on an interval of length w_i / W:  (r > cdf).sum() = i  <->  P_{i-1} < r <= P_i *)
Theorem C13_pick_interval : forall w M rho (i : nat), nonneg w -> (0 < M)%Z -> (0 < rho <= M)%Z -> (0 < Cnt.total w)%Z -> (i < length w)%nat ->
  (pick_index w M rho = Z.of_nat i <-> (M * pre w i < rho * Cnt.total w <= M * pre w (S i))%Z).
Proof. exact pick_interval. Qed.
Print Assumptions C13_pick_interval.

(* the deterministic set has exactly n_det members for every 0 <= n_det <= npoints ... *)
Theorem C13_deterministic_set_size : forall (A : Type) (l : list A) n_det, (0 <= n_det <= Z.of_nat (length l))%Z ->
  length (det_slice_new l n_det) = Z.to_nat n_det.
Proof. exact @det_slice_new_length. Qed.
Print Assumptions C13_deterministic_set_size.
(* ... whereas the slice [:, -n_det:] used before the fix selects ALL points when n_det = 0 *)
Theorem C13_negative_slice_refuted : forall (A : Type) (l : list A), det_slice_old l 0 = l.
Proof. exact @det_slice_old_zero. Qed.
Print Assumptions C13_negative_slice_refuted.

(* one integer = that many points on every atom; the default table is total over the highest channel *)
Theorem C13_naip_integer_means_every_atom : forall n natoms, naip_int_new n natoms = repeat n natoms.
Proof. exact naip_int_new_spec. Qed.
Print Assumptions C13_naip_integer_means_every_atom.
Theorem C13_naip_default_total : forall maxL, (-1 <= maxL)%Z -> (maxL = -1)%Z \/ (0 < naip_default_new maxL)%nat.
Proof. exact naip_default_total. Qed.
Print Assumptions C13_naip_default_total.
Theorem C13_naip_old_code_refuted : (naip_int_old 6 2 = [0; 0]%nat /\ naip_int_new 6 2 = [6; 6]%nat) /\ (naip_default_old 3 = 0%nat /\ naip_default_new 3 = 12%nat).
Proof. exact (conj naip_int_old_refuted naip_default_old_refuted). Qed.
Print Assumptions C13_naip_old_code_refuted.

Example C13_instance :
  qz (mask_expectation true [1#2; -(1#3)] [3#10; 7#10] [2; 5]) = qz (dot [1#2; -(1#3)] [2; 5]) /\
  qz (select_expectation [4; 2; 1; 1; 0] [true; false; false; false; false] [7; 3; 2; -1; 0]) = [11; 1]%Z.
Proof. split; vm_compute; reflexivity. Qed.
Print Assumptions C13_instance.
