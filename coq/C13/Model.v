(* C13 — exact rational model of the stochastic shortcuts of the non-local pseudopotential:
   eval_ecp.ecp_mask (walker skipping), jax_ecp.downselect_move_info (deterministic + random point selection),
   and the naip normalisation of jax_ecp.ECPAccumulator. *)
From Coq Require Import ZArith QArith List Bool.
From PyQMC Require Import base.Cnt C09.Model.
Import ListNotations. Open Scope Q_scope.

(* ---- walker skipping: prob = min(1, sum_l |v_l| c_l) with c_l = threshold * (2 (2l+1) + 1) > 0; threshold <= 0: prob = 1.
   accept iff u < prob; accepted walkers have v_l / prob; the energy is sum_l (v_l/prob) a_l (a_l = sum over the quadrature) *)
Definition qabs (x : Q) : Q := if Qlt_le_dec x 0 then - x else x.
Definition dot (a b : list Q) : Q := sumQ (map (fun p => fst p * snd p) (combine a b)).
Definition mask_prob (thr_pos : bool) (v c : list Q) : Q :=
  if thr_pos then (let s := dot (map qabs v) c in if Qlt_le_dec 1 s then 1 else s) else 1.
(* the estimator for a given uniform u *)
Definition mask_estimate (thr_pos : bool) (v c a : list Q) (u : Q) : Q :=
  let p := mask_prob thr_pos v c in
  if Qlt_le_dec u p then dot (map (fun x => x / p) v) a else 0.
(* its expectation over u uniform in [0,1): the accept branch has length p *)
Definition mask_expectation (thr_pos : bool) (v c a : list Q) : Q :=
  let p := mask_prob thr_pos v c in p * dot (map (fun x => x / p) v) a + (1 - p) * 0.

(* ---- point selection ----
   prob : per-point probabilities (>= 0); det : which points are evaluated deterministically;
   the others are renormalised; n_rand picks with replacement; picked point i gets weight 1/(n_rand * p'_i) *)
Definition pnorm1 (tot k : Q) (pd : Q * bool) : Q :=
  if snd pd then 0 else if Qeq_bool tot 0 then 1 / k else fst pd / tot.     (* all-zero rest: uniform over the rest *)
Definition rest_total (prob : list Q) (det : list bool) : Q :=
  sumQ (map (fun pd : Q * bool => if snd pd then 0 else fst pd) (combine prob det)).
Definition nrest (det : list bool) : Q := lenQ (filter negb det).
Definition pnorm (prob : list Q) (det : list bool) : list Q :=
  map (pnorm1 (rest_total prob det) (nrest det)) (combine prob det).
(* expectation of the estimator  sum_det v_i + (1/n) sum_{k<n} v_{i_k}/p'_{i_k},  each i_k ~ p' :
   per point  [det ? v : 0] + p' * (v/p')  (the second term absent when p' = 0: the point is never picked) *)
Definition select_term (tot k : Q) (x : (Q * bool) * Q) : Q :=
  let p' := pnorm1 tot k (fst x) in
  (if snd (fst x) then snd x else 0) + (if Qeq_bool p' 0 then 0 else p' * (snd x / p')).
Definition select_expectation (prob : list Q) (det : list bool) (v : list Q) : Q :=
  sumQ (map (select_term (rest_total prob det) (nrest det)) (combine (combine prob det) v)).
(* index picked for a uniform r by  (r > cdf).sum() : integer version shared with base/Cnt (weights w, r = rho/M) *)
Definition pick_index (w : list Z) (M rho : Z) : Z := ss false w M (rho * total w).

(* ---- python slicing a[start:] with a possibly negative start ---- *)
Definition slice_from {A} (l : list A) (start : Z) : list A :=
  let n := Z.of_nat (length l) in
  let s := if (start <? 0)%Z then Z.max 0 (start + n) else Z.min start n in
  skipn (Z.to_nat s) l.
(* deterministic points after the fix: argsort(...)[:, npoints - n_det :]; before: [:, -n_det:] *)
Definition det_slice_new {A} (sorted : list A) (n_det : Z) := slice_from sorted (Z.of_nat (length sorted) - n_det)%Z.
Definition det_slice_old {A} (sorted : list A) (n_det : Z) := slice_from sorted (- n_det)%Z.

(* ---- naip given as one integer ---- *)
Definition naip_int_new (n natoms : nat) : list nat := map (fun o => n * o)%nat (repeat 1%nat natoms).   (* naip * np.ones *)
Definition naip_int_old (n natoms : nat) : list nat := map (fun o => n * o)%nat (repeat 0%nat natoms).   (* naip * np.zeros *)
(* default table by highest channel *)
Definition naip_default_new (maxL : Z) : nat := if (maxL =? -1)%Z then 0 else if (maxL <=? 1)%Z then 6 else 12.
Definition naip_default_old (maxL : Z) : nat := if (maxL =? -1)%Z then 0 else if (maxL <=? 1)%Z then 6 else if (maxL =? 2)%Z then 12 else 0.
