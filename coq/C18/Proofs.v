From Coq Require Import ZArith QArith Qround List Bool Lia Lqa.
From PyQMC Require Import base.Split C18.Model.
Import ListNotations. Open Scope Q_scope.
Local Opaque Qfloor.

(* ---------- floor / frac ---------- *)
Lemma qfrac_range x : 0 <= qfrac x /\ qfrac x < 1.
Proof.
  unfold qfrac, qfloor. pose proof (Qfloor_le x). pose proof (Qlt_floor x).
  rewrite inject_Z_plus in H0. change (inject_Z 1) with 1 in H0. split; lra.
Qed.
Lemma qfrac_plus_floor x : qfrac x + qfloor x == x.
Proof. unfold qfrac. ring. Qed.
Lemma qfloor_integer x : exists n : Z, qfloor x = inject_Z n.
Proof. exists (Qfloor x). reflexivity. Qed.

Definition is_inverse (L Linv : Qm) : Prop := forall v, veq (vmul (vmul v Linv) L) v.

Lemma veq_refl a : veq a a. Proof. destruct a as [[x y] z]. cbn. repeat split; reflexivity. Qed.
Lemma veq_sym a b : veq a b -> veq b a.
Proof. destruct a as [[x y] z], b as [[u v] w]. cbn. intros [? [? ?]]. repeat split; symmetry; assumption. Qed.
Lemma veq_trans a b c : veq a b -> veq b c -> veq a c.
Proof. destruct a as [[x y] z], b as [[u v] w], c as [[p q] r]. cbn. intros [? [? ?]] [? [? ?]]. repeat split; etransitivity; eassumption. Qed.
Lemma vadd_veq a a' b b' : veq a a' -> veq b b' -> veq (vadd a b) (vadd a' b').
Proof. destruct a as [[x y] z], b as [[u v] w], a' as [[x' y'] z'], b' as [[u' v'] w']. cbn. intros [? [? ?]] [? [? ?]]. repeat split; lra. Qed.
Lemma vmul_vadd a b L : veq (vmul (vadd a b) L) (vadd (vmul a L) (vmul b L)).
Proof. destruct a as [[x y] z], b as [[u v] w], L as [[[[a b] c] [[d e] f]] [[g h] i]]. cbn. repeat split; ring. Qed.
Lemma frac_plus_floor_v f : veq (vadd (fracv f) (floorv f)) f.
Proof. destruct f as [[x y] z]. cbn. repeat split; apply qfrac_plus_floor. Qed.
Lemma vmul_veq a a' L : veq a a' -> veq (vmul a L) (vmul a' L).
Proof. destruct a as [[x y] z], a' as [[x' y'] z'], L as [[[[a b] c] [[d e] f]] [[g h] i]]. cbn. intros [E1 [E2 E3]]. rewrite E1, E2, E3. repeat split; reflexivity. Qed.

(* enforce_pbc: wrapped + counts.L = input; fractional coordinates in [0,1); counts integer *)
Theorem enforce_spec L Linv p : is_inverse L Linv ->
  let f := vmul p Linv in
  veq (vadd (fst (enforce L Linv p)) (vmul (snd (enforce L Linv p)) L)) p
  /\ (let '(a,b,c) := fracv f in (0 <= a /\ a < 1) /\ (0 <= b /\ b < 1) /\ (0 <= c /\ c < 1))
  /\ fst (enforce L Linv p) = vmul (fracv f) L
  /\ (let '(a,b,c) := snd (enforce L Linv p) in (exists n, a = inject_Z n) /\ (exists n, b = inject_Z n) /\ (exists n, c = inject_Z n)).
Proof.
  intros Hinv f. unfold enforce. cbn [fst snd]. fold f. split; [|split; [|split]].
  - eapply veq_trans; [apply veq_sym, vmul_vadd|].
    eapply veq_trans; [apply vmul_veq, frac_plus_floor_v|]. apply Hinv.
  - destruct f as [[x y] z]. cbn. repeat split; apply qfrac_range.
  - reflexivity.
  - destruct f as [[x y] z]. cbn. repeat split; apply qfloor_integer.
Qed.

(* ---------- orthogonal / diagonal minimum image ---------- *)
Lemma center_range x : -(1#2) <= center x /\ center x < (1#2).
Proof. unfold center. pose proof (qfrac_range (x + (1#2))). lra. Qed.
Lemma center_shift x : center x == x - qfloor (x + (1#2)).
Proof. unfold center, qfrac. ring. Qed.

Lemma sq_shift c (k : Z) : -(1#2) <= c -> c < (1#2) -> c * c <= (c + inject_Z k) * (c + inject_Z k).
Proof.
  intros H1 H2. destruct (Z.eq_dec k 0) as [->|Hk].
  - change (inject_Z 0) with 0. lra.
  - destruct (Z_lt_le_dec k 0) as [Hn|Hp].
    + assert (inject_Z k <= -(1)) by (change (-(1)) with (inject_Z (-1)); rewrite <- Zle_Qle; lia). nra.
    + assert (1 <= inject_Z k) by (change 1 with (inject_Z 1); rewrite <- Zle_Qle; lia). nra.
Qed.

Definition orthogonal (L : Qm) : Prop :=
  let '((a,b,c),(d,e,f),(g,h,i)) := L in a*d+b*e+c*f == 0 /\ a*g+b*h+c*i == 0 /\ d*g+e*h+f*i == 0.

Lemma norm2_orth L g : orthogonal L ->
  norm2 (vmul g L) == (let '(x,y,z) := g in let '(r1,r2,r3) := L in x*x*norm2 r1 + y*y*norm2 r2 + z*z*norm2 r3).
Proof.
  destruct L as [[[[a b] c] [[d e] f]] [[g1 h] i]]. destruct g as [[x y] z]. cbn. intros [E1 [E2 E3]].
  transitivity (x*x*(a*a+b*b+c*c) + y*y*(d*d+e*e+f*f) + z*z*(g1*g1+h*h+i*i)
                + 2*x*y*(a*d+b*e+c*f) + 2*x*z*(a*g1+b*h+c*i) + 2*y*z*(d*g1+e*h+f*i)); [ring|].
  rewrite E1, E2, E3. ring.
Qed.

Lemma norm2_nonneg r : 0 <= norm2 r.
Proof. destruct r as [[x y] z]. cbn. nra. Qed.

Lemma norm2_veq a b : veq a b -> norm2 a == norm2 b.
Proof. destruct a as [[x y] z], b as [[u v] w]. cbn. intros [E1 [E2 E3]]. rewrite E1, E2, E3. reflexivity. Qed.

(* for an orthogonal cell the centred image is no longer than any other lattice image *)
Theorem orthogonal_minimal L Linv d (n1 n2 n3 : Z) : is_inverse L Linv -> orthogonal L ->
  norm2 (orthogonal_dist L Linv d) <= norm2 (vadd d (vmul (inject_Z n1, inject_Z n2, inject_Z n3) L)).
Proof.
  intros Hinv Ho. unfold orthogonal_dist.
  set (f := vmul d Linv).
  assert (E : veq (vadd d (vmul (inject_Z n1, inject_Z n2, inject_Z n3) L)) (vmul (vadd f (inject_Z n1, inject_Z n2, inject_Z n3)) L)).
  { eapply veq_trans; [|apply veq_sym, vmul_vadd]. apply vadd_veq; [apply veq_sym, Hinv|apply veq_refl]. }
  rewrite (norm2_veq _ _ E). rewrite !norm2_orth by assumption.
  destruct f as [[x y] z]. destruct L as [[r1 r2] r3]. cbn [centerv vadd].
  pose proof (norm2_nonneg r1). pose proof (norm2_nonneg r2). pose proof (norm2_nonneg r3).
  pose proof (center_range x) as [X1 X2]. pose proof (center_range y) as [Y1 Y2]. pose proof (center_range z) as [Z1 Z2].
  pose proof (sq_shift (center x) (Qfloor (x + (1#2)) + n1) X1 X2) as SX.
  pose proof (sq_shift (center y) (Qfloor (y + (1#2)) + n2) Y1 Y2) as SY.
  pose proof (sq_shift (center z) (Qfloor (z + (1#2)) + n3) Z1 Z2) as SZ.
  rewrite inject_Z_plus in SX, SY, SZ.
  assert (EX : center x + (inject_Z (Qfloor (x + (1#2))) + inject_Z n1) == x + inject_Z n1) by (rewrite center_shift; unfold qfloor; ring).
  assert (EY : center y + (inject_Z (Qfloor (y + (1#2))) + inject_Z n2) == y + inject_Z n2) by (rewrite center_shift; unfold qfloor; ring).
  assert (EZ : center z + (inject_Z (Qfloor (z + (1#2))) + inject_Z n3) == z + inject_Z n3) by (rewrite center_shift; unfold qfloor; ring).
  rewrite EX in SX. rewrite EY in SY. rewrite EZ in SZ.
  set (cx := center x) in *. set (cy := center y) in *. set (cz := center z) in *.
  set (A := norm2 r1) in *. set (B := norm2 r2) in *. set (C := norm2 r3) in *.
  nra.
Qed.

(* and it differs from the raw displacement by a lattice vector *)
Theorem orthogonal_is_image L Linv d : is_inverse L Linv ->
  exists m1 m2 m3 : Z, veq (orthogonal_dist L Linv d) (vsub d (vmul (inject_Z m1, inject_Z m2, inject_Z m3) L)).
Proof.
  intros Hinv. unfold orthogonal_dist. set (f := vmul d Linv).
  destruct f as [[x y] z] eqn:Ef.
  exists (Qfloor (x + (1#2))), (Qfloor (y + (1#2))), (Qfloor (z + (1#2))).
  pose proof (Hinv d) as Hd. fold f in Hd. rewrite Ef in Hd.
  cbn [centerv]. destruct L as [[[[a b] c] [[d1 e] f1]] [[g h] i]]. destruct d as [[dx dy] dz].
  cbn in Hd |- *. destruct Hd as [H1 [H2 H3]]. rewrite !center_shift. unfold qfloor.
  repeat split; [rewrite <- H1|rewrite <- H2|rewrite <- H3]; ring.
Qed.

(* ---------- general branch: best of the 27 candidates ---------- *)
Lemma argmin_first_spec cands : forall best bn, bn == norm2 best ->
  let r := argmin_first best bn cands in
  (r = best \/ In r cands) /\ norm2 r <= norm2 best /\ forall c, In c cands -> norm2 r <= norm2 c.
Proof.
  induction cands as [|c cs IH]; intros best bn Hb; cbn [argmin_first].
  - split; [left; reflexivity|]. split; [lra|]. intros c [].
  - destruct (Qlt_le_dec (norm2 c) bn) as [Hlt|Hge].
    + specialize (IH c (norm2 c) ltac:(reflexivity)). cbv zeta in IH. destruct IH as [I1 [I2 I3]].
      split; [destruct I1 as [->|I1]; [right; left; reflexivity|right; right; assumption]|].
      split; [lra|]. intros c' [<-|Hc]; [assumption|apply I3; assumption].
    + specialize (IH best bn Hb). cbv zeta in IH. destruct IH as [I1 [I2 I3]].
      split; [destruct I1 as [->|I1]; [left; reflexivity|right; right; assumption]|].
      split; [assumption|]. intros c' [<-|Hc]; [lra|apply I3; assumption].
Qed.

Theorem best27_spec L d :
  (exists s, In s shifts27 /\ best27 L d = vadd d (vmul s L)) /\
  forall s, In s shifts27 -> norm2 (best27 L d) <= norm2 (vadd d (vmul s L)).
Proof.
  unfold best27.
  remember (map (fun s => vadd d (vmul s L)) shifts27) as cs eqn:Ecs.
  assert (Hne : cs <> []) by (subst cs; discriminate).
  destruct cs as [|c r]; [contradiction|].
  pose proof (argmin_first_spec r c (norm2 c) ltac:(reflexivity)) as [A [B C]]. cbv zeta in *.
  split.
  - assert (In (argmin_first c (norm2 c) r) (c :: r)) as Hin by (destruct A as [->|A]; [left; reflexivity|right; assumption]).
    rewrite Ecs in Hin. apply in_map_iff in Hin. destruct Hin as [s [E Hs]]. exists s. split; [assumption|symmetry; assumption].
  - intros s Hs. assert (In (vadd d (vmul s L)) (c :: r)) as Hin by (rewrite Ecs; apply (in_map (fun s => vadd d (vmul s L))); assumption).
    destruct Hin as [<-|Hin]; [assumption|apply C; assumption].
Qed.

Lemma qround_integer x : exists n : Z, qround x = inject_Z n.
Proof. unfold qround. destruct (_ && _); eexists; reflexivity. Qed.

(* the reduced displacement is the raw one minus an integer combination of lattice vectors *)
Lemma reduced_is_image L Linv d : is_inverse L Linv ->
  exists m1 m2 m3 : Z, veq (reduced L Linv d) (vsub d (vmul (inject_Z m1, inject_Z m2, inject_Z m3) L)).
Proof.
  intros Hinv. unfold reduced. set (f := vmul d Linv). destruct f as [[x y] z] eqn:Ef.
  destruct (qround_integer x) as [m1 E1], (qround_integer y) as [m2 E2], (qround_integer z) as [m3 E3].
  exists m1, m2, m3. pose proof (Hinv d) as Hd. fold f in Hd. rewrite Ef in Hd.
  cbn [roundv vsub]. rewrite E1, E2, E3.
  destruct L as [[[[a b] c] [[d1 e] f1]] [[g h] i]]. destruct d as [[dx dy] dz].
  cbn in Hd |- *. destruct Hd as [H1 [H2 H3]].
  repeat split; [rewrite <- H1|rewrite <- H2|rewrite <- H3]; ring.
Qed.

Theorem general_dist_spec L Linv d : is_inverse L Linv ->
  (exists s m1 m2 m3, In s shifts27 /\ general_dist L Linv d = vadd (reduced L Linv d) (vmul s L)
      /\ veq (reduced L Linv d) (vsub d (vmul (inject_Z m1, inject_Z m2, inject_Z m3) L))) /\
  forall s, In s shifts27 -> norm2 (general_dist L Linv d) <= norm2 (vadd (reduced L Linv d) (vmul s L)).
Proof.
  intros Hinv. unfold general_dist. destruct (best27_spec L (reduced L Linv d)) as [[s [Hs E]] M].
  destruct (reduced_is_image L Linv d Hinv) as [m1 [m2 [m3 R]]].
  split; [exists s, m1, m2, m3; tauto|exact M].
Qed.

(* completeness of the brute-force oracle: a lattice vector more than twice as long as the
   displacement cannot give a shorter image, so the search may stop at |v|^2 <= 4 |d|^2 *)
Lemma sqnn (t : Q) : 0 <= t * t.
Proof. destruct (Qlt_le_dec t 0); nra. Qed.

Theorem far_image_not_shorter d v : 4 * norm2 d < norm2 v -> norm2 d < norm2 (vadd d v).
Proof.
  destruct d as [[x y] z], v as [[u v] w]. cbn. intros H.
  pose proof (sqnn (x*v-y*u)) as H1. pose proof (sqnn (x*w-z*u)) as H2. pose proof (sqnn (y*w-z*v)) as H3.
  pose proof (sqnn x). pose proof (sqnn y). pose proof (sqnn z).
  assert (E0 : (x*x+y*y+z*z)*(u*u+v*v+w*w) - (x*u+y*v+z*w)*(x*u+y*v+z*w)
               == (x*v-y*u)*(x*v-y*u) + (x*w-z*u)*(x*w-z*u) + (y*w-z*v)*(y*w-z*v)) by ring.
  set (D := x*x+y*y+z*z) in *. set (V := u*u+v*v+w*w) in *. set (P := x*u+y*v+z*w) in *.
  assert (CS : P*P <= D*V) by lra.
  assert (E : (x+u)*(x+u)+(y+v)*(y+v)+(z+w)*(z+w) == D + 2*P + V) by (subst D V P; ring).
  rewrite E. destruct (Qlt_le_dec D (D + 2*P + V)) as [Hc|Hc]; [assumption|exfalso].
  assert (HD : 0 <= D) by (subst D; lra).
  assert (A1 : 0 < - (2*P) - V + V) by lra.
  assert (A2 : 0 <= (- (2*P) - V) * (- (2*P) + V)) by (apply Qmult_le_0_compat; lra).
  assert (A3 : 0 < V * (V - 4*D)) by (apply Qmult_lt_0_compat; lra).
  assert (A4 : (- (2*P) - V) * (- (2*P) + V) == 4*(P*P) - V*V) by ring.
  assert (A5 : V * (V - 4*D) == V*V - 4*(D*V)) by ring.
  lra.
Qed.

(* if |n L|^2 >= sigma2 * |n|^2 then every shift with |n|^2 > 4|d|^2 / sigma2 is not shorter than the zero shift *)
Corollary shell_complete L d n sigma2 : 0 < sigma2 -> sigma2 * norm2 n <= norm2 (vmul n L) ->
  4 * norm2 d < sigma2 * norm2 n -> norm2 d < norm2 (vadd d (vmul n L)).
Proof. intros Hs H1 H2. apply far_image_not_shorter. lra. Qed.

(* ---------- walker bookkeeping ---------- *)
Lemma rewrap_unwrapped L Linv el : is_inverse L Linv -> veq (unwrapped L (rewrap L Linv el)) (unwrapped L el).
Proof.
  intros Hinv. unfold rewrap, unwrapped.
  pose proof (enforce_spec L Linv (pos el) Hinv) as [E _].
  destruct (enforce L Linv (pos el)) as [x w]. cbn [fst snd pos wr] in *.
  eapply veq_trans; [apply vadd_veq; [apply veq_refl|apply vmul_vadd]|].
  eapply veq_trans; [|apply vadd_veq; [exact E|apply veq_refl]].
  destruct x as [[x1 x2] x3], (vmul w L) as [[a b] c], (vmul (wr el) L) as [[p q] r]. cbn. repeat split; ring.
Qed.

Lemma trial_unwrapped L Linv cur vec m : is_inverse L Linv ->
  veq (unwrapped L (trial L Linv cur vec m)) (vadd vec (vmul (wr cur) L)).
Proof.
  intros Hinv. unfold trial, unwrapped. destruct m; cbn [pos wr]; [|apply veq_refl].
  pose proof (enforce_spec L Linv vec Hinv) as [E _].
  destruct (enforce L Linv vec) as [x w]. cbn [fst snd pos wr] in *.
  eapply veq_trans; [apply vadd_veq; [apply veq_refl|apply vmul_vadd]|].
  eapply veq_trans; [|apply vadd_veq; [exact E|apply veq_refl]].
  destruct x as [[x1 x2] x3], (vmul w L) as [[a b] c], (vmul (wr cur) L) as [[p q] r]. cbn. repeat split; ring.
Qed.

Lemma zip3_nth {A B C D} (f : A -> B -> C -> D) a b c i da db dc dd :
  (i < length a)%nat -> (i < length b)%nat -> (i < length c)%nat ->
  nth i (zip3 f a b c) dd = f (nth i a da) (nth i b db) (nth i c dc).
Proof.
  revert b c i. induction a as [|x a IH]; intros b c i Ha Hb Hc; [cbn in Ha; lia|].
  destruct b as [|y b]; [cbn in Hb; lia|]. destruct c as [|z c]; [cbn in Hc; lia|].
  destruct i as [|i]; cbn [zip3 nth]; [reflexivity|]. apply IH; cbn in *; lia.
Qed.
Lemma zip3_length {A B C D} (f : A -> B -> C -> D) a b c :
  length b = length a -> length c = length a -> length (zip3 f a b c) = length a.
Proof.
  revert b c. induction a as [|x a IH]; intros b c Hb Hc; [reflexivity|].
  destruct b as [|y b]; [discriminate|]. destruct c as [|z c]; [discriminate|]. cbn. f_equal. apply IH; cbn in *; lia.
Qed.

(* only accepted walkers change, and only electron e of those *)
Theorem move_spec e s news accept i :
  (i < length s)%nat -> length news = length s -> length accept = length s ->
  nth i (move e s news accept) [] =
    if nth i accept false then upd e (nth i news dflt) (nth i s []) else nth i s [].
Proof.
  intros Hi Hn Ha. unfold move.
  change (nth i (zip3 (move1 e) s news accept) [] = move1 e (nth i s []) (nth i news dflt) (nth i accept false)).
  apply zip3_nth; lia.
Qed.
Lemma upd_nth_other {A} e (x : A) l j d : j <> e -> nth j (upd e x l) d = nth j l d.
Proof.
  revert e j. induction l as [|a l IH]; intros e j H; [destruct e; reflexivity|].
  destruct e as [|e], j as [|j]; cbn; try reflexivity; try lia. apply IH. lia.
Qed.
Lemma upd_nth_same {A} e (x : A) l d : (e < length l)%nat -> nth e (upd e x l) d = x.
Proof.
  revert e. induction l as [|a l IH]; intros e H; [cbn in H; lia|]. destruct e as [|e]; cbn; [reflexivity|]. apply IH. cbn in H. lia.
Qed.
Lemma upd_length {A} e (x : A) l : length (upd e x l) = length l.
Proof. revert e. induction l as [|a l IH]; intros e; destruct e; cbn; try reflexivity. f_equal. apply IH. Qed.

(* split then join = the constructor's re-wrap of every electron: same walkers, same order, same unwrapped positions *)
Theorem splitjoin_spec L Linv k s : (0 < k)%nat ->
  step L Linv s (OpSplitJoin k) = map (map (rewrap L Linv)) s.
Proof.
  intros Hk. cbn [step]. rewrite <- concat_map. rewrite join_split by assumption. reflexivity.
Qed.

Theorem resample_spec L Linv s inds k : (k < length inds)%nat ->
  nth k (step L Linv s (OpResample inds)) [] = nth (nth k inds 0%nat) s [].
Proof.
  intros Hk. cbn [step].
  rewrite (nth_indep (map (fun i => nth i s []) inds) [] ((fun i => nth i s []) 0%nat)) by (rewrite map_length; assumption).
  apply (map_nth (fun i => nth i s []) inds 0%nat k).
Qed.

Lemma vred_veq a : veq (vred a) a.
Proof. destruct a as [[x y] z]. cbn. repeat split; apply Qred_correct. Qed.

(* normalisation used by the executable run (norm = map (map normE)): positions and wrap counters unchanged up to == *)
Theorem norm_veq el : veq (pos (normE el)) (pos el) /\ veq (wr (normE el)) (wr el) /\ norm = map (map normE).
Proof. unfold normE. cbn [pos wr]. split; [apply vred_veq|split; [apply vred_veq|reflexivity]]. Qed.
